/-
  Proofs.EomInv — the EOM-mode invariant of a channel (C15), on the scheduler primitives.

  `EIc c`: every pulse that starts inside an EOM block is square with the block's setpoint
  (or is the zero-amplitude pulse at the block's off-detuning), blocks are closed in the past,
  only the latest block can be open, and channels without an EOM (DMMs) have no block.
-/
import Proofs.ConflictInv
namespace Pulser

/-- The slot starts inside the block (blocks are half-open intervals `[ti, tf)`; an open block
has no end yet). -/
def InBlock (b : EomBlock) (sl : Slot) : Prop := b.ti ≤ sl.ti ∧ ∀ t, b.tf = some t → sl.ti < t

/-- Square pulse at the block's setpoint, or zero amplitude at the block's off-detuning. -/
def SquareFor (b : EomBlock) (p : PulseRec) : Prop :=
  p.const = true ∧ ((p.amp = b.amp ∧ p.det = b.detOn) ∨ (p.amp = 0 ∧ p.det = b.detOff))

structure EIc (c : ChanState) : Prop where
  sq : ∀ sl ∈ c.slots, ∀ p, sl.kind = .pulse p → ∀ b ∈ c.eom, InBlock b sl → SquareFor b p
  closed : ∀ b ∈ c.eom, ∀ t, b.tf = some t → t ≤ c.getDuration false
  onlyLast : ∀ b ∈ c.eom.dropLast, b.tf ≠ none
  noCfg : c.cfg.eom = none → c.eom = []
  dmm : c.cfg.isDmm = true → c.cfg.eom = none
  minPos : 0 < c.cfg.minDur

/-- `c'` extends `c` and keeps the EOM invariant. -/
def EG (c c' : ChanState) : Prop := Ext c c' ∧ (EIc c → EIc c')

theorem EG.rfl' (c : ChanState) : EG c c := ⟨Ext.refl c, fun h => h⟩
theorem EG.trans {a b c : ChanState} (h1 : EG a b) (h2 : EG b c) : EG a c :=
  ⟨h1.1.trans h2.1, fun h => h2.2 (h1.2 h)⟩

theorem getDuration_false_snoc (c : ChanState) (x : Slot) :
    ({ c with slots := c.slots ++ [x] } : ChanState).getDuration false = x.tf := by
  unfold ChanState.getDuration
  show (match (c.slots ++ [x]).reverse with | [] => (0 : Int) | op :: rest => _) = _
  rw [List.reverse_append]; rfl

theorem getDuration_false_last {c : ChanState} {last : Slot} (hl : c.last = .ok last) :
    c.getDuration false = last.tf := by
  obtain ⟨rest, hr⟩ := last_ok hl
  unfold ChanState.getDuration; rw [hr]; rfl

/-- An open block is the latest one. -/
theorem open_is_last {l : List EomBlock} (h : ∀ b ∈ l.dropLast, b.tf ≠ none) {b : EomBlock}
    (hb : b ∈ l) (ho : b.tf = none) : l.getLast? = some b := by
  induction l with
  | nil => cases hb
  | cons a rest ih =>
    cases rest with
    | nil => simp at hb; subst hb; rfl
    | cons a2 rest2 =>
      have hd : (a :: a2 :: rest2).dropLast = a :: (a2 :: rest2).dropLast := rfl
      rw [hd] at h
      rcases List.mem_cons.mp hb with hh | hh
      · subst hh; exact absurd ho (h _ List.mem_cons_self)
      · have := ih (fun x hx => h x (List.mem_cons_of_mem _ hx)) hh
        simpa using this

/-- Appending an instruction at the channel's end keeps the invariant, provided a pulse is
square for the open block (if there is one). -/
theorem EI_snoc {c : ChanState} {last x : Slot} (hl : c.last = .ok last) (hti : x.ti = last.tf)
    (htf : last.tf ≤ x.tf)
    (hp : ∀ p, x.kind = .pulse p → ∀ b, c.eom.getLast? = some b → b.tf = none → SquareFor b p)
    (h : EIc c) : EIc { c with slots := c.slots ++ [x] } := by
  have hd := getDuration_false_last hl
  refine ⟨?_, ?_, h.onlyLast, h.noCfg, h.dmm, h.minPos⟩
  · intro sl hsl p hk b hb hin
    rcases List.mem_append.mp hsl with hs | hs
    · exact h.sq sl hs p hk b hb hin
    · simp at hs; subst hs
      cases hbt : b.tf with
      | none => exact hp p hk b (open_is_last h.onlyLast hb hbt) hbt
      | some t =>
        have h1 := h.closed b hb t hbt
        have h2 := hin.2 t hbt
        omega
  · intro b hb t hbt
    rw [getDuration_false_snoc]
    have := h.closed b hb t hbt
    omega

theorem mkDetunedDelay_fields {c : ChanState} {d : Nat} {x y : Rat} {p : PulseRec}
    (h : mkDetunedDelay c d x y = .ok p) : p.const = true ∧ p.amp = 0 ∧ p.det = x := by
  unfold mkDetunedDelay at h
  cases hl : c.lookupDD x d with
  | none => rw [hl] at h; cases h
  | some v => rw [hl] at h; obtain ⟨a, b⟩ := v; injection h with h; subst h; exact ⟨rfl, rfl, rfl⟩

/-- `add_delay` keeps the EOM invariant: while idling in an open block with a non-zero
off-detuning the channel plays the zero-amplitude pulse at that off-detuning. -/
theorem addDelay_eg {ms : Option Nat} {c c' : ChanState} {d : Nat} (hi : ChanInv ms c)
    (h : addDelay ms c d = .ok c') : EG c c' := by
  refine ⟨(addDelay_inv hi h).2, fun hei => ?_⟩
  unfold addDelay at h
  cases hl : c.last with
  | error e => rw [hl] at h; cases h
  | ok last =>
    cases hv : validateDuration c.cfg d with
    | error e => rw [hl, hv] at h; cases h
    | ok d' =>
      cases hcd : checkDuration ms (last.tf + (d' : Int)) with
      | error e => simp [hl, hv, hcd, bind, Except.bind] at h
      | ok u =>
        simp only [hl, hv, hcd, bind, Except.bind] at h
        have hplain : EIc { c with slots := c.slots ++ [⟨.delay, last.tf, last.tf + d', last.targets⟩] } :=
          EI_snoc hl rfl (by simp; omega) (fun p hk => by cases hk) hei
        cases he : c.eom.getLast? with
        | none =>
          rw [he] at h; simp only at h
          injection h with h; subst h; exact hplain
        | some b =>
          rw [he] at h; simp only at h
          by_cases hb : (b.tf.isNone && decide (b.detOff ≠ 0)) = true
          · rw [if_pos hb] at h
            cases hm : mkDetunedDelay c d' b.detOff c.lastPulsePhase with
            | error e => rw [hm] at h; cases h
            | ok p =>
              rw [hm] at h; injection h with h; subst h
              apply EI_snoc hl rfl (by simp; omega) _ hei
              intro p' hk b' hb' _
              injection hk with hk; subst hk
              rw [he] at hb'; injection hb' with hb'; subst hb'
              have := mkDetunedDelay_fields hm
              exact ⟨this.1, .inr ⟨this.2.1, this.2.2⟩⟩
          · rw [if_neg hb] at h
            injection h with h; subst h; exact hplain

theorem waitForFall_eg {ms : Option Nat} {c c' : ChanState} (hi : ChanInv ms c)
    (h : waitForFall ms c = .ok c') : EG c c' := by
  unfold waitForFall at h
  simp only at h
  split at h
  · cases ha : c.adjust (c.getDuration true - c.getDuration false).toNat with
    | error e => simp [ha, bind, Except.bind] at h
    | ok d =>
      simp only [ha, bind, Except.bind] at h
      exact addDelay_eg hi h
  · injection h with h; subst h; exact EG.rfl' c

theorem lift_eg {c : ChanState} {e : Except Err ChanState} (h : ∀ c', e = .ok c' → EG c c') :
    EG c (CRes.lift c e).c := by
  unfold CRes.lift
  cases e with
  | error x => exact EG.rfl' c
  | ok c' => exact h c' rfl

/-- Good step that keeps the EOM invariant. -/
def GE (ms : Option Nat) (c c' : ChanState) : Prop := Good ms c c' ∧ EG c c'

theorem GE.rfl' {ms : Option Nat} {c : ChanState} (h : ChanInv ms c) : GE ms c c := ⟨Good.rfl' h, EG.rfl' c⟩
theorem GE.trans {ms : Option Nat} {a b c : ChanState} (h1 : GE ms a b) (h2 : GE ms b c) : GE ms a c :=
  ⟨h1.1.trans h2.1, h1.2.trans h2.2⟩

theorem lift_ge {ms : Option Nat} {c : ChanState} {e : Except Err ChanState} (hi : ChanInv ms c)
    (h : ∀ c', e = .ok c' → GE ms c c') : GE ms c (CRes.lift c e).c := by
  unfold CRes.lift
  cases e with
  | error x => exact GE.rfl' hi
  | ok c' => exact h c' rfl

theorem bind_ge {ms : Option Nat} {c : ChanState} {r : CRes} {f : ChanState → CRes} (hr : GE ms c r.c)
    (hf : ∀ c1, ChanInv ms c1 → GE ms c1 (f c1).c) : GE ms c (r.bind f).c := by
  unfold CRes.bind
  cases r.err with
  | none => exact hr.trans (hf _ hr.1.1)
  | some e => exact hr

theorem addDelay_ge {ms : Option Nat} {c c' : ChanState} {d : Nat} (hi : ChanInv ms c)
    (h : addDelay ms c d = .ok c') : GE ms c c' := ⟨addDelay_inv hi h, addDelay_eg hi h⟩

theorem waitForFall_ge {ms : Option Nat} {c c' : ChanState} (hi : ChanInv ms c)
    (h : waitForFall ms c = .ok c') : GE ms c c' := ⟨waitForFall_inv hi h, waitForFall_eg hi h⟩

/-- `add_target` keeps the EOM invariant (it appends delays / idle pulses and a target). -/
theorem addTarget_ge {ms : Option Nat} {c : ChanState} {qs : List Nat} (hi : ChanInv ms c) :
    GE ms c (addTarget ms c qs).c := by
  refine ⟨addTarget_inv hi, (addTarget_inv hi).2, ?_⟩
  unfold addTarget
  by_cases hemp : c.slots.isEmpty = true
  · rw [if_pos hemp]
    have he : c.slots = [] := by simpa using hemp
    unfold CRes.lift
    cases hc : checkDuration ms 0 with
    | error e => simp only [bind, Except.bind]; exact fun h => h
    | ok u =>
      simp only [bind, Except.bind]
      intro h
      have hd0 : c.getDuration false = 0 := by unfold ChanState.getDuration; rw [he]; rfl
      refine ⟨?_, ?_, h.onlyLast, h.noCfg, h.dmm, h.minPos⟩
      · intro sl hsl p hk
        simp only [he, List.nil_append, List.mem_singleton] at hsl
        subst hsl; cases hk
      · intro b hb t hbt
        rw [getDuration_false_snoc]
        have := h.closed b hb t hbt
        simp only; omega
  · rw [if_neg hemp]
    cases hsame : sameTargets c qs with
    | true => simp only [if_true]; exact fun h => h
    | false =>
      simp only [Bool.false_eq_true, if_false]
      cases hw : waitForFall ms c with
      | error e => simp only [CRes.lift, CRes.bind]; exact fun h => h
      | ok c1 =>
        simp only [CRes.lift, CRes.bind]
        have hi1 : ChanInv ms c1 := (waitForFall_inv hi hw).1
        have h1 := waitForFall_eg hi hw
        cases ht : addTargetTail ms c1 qs with
        | error e => exact h1.2
        | ok c2 =>
          simp only
          obtain ⟨last, delta, hl, hc2, _, _⟩ := addTargetTail_spec hi1 ht
          subst hc2
          intro h
          exact EI_snoc hl rfl (by simp; omega) (fun p hk => by cases hk) (h1.2 h)

/-- The scheduler does not touch the waveforms of the pulse it places. -/
theorem makeNextPulseSlot_fields {ms : Option Nat} {c : ChanState} {others : List ChanState}
    {p : PulseRec} {barriers : List Int} {proto : Protocol} {drift : Option Drift} {blk : Bool}
    {slot last : Slot} (hl : c.last = .ok last)
    (h : makeNextPulseSlot ms c others p barriers proto drift blk = .ok slot) :
    ∃ p', slot.kind = .pulse p' ∧ p'.const = p.const ∧ p'.amp = p.amp ∧ p'.det = p.det ∧
      last.tf ≤ slot.ti ∧ slot.ti ≤ slot.tf := by
  unfold makeNextPulseSlot at h
  simp only [hl] at h
  generalize max (curMaxOf others last barriers proto - last.tf)
      (phaseJumpBuffer c last.tf
        (fmtPhase (correctedPhase p drift (curMaxOf others last barriers proto))) proto) = need at h
  cases hdl : (if need > 0 then c.adjust need.toNat else .ok 0) with
  | error e => simp [hdl] at h
  | ok delay =>
    simp only [hdl] at h
    cases hcd : (if blk = true then checkDuration ms (last.tf + (delay : Int) + (p.dur : Int))
        else .ok ()) with
    | error e => simp [hcd] at h
    | ok u =>
      simp only [hcd] at h
      injection h with h; subst h
      refine ⟨_, rfl, ?_⟩
      cases drift <;> exact ⟨rfl, rfl, rfl, by simp; omega, by simp; omega⟩

/-- `add_pulse` keeps the EOM invariant when the pulse is square for the open block (if any). -/
theorem addPulse_eg {ms : Option Nat} {c c' : ChanState} {others : List ChanState}
    {p : PulseRec} {barriers : List Int} {proto : Protocol} {drift : Option Drift}
    (hi : ChanInv ms c)
    (hsq : EIc c → ∀ b, c.eom.getLast? = some b → b.tf = none → SquareFor b p)
    (h : addPulse ms c others p barriers proto drift = .ok c') : EIc c → EIc c' := by
  intro hei
  have hsq := hsq hei
  unfold addPulse at h
  cases hl : c.last with
  | error e => simp [hl, bind, Except.bind] at h
  | ok last =>
    cases hm : makeNextPulseSlot ms c others p barriers proto drift true with
    | error e => simp [hl, hm, bind, Except.bind] at h
    | ok slot =>
      simp only [hl, hm, bind, Except.bind] at h
      obtain ⟨p', hk, h1, h2, h3, h4, h5⟩ := makeNextPulseSlot_fields hl hm
      have hsq' : ∀ q, slot.kind = .pulse q → ∀ b, c.eom.getLast? = some b → b.tf = none → SquareFor b q := by
        intro q hq b hb ho
        rw [hk] at hq; injection hq with hq; subst hq
        have := hsq b hb ho
        unfold SquareFor at *
        rw [h1, h2, h3]; exact this
      by_cases hpos : slot.ti - last.tf > 0
      · simp only [hpos, if_true] at h
        cases had : addDelay ms c (slot.ti - last.tf).toNat with
        | error e => simp [had] at h
        | ok c1 =>
          simp only [had] at h
          injection h with h; subst h
          have he1 := (addDelay_eg hi had).2 hei
          obtain ⟨last0, x, hl0, hs, _, hxti, hxd, _, hc1⟩ := addDelay_nt hi.1 had
          rw [hl] at hl0; injection hl0 with hl0; subst hl0
          have hl1 : c1.last = .ok x := last_snoc c1 _ x hs
          have heom : c1.eom = c.eom := by rw [hc1]
          -- the delay spans exactly the gap: x.tf = slot.ti
          obtain ⟨x', d', e1, e2, e3, e4, e5, e6, e7⟩ := addDelay_last hi.1 hl had
          have hxx : x' = x := by
            rw [hs] at e1; exact (List.append_cancel_left e1 |> List.cons_eq_cons.mp).1.symm
          subst hxx
          have hinv1 := (addDelay_inv hi had).1
          -- slot starts where the (new) last instruction ends
          have : slot.ti = x'.tf := by
            obtain ⟨delay, p2, s1, _, _, _, _, s6, _, _⟩ := makeNextPulseSlot_spec hi.1 hl hm
            have hdel : (slot.ti - last.tf).toNat = delay := by omega
            rw [hdel] at e5 e6
            rcases s6 with s6 | ⟨_, s6⟩
            · omega
            · obtain ⟨k, hk'⟩ := s6
              obtain ⟨k', hk''⟩ := e7
              subst hk' hk''
              have hlt : c.cfg.clock * k' < c.cfg.clock * (k + 1) := by rw [Nat.mul_add]; omega
              have := Nat.lt_of_mul_lt_mul_left hlt
              have hle := Nat.le_of_mul_le_mul_left e5 hi.1
              have : k' = k := by omega
              subst this; omega
          exact EI_snoc hl1 this (by omega) (by rw [heom]; exact hsq') he1
      · simp only [hpos, if_false, pure, Except.pure] at h
        injection h with h; subst h
        exact EI_snoc hl (by omega) (by omega) hsq' hei

theorem InvR_pulse_len {x : Ctx} {l : List Slot} (h : InvR x l) :
    ∀ s ∈ l, ∀ p, s.kind = .pulse p → s.tf = s.ti + p.dur ∧ x.cfg.minDur ≤ p.dur := by
  induction l with
  | nil => intro s hs; cases hs
  | cons a rest ih =>
    intro s hs p hp
    cases rest with
    | nil =>
      simp at hs; subst hs
      obtain ⟨h1, _, _⟩ := h; rw [h1] at hp; cases hp
    | cons b rest' =>
      obtain ⟨⟨_, _, _, _, h4⟩, h5⟩ := h
      rcases List.mem_cons.mp hs with hh | hh
      · subst hh; rw [hp] at h4; exact ⟨h4.1, h4.2.1⟩
      · exact ih h5 s hh p hp

theorem all_closed {c : ChanState} (h : EIc c) (hne : c.inEomMode = false) :
    ∀ b ∈ c.eom, b.tf ≠ none := by
  intro b hb ho
  have := open_is_last h.onlyLast hb ho
  unfold ChanState.inEomMode at hne
  rw [this] at hne
  simp [ho] at hne

/-- Opening a block at the channel's end (outside EOM mode, on a channel that has an EOM). -/
theorem EI_open {ms : Option Nat} {c : ChanState} {last : Slot} (hi : ChanInv ms c)
    (hl : c.last = .ok last) (hne : c.inEomMode = false) (hcfg : c.cfg.eom ≠ none)
    (a d1 d2 : Rat) (h : EIc c) :
    EIc { c with eom := c.eom ++ [⟨last.tf, none, a, d1, d2⟩] } := by
  obtain ⟨rest, hr⟩ := last_ok hl
  have hinv := hi.2; rw [hr] at hinv
  refine ⟨?_, ?_, ?_, fun hc => absurd hc hcfg, h.dmm, h.minPos⟩
  · intro sl hsl p hk b hb hin
    rcases List.mem_append.mp hb with hb | hb
    · exact h.sq sl hsl p hk b hb hin
    · simp at hb; subst hb
      have hmem : sl ∈ last :: rest := by rw [← hr]; simpa using hsl
      have hlen := InvR_pulse_len hinv sl hmem p hk
      have hle : sl.tf ≤ last.tf := by
        rcases List.mem_cons.mp hmem with hh | hh
        · subst hh; exact Int.le_refl _
        · exact DescTf_le (InvR_DescTf hinv) sl hh
      have := hin.1
      have hmin := h.minPos
      simp only [ChanState.ctx] at hlen
      simp only at this
      omega
  · intro b hb t hbt
    rcases List.mem_append.mp hb with hb | hb
    · exact h.closed b hb t hbt
    · simp at hb; subst hb; cases hbt
  · intro b hb
    rw [List.dropLast_concat] at hb
    exact all_closed h hne b hb

theorem closeLastBlock_eq (l : List EomBlock) (b : EomBlock) (tf : Int) (h : l.getLast? = some b) :
    closeLastBlock l tf = l.dropLast ++ [{ b with tf := some tf }] := by
  unfold closeLastBlock
  obtain ⟨ys, hys⟩ := List.getLast?_eq_some_iff.mp h
  have hl : l = l.dropLast ++ [b] := by rw [hys]; simp
  generalize l.dropLast = d at hl
  subst hl
  simp

/-- Closing the open block at the channel's end. -/
theorem EI_close {c : ChanState} {last : Slot} (hl : c.last = .ok last) (hin : c.inEomMode = true)
    (h : EIc c) : EIc { c with eom := closeLastBlock c.eom last.tf } := by
  unfold ChanState.inEomMode at hin
  cases hg : c.eom.getLast? with
  | none => rw [hg] at hin; cases hin
  | some b =>
    rw [hg] at hin
    have hopen : b.tf = none := by simpa using hin
    have hb : b ∈ c.eom := List.mem_of_getLast? hg
    have hd := getDuration_false_last hl
    show EIc { c with eom := closeLastBlock c.eom last.tf }
    rw [closeLastBlock_eq _ _ _ hg]
    refine ⟨?_, ?_, ?_, ?_, h.dmm, h.minPos⟩
    · intro sl hsl p hk b' hb' hinb
      rcases List.mem_append.mp hb' with hb' | hb'
      · exact h.sq sl hsl p hk b' (List.dropLast_subset _ hb') hinb
      · simp at hb'; subst hb'
        have := h.sq sl hsl p hk b hb ⟨hinb.1, fun t ht => by rw [hopen] at ht; cases ht⟩
        exact this
    · intro b' hb' t hbt
      rcases List.mem_append.mp hb' with hb' | hb'
      · exact h.closed b' (List.dropLast_subset _ hb') t hbt
      · simp at hb'; subst hb'
        simp at hbt; subst hbt
        show last.tf ≤ ChanState.getDuration _ false
        have : ({ c with eom := c.eom.dropLast ++ [{ b with tf := some last.tf }] } : ChanState).getDuration false
            = c.getDuration false := rfl
        rw [this, hd]; exact Int.le_refl _
    · intro b' hb'
      rw [List.dropLast_concat] at hb'
      exact h.onlyLast b' hb'
    · intro hc
      have := h.noCfg hc
      rw [this] at hg; cases hg

theorem closeLastBlock_mode (l : List EomBlock) (tf : Int) :
    (match (closeLastBlock l tf).getLast? with | some b => b.tf.isNone | none => false) = false := by
  cases hg : l.getLast? with
  | none =>
    have : l = [] := by simpa using hg
    subst this; rfl
  | some b => rw [closeLastBlock_eq _ _ _ hg]; simp

theorem addDelay_eom {ms : Option Nat} {c c' : ChanState} {d : Nat} (hc : 0 < c.cfg.clock)
    (h : addDelay ms c d = .ok c') : c'.eom = c.eom := by
  obtain ⟨_, _, _, _, _, _, _, _, hc'⟩ := addDelay_nt hc h
  rw [hc']

theorem addPulse_eom {ms : Option Nat} {c c' : ChanState} {others : List ChanState}
    {p : PulseRec} {barriers : List Int} {proto : Protocol} {drift : Option Drift}
    (hc : 0 < c.cfg.clock) (h : addPulse ms c others p barriers proto drift = .ok c') :
    c'.eom = c.eom := by
  unfold addPulse at h
  cases hl : c.last with
  | error e => simp [hl, bind, Except.bind] at h
  | ok last =>
    cases hm : makeNextPulseSlot ms c others p barriers proto drift true with
    | error e => simp [hl, hm, bind, Except.bind] at h
    | ok slot =>
      simp only [hl, hm, bind, Except.bind] at h
      by_cases hpos : slot.ti - last.tf > 0
      · simp only [hpos, if_true] at h
        cases had : addDelay ms c (slot.ti - last.tf).toNat with
        | error e => simp [had] at h
        | ok c1 =>
          simp only [had] at h
          injection h with h; subst h
          have := addDelay_eom hc had
          exact this
      · simp only [hpos, if_false, pure, Except.pure] at h
        injection h with h; subst h; rfl

/-- Buffer steps: good, keep the EOM invariant, leave the blocks alone. -/
def GQ (ms : Option Nat) (c c' : ChanState) : Prop := GE ms c c' ∧ c'.eom = c.eom

theorem GQ.rfl' {ms : Option Nat} {c : ChanState} (h : ChanInv ms c) : GQ ms c c := ⟨GE.rfl' h, rfl⟩
theorem GQ.trans {ms : Option Nat} {a b c : ChanState} (h1 : GQ ms a b) (h2 : GQ ms b c) : GQ ms a c :=
  ⟨h1.1.trans h2.1, h2.2.trans h1.2⟩

theorem lift_gq {ms : Option Nat} {c : ChanState} {e : Except Err ChanState} (hi : ChanInv ms c)
    (h : ∀ c', e = .ok c' → GQ ms c c') : GQ ms c (CRes.lift c e).c := by
  unfold CRes.lift
  cases e with
  | error x => exact GQ.rfl' hi
  | ok c' => exact h c' rfl

theorem bind_gq {ms : Option Nat} {c : ChanState} {r : CRes} {f : ChanState → CRes} (hr : GQ ms c r.c)
    (hf : ∀ c1, ChanInv ms c1 → c1.eom = c.eom → GQ ms c1 (f c1).c) : GQ ms c (r.bind f).c := by
  unfold CRes.bind
  cases r.err with
  | none => exact hr.trans (hf _ hr.1.1.1 hr.2)
  | some e => exact hr

theorem addDelay_gq {ms : Option Nat} {c c' : ChanState} {d : Nat} (hi : ChanInv ms c)
    (h : addDelay ms c d = .ok c') : GQ ms c c' := ⟨addDelay_ge hi h, addDelay_eom hi.1 h⟩

theorem waitForFall_gq {ms : Option Nat} {c c' : ChanState} (hi : ChanInv ms c)
    (h : waitForFall ms c = .ok c') : GQ ms c c' := ⟨waitForFall_ge hi h, (waitForFall_nt hi h).2.1⟩

theorem mode_of_eom {c c' : ChanState} (h : c'.eom = c.eom) : c'.inEomMode = c.inEomMode := by
  unfold ChanState.inEomMode; rw [h]

/-- **`enable_eom`** on a channel that has an EOM and is not in EOM mode: the buffer steps
keep the invariant and the blocks, then the new block is opened at the channel's end. -/
theorem enableEom_ge {ms : Option Nat} {c : ChanState} {amp detOn detOff : Rat} {sb sw : Bool}
    (hi : ChanInv ms c) (hne : c.inEomMode = false) (hcfg : c.cfg.eom ≠ none) :
    GE ms c (enableEom ms c amp detOn detOff sb sw).c := by
  unfold enableEom
  simp only
  -- the buffer part
  have hbuf : GQ ms c
      (if (!sb && decide (c.getDuration false ≠ 0)) = true then
        (if (!sw) = true then CRes.lift c (waitForFall ms c) else (⟨c, none⟩ : CRes)).bind fun c =>
          CRes.lift c (do
            let buf ← c.adjust (match c.cfg.eom with | some e => e.bufferTime | none => 0)
            if detOff ≠ 0 then
              let p ← mkDetunedDelay c buf detOff c.lastPulsePhase
              addPulse ms c [] p [0] .noDelay none
            else addDelay ms c buf)
      else (⟨c, none⟩ : CRes)).c := by
    split
    · apply bind_gq
      · split
        · exact lift_gq hi (fun c' h => waitForFall_gq hi h)
        · exact GQ.rfl' hi
      · intro c1 hi1 heom1
        apply lift_gq hi1
        intro c' h
        simp only [bind, Except.bind] at h
        split at h
        · cases h
        · rename_i buf ha
          split at h
          · split at h
            · cases h
            · rename_i p hm
              have hpk := mkDetunedDelay_pulseOk hi1.1 ha hm
              refine ⟨⟨addPulse_inv hi1 hpk.1 hpk.2 h, (addPulse_inv hi1 hpk.1 hpk.2 h).2, ?_⟩,
                addPulse_eom hi1.1 h⟩
              apply addPulse_eg hi1 _ h
              intro _ b hb ho
              -- not in EOM mode: the latest block is closed
              have hm1 : c1.inEomMode = false := by rw [mode_of_eom heom1]; exact hne
              unfold ChanState.inEomMode at hm1
              rw [hb] at hm1; simp [ho] at hm1
          · exact addDelay_gq hi1 h
    · exact GQ.rfl' hi
  -- opening the block
  generalize (if (!sb && decide (c.getDuration false ≠ 0)) = true then _ else _ : CRes) = r at hbuf ⊢
  have hi1 : ChanInv ms r.c := hbuf.1.1.1
  unfold CRes.bind
  cases r.err with
  | some e => exact hbuf.1
  | none =>
    simp only
    unfold CRes.lift
    cases hl : r.c.last with
    | error e => simp only [bind, Except.bind]; exact hbuf.1
    | ok last =>
      simp only [bind, Except.bind]
      refine hbuf.1.trans ⟨Good_of_same hi1 rfl rfl rfl rfl rfl,
        ⟨rfl, rfl, List.prefix_refl _, rfl, rfl⟩, ?_⟩
      have hext := hbuf.1.1.2
      exact EI_open hi1 hl (by rw [mode_of_eom hbuf.2]; exact hne) (by rw [hext.1]; exact hcfg)
        amp detOn detOff

/-- **`disable_eom`** on a channel in EOM mode: the open block is closed at the channel's end,
the buffer / fall wait that follows is ordinary operation.  Afterwards the channel is not in
EOM mode and still has its blocks (when no error stopped the call before the block was closed). -/
theorem disableEom_ge {ms : Option Nat} {c : ChanState} {sb : Bool}
    (hi : ChanInv ms c) (hin : c.inEomMode = true) :
    GE ms c (disableEom ms c sb).c ∧
    ((disableEom ms c sb).err = none →
      (disableEom ms c sb).c.inEomMode = false ∧ (disableEom ms c sb).c.eom ≠ []) := by
  unfold disableEom
  cases hl : c.last with
  | error e =>
    simp only [CRes.lift, bind, Except.bind, CRes.bind]
    exact ⟨GE.rfl' hi, fun h => by cases h⟩
  | ok last =>
    simp only [CRes.lift, bind, Except.bind, CRes.bind]
    generalize hc1 : ({ c with eom := closeLastBlock c.eom last.tf } : ChanState) = c1
    have hmode : c1.inEomMode = false ∧ c1.eom ≠ [] := by
      rw [← hc1]
      refine ⟨closeLastBlock_mode c.eom last.tf, ?_⟩
      show closeLastBlock c.eom last.tf ≠ []
      unfold ChanState.inEomMode at hin
      cases hg : c.eom.getLast? with
      | none => rw [hg] at hin; cases hin
      | some b => rw [closeLastBlock_eq _ _ _ hg]; simp
    have hg1 : GE ms c c1 := by
      rw [← hc1]
      exact ⟨Good_of_same hi rfl rfl rfl rfl rfl, ⟨rfl, rfl, List.prefix_refl _, rfl, rfl⟩,
        EI_close hl hin⟩
    have hi1 : ChanInv ms c1 := hg1.1.1
    -- the tail: skip, custom buffer, or fall wait — all `GQ` steps
    have tail : ∀ (e : Except Err ChanState), (∀ c', e = .ok c' → GQ ms c1 c') →
        GE ms c (CRes.lift c1 e).c ∧ ((CRes.lift c1 e).err = none →
          (CRes.lift c1 e).c.inEomMode = false ∧ (CRes.lift c1 e).c.eom ≠ []) := by
      intro e he
      unfold CRes.lift
      cases e with
      | error x => exact ⟨hg1, fun h => by cases h⟩
      | ok c' =>
        have := he c' rfl
        exact ⟨hg1.trans this.1, fun _ => ⟨by rw [mode_of_eom this.2]; exact hmode.1,
          by rw [this.2]; exact hmode.2⟩⟩
    split
    · exact ⟨hg1, fun _ => hmode⟩
    · split
      · split
        · apply tail
          intro c' h
          rename_i e _ _
          cases ha : c1.adjust e.bufferTime with
          | error e => simp [ha, bind, Except.bind] at h
          | ok buf =>
            simp only [ha, bind, Except.bind] at h
            exact addDelay_gq hi1 h
        · exact tail _ (fun c' h => waitForFall_gq hi1 h)
      · exact tail _ (fun c' h => waitForFall_gq hi1 h)

end Pulser
