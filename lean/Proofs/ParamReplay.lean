/-
  Proofs.ParamReplay — replay of the concrete prefix of a template for EVERY successful
  history (C08), on top of C09's `step_record` (Proofs/ReplayLog.lean): each successful call
  extends the record by a call whose replay gives the same result — for `enable_eom_mode` /
  `modify_eom_setpoint` the stored call carries the chosen off-detuning, and replaying it
  chooses it again when the options are distinct (`NodupOpts`).
-/
import Proofs.Param
import Proofs.ReplayLog
namespace Pulser
namespace Param

theorem replay_prefix_full {dev : Device} {nQ : Nat} {ops : List Op} {s : SeqState}
    (hn : ∀ op ∈ ops, NodupOpts op) (h : runAll (SeqState.init dev nQ) ops = .ok s) :
    run (SeqState.init s.dev s.nQ) s.calls = s := by
  have key : ∀ (ops : List Op) (k : Nat) (s0 s : SeqState), s0.dev = dev → s0.nQ = nQ →
      run (SeqState.init dev nQ) s0.calls = s0 → (∀ op ∈ ops, NodupOpts op) →
      runAllFrom k s0 ops = .ok s →
      s.dev = dev ∧ s.nQ = nQ ∧ run (SeqState.init dev nQ) s.calls = s := by
    intro ops
    induction ops with
    | nil =>
      intro k s0 s hd hq hs _ hr
      simp [runAllFrom] at hr; subst hr; exact ⟨hd, hq, hs⟩
    | cons op rest ih =>
      intro k s0 s hd hq hs hno hr
      unfold runAllFrom at hr
      cases he : (stepRaw s0 op).err with
      | some e => rw [he] at hr; cases hr
      | none =>
        rw [he] at hr
        have hrest : ∀ o ∈ rest, NodupOpts o := fun o ho => hno o (List.mem_cons_of_mem _ ho)
        rcases step_record s0 op he (hno op List.mem_cons_self) with ⟨_, hst⟩ | ⟨op', hc, hd', hq', hsame⟩
        · rw [hst] at hr
          exact ih (k + 1) s0 s hd hq hs hrest hr
        · refine ih (k + 1) (stepRaw s0 op).st s (hd'.trans hd) (hq'.trans hq) ?_ hrest hr
          rw [hc, Param.run_append, hs]
          show (stepRaw s0 op').st = (stepRaw s0 op).st
          rw [hsame]
  obtain ⟨h1, h2, h3⟩ := key ops 0 (SeqState.init dev nQ) s rfl rfl rfl hn h
  rw [h1, h2]; exact h3

end Param
end Pulser
