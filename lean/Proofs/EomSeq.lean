/-
  Proofs.EomSeq — the EOM invariant `EIc` (Proofs/EomInv.lean) holds on every channel of every
  reachable sequence: pass over `stepRaw` (failing calls included) and oracle answers.
-/
import Proofs.EomInv
import Proofs.Pass
import Proofs.ConflictSeq
namespace Pulser

/-- The relation of the EOM pass. -/
def XE : CRel where
  R := EG
  N := EIc
  refl := EG.rfl'
  trans := EG.trans
  step := fun hn hr => hr.2 hn

/-- Device facts used by the EOM invariant: durations are positive and DMMs have no EOM. -/
def DevOkE (d : Device) : Prop :=
  (∀ c ∈ d.chans, 0 < c.minDur ∧ (c.isDmm = true → c.eom = none)) ∧
  (∀ c ∈ d.dmms, 0 < c.minDur ∧ (c.isDmm = true → c.eom = none))

theorem freshChan_ei {name : ChName} {chId : Nat} {cfg : ChanCfg} {qs : List Nat} {w : Bool}
    {a b : Rat} (h : 0 < cfg.minDur ∧ (cfg.isDmm = true → cfg.eom = none)) :
    EIc (SeqState.freshChan name chId cfg qs w a b) :=
  ⟨fun _ _ _ _ b hb => (by cases hb), fun b hb => (by cases hb), fun b hb => (by cases hb),
   fun _ => rfl, h.2, h.1⟩

theorem RE_targetCore {s : SeqState} (hi : SeqInv s) (qs : List Nat) (n : ChName) :
    RX XE s (targetCore s qs n) := by
  unfold targetCore
  repeat' split
  all_goals first
    | exact RX_fail hi _
    | exact RX_withChan hi (fun c _ hc => ⟨addTarget_inv hc, (addTarget_ge hc).2⟩)

theorem RE_delayCore {s : SeqState} (hi : SeqInv s) (d : Int) (n : ChName) (atRest : Bool) :
    RX XE s (delayCore s d n atRest) := by
  unfold delayCore
  split
  · exact RX_fail hi _
  · split
    · exact RX_fail hi _
    · apply RX_bind
      · split
        · exact RX_withChan hi (fun c _ hc => lift_ge hc (fun c' h => waitForFall_ge hc h))
        · exact RX_done (SX.rfl' hi)
      · intro s1 hi1 _
        split
        · exact RX_done (SX.rfl' hi1)
        · apply RX_withChan hi1
          intro c _ hc
          apply lift_ge hc
          intro c' h
          split at h
          · cases hl : c.last with
            | error e => simp [hl, bind, Except.bind] at h
            | ok l => simp [hl, bind, Except.bind] at h
          · exact addDelay_ge hc h

theorem RE_delayChecked {s : SeqState} (hi : SeqInv s) (d : Int) (n : ChName) (atRest : Bool) :
    RX XE s (delayChecked s d n atRest) := by
  rcases delayChecked_cases s d n atRest with h | ⟨e, h⟩ <;> rw [h]
  · exact RE_delayCore hi d n atRest
  · exact RX_fail hi e

theorem RE_alignLoop {s : SeqState} (hi : SeqInv s) (tf : Int) (l : List (ChName × Int)) :
    RX XE s (alignLoop tf l s) := by
  induction l generalizing s with
  | nil => exact RX_done (SX.rfl' hi)
  | cons a rest ih =>
    obtain ⟨n, t⟩ := a
    unfold alignLoop
    simp only
    split
    · exact RX_fail hi _
    · split
      · split
        · exact RX_fail hi _
        · exact RX_bind (RE_delayCore hi _ _ _) (fun s1 hi1 _ => ih hi1)
      · exact ih hi

theorem validateAndAdjust_fields {c : ChanState} {p : PulseIn} {ref : Option Rat} {pr : PulseRec}
    (h : validateAndAdjust c p ref = .ok pr) :
    pr.const = p.const ∧ pr.amp = p.amp ∧ pr.det = p.det := by
  unfold validateAndAdjust at h
  split at h
  · cases h
  · split at h
    · cases h
    · split at h
      · cases h
      · split at h
        · cases h
        · injection h with h; subst h; exact ⟨rfl, rfl, rfl⟩

/-- `_add` keeps the EOM invariant when the pulse handed in is square at the setpoint of the
open block of its channel (if there is one). -/
theorem RE_addCore {s : SeqState} (hi : SeqInv s) (p : PulseIn) (n : ChName)
    (proto : Option Protocol) (drift : Option Drift)
    (hp : ∀ c, s.getChan n = some c → EIc c → ∀ b, c.eom.getLast? = some b → b.tf = none →
      p.const = true ∧ p.amp = b.amp ∧ p.det = b.detOn) :
    RX XE s (addCore s p n proto drift) := by
  unfold addCore
  cases proto with
  | none => exact RX_fail hi _
  | some proto =>
    simp only
    cases hc : s.getChan n with
    | none => exact RX_fail hi _
    | some c =>
      simp only
      have hcm := getChan_mem hc
      cases hl : c.last with
      | error e => exact RX_fail hi _
      | ok last =>
        simp only
        split
        · exact RX_fail hi _
        · generalize (if c.cfg.isDmm = true then none else
            (s.lastPhases c.cfg.basis last.targets).head?) = phaseRef
          cases hpr : validateAndAdjust c p phaseRef with
          | error e => exact RX_fail hi _
          | ok pr =>
            simp only
            cases hadd : addPulse s.dev.maxSeqDur c (s.others n) pr
                (s.lastTimes c.cfg.basis last.targets) proto drift with
            | error e => exact RX_fail hi _
            | ok c' =>
              simp only
              have hva := validateAndAdjust_ok (hi c hcm.1).1 hpr
              have hf := validateAndAdjust_fields hpr
              have hg := addPulse_inv (hi c hcm.1) hva.1 hva.2.1 hadd
              have hk : EG c c' := ⟨hg.2, addPulse_eg (hi c hcm.1) (fun hE b hb ho => by
                have := hp c hc hE b hb ho
                exact ⟨by rw [hf.1]; exact this.1, .inl ⟨by rw [hf.2.1]; exact this.2.1,
                  by rw [hf.2.2]; exact this.2.2⟩⟩) hadd⟩
              have h1 : SX XE s (s.setChan c') := setChan_SX hi hc hg hk
              cases hl' : c'.last with
              | error e => exact h1
              | ok newSlot =>
                simp only
                have hm := mapRefs_chans (s.setChan c') c.cfg.basis last.targets
                  (·.updateLastUsed newSlot.tf)
                have h2 : SX XE (s.setChan c') _ := SX_of_chans_eq h1.1.1 hm.1 hm.2.1 hm.2.2
                split
                · exact SX.trans h1 (SX.trans h2 (RX_phaseShift h2.1.1 _ _ _))
                · exact SX.trans h1 h2

theorem validateChannel_get {s : SeqState} {n : ChName} {b : Bool} {c : ChanState}
    (h : s.validateChannel n b = .ok c) : s.getChan n = some c := (validateChannel_ok h).1

/-- A channel step followed by a continuation that may rely on what the step produced. -/
theorem RX_withChan_bind {X : CRel} {s : SeqState} {n : ChName} {f : ChanState → CRes}
    {g : SeqState → Raw} {c : ChanState} (hi : SeqInv s) (hgc : s.getChan n = some c)
    (hf : Good s.dev.maxSeqDur c (f c).c ∧ X.R c (f c).c)
    (hg : (f c).err = none → SeqInv (s.setChan (f c).c) → RX X (s.setChan (f c).c) (g (s.setChan (f c).c))) :
    RX X s ((s.withChan n f).bind g) := by
  have hw : s.withChan n f = ⟨s.setChan (f c).c, (f c).err, none⟩ := by
    unfold SeqState.withChan; rw [hgc]
  rw [hw]
  have h1 : SX X s (s.setChan (f c).c) := setChan_SX hi hgc hf.1 hf.2
  unfold Raw.bind
  cases herr : (f c).err with
  | some e => exact h1
  | none => exact SX.trans h1 (hg herr h1.1.1)

/-- `modify_eom_setpoint` after validation: the open block is closed, then (not in EOM mode any
more) a new one is opened behind its buffer. -/
theorem RE_modifyEomCommit {s : SeqState} (hi : SeqInv s) {n : ChName} {c : ChanState} (e : EomIn)
    (detOff : Rat) (hgc : s.getChan n = some c) (hin : c.inEomMode = true) :
    RX XE s (modifyEomCommit s n c e detOff) := by
  have hci := hi c (getChan_mem hgc).1
  have hdis := disableEom_ge (ms := s.dev.maxSeqDur) (sb := true) hci hin
  unfold modifyEomCommit
  apply RX_withChan_bind hi hgc ⟨hdis.1.1, hdis.1.2⟩
  intro herr hi1
  generalize hc1 : (disableEom s.dev.maxSeqDur c true).c = c1 at hdis hi1 ⊢
  have hmode1 : c1.inEomMode = false := (hdis.2 herr).1
  have hname : c1.name = n := by
    have := hdis.1.1.2.2.1; rw [this]; exact (getChan_mem hgc).2
  have hget1 : (s.setChan c1).getChan n = some c1 := getChan_setChan_same hgc hname
  simp only [hget1]
  have hci1 := hi1 c1 (getChan_mem hget1).1
  -- whether or not `c` satisfied the invariant, the step on `c1` is good; it keeps the
  -- invariant when `c1` has it (then `c1` has an EOM: it has a block)
  have hstep : Good (s.setChan c1).dev.maxSeqDur c1
      (enableEom s.dev.maxSeqDur c1 e.amp e.detOn detOff false true).c ∧
      XE.R c1 (enableEom s.dev.maxSeqDur c1 e.amp e.detOn detOff false true).c := by
    refine ⟨enableEom_inv hci1, (enableEom_inv hci1).2, fun hE1 => ?_⟩
    have hcfg : c1.cfg.eom ≠ none := by
      intro h0
      have h1 := hE1.noCfg h0
      -- `c1.eom` is `closeLastBlock c.eom _`, as long as `c.eom`, which is non-empty
      exact (hdis.2 herr).2 h1
    exact (enableEom_ge (ms := s.dev.maxSeqDur) hci1 hmode1 hcfg).2.2 hE1
  apply RX_withChan_bind hi1 hget1 hstep
  intro _ hi2
  apply RX_store
  repeat' split
  all_goals first
    | exact RX_phaseShift hi2 _ _ _ | exact RX_fail hi2 _ | exact RX_done (SX.rfl' hi2)

/-- Every API call keeps the EOM invariant (relation `SX XE`). -/
theorem stepRaw_RE {s : SeqState} (hd : DevOk s.dev) (hde : DevOkE s.dev) (hi : SeqInv s) (op : Op) :
    RX XE s (stepRaw s op) := by
  cases op with
  | declare name chId init =>
    simp only [stepRaw]
    split
    · exact RX_fail hi _
    · split
      · exact RX_fail hi _
      · split
        · exact RX_fail hi _
        · split
          · exact RX_fail hi _
          · rename_i cfg hcfg
            split
            · repeat' split
              all_goals exact RX_fail hi _
            · apply RX_store
              have hmem : cfg ∈ s.dev.chans := List.mem_of_getElem? hcfg
              have hfc := fun nm => freshChan_inv (name := nm) (chId := chId) (qs := s.allQubits)
                (w := !cfg.isLocal) (a := 1) (b := 1) (ms := s.dev.maxSeqDur) (hd.1 cfg hmem)
              have hfe := fun nm => freshChan_ei (name := nm) (chId := chId) (qs := s.allQubits)
                (w := !cfg.isLocal) (a := 1) (b := 1) (hde.1 cfg hmem)
              split
              · exact addChannel_SX hi (hfc _) (hfe _)
              · split
                · exact RX_orRollback hi (SX.trans (addChannel_SX hi (hfc _) (hfe _))
                    (RE_targetCore (addChannel_SG hi (hfc _)).1 _ _))
                · exact addChannel_SX hi (hfc _) (hfe _)
  | configDetMap dmmId maxW sumW =>
    simp only [stepRaw]
    split
    · exact RX_fail hi _
    · split
      · exact RX_fail hi _
      · rename_i cfg hcfg
        split
        · exact RX_fail hi _
        · split
          · exact RX_fail hi _
          · apply RX_store
            have hmem : cfg ∈ s.dev.dmms := List.mem_of_getElem? hcfg
            exact addChannel_SX hi (freshChan_inv (hd.2 cfg hmem)) (freshChan_ei (hde.2 cfg hmem))
  | target qs n => exact RX_store _ (RX_orRollback hi (RE_targetCore hi _ _))
  | add p n proto =>
    simp only [stepRaw]
    apply RX_store; apply RX_markNonEmpty
    split
    · exact RX_fail hi _
    · cases hv : s.validateChannel n true with
      | error e => exact RX_fail hi _
      | ok c =>
        simp only
        split
        · exact RX_fail hi _
        · apply RE_addCore hi
          intro c' hc' _ b hb ho
          have hv' := validateChannel_ok hv
          rw [hv'.1] at hc'; injection hc' with hc'; subst hc'
          have := hv'.2 rfl
          unfold ChanState.inEomMode at this
          rw [hb] at this; simp [ho] at this
  | addDmm p n proto =>
    simp only [stepRaw]
    apply RX_store; apply RX_markNonEmpty
    split
    · exact RX_fail hi _
    · cases hv : s.validateChannel n false with
      | error e => exact RX_fail hi _
      | ok c =>
        simp only
        split
        · exact RX_fail hi _
        · rename_i hdmm
          apply RE_addCore hi
          intro c' hc' hE b hb _
          rw [validateChannel_get hv] at hc'; injection hc' with hc'; subst hc'
          have h1 : c.cfg.isDmm = true := by simpa using hdmm
          have := hE.noCfg (hE.dmm h1)
          rw [this] at hb; cases hb
  | addEom n dur phase post proto corr fs fe ref =>
    simp only [stepRaw]
    apply RX_store; apply RX_markNonEmpty
    split
    · exact RX_fail hi _
    · cases hv : s.validateChannel n false with
      | error e => exact RX_fail hi _
      | ok c =>
        simp only
        cases hg : c.eom.getLast? with
        | none => exact RX_fail hi _
        | some b =>
          simp only
          split
          · exact RX_fail hi _
          · apply RE_addCore hi
            intro c' hc' _ b' hb' _
            rw [validateChannel_get hv] at hc'; injection hc' with hc'; subst hc'
            rw [hg] at hb'; injection hb' with hb'; subst hb'
            exact ⟨rfl, rfl, rfl⟩
  | delay d n atRest => exact RX_store _ (RX_orRollback hi (RE_delayChecked hi _ _ _))
  | align chs atRest =>
    simp only [stepRaw]
    apply RX_store
    apply RX_orRollback hi
    repeat' split
    all_goals first | exact RX_fail hi _ | exact RX_done (SX.rfl' hi) | exact RE_alignLoop hi _ _
  | phaseShift phi qs b => exact RX_store _ (RX_phaseShift hi _ _ _)
  | enableEom n e =>
    simp only [stepRaw]
    split
    · exact RX_fail hi _
    · cases hv : s.validateChannel n false with
      | error er => exact RX_fail hi _
      | ok c =>
        simp only
        split
        · exact RX_fail hi _
        · rename_i hmode
          split
          · exact RX_fail hi _
          · rename_i hcfg
            split
            · exact RX_fail hi _
            · rename_i detOff _
              apply RX_orRollback hi
              unfold enableEomCommit
              apply RX_bind
              · apply RX_withChan hi
                intro c' hc' hci
                rw [validateChannel_get hv] at hc'; injection hc' with hc'; subst hc'
                have hg := enableEom_ge (ms := s.dev.maxSeqDur) (amp := e.amp) (detOn := e.detOn)
                  (detOff := detOff) (sb := false) (sw := false) hci (by simpa using hmode)
                  (by intro h0; rw [h0] at hcfg; simp at hcfg)
                exact ⟨hg.1, hg.2⟩
              · intro s1 hi1 _
                apply RX_store
                repeat' split
                all_goals first
                  | exact RX_phaseShift hi1 _ _ _ | exact RX_fail hi1 _ | exact RX_done (SX.rfl' hi1)
  | modifyEom n e =>
    simp only [stepRaw]
    split
    · exact RX_fail hi _
    · cases hv : s.validateChannel n false with
      | error er => exact RX_fail hi _
      | ok c =>
        simp only
        split
        · exact RX_fail hi _
        · rename_i hmode
          split
          · exact RX_fail hi _
          · rename_i detOff _
            exact RX_orRollback hi
              (RE_modifyEomCommit hi e detOff (validateChannel_get hv) (by simpa using hmode))
  | disableEom n corr =>
    simp only [stepRaw]
    apply RX_store
    apply RX_orRollback hi
    split
    · exact RX_fail hi _
    · cases hv : s.validateChannel n false with
      | error er => exact RX_fail hi _
      | ok c =>
        simp only
        split
        · exact RX_fail hi _
        · rename_i hmode
          apply RX_bind
          · apply RX_withChan hi
            intro c' hc' hci
            rw [validateChannel_get hv] at hc'; injection hc' with hc'; subst hc'
            have hg := (disableEom_ge (ms := s.dev.maxSeqDur) (sb := false) hci (by simpa using hmode)).1
            exact ⟨hg.1, hg.2⟩
          · intro s1 hi1 _
            repeat' split
            all_goals first
              | exact RX_phaseShift hi1 _ _ _ | exact RX_fail hi1 _ | exact RX_done (SX.rfl' hi1)
  | measure b =>
    simp only [stepRaw]
    apply RX_store
    repeat' split
    all_goals first | exact RX_fail hi _ | exact RX_done (SX_of_chans_eq hi rfl rfl rfl)
  | getDuration ch fall =>
    simp only [stepRaw]
    repeat' split
    all_goals first | exact RX_fail hi _ | exact SX.rfl' hi
  | estimate p n proto =>
    simp only [stepRaw]
    repeat' split
    all_goals first
      | exact RX_fail hi _
      | (show SX XE s _; rw [estimateCore_st]; exact SX.rfl' hi)
  | phaseRef q b =>
    simp only [stepRaw]
    repeat' split
    all_goals first | exact RX_fail hi _ | exact SX.rfl' hi

/-- Oracle answers keep the EOM invariant. -/
theorem injectOracle_SE {s : SeqState} (hi : SeqInv s) (n : ChName) (d : Rat) (du fs fe : Nat) :
    SX XE s (s.injectOracle n d du fs fe) := by
  refine ⟨injectOracle_SG hi n d du fs fe, ?_, ?_⟩
  · intro i c hc
    simp only [SeqState.injectOracle, List.getElem?_map, hc, Option.map_some]
    by_cases h : (c.name == n) = true
    · rw [if_pos h]
      exact ⟨_, rfl, ⟨rfl, rfl, List.prefix_refl _, rfl, rfl⟩,
        fun hE => ⟨hE.sq, hE.closed, hE.onlyLast, hE.noCfg, hE.dmm, hE.minPos⟩⟩
    · rw [if_neg h]; exact ⟨_, rfl, EG.rfl' c⟩
  · intro i c' hi' hc'
    have := (List.getElem?_eq_some_iff.mp hc').1
    simp [SeqState.injectOracle] at this
    omega

theorem stepEv_SE {s : SeqState} (hd : DevOk s.dev) (hde : DevOkE s.dev) (hi : SeqInv s) (ev : Ev) :
    SX XE s (stepEv s ev) := by
  cases ev with
  | call op => exact stepRaw_RE hd hde hi op
  | oracle n d du fs fe => exact injectOracle_SE hi n d du fs fe

/-- The EOM invariant along whole histories. -/
theorem runEv_EI {s : SeqState} (hd : DevOk s.dev) (hde : DevOkE s.dev) (hi : SeqInv s)
    (hl : ∀ c ∈ s.chans, EIc c) (evs : List Ev) : ∀ c ∈ (runEv s evs).chans, EIc c := by
  induction evs generalizing s with
  | nil => exact hl
  | cons ev rest ih =>
    have h1 := stepEv_SE hd hde hi ev
    exact ih (by rw [h1.1.2.1]; exact hd) (by rw [h1.1.2.1]; exact hde) h1.1.1 (h1.keeps hl)

end Pulser
