/-
  Proofs.Replay — the record of successful calls (C09, "the state is reproducible from
  its record of successful calls").
-/
import PulserModel.Sequence
namespace Pulser

/-- Raw results whose state has the same call record as `s`. -/
def Meta (s s' : SeqState) : Prop := s'.calls = s.calls ∧ s'.dev = s.dev ∧ s'.nQ = s.nQ

theorem Meta.rfl' (s : SeqState) : Meta s s := ⟨rfl, rfl, rfl⟩
theorem Meta.trans {a b c : SeqState} (h1 : Meta a b) (h2 : Meta b c) : Meta a c :=
  ⟨h2.1.trans h1.1, h2.2.1.trans h1.2.1, h2.2.2.trans h1.2.2⟩

/-- Raw results whose state has the same call record, device and register size as `s`. -/
def KeepsCalls (s : SeqState) (r : Raw) : Prop := Meta s r.st

theorem kc_fail (s : SeqState) (e : Err) : KeepsCalls s (fail s e) := Meta.rfl' s
theorem kc_done {s s' : SeqState} (h : Meta s s') : KeepsCalls s (done s') := h
theorem kc_orRollback {s : SeqState} {r : Raw} (h : KeepsCalls s r) : KeepsCalls s (r.orRollback s) := by
  rcases Raw.orRollback_cases r s with e | ⟨e, he⟩
  · rw [e]; exact h
  · rw [he]; exact kc_fail _ _

theorem setChan_calls (s : SeqState) (c : ChanState) : Meta s (s.setChan c) := ⟨rfl, rfl, rfl⟩

theorem mapRefs_calls (s : SeqState) (b : Basis) (qs : List Nat) (f : QRef → QRef) :
    Meta s (s.mapRefs b qs f) := by
  unfold SeqState.mapRefs
  cases s.getRefs b <;> exact ⟨rfl, rfl, rfl⟩

theorem ensureBasis_calls (s : SeqState) (b : Basis) : Meta s (s.ensureBasis b) := by
  unfold SeqState.ensureBasis
  split <;> exact ⟨rfl, rfl, rfl⟩

theorem addChannel_calls (s : SeqState) (c : ChanState) : Meta s (s.addChannel c) := by
  unfold SeqState.addChannel
  simp only
  split
  · exact Meta.trans ⟨rfl, rfl, rfl⟩ (ensureBasis_calls _ _)
  · exact Meta.trans ⟨rfl, rfl, rfl⟩ (ensureBasis_calls _ _)

theorem kc_withChan (s : SeqState) (n : ChName) (f : ChanState → CRes) : KeepsCalls s (s.withChan n f) := by
  unfold SeqState.withChan KeepsCalls
  cases s.getChan n <;> exact ⟨rfl, rfl, rfl⟩

theorem kc_bind {s : SeqState} {r : Raw} {g : SeqState → Raw} (hr : KeepsCalls s r)
    (hg : ∀ s1, Meta s s1 → KeepsCalls s1 (g s1)) : KeepsCalls s (r.bind g) := by
  unfold Raw.bind
  cases r.err with
  | none => exact Meta.trans hr (hg _ hr)
  | some e => exact hr

theorem kc_phaseShift (s : SeqState) (phi : Rat) (qs : List Nat) (b : Basis) :
    KeepsCalls s (s.phaseShift phi qs b) := by
  unfold SeqState.phaseShift
  by_cases h1 : (s.getRefs b).isNone = true
  · rw [if_pos h1]; exact Meta.rfl' s
  · rw [if_neg h1]
    simp only
    generalize (if qs.isEmpty = true then s.allQubits else qs) = qs'
    by_cases h2 : (qs'.any fun x => decide (x ≥ s.nQ)) = true
    · rw [if_pos h2]; exact Meta.rfl' s
    · rw [if_neg h2]; exact mapRefs_calls _ _ _ _

theorem kc_targetCore (s : SeqState) (qs : List Nat) (n : ChName) : KeepsCalls s (targetCore s qs n) := by
  unfold targetCore
  repeat' split
  all_goals first | exact Meta.rfl' s | exact kc_withChan _ _ _

theorem kc_delayCore (s : SeqState) (d : Int) (n : ChName) (atRest : Bool) :
    KeepsCalls s (delayCore s d n atRest) := by
  unfold delayCore
  split
  · exact Meta.rfl' s
  · split
    · exact Meta.rfl' s
    · apply kc_bind
      · split
        · exact kc_withChan _ _ _
        · exact Meta.rfl' s
      · intro s1 _
        split
        · exact Meta.rfl' s1
        · exact kc_withChan _ _ _

theorem kc_delayChecked (s : SeqState) (d : Int) (n : ChName) (atRest : Bool) :
    KeepsCalls s (delayChecked s d n atRest) := by
  rcases delayChecked_cases s d n atRest with h | ⟨e, h⟩ <;> rw [h]
  · exact kc_delayCore s d n atRest
  · exact kc_fail s e

theorem kc_alignLoop (tf : Int) (l : List (ChName × Int)) : ∀ s, KeepsCalls s (alignLoop tf l s) := by
  induction l with
  | nil => intro s; exact Meta.rfl' s
  | cons a rest ih =>
    intro s
    obtain ⟨n, t⟩ := a
    unfold alignLoop
    simp only
    split
    · exact Meta.rfl' s
    · split
      · split
        · exact Meta.rfl' s
        · exact kc_bind (kc_delayCore _ _ _ _) (fun s1 _ => ih s1)
      · exact ih s

theorem kc_addCore (s : SeqState) (p : PulseIn) (n : ChName) (proto : Option Protocol)
    (drift : Option Drift) : KeepsCalls s (addCore s p n proto drift) := by
  unfold addCore
  cases proto with
  | none => exact Meta.rfl' s
  | some proto =>
    simp only
    cases s.getChan n with
    | none => exact Meta.rfl' s
    | some c =>
      simp only
      cases c.last with
      | error e => exact Meta.rfl' s
      | ok last =>
        simp only
        split
        · exact Meta.rfl' s
        · generalize (if c.cfg.isDmm = true then none else
            (s.lastPhases c.cfg.basis last.targets).head?) = phaseRef
          cases validateAndAdjust c p phaseRef with
          | error e => exact Meta.rfl' s
          | ok pr =>
            simp only
            cases addPulse s.dev.maxSeqDur c (s.others n) pr
                (s.lastTimes c.cfg.basis last.targets) proto drift with
            | error e => exact Meta.rfl' s
            | ok c' =>
              simp only
              cases c'.last with
              | error e => exact setChan_calls s c'
              | ok newSlot =>
                simp only
                have h1 := setChan_calls s c'
                have h2 := mapRefs_calls (s.setChan c') c.cfg.basis last.targets (·.updateLastUsed newSlot.tf)
                split
                · exact Meta.trans (Meta.trans h1 h2) (kc_phaseShift _ _ _ _)
                · exact Meta.trans h1 h2

theorem run_append (s : SeqState) (a b : List Op) : run s (a ++ b) = run (run s a) b := by
  unfold run
  rw [List.foldl_append]

theorem kc_markNonEmpty {s : SeqState} {r : Raw} (h : KeepsCalls s r) : KeepsCalls s (markNonEmpty r) := by
  unfold markNonEmpty
  cases r.err with
  | none => exact ⟨h.1, h.2.1, h.2.2⟩
  | some e => exact h

/-- A stored call: the record grows by exactly that call, device and register are kept. -/
theorem store_record {s : SeqState} {r : Raw} (op : Op) (h : KeepsCalls s r)
    (hok : (store op r).err = none) :
    (store op r).st.calls = s.calls ++ [op] ∧ (store op r).st.dev = s.dev ∧ (store op r).st.nQ = s.nQ := by
  unfold store at hok ⊢
  cases hr : r.err with
  | none => simp only [hr]; exact ⟨by rw [h.1], h.2.1, h.2.2⟩
  | some e => simp [hr] at hok

def Op.isQuery : Op → Bool
  | .getDuration .. | .estimate .. | .phaseRef .. => true
  | _ => false

/-- The oracle option lists of EOM calls have no duplicates (true of the real
`detuning_off_options` whenever the beam light shifts differ; monitored by the harness). -/
def NodupOpts : Op → Prop
  | .enableEom _ e | .modifyEom _ e => e.opts.Nodup
  | _ => True

end Pulser
