/-
  Proofs.Pass — lifting a relation between the old and the new state of a channel to whole
  sequences (generic part of the passes over `stepRaw`).
-/
import Proofs.SeqInv
import Proofs.Align
namespace Pulser

/-- A reflexive, transitive relation `R` between successive states of a channel, and a
property `N` of channels that fresh channels have and that `R` carries along. -/
structure CRel where
  R : ChanState → ChanState → Prop
  N : ChanState → Prop
  refl : ∀ c, R c c
  trans : ∀ {a b c}, R a b → R b c → R a c
  step : ∀ {c c'}, N c → R c c' → N c'

/-- Good successor: old channels are `R`-related in place, channels beyond them satisfy `N`. -/
def SX (X : CRel) (s s' : SeqState) : Prop :=
  SG s s' ∧
  (∀ (i : Nat) (c : ChanState), s.chans[i]? = some c → ∃ c', s'.chans[i]? = some c' ∧ X.R c c') ∧
  (∀ (i : Nat) (c' : ChanState), s.chans.length ≤ i → s'.chans[i]? = some c' → X.N c')

variable {X : CRel}

theorem SX.rfl' {s : SeqState} (h : SeqInv s) : SX X s s :=
  ⟨SG.rfl' h, fun _ c hc => ⟨c, hc, X.refl c⟩, fun i c' hi hc => by
    have := (List.getElem?_eq_some_iff.mp hc).1; omega⟩

theorem SX.trans {a b c : SeqState} (h1 : SX X a b) (h2 : SX X b c) : SX X a c := by
  refine ⟨SG.trans h1.1 h2.1, ?_, ?_⟩
  · intro i x hx
    obtain ⟨y, hy, k1⟩ := h1.2.1 i x hx
    obtain ⟨z, hz, k2⟩ := h2.2.1 i y hy
    exact ⟨z, hz, X.trans k1 k2⟩
  · intro i z hi hz
    by_cases hlt : i < b.chans.length
    · have hy : b.chans[i]? = some b.chans[i] := List.getElem?_eq_getElem hlt
      obtain ⟨z', hz', k⟩ := h2.2.1 i _ hy
      rw [hz] at hz'; injection hz' with hz'; subst hz'
      exact X.step (h1.2.2 i _ hi hy) k
    · exact h2.2.2 i z (by omega) hz

theorem SX_of_chans_eq {s s' : SeqState} (h : SeqInv s) (h1 : s'.chans = s.chans)
    (h2 : s'.dev = s.dev) (h3 : s'.nQ = s.nQ) : SX X s s' :=
  ⟨SG_of_chans_eq h h1 h2 h3, fun i c hc => ⟨c, by rw [h1]; exact hc, X.refl c⟩,
   fun i c' hi hc => by
    rw [h1] at hc
    have := (List.getElem?_eq_some_iff.mp hc).1; omega⟩

/-- `N` everywhere is kept. -/
theorem SX.keeps {s s' : SeqState} (h : SX X s s') (hl : ∀ c ∈ s.chans, X.N c) :
    ∀ c ∈ s'.chans, X.N c := by
  intro c' hc'
  obtain ⟨i, hi, rfl⟩ := List.mem_iff_getElem.mp hc'
  have hget : s'.chans[i]? = some s'.chans[i] := List.getElem?_eq_getElem hi
  by_cases hlt : i < s.chans.length
  · obtain ⟨z, hz, k⟩ := h.2.1 i _ (List.getElem?_eq_getElem hlt)
    rw [hget] at hz; injection hz with hz; rw [hz]
    exact X.step (hl _ (List.getElem_mem hlt)) k
  · exact h.2.2 i _ (by omega) hget

theorem replaceChan_len (c' : ChanState) (l : List ChanState) :
    (SeqState.replaceChan c' l).length = l.length := by
  induction l with
  | nil => rfl
  | cons a rest ih =>
    unfold SeqState.replaceChan
    split
    · rfl
    · simp [ih]

theorem replaceChan_rel {l : List ChanState} {c c' : ChanState}
    (hf : l.find? (·.name == c.name) = some c) (hn : c'.name = c.name) (hg : X.R c c') :
    ∀ (i : Nat) (x : ChanState), l[i]? = some x →
      ∃ y, (SeqState.replaceChan c' l)[i]? = some y ∧ X.R x y := by
  induction l with
  | nil => cases hf
  | cons a rest ih =>
    unfold SeqState.replaceChan
    rw [hn]
    by_cases ha : (a.name == c.name) = true
    · simp only [ha, if_true]
      have hac : a = c := by
        simp only [List.find?_cons, ha] at hf; injection hf
      subst hac
      intro i x hx
      cases i with
      | zero => simp at hx; subst hx; exact ⟨c', by simp, hg⟩
      | succ j => exact ⟨x, by simpa using hx, X.refl x⟩
    · simp only [ha, if_false, Bool.false_eq_true]
      have hf' : rest.find? (·.name == c.name) = some c := by
        simp only [List.find?_cons] at hf
        split at hf
        · rename_i hh; exact absurd hh ha
        · exact hf
      intro i x hx
      cases i with
      | zero => simp at hx; subst hx; exact ⟨a, by simp, X.refl _⟩
      | succ j =>
        obtain ⟨y, hy, e⟩ := ih hf' j x (by simpa using hx)
        exact ⟨y, by simpa using hy, e⟩

theorem setChan_SX {s : SeqState} {n : ChName} {c c' : ChanState} (hi : SeqInv s)
    (hc : s.getChan n = some c) (hg : Good s.dev.maxSeqDur c c') (hk : X.R c c') :
    SX X s (s.setChan c') := by
  have hn := (getChan_mem hc).2
  have hf : s.chans.find? (·.name == c.name) = some c := by
    unfold SeqState.getChan at hc; rw [hn]; exact hc
  refine ⟨setChan_SG hi hc hg, replaceChan_rel hf hg.2.2.1 hk, ?_⟩
  intro i x hi' hx
  have h1 := (List.getElem?_eq_some_iff.mp hx).1
  have : (s.setChan c').chans.length = s.chans.length := replaceChan_len _ _
  omega

def RX (X : CRel) (s : SeqState) (r : Raw) : Prop := SX X s r.st

theorem RX_fail {s : SeqState} (hi : SeqInv s) (e : Err) : RX X s (fail s e) := SX.rfl' hi
theorem RX_done {s s' : SeqState} (h : SX X s s') : RX X s (done s') := h
theorem RX_orRollback {s : SeqState} {r : Raw} (hi : SeqInv s) (h : RX X s r) : RX X s (r.orRollback s) := by
  rcases Raw.orRollback_cases r s with e | ⟨e, he⟩
  · rw [e]; exact h
  · rw [he]; exact RX_fail hi _

theorem RX_withChan {s : SeqState} {n : ChName} {f : ChanState → CRes} (hi : SeqInv s)
    (hf : ∀ c, s.getChan n = some c → ChanInv s.dev.maxSeqDur c →
      Good s.dev.maxSeqDur c (f c).c ∧ X.R c (f c).c) : RX X s (s.withChan n f) := by
  unfold SeqState.withChan
  cases hc : s.getChan n with
  | none => exact RX_fail hi _
  | some c =>
    have := getChan_mem hc
    have h := hf c hc (hi c this.1)
    exact setChan_SX hi hc h.1 h.2

theorem RX_bind {s : SeqState} {r : Raw} {g : SeqState → Raw} (hr : RX X s r)
    (hg : ∀ s1, SeqInv s1 → s1.dev = s.dev → RX X s1 (g s1)) : RX X s (r.bind g) := by
  unfold Raw.bind
  cases r.err with
  | none => exact SX.trans hr (hg _ hr.1.1 hr.1.2.1)
  | some e => exact hr

theorem RX_store {s : SeqState} {r : Raw} (op : Op) (hr : RX X s r) : RX X s (store op r) := by
  unfold store
  cases h : r.err with
  | none => exact SX.trans hr (SX_of_chans_eq hr.1.1 rfl rfl rfl)
  | some e => exact hr

theorem RX_markNonEmpty {s : SeqState} {r : Raw} (hr : RX X s r) : RX X s (markNonEmpty r) := by
  unfold markNonEmpty
  cases h : r.err with
  | none => exact SX.trans hr (SX_of_chans_eq hr.1.1 rfl rfl rfl)
  | some e => exact hr

theorem RX_phaseShift {s : SeqState} (hi : SeqInv s) (phi : Rat) (qs : List Nat) (b : Basis) :
    RX X s (s.phaseShift phi qs b) := by
  unfold SeqState.phaseShift
  split
  · exact RX_fail hi _
  · generalize (if qs.isEmpty then s.allQubits else qs) = qs'
    simp only
    split
    · exact RX_fail hi _
    · have := mapRefs_chans s b qs' (·.incrementPhase phi)
      exact SX_of_chans_eq hi this.1 this.2.1 this.2.2

theorem SX_append {s s' : SeqState} {c : ChanState} (hi : SeqInv s) (hc : ChanInv s.dev.maxSeqDur c)
    (hl : X.N c) (h1 : s'.chans = s.chans ++ [c]) (h2 : s'.dev = s.dev) (h3 : s'.nQ = s.nQ) :
    SX X s s' := by
  refine ⟨SG_append hi hc h1 h2 h3, ?_, ?_⟩
  · intro i x hx
    refine ⟨x, ?_, X.refl x⟩
    rw [h1, List.getElem?_append_left]
    · exact hx
    · exact (List.getElem?_eq_some_iff.mp hx).1
  · intro i c' hi' hc'
    rw [h1] at hc'
    have hlen := (List.getElem?_eq_some_iff.mp hc').1
    simp at hlen
    have : i = s.chans.length := by omega
    subst this
    simp at hc'; subst hc'; exact hl

theorem addChannel_SX {s : SeqState} {c : ChanState} (hi : SeqInv s) (hc : ChanInv s.dev.maxSeqDur c)
    (hl : X.N c) : SX X s (s.addChannel c) := by
  unfold SeqState.addChannel
  simp only
  split
  · have he := ensureBasis_chans { ({ s with inXY := true } : SeqState) with chans := s.chans ++ [c] } c.cfg.basis
    exact SX_append hi hc hl (by rw [he.1]) (by rw [he.2.1]) (by rw [he.2.2])
  · have he := ensureBasis_chans { ({ s with inIsing := true } : SeqState) with chans := s.chans ++ [c] } c.cfg.basis
    exact SX_append hi hc hl (by rw [he.1]) (by rw [he.2.1]) (by rw [he.2.2])

end Pulser
