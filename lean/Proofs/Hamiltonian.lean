/-
  Proofs.Hamiltonian — helper lemmas for C05.

  Part A: register tensor order (Kronecker product ↔ digits of the basis-state number).
  Part B: algebra of the matrix units: the code's assembly (`hamHalf + dagger`) equals the
          documented entry-wise formula, over any commutative ring with a conjugation.
-/
import Mathlib.Tactic.Ring
import Mathlib.Algebra.Ring.MinimalAxioms
import Mathlib.Data.List.Nodup
import PulserModel.Hamiltonian

namespace Pulser
namespace Ham

/-! ## Part A — indices -/

theorem idxOf_congr (d n : Nat) (s t : Nat → Nat) (h : ∀ j, j < n → s j = t j) :
    idxOf d n s = idxOf d n t := by
  induction n with
  | zero => rfl
  | succ m ih =>
    simp only [idxOf]
    rw [ih (fun j hj => h j (by omega)), h m (by omega)]

theorem idxOf_lt (d n : Nat) (s : Nat → Nat) (hs : ∀ j, j < n → s j < d) :
    idxOf d n s < d ^ n := by
  induction n with
  | zero => simp [idxOf]
  | succ m ih =>
    simp only [idxOf, Nat.pow_succ]
    have h1 := ih (fun j hj => hs j (by omega))
    have h2 := hs m (by omega)
    calc idxOf d m s * d + s m < idxOf d m s * d + d := by omega
      _ = (idxOf d m s + 1) * d := by ring
      _ ≤ d ^ m * d := Nat.mul_le_mul_right d h1

theorem digit_lt (d n j k : Nat) (hd : 0 < d) : digit d n j k < d := Nat.mod_lt _ hd

theorem digit_succ_last (d m k : Nat) : digit d (m + 1) m k = k % d := by
  simp [digit]

theorem digit_succ_lt (d m j k : Nat) (hj : j < m) : digit d (m + 1) j k = digit d m j (k / d) := by
  unfold digit
  have e : m + 1 - 1 - j = (m - 1 - j) + 1 := by omega
  rw [e, Nat.pow_succ, Nat.mul_comm, ← Nat.div_div_eq_div_mul]

/-- The digits of the index of a configuration are the configuration. -/
theorem digit_idxOf (d n : Nat) (s : Nat → Nat) (hs : ∀ j, j < n → s j < d) (j : Nat) (hj : j < n) :
    digit d n j (idxOf d n s) = s j := by
  induction n with
  | zero => omega
  | succ m ih =>
    have hm := hs m (by omega)
    have hd : 0 < d := by omega
    simp only [idxOf]
    by_cases h : j = m
    · subst h
      rw [digit_succ_last, Nat.mul_comm, Nat.mul_add_mod, Nat.mod_eq_of_lt hm]
    · have hj' : j < m := by omega
      rw [digit_succ_lt _ _ _ _ hj', Nat.mul_comm, Nat.mul_add_div hd, Nat.div_eq_of_lt hm, Nat.add_zero]
      exact ih (fun j hj => hs j (by omega)) hj'

/-- Every basis-state number below `d ^ n` is the index of its digits. -/
theorem idxOf_digit (d n k : Nat) (hd : 0 < d) (hk : k < d ^ n) :
    idxOf d n (fun j => digit d n j k) = k := by
  induction n generalizing k with
  | zero => simp [idxOf]; simp at hk; omega
  | succ m ih =>
    simp only [idxOf]
    rw [digit_succ_last]
    have h1 : idxOf d m (fun j => digit d (m + 1) j k) = idxOf d m (fun j => digit d m j (k / d)) :=
      idxOf_congr _ _ _ _ (fun j hj => digit_succ_lt d m j k hj)
    have h2 : k / d < d ^ m := by
      rw [Nat.div_lt_iff_lt_mul hd]
      simpa [Nat.pow_succ] using hk
    rw [h1, ih (k / d) h2]
    exact Nat.div_add_mod' k d

section Ring
variable {K : Type} [CommRing K]

theorem kron_entry (q : Nat) (A B : Mat K) (a a' b b' : Nat) (hb : b < q) (hb' : b' < q) :
    kron q A B (a * q + b) (a' * q + b') = A a a' * B b b' := by
  unfold kron
  have hq : 0 < q := by omega
  rw [Nat.mul_comm a q, Nat.mul_comm a' q, Nat.mul_add_div hq, Nat.mul_add_div hq,
    Nat.div_eq_of_lt hb, Nat.div_eq_of_lt hb', Nat.mul_add_mod, Nat.mul_add_mod,
    Nat.mod_eq_of_lt hb, Nat.mod_eq_of_lt hb']
  simp

/-- **Tensor order.** The entry of `qutip.tensor([F 0, …, F (n-1)])` between two
configurations is the product of the local entries, atom by atom. -/
theorem tensorN_idxOf (d n : Nat) (F : Nat → Mat K) (s t : Nat → Nat)
    (hs : ∀ j, j < n → s j < d) (ht : ∀ j, j < n → t j < d) :
    tensorN d n F (idxOf d n s) (idxOf d n t) = prodN n (fun j => F j (s j) (t j)) := by
  induction n with
  | zero => simp [tensorN, prodN]
  | succ m ih =>
    simp only [tensorN, idxOf, prodN]
    rw [kron_entry _ _ _ _ _ _ _ (hs m (by omega)) (ht m (by omega)),
      ih (fun j hj => hs j (by omega)) (fun j hj => ht j (by omega))]

/-! ### finite sums and products -/

theorem sumN_congr {α : Type} [Add α] [Zero α] (n : Nat) (f g : Nat → α)
    (h : ∀ i, i < n → f i = g i) : sumN n f = sumN n g := by
  induction n with
  | zero => rfl
  | succ m ih =>
    simp only [sumN]
    rw [ih (fun i hi => h i (by omega)), h m (by omega)]

theorem sumN_zero (n : Nat) : sumN n (fun _ => (0 : K)) = 0 := by
  induction n with
  | zero => rfl
  | succ m ih => simp [sumN, ih]

theorem sumN_add (n : Nat) (f g : Nat → K) :
    sumN n (fun i => f i + g i) = sumN n f + sumN n g := by
  induction n with
  | zero => simp [sumN]
  | succ m ih => simp only [sumN, ih]; ring

theorem sumN_mul_left (n : Nat) (c : K) (f : Nat → K) :
    sumN n (fun i => c * f i) = c * sumN n f := by
  induction n with
  | zero => simp [sumN]
  | succ m ih => simp only [sumN, ih]; ring

theorem prodN_congr (n : Nat) (f g : Nat → K) (h : ∀ i, i < n → f i = g i) :
    prodN n f = prodN n g := by
  induction n with
  | zero => rfl
  | succ m ih =>
    simp only [prodN]
    rw [ih (fun i hi => h i (by omega)), h m (by omega)]

theorem prodN_mul (n : Nat) (f g : Nat → K) :
    prodN n (fun j => f j * g j) = prodN n f * prodN n g := by
  induction n with
  | zero => simp [prodN]
  | succ m ih => simp only [prodN, ih]; ring

theorem prodN_single (n i : Nat) (a : K) :
    prodN n (fun j => if j = i then a else 1) = if i < n then a else 1 := by
  induction n with
  | zero => simp [prodN]
  | succ m ih =>
    simp only [prodN, ih]
    by_cases h1 : i < m
    · have : m ≠ i := by omega
      simp [h1, this, show i < m + 1 by omega]
    · by_cases h2 : m = i
      · simp [h2]
      · simp [h1, h2, show ¬ i < m + 1 by omega]

theorem agreeOff_succ (m : Nat) (ex : List Nat) (s t : Nat → Nat) :
    agreeOff (m + 1) ex s t ↔ agreeOff m ex s t ∧ (m ∉ ex → s m = t m) := by
  unfold agreeOff
  constructor
  · intro h
    exact ⟨fun j hj => h j (by omega), h m (by omega)⟩
  · rintro ⟨h1, h2⟩ j hj
    by_cases e : j = m
    · subst e; exact h2
    · exact h1 j (by omega)

theorem prodN_delta (n : Nat) (ex : List Nat) (s t : Nat → Nat) :
    prodN n (fun j => if j ∈ ex then (1 : K) else if s j = t j then 1 else 0)
      = if agreeOff n ex s t then 1 else 0 := by
  induction n with
  | zero => simp [prodN, agreeOff]
  | succ m ih =>
    simp only [prodN, ih, agreeOff_succ]
    by_cases h1 : agreeOff m ex s t <;> by_cases h2 : m ∈ ex <;> by_cases h3 : s m = t m <;>
      simp [h1, h2, h3]

end Ring

/-! ## Part B — matrix units -/

/-- What is used of the conjugation: an involutive ring homomorphism. -/
structure ConjLaws (K : Type) [CommRing K] [HasConj K] : Prop where
  conj_add : ∀ a b : K, conj (a + b) = conj a + conj b
  conj_mul : ∀ a b : K, conj (a * b) = conj a * conj b
  conj_neg : ∀ a : K, conj (-a) = -conj a
  conj_zero : conj (0 : K) = 0
  conj_one : conj (1 : K) = 1
  conj_conj : ∀ a : K, conj (conj a) = a

section Units
variable {K : Type} [CommRing K] [HasConj K]

theorem agreeOff_symm (n : Nat) (ex : List Nat) (s t : Nat → Nat) :
    agreeOff n ex s t ↔ agreeOff n ex t s := by
  unfold agreeOff
  constructor <;> intro h j hj hx <;> exact (h j hj hx).symm

theorem sumN_conj (L : ConjLaws K) (n : Nat) (f : Nat → K) :
    conj (sumN n f) = sumN n (fun i => conj (f i)) := by
  induction n with
  | zero => simp [sumN, L.conj_zero]
  | succ m ih => simp only [sumN, L.conj_add, ih]

omit [HasConj K] in
theorem sumPairs_congr (n : Nat) (f g : Nat → Nat → K)
    (h : ∀ i j, i < j → j < n → f i j = g i j) : sumPairs n f = sumPairs n g := by
  unfold sumPairs
  apply sumN_congr
  intro i _
  apply sumN_congr
  intro j hj
  by_cases hij : i < j
  · simp [hij, h i j hij hj]
  · simp [hij]

omit [HasConj K] in
theorem sumPairs_add (n : Nat) (f g : Nat → Nat → K) :
    sumPairs n (fun i j => f i j + g i j) = sumPairs n f + sumPairs n g := by
  unfold sumPairs
  rw [← sumN_add]
  apply sumN_congr
  intro i _
  rw [← sumN_add]
  apply sumN_congr
  intro j _
  by_cases hij : i < j <;> simp [hij]

theorem sumPairs_conj (L : ConjLaws K) (n : Nat) (f : Nat → Nat → K) :
    conj (sumPairs n f) = sumPairs n (fun i j => conj (f i j)) := by
  unfold sumPairs
  rw [sumN_conj L]
  apply sumN_congr
  intro i _
  rw [sumN_conj L]
  apply sumN_congr
  intro j _
  by_cases hij : i < j <;> simp [hij, L.conj_zero]

omit [HasConj K] in
theorem sumPairs_zero (n : Nat) : sumPairs n (fun _ _ => (0 : K)) = 0 := by
  unfold sumPairs
  simp [sumN_zero]

omit [HasConj K] in
theorem opList_one (i : Nat) (A : Mat K) :
    opList [(i, A)] = fun k => if k = i then A else Mat.id := by
  simp [opList]

omit [HasConj K] in
theorem opList_two (i j : Nat) (A B : Mat K) :
    opList [(i, A), (j, B)] = fun k => if k = j then B else if k = i then A else Mat.id := by
  simp [opList]

omit [HasConj K] in
/-- Entry of "`A` on atom `i`" between two configurations. -/
theorem buildOp_one (d n i : Nat) (A : Mat K) (s t : Nat → Nat) (hi : i < n)
    (hs : ∀ j, j < n → s j < d) (ht : ∀ j, j < n → t j < d) :
    buildOp d n [(i, A)] (idxOf d n s) (idxOf d n t)
      = (if agreeOff n [i] s t then 1 else 0) * A (s i) (t i) := by
  unfold buildOp
  rw [tensorN_idxOf d n _ s t hs ht, opList_one]
  have h : ∀ j, j < n → (fun k => if k = i then A else Mat.id) j (s j) (t j)
      = (if j ∈ [i] then (1 : K) else if s j = t j then 1 else 0)
        * (if j = i then A (s i) (t i) else 1) := by
    intro j _
    by_cases e : j = i
    · subst e; simp
    · simp [e, Mat.id]
  rw [prodN_congr n _ _ h, prodN_mul, prodN_delta, prodN_single]
  simp [hi]

omit [HasConj K] in
/-- Entry of "`A` on atom `i`, `B` on atom `j`". -/
theorem buildOp_two (d n i j : Nat) (A B : Mat K) (s t : Nat → Nat) (hi : i < n) (hj : j < n)
    (hij : i ≠ j) (hs : ∀ j, j < n → s j < d) (ht : ∀ j, j < n → t j < d) :
    buildOp d n [(i, A), (j, B)] (idxOf d n s) (idxOf d n t)
      = (if agreeOff n [i, j] s t then 1 else 0) * (A (s i) (t i) * B (s j) (t j)) := by
  unfold buildOp
  rw [tensorN_idxOf d n _ s t hs ht, opList_two]
  have h : ∀ k, k < n → (fun k => if k = j then B else if k = i then A else Mat.id) k (s k) (t k)
      = (if k ∈ [i, j] then (1 : K) else if s k = t k then 1 else 0)
        * ((if k = i then A (s i) (t i) else 1) * (if k = j then B (s j) (t j) else 1)) := by
    intro k _
    by_cases e1 : k = i
    · subst e1; simp [hij]
    · by_cases e2 : k = j
      · subst e2; simp [e1]
      · simp [e1, e2, Mat.id]
  rw [prodN_congr n _ _ h, prodN_mul, prodN_mul, prodN_delta, prodN_single, prodN_single]
  simp [hi, hj]

/-- The inputs that are real numbers are real, and `half` is one half. -/
structure RealIn (c : HamIn K) : Prop where
  half_real : conj c.half = c.half
  half_add : c.half + c.half = 1
  gdet_real : ∀ β, conj (c.glob β).det = (c.glob β).det
  ldet_real : ∀ β q, q < c.n → conj (c.loc β q).det = (c.loc β q).det
  U_real : ∀ i, i < c.n → ∀ j, j < c.n → conj (c.U i j) = c.U i j

/-- One atom, one basis: `ca |a⟩⟨b| + cd |b⟩⟨b|` plus its hermitian conjugate. -/
theorem drive_alg (L : ConjLaws K) (ag ag' Pab Pba Pba' Pbb Pbb' : Prop)
    [Decidable ag] [Decidable ag'] [Decidable Pab] [Decidable Pba] [Decidable Pba']
    [Decidable Pbb] [Decidable Pbb'] (hag : ag' ↔ ag) (hba : Pba' ↔ Pba) (hbb : Pbb' ↔ Pbb)
    (ca cd : K) :
    (ca * ((if ag then 1 else 0) * (if Pab then 1 else 0))
      + cd * ((if ag then 1 else 0) * (if Pbb then 1 else 0)))
    + conj (ca * ((if ag' then 1 else 0) * (if Pba' then 1 else 0))
      + cd * ((if ag' then 1 else 0) * (if Pbb' then 1 else 0)))
    = if ag then ((if Pab then ca else 0)
        + ((if Pba then conj ca else 0) + (if Pbb then cd + conj cd else 0))) else 0 := by
  by_cases h0 : ag <;> by_cases h1 : Pab <;> by_cases h2 : Pba <;> by_cases h3 : Pbb <;>
    simp [h0, h1, h2, h3, hag, hba, hbb, L.conj_add, L.conj_zero] <;> ring

omit [HasConj K] in
theorem driveTerms_entry (c : HamIn K) (β : Basis) (s t : Nat → Nat)
    (hs : ∀ j, j < c.n → s j < c.d) (ht : ∀ j, j < c.n → t j < c.d) :
    driveTerms c β (idxOf c.d c.n s) (idxOf c.d c.n t)
      = sumN c.n (fun q =>
          (coeffAmp c (c.glob β) + coeffAmp c (c.loc β q))
            * ((if agreeOff c.n [q] s t then 1 else 0) * sigma c.eb β.a β.b (s q) (t q))
          + (coeffDet c (c.glob β) + coeffDet c (c.loc β q))
            * ((if agreeOff c.n [q] s t then 1 else 0) * sigma c.eb β.b β.b (s q) (t q))) := by
  simp only [driveTerms, globalTerms, localTerms, globalOp, Mat.add, Mat.smul, Mat.sumN]
  rw [← sumN_mul_left, ← sumN_mul_left, ← sumN_add, ← sumN_add]
  apply sumN_congr
  intro q hq
  rw [buildOp_one c.d c.n q _ s t hq hs ht, buildOp_one c.d c.n q _ s t hq hs ht]
  ring

theorem drive_pair (L : ConjLaws K) (c : HamIn K) (R : RealIn c) (β : Basis) (s t : Nat → Nat)
    (hs : ∀ j, j < c.n → s j < c.d) (ht : ∀ j, j < c.n → t j < c.d) :
    driveTerms c β (idxOf c.d c.n s) (idxOf c.d c.n t)
      + conj (driveTerms c β (idxOf c.d c.n t) (idxOf c.d c.n s))
      = sumN c.n (fun i => docDrive c β i s t) := by
  rw [driveTerms_entry c β s t hs ht, driveTerms_entry c β t s ht hs, sumN_conj L, ← sumN_add]
  apply sumN_congr
  intro q hq
  have hcd : (coeffDet c (c.glob β) + coeffDet c (c.loc β q))
      + conj (coeffDet c (c.glob β) + coeffDet c (c.loc β q)) = -(totalDet c β q) := by
    simp only [coeffDet, totalDet, L.conj_add, L.conj_mul, L.conj_neg, R.half_real, R.gdet_real,
      R.ldet_real β q hq]
    have : -c.half * (c.glob β).det + -c.half * (c.loc β q).det
        + (-c.half * (c.glob β).det + -c.half * (c.loc β q).det)
        = -((c.half + c.half) * ((c.glob β).det + (c.loc β q).det)) := by ring
    rw [this, R.half_add]; ring
  have h := drive_alg L (agreeOff c.n [q] s t) (agreeOff c.n [q] t s)
    (isSt c.eb (s q) β.a ∧ isSt c.eb (t q) β.b) (isSt c.eb (s q) β.b ∧ isSt c.eb (t q) β.a)
    (isSt c.eb (t q) β.a ∧ isSt c.eb (s q) β.b) (isSt c.eb (s q) β.b ∧ isSt c.eb (t q) β.b)
    (isSt c.eb (t q) β.b ∧ isSt c.eb (s q) β.b) (agreeOff_symm _ _ _ _) and_comm and_comm
    (coeffAmp c (c.glob β) + coeffAmp c (c.loc β q)) (coeffDet c (c.glob β) + coeffDet c (c.loc β q))
  rw [hcd] at h
  exact h

/-- One pair, XY: `u |u⟩⟨d|_i |d⟩⟨u|_j` plus its hermitian conjugate. -/
theorem pair_alg (L : ConjLaws K) (ag ag' A B A' B' P1 P2 : Prop)
    [Decidable ag] [Decidable ag'] [Decidable A] [Decidable B] [Decidable A'] [Decidable B']
    [Decidable P1] [Decidable P2] (hag : ag' ↔ ag) (h1 : P1 ↔ A ∧ B) (h2 : P2 ↔ A' ∧ B')
    (u : K) (hu : conj u = u) :
    u * ((if ag then 1 else 0) * ((if A then 1 else 0) * (if B then 1 else 0)))
      + conj (u * ((if ag' then 1 else 0) * ((if A' then 1 else 0) * (if B' then 1 else 0))))
    = if ag then ((if P1 then u else 0) + (if P2 then u else 0)) else 0 := by
  by_cases h0 : ag <;> by_cases a : A <;> by_cases b : B <;> by_cases a' : A' <;> by_cases b' : B' <;>
    simp [h0, a, b, a', b', hag, h1, h2, L.conj_zero, hu]

/-- One pair, Ising: `w n_i n_j` plus its hermitian conjugate, `w + conj w = u`. -/
theorem vdw_alg (L : ConjLaws K) (ag ag' A B A' B' : Prop)
    [Decidable ag] [Decidable ag'] [Decidable A] [Decidable B] [Decidable A'] [Decidable B']
    (hag : ag' ↔ ag) (hA : A' ↔ A) (hB : B' ↔ B) (w u : K) (hw : w + conj w = u) :
    w * ((if ag then 1 else 0) * ((if A then 1 else 0) * (if B then 1 else 0)))
      + conj (w * ((if ag' then 1 else 0) * ((if A' then 1 else 0) * (if B' then 1 else 0))))
    = if ag ∧ A ∧ B then u else 0 := by
  by_cases h0 : ag <;> by_cases a : A <;> by_cases b : B <;>
    simp [h0, a, b, hag, hA, hB, L.conj_zero, hw]

theorem not_isSt_of_not_mem (eb : List St) (k : Nat) (p : St) (h : p ∉ eb) : ¬ isSt eb k p := by
  unfold isSt
  intro e
  exact h (List.mem_of_getElem? e)

/-- The XY pair term plus its hermitian conjugate, between configurations. -/
theorem xyTerm_pair (L : ConjLaws K) (c : HamIn K) (R : RealIn c) (i j : Nat) (s t : Nat → Nat)
    (hi : i < c.n) (hj : j < c.n) (hne : i ≠ j)
    (hs : ∀ j, j < c.n → s j < c.d) (ht : ∀ j, j < c.n → t j < c.d) :
    xyTerm c i j (idxOf c.d c.n s) (idxOf c.d c.n t)
      + conj (xyTerm c i j (idxOf c.d c.n t) (idxOf c.d c.n s)) = docXY c i j s t := by
  simp only [xyTerm, Mat.smul]
  rw [buildOp_two c.d c.n i j _ _ s t hi hj hne hs ht,
    buildOp_two c.d c.n i j _ _ t s hi hj hne ht hs]
  exact pair_alg L (agreeOff c.n [i, j] s t) (agreeOff c.n [i, j] t s)
    (isSt c.eb (s i) .u ∧ isSt c.eb (t i) .d) (isSt c.eb (s j) .d ∧ isSt c.eb (t j) .u)
    (isSt c.eb (t i) .u ∧ isSt c.eb (s i) .d) (isSt c.eb (t j) .d ∧ isSt c.eb (s j) .u)
    _ _ (agreeOff_symm _ _ _ _)
    ⟨fun ⟨a, b, c, d⟩ => ⟨⟨a, b⟩, ⟨c, d⟩⟩, fun ⟨⟨a, b⟩, ⟨c, d⟩⟩ => ⟨a, b, c, d⟩⟩
    ⟨fun ⟨a, b, c, d⟩ => ⟨⟨b, a⟩, ⟨d, c⟩⟩, fun ⟨⟨b, a⟩, ⟨d, c⟩⟩ => ⟨a, b, c, d⟩⟩
    (c.U i j) (R.U_real i hi j hj)

/-- The van der Waals pair term (coefficient `U/2`) plus its hermitian conjugate. -/
theorem vdwTerm_pair (L : ConjLaws K) (c : HamIn K) (R : RealIn c) (i j : Nat) (s t : Nat → Nat)
    (hi : i < c.n) (hj : j < c.n) (hne : i ≠ j)
    (hs : ∀ j, j < c.n → s j < c.d) (ht : ∀ j, j < c.n → t j < c.d) :
    vdwTerm c i j (idxOf c.d c.n s) (idxOf c.d c.n t)
      + conj (vdwTerm c i j (idxOf c.d c.n t) (idxOf c.d c.n s)) = docVdw c i j s t := by
  simp only [vdwTerm, Mat.smul]
  rw [buildOp_two c.d c.n i j _ _ s t hi hj hne hs ht,
    buildOp_two c.d c.n i j _ _ t s hi hj hne ht hs]
  have hw : c.half * c.U i j + conj (c.half * c.U i j) = c.U i j := by
    rw [L.conj_mul, R.half_real, R.U_real i hi j hj]
    have : c.half * c.U i j + c.half * c.U i j = (c.half + c.half) * c.U i j := by ring
    rw [this, R.half_add]; ring
  exact vdw_alg L (agreeOff c.n [i, j] s t) (agreeOff c.n [i, j] t s)
    (isSt c.eb (s i) .r ∧ isSt c.eb (t i) .r) (isSt c.eb (s j) .r ∧ isSt c.eb (t j) .r)
    (isSt c.eb (t i) .r ∧ isSt c.eb (s i) .r) (isSt c.eb (t j) .r ∧ isSt c.eb (s j) .r)
    (agreeOff_symm _ _ _ _) and_comm and_comm _ _ hw

theorem inter_pair (L : ConjLaws K) (c : HamIn K) (R : RealIn c) (s t : Nat → Nat)
    (hs : ∀ j, j < c.n → s j < c.d) (ht : ∀ j, j < c.n → t j < c.d) :
    interaction c (idxOf c.d c.n s) (idxOf c.d c.n t)
      + conj (interaction c (idxOf c.d c.n t) (idxOf c.d c.n s))
      = sumPairs c.n (fun i j => docPair c i j s t) := by
  unfold interaction
  by_cases h : (c.xy || c.eb.contains .r) = true
  · simp only [h, if_true, interactionTerm, Mat.sumPairs]
    rw [sumPairs_conj L, ← sumPairs_add]
    apply sumPairs_congr
    intro i j hij hj
    have hi : i < c.n := by omega
    have hne : i ≠ j := by omega
    unfold docPair
    by_cases hxy : c.xy = true
    · simp only [hxy, if_true]
      by_cases hm : (c.maskOn && (c.mask i || c.mask j)) = true
      · simp [hm, Mat.zero, L.conj_zero]
      · simp only [hm, Bool.false_eq_true, ↓reduceIte]
        exact xyTerm_pair L c R i j s t hi hj hne hs ht
    · simp only [hxy, Bool.false_eq_true, ↓reduceIte]
      exact vdwTerm_pair L c R i j s t hi hj hne hs ht
  · have hxy : c.xy = false := by
      cases hx : c.xy <;> simp [hx] at h ⊢
    have hr : St.r ∉ c.eb := by
      intro hmem
      apply h
      simp [hxy, hmem]
    simp only [h, Bool.false_eq_true, ↓reduceIte]
    have hz : sumPairs c.n (fun i j => docPair c i j s t) = sumPairs c.n (fun _ _ => (0 : K)) := by
      apply sumPairs_congr
      intro i j _ _
      unfold docPair docVdw
      have := not_isSt_of_not_mem c.eb (s i) .r hr
      simp [hxy, this]
    rw [hz, sumPairs_zero]
    simp [Mat.zero, L.conj_zero]

/-- **Code = documentation, between configurations.** -/
theorem H_code_idxOf (L : ConjLaws K) (c : HamIn K) (R : RealIn c) (s t : Nat → Nat)
    (hs : ∀ j, j < c.n → s j < c.d) (ht : ∀ j, j < c.n → t j < c.d) :
    H_code c (idxOf c.d c.n s) (idxOf c.d c.n t) = H_docC c s t := by
  unfold H_docC
  rw [← inter_pair L c R s t hs ht, ← drive_pair L c R .groundRydberg s t hs ht,
    ← drive_pair L c R .digital s t hs ht, ← drive_pair L c R .XY s t hs ht]
  simp only [H_code, hamHalf, Mat.add, Mat.dagger, L.conj_add]
  ring

/-- `H = T + T†` is hermitian whatever `T` is. -/
theorem H_code_herm (L : ConjLaws K) (c : HamIn K) (k l : Nat) :
    H_code c l k = conj (H_code c k l) := by
  simp only [H_code, Mat.add, Mat.dagger, L.conj_add, L.conj_conj]
  ring

omit [HasConj K] in
theorem docVdw_agree (c : HamIn K) (hnd : c.eb.Nodup) (i j : Nat) (s t : Nat → Nat)
    (hi : i < c.n) (hj : j < c.n) (h : docVdw c i j s t ≠ 0) : ∀ k, k < c.n → s k = t k := by
  unfold docVdw at h
  split at h
  · rename_i hc
    obtain ⟨hag, ⟨h1, h2⟩, ⟨h3, h4⟩⟩ := hc
    have inj : ∀ a b : Nat, isSt c.eb a .r → isSt c.eb b .r → a = b := by
      intro a b ha hb
      unfold isSt at ha hb
      obtain ⟨ha1, ha2⟩ := List.getElem?_eq_some_iff.mp ha
      obtain ⟨hb1, hb2⟩ := List.getElem?_eq_some_iff.mp hb
      exact (List.Nodup.getElem_inj_iff hnd).mp (ha2.trans hb2.symm)
    intro k hk
    by_cases e1 : k = i
    · subst e1; exact inj _ _ h1 h2
    · by_cases e2 : k = j
      · subst e2; exact inj _ _ h3 h4
      · exact hag k hk (by simp [e1, e2])
  · exact absurd rfl h

end Units

/-! ## the concrete scalars `Cx R` -/

namespace Cx
variable {R : Type} [CommRing R]

omit [CommRing R] in
@[ext] theorem ext' {a b : Cx R} (h1 : a.re = b.re) (h2 : a.im = b.im) : a = b := by
  cases a; cases b; simp_all

@[simp] theorem add_re (a b : Cx R) : (a + b).re = a.re + b.re := rfl
@[simp] theorem add_im (a b : Cx R) : (a + b).im = a.im + b.im := rfl
@[simp] theorem mul_re (a b : Cx R) : (a * b).re = a.re * b.re - a.im * b.im := rfl
@[simp] theorem mul_im (a b : Cx R) : (a * b).im = a.re * b.im + a.im * b.re := rfl
@[simp] theorem neg_re (a : Cx R) : (-a).re = -a.re := rfl
@[simp] theorem neg_im (a : Cx R) : (-a).im = -a.im := rfl
@[simp] theorem zero_re : (0 : Cx R).re = 0 := rfl
@[simp] theorem zero_im : (0 : Cx R).im = 0 := rfl
@[simp] theorem one_re : (1 : Cx R).re = 1 := rfl
@[simp] theorem one_im : (1 : Cx R).im = 0 := rfl
@[simp] theorem conj_re (a : Cx R) : (conj a).re = a.re := rfl
@[simp] theorem conj_im (a : Cx R) : (conj a).im = -a.im := rfl

/-- Pairs over a commutative ring form a commutative ring (with the model's `+ * - 0 1`). -/
instance commRing : CommRing (Cx R) :=
  CommRing.ofMinimalAxioms
    (by intro a b c; ext <;> simp <;> ring)
    (by intro a; ext <;> simp)
    (by intro a; ext <;> simp)
    (by intro a b c; ext <;> simp <;> ring)
    (by intro a b; ext <;> simp <;> ring)
    (by intro a; ext <;> simp)
    (by intro a b c; ext <;> simp <;> ring)

theorem conjLaws : ConjLaws (Cx R) where
  conj_add := by intro a b; ext <;> simp; ring
  conj_mul := by intro a b; ext <;> simp; ring
  conj_neg := by intro a; ext <;> simp
  conj_zero := by ext <;> simp
  conj_one := by ext <;> simp
  conj_conj := by intro a; ext <;> simp

end Cx

end Ham
end Pulser
