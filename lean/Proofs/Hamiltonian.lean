/-
  Proofs.Hamiltonian — helper lemmas for C05.

  Part A: register tensor order (Kronecker product ↔ digits of the basis-state number).
  Part B: algebra of the matrix units: the code's assembly (`hamHalf + dagger`) equals the
          documented entry-wise formula, over any commutative ring with a conjugation.
-/
import Mathlib.Tactic.Ring
import PulserModel.Hamiltonian

namespace Pulser
namespace Ham

/-! ## Part A — indices -/

theorem idxOf_congr (d n : Nat) (s t : Nat → Nat) (h : ∀ j, j < n → s j = t j) :
    idxOf d n s = idxOf d n t := by
  induction n with
  | zero => rfl
  | succ m ih =>
    simp only [idxOf]
    rw [ih (fun j hj => h j (by omega)), h m (by omega)]

theorem idxOf_lt (d n : Nat) (s : Nat → Nat) (hs : ∀ j, j < n → s j < d) :
    idxOf d n s < d ^ n := by
  induction n with
  | zero => simp [idxOf]
  | succ m ih =>
    simp only [idxOf, Nat.pow_succ]
    have h1 := ih (fun j hj => hs j (by omega))
    have h2 := hs m (by omega)
    calc idxOf d m s * d + s m < idxOf d m s * d + d := by omega
      _ = (idxOf d m s + 1) * d := by ring
      _ ≤ d ^ m * d := Nat.mul_le_mul_right d h1

theorem digit_lt (d n j k : Nat) (hd : 0 < d) : digit d n j k < d := Nat.mod_lt _ hd

theorem digit_succ_last (d m k : Nat) : digit d (m + 1) m k = k % d := by
  simp [digit]

theorem digit_succ_lt (d m j k : Nat) (hj : j < m) : digit d (m + 1) j k = digit d m j (k / d) := by
  unfold digit
  have e : m + 1 - 1 - j = (m - 1 - j) + 1 := by omega
  rw [e, Nat.pow_succ, Nat.mul_comm, ← Nat.div_div_eq_div_mul]

/-- The digits of the index of a configuration are the configuration. -/
theorem digit_idxOf (d n : Nat) (s : Nat → Nat) (hs : ∀ j, j < n → s j < d) (j : Nat) (hj : j < n) :
    digit d n j (idxOf d n s) = s j := by
  induction n with
  | zero => omega
  | succ m ih =>
    have hm := hs m (by omega)
    have hd : 0 < d := by omega
    simp only [idxOf]
    by_cases h : j = m
    · subst h
      rw [digit_succ_last, Nat.mul_comm, Nat.mul_add_mod, Nat.mod_eq_of_lt hm]
    · have hj' : j < m := by omega
      rw [digit_succ_lt _ _ _ _ hj', Nat.mul_comm, Nat.mul_add_div hd, Nat.div_eq_of_lt hm, Nat.add_zero]
      exact ih (fun j hj => hs j (by omega)) hj'

/-- Every basis-state number below `d ^ n` is the index of its digits. -/
theorem idxOf_digit (d n k : Nat) (hd : 0 < d) (hk : k < d ^ n) :
    idxOf d n (fun j => digit d n j k) = k := by
  induction n generalizing k with
  | zero => simp [idxOf]; simp at hk; omega
  | succ m ih =>
    simp only [idxOf]
    rw [digit_succ_last]
    have h1 : idxOf d m (fun j => digit d (m + 1) j k) = idxOf d m (fun j => digit d m j (k / d)) :=
      idxOf_congr _ _ _ _ (fun j hj => digit_succ_lt d m j k hj)
    have h2 : k / d < d ^ m := by
      rw [Nat.div_lt_iff_lt_mul hd]
      simpa [Nat.pow_succ] using hk
    rw [h1, ih (k / d) h2]
    exact Nat.div_add_mod' k d

section Ring
variable {K : Type} [CommRing K]

theorem kron_entry (q : Nat) (A B : Mat K) (a a' b b' : Nat) (hb : b < q) (hb' : b' < q) :
    kron q A B (a * q + b) (a' * q + b') = A a a' * B b b' := by
  unfold kron
  have hq : 0 < q := by omega
  rw [Nat.mul_comm a q, Nat.mul_comm a' q, Nat.mul_add_div hq, Nat.mul_add_div hq,
    Nat.div_eq_of_lt hb, Nat.div_eq_of_lt hb', Nat.mul_add_mod, Nat.mul_add_mod,
    Nat.mod_eq_of_lt hb, Nat.mod_eq_of_lt hb']
  simp

/-- **Tensor order.** The entry of `qutip.tensor([F 0, …, F (n-1)])` between two
configurations is the product of the local entries, atom by atom. -/
theorem tensorN_idxOf (d n : Nat) (F : Nat → Mat K) (s t : Nat → Nat)
    (hs : ∀ j, j < n → s j < d) (ht : ∀ j, j < n → t j < d) :
    tensorN d n F (idxOf d n s) (idxOf d n t) = prodN n (fun j => F j (s j) (t j)) := by
  induction n with
  | zero => simp [tensorN, prodN]
  | succ m ih =>
    simp only [tensorN, idxOf, prodN]
    rw [kron_entry _ _ _ _ _ _ _ (hs m (by omega)) (ht m (by omega)),
      ih (fun j hj => hs j (by omega)) (fun j hj => ht j (by omega))]

/-! ### finite sums and products -/

theorem sumN_congr {α : Type} [Add α] [Zero α] (n : Nat) (f g : Nat → α)
    (h : ∀ i, i < n → f i = g i) : sumN n f = sumN n g := by
  induction n with
  | zero => rfl
  | succ m ih =>
    simp only [sumN]
    rw [ih (fun i hi => h i (by omega)), h m (by omega)]

theorem sumN_zero (n : Nat) : sumN n (fun _ => (0 : K)) = 0 := by
  induction n with
  | zero => rfl
  | succ m ih => simp [sumN, ih]

theorem sumN_add (n : Nat) (f g : Nat → K) :
    sumN n (fun i => f i + g i) = sumN n f + sumN n g := by
  induction n with
  | zero => simp [sumN]
  | succ m ih => simp only [sumN, ih]; ring

theorem sumN_mul_left (n : Nat) (c : K) (f : Nat → K) :
    sumN n (fun i => c * f i) = c * sumN n f := by
  induction n with
  | zero => simp [sumN]
  | succ m ih => simp only [sumN, ih]; ring

theorem prodN_congr (n : Nat) (f g : Nat → K) (h : ∀ i, i < n → f i = g i) :
    prodN n f = prodN n g := by
  induction n with
  | zero => rfl
  | succ m ih =>
    simp only [prodN]
    rw [ih (fun i hi => h i (by omega)), h m (by omega)]

theorem prodN_mul (n : Nat) (f g : Nat → K) :
    prodN n (fun j => f j * g j) = prodN n f * prodN n g := by
  induction n with
  | zero => simp [prodN]
  | succ m ih => simp only [prodN, ih]; ring

theorem prodN_single (n i : Nat) (a : K) :
    prodN n (fun j => if j = i then a else 1) = if i < n then a else 1 := by
  induction n with
  | zero => simp [prodN]
  | succ m ih =>
    simp only [prodN, ih]
    by_cases h1 : i < m
    · have : m ≠ i := by omega
      simp [h1, this, show i < m + 1 by omega]
    · by_cases h2 : m = i
      · simp [h1, h2]
      · simp [h1, h2, show ¬ i < m + 1 by omega]

theorem agreeOff_succ (m : Nat) (ex : List Nat) (s t : Nat → Nat) :
    agreeOff (m + 1) ex s t ↔ agreeOff m ex s t ∧ (m ∉ ex → s m = t m) := by
  unfold agreeOff
  constructor
  · intro h
    exact ⟨fun j hj => h j (by omega), h m (by omega)⟩
  · rintro ⟨h1, h2⟩ j hj
    by_cases e : j = m
    · subst e; exact h2
    · exact h1 j (by omega)

theorem prodN_delta (n : Nat) (ex : List Nat) (s t : Nat → Nat) :
    prodN n (fun j => if j ∈ ex then (1 : K) else if s j = t j then 1 else 0)
      = if agreeOff n ex s t then 1 else 0 := by
  induction n with
  | zero => simp [prodN, agreeOff]
  | succ m ih =>
    simp only [prodN, ih, agreeOff_succ]
    by_cases h1 : agreeOff m ex s t <;> by_cases h2 : m ∈ ex <;> by_cases h3 : s m = t m <;>
      simp [h1, h2, h3]

end Ring

end Ham
end Pulser
