/-
  Proofs.Geometry — specification predicates and helper lemmas for C12.

  The declarative side (`CoordsOk`, `LayoutFits`, `Fits`, `ValidParams`) is stated here
  because the lemmas that connect it to the executable model need it; the property
  theorems themselves are in Properties/C12.lean.
-/
import PulserModel.Geometry
import Mathlib.Tactic.Linarith
import Mathlib.Tactic.Ring
import Mathlib.Algebra.Order.Field.Rat
import Mathlib.Analysis.Real.Sqrt

namespace Pulser
namespace Geom

/-! ### Removing the square root -/

/-- In an ordered field, for `d ≥ 0`:  `d < c  ↔  0 < c ∧ d² < c²`. -/
theorem lt_iff_sq_lt {K : Type} [Field K] [LinearOrder K] [IsStrictOrderedRing K] {d c : K}
    (hd : 0 ≤ d) : d < c ↔ (0 < c ∧ d * d < c * c) := by
  constructor
  · intro h
    exact ⟨lt_of_le_of_lt hd h, by nlinarith⟩
  · rintro ⟨hc, h⟩
    by_contra hn
    rw [not_lt] at hn
    nlinarith

/-- The comparison the code makes on the distance `d` is the comparison the model makes
on the squared distance `s = d²` (rational `d`). -/
theorem tooClose_iff (m s d : Rat) (hd : 0 ≤ d) (hs : d * d = s) :
    tooClose m s = true ↔ (d - m < -eps ∨ d < eps) := by
  have heps : (0 : Rat) < eps := by unfold eps; norm_num
  have h1 : d - m < -eps ↔ (0 < m - eps ∧ s < (m - eps) * (m - eps)) := by
    rw [← hs, ← lt_iff_sq_lt hd]; constructor <;> intro h <;> linarith
  have h2 : d < eps ↔ s < eps * eps := by
    rw [← hs, lt_iff_sq_lt hd]; exact ⟨fun h => h.2, fun h => ⟨heps, h⟩⟩
  simp only [tooClose, Bool.or_eq_true, Bool.and_eq_true, decide_eq_true_eq]
  rw [h1, h2]

/-- The same with the real square root: whatever the (rational) squared distance `s`,
`√s − m < −ε ∨ √s < ε` (what `_validate_atom_distance` computes, in exact arithmetic)
is `tooClose m s`. -/
theorem tooClose_iff_sqrt (m s : Rat) (hs : 0 ≤ s) :
    tooClose m s = true ↔
      (Real.sqrt (s : ℝ) - (m : ℝ) < -((eps : Rat) : ℝ) ∨ Real.sqrt (s : ℝ) < ((eps : Rat) : ℝ)) := by
  have hd : (0 : ℝ) ≤ Real.sqrt (s : ℝ) := Real.sqrt_nonneg _
  have hs' : (0 : ℝ) ≤ (s : ℝ) := by exact_mod_cast hs
  have hsq : Real.sqrt (s : ℝ) * Real.sqrt (s : ℝ) = (s : ℝ) := Real.mul_self_sqrt hs'
  have heps : (0 : ℝ) < ((eps : Rat) : ℝ) := by unfold eps; norm_num
  have h1 : Real.sqrt (s : ℝ) - (m : ℝ) < -((eps : Rat) : ℝ) ↔
      (0 < m - eps ∧ s < (m - eps) * (m - eps)) := by
    have : Real.sqrt (s : ℝ) - (m : ℝ) < -((eps : Rat) : ℝ) ↔
        Real.sqrt (s : ℝ) < ((m - eps : Rat) : ℝ) := by
      push_cast; constructor <;> intro h <;> linarith
    rw [this, lt_iff_sq_lt hd, hsq]
    constructor
    · rintro ⟨a, b⟩
      exact ⟨by exact_mod_cast a, by exact_mod_cast b⟩
    · rintro ⟨a, b⟩
      exact ⟨by exact_mod_cast a, by exact_mod_cast b⟩
  have h2 : Real.sqrt (s : ℝ) < ((eps : Rat) : ℝ) ↔ s < eps * eps := by
    rw [lt_iff_sq_lt hd, hsq]
    constructor
    · rintro ⟨_, b⟩; exact_mod_cast b
    · intro b; exact ⟨heps, by exact_mod_cast b⟩
  simp only [tooClose, Bool.or_eq_true, Bool.and_eq_true, decide_eq_true_eq]
  rw [h1, h2]

/-! ### Specification -/

/-- What `_validate_coords` demands of a list of positions. -/
structure CoordsOk (dev : DeviceGeom) (ps : List Pos) (atoms : Bool) : Prop where
  /-- no more than the maximum number of atoms (registers only, when defined) -/
  count : atoms = true → ∀ k, dev.maxAtomNum = some k → ps.length ≤ k
  /-- every pair is at least the minimum distance apart (up to 1e-6) and distinct -/
  apart : ∀ i j, i < j → j < ps.length →
    tooClose dev.minDist (sqDist (ps.getD i []) (ps.getD j [])) = false
  /-- every position lies within the maximum radial distance (when defined) -/
  within : ∀ R, dev.maxRadial = some R → ∀ i, i < ps.length →
    sqNorm (ps.getD i []) ≤ (R : Rat) * R

/-- What `validate_layout` demands. -/
structure LayoutFits (dev : DeviceGeom) (L : LayoutG) : Prop where
  dim : L.dim ≤ dev.dims
  minTraps : dev.minTraps ≤ L.traps.length
  maxTraps : ∀ k, dev.maxTraps = some k → L.traps.length ≤ k
  coords : CoordsOk dev L.traps false

/-- A register fits a device. -/
structure Fits (dev : DeviceGeom) (reg : RegG) : Prop where
  dim : reg.dim ≤ dev.dims
  coords : CoordsOk dev reg.atoms true
  layout : ∀ L, reg.layout = some L →
    LayoutFits dev L ∧ (reg.atoms.length : Rat) ≤ (L.traps.length : Rat) * dev.maxFilling

/-! ### Culprit lists -/

theorem mem_allPairs {n i j : Nat} : (i, j) ∈ allPairs n ↔ i < j ∧ j < n := by
  simp only [allPairs, List.mem_flatMap, List.mem_range, List.mem_map, List.mem_filter,
    decide_eq_true_eq, Prod.mk.injEq]
  constructor
  · rintro ⟨a, _, b, ⟨hb, hab⟩, rfl, rfl⟩; exact ⟨hab, hb⟩
  · rintro ⟨h1, h2⟩; exact ⟨i, by omega, j, ⟨h2, h1⟩, rfl, rfl⟩

theorem mem_badPairs {dev : DeviceGeom} {ps : List Pos} {i j : Nat} :
    (i, j) ∈ badPairs dev ps ↔
      i < j ∧ j < ps.length ∧ tooClose dev.minDist (sqDist (ps.getD i []) (ps.getD j [])) = true := by
  simp only [badPairs, List.mem_filter, mem_allPairs, and_assoc]

theorem badPairs_eq_nil_iff {dev : DeviceGeom} {ps : List Pos} :
    badPairs dev ps = [] ↔ ∀ i j, i < j → j < ps.length →
      tooClose dev.minDist (sqDist (ps.getD i []) (ps.getD j [])) = false := by
  constructor
  · intro h i j hij hj
    cases hc : tooClose dev.minDist (sqDist (ps.getD i []) (ps.getD j [])) with
    | false => rfl
    | true =>
      have : (i, j) ∈ badPairs dev ps := mem_badPairs.mpr ⟨hij, hj, hc⟩
      rw [h] at this; cases this
  · intro h
    rw [List.eq_nil_iff_forall_not_mem]
    rintro ⟨i, j⟩ hm
    obtain ⟨h1, h2, h3⟩ := mem_badPairs.mp hm
    rw [h i j h1 h2] at h3; cases h3

theorem mem_tooFar {R : Nat} {ps : List Pos} {i : Nat} :
    i ∈ tooFar R ps ↔ i < ps.length ∧ (R : Rat) * R < sqNorm (ps.getD i []) := by
  simp [tooFar, List.mem_filter]

theorem tooFar_eq_nil_iff {R : Nat} {ps : List Pos} :
    tooFar R ps = [] ↔ ∀ i, i < ps.length → sqNorm (ps.getD i []) ≤ (R : Rat) * R := by
  constructor
  · intro h i hi
    by_contra hn
    have : i ∈ tooFar R ps := mem_tooFar.mpr ⟨hi, lt_of_not_ge hn⟩
    rw [h] at this; cases this
  · intro h
    rw [List.eq_nil_iff_forall_not_mem]
    intro i hm
    obtain ⟨h1, h2⟩ := mem_tooFar.mp hm
    exact absurd (h i h1) (not_le.mpr h2)

/-! ### `validate_*` accept exactly what fits -/

theorem exceeds_false_iff (lim : Option Nat) (n : Nat) :
    exceeds lim n = false ↔ ∀ k, lim = some k → n ≤ k := by
  unfold exceeds
  cases lim with
  | none => simp
  | some k => simp

theorem radiusCheck_none_iff (lim : Option Nat) (ps : List Pos) :
    radiusCheck lim ps = none ↔
      ∀ R, lim = some R → ∀ i, i < ps.length → sqNorm (ps.getD i []) ≤ (R : Rat) * R := by
  unfold radiusCheck
  cases lim with
  | none => simp
  | some R =>
    simp only [Option.some.injEq, forall_eq']
    by_cases h : tooFar R ps = []
    · simp only [h, ne_eq, not_true_eq_false, if_false, true_iff]
      exact tooFar_eq_nil_iff.mp h
    · simp only [ne_eq, h, not_false_eq_true, if_true]
      constructor
      · intro h'; cases h'
      · intro h'; exact absurd (tooFar_eq_nil_iff.mpr h') h

theorem validateCoords_none_iff (dev : DeviceGeom) (ps : List Pos) (atoms : Bool) :
    validateCoords dev ps atoms = none ↔ CoordsOk dev ps atoms := by
  unfold validateCoords
  by_cases h1 : (atoms && exceeds dev.maxAtomNum ps.length) = true
  · rw [if_pos h1]
    constructor
    · intro h; cases h
    · rintro ⟨hc, _, _⟩
      simp only [Bool.and_eq_true] at h1
      have := (exceeds_false_iff _ _).mpr (hc h1.1)
      rw [h1.2] at this; cases this
  · rw [if_neg h1]
    by_cases h2 : badPairs dev ps = []
    · rw [if_neg (by simpa using h2), radiusCheck_none_iff]
      constructor
      · intro hw
        refine ⟨?_, badPairs_eq_nil_iff.mp h2, hw⟩
        intro ha
        rw [ha] at h1
        exact (exceeds_false_iff _ _).mp (by simpa using h1)
      · intro h; exact h.within
    · rw [if_pos (by simpa using h2)]
      constructor
      · intro h; cases h
      · intro h; exact absurd (badPairs_eq_nil_iff.mpr h.apart) h2

theorem validateLayout_none_iff (dev : DeviceGeom) (L : LayoutG) :
    validateLayout dev L = none ↔ LayoutFits dev L := by
  unfold validateLayout
  by_cases h1 : dev.dims < L.dim
  · rw [if_pos h1]
    constructor
    · intro h; cases h
    · intro h; have := h.dim; omega
  · rw [if_neg h1]
    by_cases h2 : L.traps.length < dev.minTraps
    · rw [if_pos h2]
      constructor
      · intro h; cases h
      · intro h; have := h.minTraps; omega
    · rw [if_neg h2]
      by_cases h3 : exceeds dev.maxTraps L.traps.length = true
      · rw [if_pos h3]
        constructor
        · intro h; cases h
        · intro h
          have := (exceeds_false_iff _ _).mpr h.maxTraps
          rw [h3] at this; cases this
      · rw [if_neg h3]
        have h3' : exceeds dev.maxTraps L.traps.length = false := by simpa using h3
        constructor
        · intro h
          have hc : validateCoords dev L.traps false = none := by
            cases hv : validateCoords dev L.traps false with
            | none => rfl
            | some e => rw [hv] at h; cases h
          exact ⟨by omega, by omega, (exceeds_false_iff _ _).mp h3',
            (validateCoords_none_iff _ _ _).mp hc⟩
        · intro h
          rw [(validateCoords_none_iff _ _ _).mpr h.coords]; rfl

theorem validateFilling_none_iff (dev : DeviceGeom) (hf : 0 ≤ dev.maxFilling) (n t : Nat) :
    validateFilling dev n t = none ↔ (n : Rat) ≤ (t : Rat) * dev.maxFilling := by
  unfold validateFilling maxQubits
  have hx : (0 : Rat) ≤ (t : Rat) * dev.maxFilling := mul_nonneg (by exact_mod_cast Nat.zero_le t) hf
  have hfl : 0 ≤ ((t : Rat) * dev.maxFilling).floor := by
    rw [Rat.le_floor_iff]; exact_mod_cast hx
  have key : (n ≤ ((t : Rat) * dev.maxFilling).floor.toNat) ↔ (n : Rat) ≤ (t : Rat) * dev.maxFilling := by
    rw [show (n : Rat) = ((n : Int) : Rat) by norm_cast, ← Rat.le_floor_iff]
    omega
  constructor
  · intro h
    split at h
    · cases h
    · rename_i hn
      exact key.mp (by omega)
  · intro h
    have := key.mpr h
    rw [if_neg (by omega)]

theorem validateRegister_none_iff (dev : DeviceGeom) (hf : 0 ≤ dev.maxFilling) (reg : RegG) :
    validateRegister dev reg = none ↔ Fits dev reg := by
  unfold validateRegister
  constructor
  · intro h
    split at h
    · cases h
    · rename_i h1
      split at h
      · cases h
      · rename_i hc
        refine ⟨by omega, (validateCoords_none_iff _ _ _).mp hc, ?_⟩
        intro L hL
        rw [hL] at h
        simp only at h
        split at h
        · cases h
        · rename_i hl
          exact ⟨(validateLayout_none_iff _ _).mp hl, (validateFilling_none_iff dev hf _ _).mp h⟩
  · rintro ⟨h1, h2, h3⟩
    have e1 : ¬ dev.dims < reg.dim := by omega
    rw [if_neg e1, (validateCoords_none_iff _ _ _).mpr h2]
    cases hL : reg.layout with
    | none => rfl
    | some L =>
      obtain ⟨a, b⟩ := h3 L hL
      simp only [(validateLayout_none_iff _ _).mpr a]
      exact (validateFilling_none_iff dev hf _ _).mpr b

/-! ### Device construction -/

/-- An integer parameter is acceptable: undefined only where allowed, else positive. -/
def IntOk (optional : Bool) (v : Option Int) : Prop :=
  match v with
  | none => optional = true
  | some x => 0 < x

/-- The documented constraints on the parameters of a device. -/
structure ValidParams (p : DevParams) : Prop where
  dims : p.dimensions = 2 ∨ p.dimensions = 3
  ryd : 49 < p.rydbergLevel ∧ p.rydbergLevel < 101
  minDist : ∃ m, p.minAtomDistance = some m ∧ 0 ≤ m
  maxAtom : IntOk p.virtualDev p.maxAtomNum
  maxRadial : IntOk p.virtualDev p.maxRadialDistance
  maxSeq : IntOk true p.maxSequenceDuration
  maxRuns : IntOk true p.maxRuns
  minTraps : IntOk false p.minLayoutTraps
  maxTraps : IntOk true p.maxLayoutTraps
  filling : 0 < p.maxLayoutFilling ∧ p.maxLayoutFilling ≤ 1
  optimal : ∀ o, p.optimalLayoutFilling = some o → 0 < o ∧ o ≤ p.maxLayoutFilling
  traps : ∀ mx, p.maxLayoutTraps = some mx →
    p.minLayoutTraps.getD 1 ≤ mx ∧
    ∀ a, p.maxAtomNum = some a → a ≤ (p.maxLayoutFilling * (mx : Rat)).floor
  slm : p.supportsSlmMask = true → p.dmms ≠ []
  ids : ∀ ids, p.channelIds = some ids →
    ids.Nodup ∧ ids.length = p.channels.length ∧ ∀ s ∈ ids, s ∉ dmmNames p.dmms.length
  xy : (∃ c ∈ p.channels, c.xy = true) → p.coeffXYIsFloat = true
  physical : p.virtualDev = false →
    (∀ c ∈ p.channels ++ p.dmms, c.virtualCh = false) ∧
    ∀ L ∈ p.layouts, LayoutFits p.geom L

theorem firstErr_none_iff {ε : Type} (l : List (Option ε)) :
    firstErr l = none ↔ ∀ x ∈ l, x = none := by
  induction l with
  | nil => simp [firstErr]
  | cons a rest ih =>
    cases a with
    | none => simp [firstErr, ih]
    | some e => simp [firstErr]

theorem checkInt_none_iff (name : String) (optional : Bool) (v : Option Int) :
    checkInt name optional v = none ↔ IntOk optional v := by
  unfold checkInt IntOk
  cases v with
  | none => cases optional <;> simp
  | some x => by_cases h : 0 < x <;> simp [h]

theorem checkMinDist_none_iff (v : Option Rat) :
    checkMinDist v = none ↔ ∃ m, v = some m ∧ 0 ≤ m := by
  unfold checkMinDist
  cases v with
  | none => simp
  | some m => by_cases h : 0 ≤ m <;> simp [h]

theorem checkTraps_none_iff (p : DevParams) :
    checkTraps p = none ↔ ∀ mx, p.maxLayoutTraps = some mx →
      p.minLayoutTraps.getD 1 ≤ mx ∧
      ∀ a, p.maxAtomNum = some a → a ≤ (p.maxLayoutFilling * (mx : Rat)).floor := by
  unfold checkTraps
  cases hm : p.maxLayoutTraps with
  | none => simp
  | some mx =>
    by_cases h1 : mx < p.minLayoutTraps.getD 1
    · simp only [h1, if_true]
      constructor
      · intro h; cases h
      · intro h; have := (h mx rfl).1; omega
    · simp only [h1, if_false]
      cases ha : p.maxAtomNum with
      | none =>
        simp only [Option.some.injEq, forall_eq', true_iff]
        exact ⟨by omega, fun a h => by cases h⟩
      | some a =>
        by_cases h2 : (p.maxLayoutFilling * (mx : Rat)).floor < a
        · simp only [h2, if_true]
          constructor
          · intro h; cases h
          · intro h; have := (h mx rfl).2 a rfl; omega
        · simp only [h2, if_false, Option.some.injEq, forall_eq', true_iff]
          exact ⟨by omega, by omega⟩

theorem checkChannelIds_none_iff (p : DevParams) :
    checkChannelIds p = none ↔ ∀ ids, p.channelIds = some ids →
      ids.Nodup ∧ ids.length = p.channels.length ∧ ∀ s ∈ ids, s ∉ dmmNames p.dmms.length := by
  unfold checkChannelIds
  cases hi : p.channelIds with
  | none => simp
  | some ids =>
    simp only [Option.some.injEq, forall_eq']
    by_cases h1 : ids.Nodup
    · by_cases h2 : ids.length = p.channels.length
      · by_cases h3 : ids.any (fun s => (dmmNames p.dmms.length).contains s) = true
        · simp only [h1, h2, h3, not_true_eq_false, if_false, ne_eq, if_true]
          constructor
          · intro h; cases h
          · rintro ⟨_, _, h⟩
            simp only [List.any_eq_true, List.contains_iff_mem] at h3
            obtain ⟨s, hs, hd⟩ := h3
            exact absurd hd (h s hs)
        · simp only [h1, h2, h3, not_true_eq_false, if_false, ne_eq, Bool.false_eq_true, true_iff,
            true_and]
          intro s hs hd
          apply h3
          simp only [List.any_eq_true, List.contains_iff_mem]
          exact ⟨s, hs, hd⟩
      · simp [h1, h2]
    · simp [h1]

theorem checkLayouts_none_iff (g : DeviceGeom) (ls : List LayoutG) :
    checkLayouts g ls = none ↔ ∀ L ∈ ls, LayoutFits g L := by
  induction ls with
  | nil => simp [checkLayouts]
  | cons L rest ih =>
    unfold checkLayouts
    cases h : validateLayout g L with
    | some e =>
      simp only [List.mem_cons, forall_eq_or_imp]
      constructor
      · intro h'; cases h'
      · rintro ⟨h1, _⟩
        rw [(validateLayout_none_iff g L).mpr h1] at h; cases h
    | none =>
      simp only [List.mem_cons, forall_eq_or_imp, ih]
      exact ⟨fun h' => ⟨(validateLayout_none_iff g L).mp h, h'⟩, fun h' => h'.2⟩

end Geom
end Pulser
