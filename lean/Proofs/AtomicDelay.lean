/-
  Proofs.AtomicDelay — after the repair of F2.1/F2.2 a `delay` refused for its duration
  (`durTooShort` / `durTooLong`) leaves the sequence as it was: either the pre-check refuses it
  before anything is appended, or it is the wait for the fall time itself that is refused
  (atomically), and once the duration has passed the pre-check the delay proper can only fail
  for the sequence length (`overMaxSeq`, the remaining known finding F2.3).
-/
import Proofs.Atomic
import Proofs.ParamStore
namespace Pulser

theorem getChan_name {s : SeqState} {n : ChName} {c : ChanState} (h : s.getChan n = some c) :
    c.name = n := by
  unfold SeqState.getChan at h
  have := List.find?_some h
  simpa using this

/-- Once `validate_duration` accepts `d`, `add_delay` cannot fail for the duration. -/
theorem addDelay_err_of_valid {ms : Option Nat} {c : ChanState} {d r : Nat} {e : Err}
    (hv : validateDuration c.cfg d = .ok r) (h : addDelay ms c d = .error e) :
    e ≠ .durTooShort ∧ e ≠ .durTooLong := by
  unfold addDelay at h
  cases hl : c.last with
  | error e1 =>
    simp [hl, bind, Except.bind] at h; subst h
    unfold ChanState.last at hl
    split at hl
    · cases hl
    · injection hl with hl; subst hl; exact ⟨by decide, by decide⟩
  | ok last =>
    cases hc : checkDuration ms (last.tf + (r : Int)) with
    | error e1 =>
      simp [hl, hv, hc, bind, Except.bind] at h; subst h
      unfold checkDuration at hc
      repeat' split at hc
      all_goals first | (cases hc; exact ⟨by decide, by decide⟩) | cases hc
    | ok u =>
      simp only [hl, hv, hc, bind, Except.bind] at h
      split at h
      · split at h
        · rename_i b _ _
          cases hm : mkDetunedDelay c r b.detOff c.lastPulsePhase with
          | error e1 =>
            rw [hm] at h; injection h with h; subst h
            unfold mkDetunedDelay at hm
            split at hm
            · injection hm with hm; subst hm; exact ⟨by simp, by simp⟩
            · cases hm
          | ok p => rw [hm] at h; cases h
        · cases h
      · cases h

theorem withChan_err_of_lift {s : SeqState} {n : ChName} {f : ChanState → Except Err ChanState} {e : Err}
    (h : (s.withChan n fun c => CRes.lift c (f c)).err = some e) :
    s.getChan n = none ∨ ∃ c, s.getChan n = some c ∧ f c = .error e := by
  unfold SeqState.withChan at h
  cases hc : s.getChan n with
  | none => exact .inl rfl
  | some c =>
    right
    simp only [hc] at h
    exact ⟨c, rfl, lift_err h⟩

/-- **A delay refused for its duration leaves the sequence untouched** (repaired F2.1/F2.2). -/
theorem delayChecked_atomic {s : SeqState} {d : Int} {n : ChName} {atRest : Bool} {e : Err}
    (h : (delayChecked s d n atRest).err = some e) (he : e = .durTooShort ∨ e = .durTooLong) :
    (delayChecked s d n atRest).st = s := by
  unfold delayChecked at h ⊢
  by_cases hg : (atRest && decide (d ≠ 0) && s.measured.isNone) = true
  · rw [if_pos hg] at h ⊢
    simp only [Bool.and_eq_true, decide_eq_true_eq] at hg
    obtain ⟨⟨ha, hd0⟩, hm⟩ := hg
    cases hv : s.validateChannel n false with
    | error e1 =>
      simp only [hv] at h ⊢
      unfold delayCore
      by_cases g0 : s.measured.isSome = true
      · rw [if_pos g0]; rfl
      · rw [if_neg g0, hv]; rfl
    | ok c =>
      simp only [hv] at h ⊢
      by_cases hneg : d < 0
      · rw [if_pos hneg]; rfl
      · rw [if_neg hneg] at h ⊢
        cases hvd : validateDuration c.cfg d.toNat with
        | error e1 => rfl
        | ok r =>
          simp only [hvd] at h ⊢
          -- the duration is fine: only the fall wait can be refused for a duration
          have hgc : s.getChan n = some c := (Param.validateChannel_modeOf hv).2
          have g0 : ¬ s.measured.isSome = true := by
            cases hme : s.measured with
            | none => simp
            | some x => rw [hme] at hm; simp at hm
          unfold delayCore at h ⊢
          rw [if_neg g0, hv] at h ⊢
          simp only [ha, if_true, if_neg hd0, if_neg hneg] at h ⊢
          unfold Raw.bind at h ⊢
          cases h1 : (s.withChan n fun c => CRes.lift c (waitForFall s.dev.maxSeqDur c)).err with
          | some e1 =>
            simp only
            exact withChan_lift_err (by rw [h1]; rfl)
          | none =>
            exfalso
            simp only [h1] at h
            -- the state after the fall wait
            have hst : (s.withChan n fun c => CRes.lift c (waitForFall s.dev.maxSeqDur c)).st
                = s.setChan (CRes.lift c (waitForFall s.dev.maxSeqDur c)).c := by
              unfold SeqState.withChan; simp only [hgc]
            have hdev : (s.withChan n fun c => CRes.lift c (waitForFall s.dev.maxSeqDur c)).st.dev = s.dev := by
              rw [hst]; rfl
            cases hw : waitForFall s.dev.maxSeqDur c with
            | error e2 =>
              unfold SeqState.withChan at h1; simp only [hgc, hw, CRes.lift] at h1
              cases h1
            | ok c1 =>
              have hk := Param.waitForFall_keep hw
              have hc1 : (CRes.lift c (waitForFall s.dev.maxSeqDur c)).c = c1 := by rw [hw]; rfl
              rw [hc1] at hst
              rcases withChan_err_of_lift h with hnone | ⟨c2, hc2, herr⟩
              · rw [hst, Param.getChan_setChan] at hnone
                rw [if_pos (by rw [hk.1]; exact (getChan_name hgc).symm), hgc] at hnone
                cases hnone
              · rw [hst, Param.getChan_setChan] at hc2
                rw [if_pos (by rw [hk.1]; exact (getChan_name hgc).symm), hgc] at hc2
                injection hc2 with hc2; subst hc2
                have hvd' : validateDuration c1.cfg d.toNat = .ok r := by rw [hk.2.1]; exact hvd
                have := addDelay_err_of_valid hvd' herr
                rcases he with he | he <;> simp [he] at this
  · rw [if_neg hg] at h ⊢
    simp only [Bool.and_eq_true, decide_eq_true_eq, not_and] at hg
    unfold delayCore at h ⊢
    by_cases g0 : s.measured.isSome = true
    · rw [if_pos g0]; rfl
    · rw [if_neg g0] at h ⊢
      cases hv : s.validateChannel n false with
      | error e1 => rfl
      | ok c =>
        simp only [hv] at h ⊢
        have hmn : s.measured.isNone = true := by
          cases hme : s.measured with
          | none => rfl
          | some x => rw [hme] at g0; simp at g0
        cases atRest with
        | false =>
          simp only [Bool.false_eq_true, if_false] at h ⊢
          unfold Raw.bind at h ⊢
          simp only [done] at h ⊢
          by_cases hd0 : d = 0
          · rw [if_pos hd0] at h; cases h
          · rw [if_neg hd0] at h ⊢
            exact withChan_lift_err (by rw [h]; rfl)
        | true =>
          have hd0 : d = 0 := Classical.byContradiction fun hne => hg ⟨rfl, hne⟩ hmn
          simp only [if_true, if_pos hd0] at h ⊢
          unfold Raw.bind at h ⊢
          cases h1 : (s.withChan n fun c => CRes.lift c (waitForFall s.dev.maxSeqDur c)).err with
          | some e1 =>
            simp only
            exact withChan_lift_err (by rw [h1]; rfl)
          | none => simp only [h1, done] at h; cases h

end Pulser
