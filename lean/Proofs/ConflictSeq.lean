/-
  Proofs.ConflictSeq — lifting the 'last pulse clear' invariant (Proofs/ConflictInv.lean) to whole
  sequences and to every API call, failing calls and oracle answers included.
-/
import Proofs.ConflictInv
namespace Pulser

def LPCAll (s : SeqState) : Prop := ∀ c ∈ s.chans, LPCc c

/-- A1 (standard mode) for every pulse of every channel. -/
def FallsOk (s : SeqState) : Prop := ∀ c ∈ s.chans, FallsOkC c

/-- Good successor that also keeps `LPC`: old channels are `KG`-extended in place, channels
beyond the old ones are new and satisfy `LPC` (given A1). -/
def SK (s s' : SeqState) : Prop :=
  SG s s' ∧
  (∀ (i : Nat) (c : ChanState), s.chans[i]? = some c → ∃ c', s'.chans[i]? = some c' ∧ KG c c') ∧
  (∀ (i : Nat) (c' : ChanState), s.chans.length ≤ i → s'.chans[i]? = some c' →
    (FallsOkC c' → LPCc c') ∧ RTc c')

theorem SK.rfl' {s : SeqState} (h : SeqInv s) : SK s s :=
  ⟨SG.rfl' h, fun _ c hc => ⟨c, hc, KG.rfl' c⟩, fun i c' hi hc => by
    have := (List.getElem?_eq_some_iff.mp hc).1; omega⟩

theorem SK.trans {a b c : SeqState} (h1 : SK a b) (h2 : SK b c) : SK a c := by
  refine ⟨SG.trans h1.1 h2.1, ?_, ?_⟩
  · intro i x hx
    obtain ⟨y, hy, k1⟩ := h1.2.1 i x hx
    obtain ⟨z, hz, k2⟩ := h2.2.1 i y hy
    exact ⟨z, hz, k1.trans k2⟩
  · intro i z hi hz
    by_cases hlt : i < b.chans.length
    · have hy : b.chans[i]? = some b.chans[i] := List.getElem?_eq_getElem hlt
      obtain ⟨z', hz', k⟩ := h2.2.1 i _ hy
      rw [hz] at hz'; injection hz' with hz'; subst hz'
      have h0 := h1.2.2 i _ hi hy
      exact ⟨fun hf => k.2.1 hf (h0.1 (FallsOkC_of_Ext k.1 hf)), k.2.2 h0.2⟩
    · exact h2.2.2 i z (by omega) hz

theorem SK_of_chans_eq {s s' : SeqState} (h : SeqInv s) (h1 : s'.chans = s.chans)
    (h2 : s'.dev = s.dev) (h3 : s'.nQ = s.nQ) : SK s s' :=
  ⟨SG_of_chans_eq h h1 h2 h3, fun i c hc => ⟨c, by rw [h1]; exact hc, KG.rfl' c⟩,
   fun i c' hi hc => by
    rw [h1] at hc
    have := (List.getElem?_eq_some_iff.mp hc).1; omega⟩

/-- The final step: with A1 on the new state, `LPC` everywhere is kept. -/
theorem SK.keeps {s s' : SeqState} (h : SK s s') (hf : FallsOk s') (hl : LPCAll s) : LPCAll s' := by
  intro c' hc'
  obtain ⟨i, hi, rfl⟩ := List.mem_iff_getElem.mp hc'
  have hget : s'.chans[i]? = some s'.chans[i] := List.getElem?_eq_getElem hi
  by_cases hlt : i < s.chans.length
  · obtain ⟨z, hz, k⟩ := h.2.1 i _ (List.getElem?_eq_getElem hlt)
    rw [hget] at hz; injection hz with hz; rw [hz]
    exact k.2.1 (by rw [← hz]; exact hf _ hc') (hl _ (List.getElem_mem hlt))
  · exact (h.2.2 i _ (by omega) hget).1 (hf _ hc')

def RTAll (s : SeqState) : Prop := ∀ c ∈ s.chans, RTc c

theorem SK.keepsRT {s s' : SeqState} (h : SK s s') (hl : RTAll s) : RTAll s' := by
  intro c' hc'
  obtain ⟨i, hi, rfl⟩ := List.mem_iff_getElem.mp hc'
  have hget : s'.chans[i]? = some s'.chans[i] := List.getElem?_eq_getElem hi
  by_cases hlt : i < s.chans.length
  · obtain ⟨z, hz, k⟩ := h.2.1 i _ (List.getElem?_eq_getElem hlt)
    rw [hget] at hz; injection hz with hz; rw [hz]
    exact k.2.2 (hl _ (List.getElem_mem hlt))
  · exact (h.2.2 i _ (by omega) hget).2

theorem replaceChan_length (c' : ChanState) (l : List ChanState) :
    (SeqState.replaceChan c' l).length = l.length := by
  induction l with
  | nil => rfl
  | cons a rest ih =>
    unfold SeqState.replaceChan
    split
    · rfl
    · simp [ih]

theorem replaceChan_kg {l : List ChanState} {c c' : ChanState}
    (hf : l.find? (·.name == c.name) = some c) (hn : c'.name = c.name) (hg : KG c c') :
    ∀ (i : Nat) (x : ChanState), l[i]? = some x →
      ∃ y, (SeqState.replaceChan c' l)[i]? = some y ∧ KG x y := by
  induction l with
  | nil => cases hf
  | cons a rest ih =>
    unfold SeqState.replaceChan
    rw [hn]
    by_cases ha : (a.name == c.name) = true
    · simp only [ha, if_true]
      have hac : a = c := by
        simp only [List.find?_cons, ha] at hf; injection hf
      subst hac
      intro i x hx
      cases i with
      | zero => simp at hx; subst hx; exact ⟨c', by simp, hg⟩
      | succ j => exact ⟨x, by simpa using hx, KG.rfl' x⟩
    · simp only [ha, if_false, Bool.false_eq_true]
      have hf' : rest.find? (·.name == c.name) = some c := by
        simp only [List.find?_cons] at hf
        split at hf
        · rename_i hh; exact absurd hh ha
        · exact hf
      intro i x hx
      cases i with
      | zero => simp at hx; subst hx; exact ⟨a, by simp, KG.rfl' _⟩
      | succ j =>
        obtain ⟨y, hy, e⟩ := ih hf' j x (by simpa using hx)
        exact ⟨y, by simpa using hy, e⟩

theorem setChan_SK {s : SeqState} {n : ChName} {c c' : ChanState} (hi : SeqInv s)
    (hc : s.getChan n = some c) (hg : Good s.dev.maxSeqDur c c') (hk : KG c c') :
    SK s (s.setChan c') := by
  have hn := (getChan_mem hc).2
  have hf : s.chans.find? (·.name == c.name) = some c := by
    unfold SeqState.getChan at hc; rw [hn]; exact hc
  refine ⟨setChan_SG hi hc hg, replaceChan_kg hf hg.2.2.1 hk, ?_⟩
  intro i x hi' hx
  have h1 := (List.getElem?_eq_some_iff.mp hx).1
  have : (s.setChan c').chans.length = s.chans.length := replaceChan_length _ _
  omega

def RK (s : SeqState) (r : Raw) : Prop := SK s r.st

theorem RK_fail {s : SeqState} (hi : SeqInv s) (e : Err) : RK s (fail s e) := SK.rfl' hi
theorem RK_done {s s' : SeqState} (h : SK s s') : RK s (done s') := h
theorem RK_orRollback {s : SeqState} {r : Raw} (hi : SeqInv s) (h : RK s r) : RK s (r.orRollback s) := by
  rcases Raw.orRollback_cases r s with e | ⟨e, he⟩
  · rw [e]; exact h
  · rw [he]; exact RK_fail hi _

theorem RK_withChan {s : SeqState} {n : ChName} {f : ChanState → CRes} (hi : SeqInv s)
    (hf : ∀ c, s.getChan n = some c → ChanInv s.dev.maxSeqDur c →
      Good s.dev.maxSeqDur c (f c).c ∧ KG c (f c).c) : RK s (s.withChan n f) := by
  unfold SeqState.withChan
  cases hc : s.getChan n with
  | none => exact RK_fail hi _
  | some c =>
    have := getChan_mem hc
    have h := hf c hc (hi c this.1)
    exact setChan_SK hi hc h.1 h.2

theorem RK_withChan_gn {s : SeqState} {n : ChName} {f : ChanState → CRes} (hi : SeqInv s)
    (hf : ∀ c, ChanInv s.dev.maxSeqDur c → GN s.dev.maxSeqDur c (f c).c) : RK s (s.withChan n f) :=
  RK_withChan hi (fun c _ hc => ⟨(hf c hc).1, (hf c hc).2.kg⟩)

theorem RK_bind {s : SeqState} {r : Raw} {g : SeqState → Raw} (hr : RK s r)
    (hg : ∀ s1, SeqInv s1 → s1.dev = s.dev → RK s1 (g s1)) : RK s (r.bind g) := by
  unfold Raw.bind
  cases r.err with
  | none => exact SK.trans hr (hg _ hr.1.1 hr.1.2.1)
  | some e => exact hr

theorem RK_store {s : SeqState} {r : Raw} (op : Op) (hr : RK s r) : RK s (store op r) := by
  unfold store
  cases h : r.err with
  | none => exact SK.trans hr (SK_of_chans_eq hr.1.1 rfl rfl rfl)
  | some e => exact hr

theorem RK_markNonEmpty {s : SeqState} {r : Raw} (hr : RK s r) : RK s (markNonEmpty r) := by
  unfold markNonEmpty
  cases h : r.err with
  | none => exact SK.trans hr (SK_of_chans_eq hr.1.1 rfl rfl rfl)
  | some e => exact hr

theorem RK_phaseShift {s : SeqState} (hi : SeqInv s) (phi : Rat) (qs : List Nat) (b : Basis) :
    RK s (s.phaseShift phi qs b) := by
  unfold SeqState.phaseShift
  split
  · exact RK_fail hi _
  · generalize (if qs.isEmpty then s.allQubits else qs) = qs'
    simp only
    split
    · exact RK_fail hi _
    · have := mapRefs_chans s b qs' (·.incrementPhase phi)
      exact SK_of_chans_eq hi this.1 this.2.1 this.2.2

theorem validateChannel_ok {s : SeqState} {n : ChName} {b : Bool} {c : ChanState}
    (h : s.validateChannel n b = .ok c) : s.getChan n = some c ∧ (b = true → c.inEomMode = false) := by
  unfold SeqState.validateChannel at h
  cases hg : s.getChan n with
  | none => simp [hg] at h
  | some c0 =>
    simp only [hg] at h
    split at h
    · cases h
    · rename_i hne
      injection h with h; subst h
      refine ⟨rfl, fun hb => ?_⟩
      subst hb
      simpa using hne

theorem RK_targetCore {s : SeqState} (hi : SeqInv s) (qs : List Nat) (n : ChName) :
    RK s (targetCore s qs n) := by
  unfold targetCore
  split
  · exact RK_fail hi _
  · cases hv : s.validateChannel n true with
    | error e => exact RK_fail hi _
    | ok c0 =>
      simp only
      have hv' := validateChannel_ok hv
      repeat' split
      all_goals first
        | exact RK_fail hi _
        | exact RK_withChan hi (fun c hc hci => by
            rw [hv'.1] at hc; injection hc with hc; subst hc
            exact ⟨addTarget_inv hci, addTarget_kg hci (hv'.2 rfl)⟩)

theorem RK_delayCore {s : SeqState} (hi : SeqInv s) (d : Int) (n : ChName) (atRest : Bool) :
    RK s (delayCore s d n atRest) := by
  unfold delayCore
  split
  · exact RK_fail hi _
  · split
    · exact RK_fail hi _
    · apply RK_bind
      · split
        · exact RK_withChan_gn hi (fun c hc => lift_gn hc (fun c' h => waitForFall_gn hc h))
        · exact RK_done (SK.rfl' hi)
      · intro s1 hi1 _
        split
        · exact RK_done (SK.rfl' hi1)
        · apply RK_withChan_gn hi1
          intro c hc
          apply lift_gn hc
          intro c' h
          split at h
          · cases hl : c.last with
            | error e => simp [hl, bind, Except.bind] at h
            | ok l => simp [hl, bind, Except.bind] at h
          · exact addDelay_gn hc h

theorem RK_delayChecked {s : SeqState} (hi : SeqInv s) (d : Int) (n : ChName) (atRest : Bool) :
    RK s (delayChecked s d n atRest) := by
  rcases delayChecked_cases s d n atRest with h | ⟨e, h⟩ <;> rw [h]
  · exact RK_delayCore hi d n atRest
  · exact RK_fail hi e

theorem RK_alignLoop {s : SeqState} (hi : SeqInv s) (tf : Int) (l : List (ChName × Int)) :
    RK s (alignLoop tf l s) := by
  induction l generalizing s with
  | nil => exact RK_done (SK.rfl' hi)
  | cons a rest ih =>
    obtain ⟨n, t⟩ := a
    unfold alignLoop
    simp only
    split
    · exact RK_fail hi _
    · split
      · split
        · exact RK_fail hi _
        · exact RK_bind (RK_delayCore hi _ _ _) (fun s1 hi1 _ => ih hi1)
      · exact ih hi

theorem RK_addCore {s : SeqState} (hi : SeqInv s) (p : PulseIn) (n : ChName)
    (proto : Option Protocol) (drift : Option Drift) : RK s (addCore s p n proto drift) := by
  unfold addCore
  cases proto with
  | none => exact RK_fail hi _
  | some proto =>
    simp only
    cases hc : s.getChan n with
    | none => exact RK_fail hi _
    | some c =>
      simp only
      have hcm := getChan_mem hc
      cases hl : c.last with
      | error e => exact RK_fail hi _
      | ok last =>
        simp only
        split
        · exact RK_fail hi _
        · generalize (if c.cfg.isDmm = true then none else
            (s.lastPhases c.cfg.basis last.targets).head?) = phaseRef
          cases hpr : validateAndAdjust c p phaseRef with
          | error e => exact RK_fail hi _
          | ok pr =>
            simp only
            cases hadd : addPulse s.dev.maxSeqDur c (s.others n) pr
                (s.lastTimes c.cfg.basis last.targets) proto drift with
            | error e => exact RK_fail hi _
            | ok c' =>
              simp only
              have hva := validateAndAdjust_ok (hi c hcm.1).1 hpr
              have hg := addPulse_gn (hi c hcm.1) hva.1 hva.2.1 hadd
              have h1 : SK s (s.setChan c') := setChan_SK hi hc hg.1 hg.2.kg
              cases hl' : c'.last with
              | error e => exact h1
              | ok newSlot =>
                simp only
                have hm := mapRefs_chans (s.setChan c') c.cfg.basis last.targets
                  (·.updateLastUsed newSlot.tf)
                have h2 : SK (s.setChan c') _ := SK_of_chans_eq h1.1.1 hm.1 hm.2.1 hm.2.2
                split
                · exact SK.trans h1 (SK.trans h2 (RK_phaseShift h2.1.1 _ _ _))
                · exact SK.trans h1 h2

/-- Appending a fresh channel. -/
theorem SK_append {s s' : SeqState} {c : ChanState} (hi : SeqInv s) (hc : ChanInv s.dev.maxSeqDur c)
    (hl : LPCc c ∧ RTc c) (h1 : s'.chans = s.chans ++ [c]) (h2 : s'.dev = s.dev) (h3 : s'.nQ = s.nQ) :
    SK s s' := by
  refine ⟨SG_append hi hc h1 h2 h3, ?_, ?_⟩
  · intro i x hx
    refine ⟨x, ?_, KG.rfl' x⟩
    rw [h1, List.getElem?_append_left]
    · exact hx
    · exact (List.getElem?_eq_some_iff.mp hx).1
  · intro i c' hi' hc'
    rw [h1] at hc'
    have hlen := (List.getElem?_eq_some_iff.mp hc').1
    simp at hlen
    have : i = s.chans.length := by omega
    subst this
    simp at hc'; subst hc'; exact ⟨fun _ => hl.1, hl.2⟩

theorem freshChan_lpc {name : ChName} {chId : Nat} {cfg : ChanCfg} {qs : List Nat} {w : Bool}
    {a b : Rat} : LPCc (SeqState.freshChan name chId cfg qs w a b) ∧
      RTc (SeqState.freshChan name chId cfg qs w a b) := by
  constructor
  · show LPC (if w = true then _ else _ : List Slot).reverse
    split
    · exact ⟨fun _ q pq h => by simp [firstPulse] at h, trivial⟩
    · trivial
  · show RT cfg (if w = true then _ else _ : List Slot).reverse
    split
    · exact ⟨fun h => absurd rfl h, trivial⟩
    · trivial

theorem addChannel_SK {s : SeqState} {c : ChanState} (hi : SeqInv s) (hc : ChanInv s.dev.maxSeqDur c)
    (hl : LPCc c ∧ RTc c) : SK s (s.addChannel c) := by
  unfold SeqState.addChannel
  simp only
  split
  · have he := ensureBasis_chans { ({ s with inXY := true } : SeqState) with chans := s.chans ++ [c] } c.cfg.basis
    exact SK_append hi hc hl (by rw [he.1]) (by rw [he.2.1]) (by rw [he.2.2])
  · have he := ensureBasis_chans { ({ s with inIsing := true } : SeqState) with chans := s.chans ++ [c] } c.cfg.basis
    exact SK_append hi hc hl (by rw [he.1]) (by rw [he.2.1]) (by rw [he.2.2])

/-- Every API call — successful or raising — keeps `LPC` (relation `SK`). -/
theorem stepRaw_RK {s : SeqState} (hd : DevOk s.dev) (hi : SeqInv s) (op : Op) :
    RK s (stepRaw s op) := by
  cases op with
  | declare name chId init =>
    simp only [stepRaw]
    split
    · exact RK_fail hi _
    · split
      · exact RK_fail hi _
      · split
        · exact RK_fail hi _
        · split
          · exact RK_fail hi _
          · rename_i cfg hcfg
            split
            · repeat' split
              all_goals exact RK_fail hi _
            · apply RK_store
              have hmem : cfg ∈ s.dev.chans := List.mem_of_getElem? hcfg
              have hfc := fun nm => freshChan_inv (name := nm) (chId := chId) (qs := s.allQubits)
                (w := !cfg.isLocal) (a := 1) (b := 1) (ms := s.dev.maxSeqDur) (hd.1 cfg hmem)
              split
              · exact addChannel_SK hi (hfc _) freshChan_lpc
              · split
                · exact RK_orRollback hi (SK.trans (addChannel_SK hi (hfc _) freshChan_lpc)
                    (RK_targetCore (addChannel_SG hi (hfc _)).1 _ _))
                · exact addChannel_SK hi (hfc _) freshChan_lpc
  | configDetMap dmmId maxW sumW =>
    simp only [stepRaw]
    split
    · exact RK_fail hi _
    · split
      · exact RK_fail hi _
      · rename_i cfg hcfg
        split
        · exact RK_fail hi _
        · split
          · exact RK_fail hi _
          · apply RK_store
            have hmem : cfg ∈ s.dev.dmms := List.mem_of_getElem? hcfg
            exact addChannel_SK hi (freshChan_inv (hd.2 cfg hmem)) freshChan_lpc
  | target qs n => exact RK_store _ (RK_orRollback hi (RK_targetCore hi _ _))
  | add p n proto =>
    simp only [stepRaw]
    apply RK_store; apply RK_markNonEmpty
    repeat' split
    all_goals first | exact RK_fail hi _ | exact RK_addCore hi _ _ _ _
  | addDmm p n proto =>
    simp only [stepRaw]
    apply RK_store; apply RK_markNonEmpty
    repeat' split
    all_goals first | exact RK_fail hi _ | exact RK_addCore hi _ _ _ _
  | addEom n dur phase post proto corr fs fe ref =>
    simp only [stepRaw]
    apply RK_store; apply RK_markNonEmpty
    repeat' split
    all_goals first | exact RK_fail hi _ | exact RK_addCore hi _ _ _ _
  | delay d n atRest => exact RK_store _ (RK_orRollback hi (RK_delayChecked hi _ _ _))
  | align chs atRest =>
    simp only [stepRaw]
    apply RK_store
    apply RK_orRollback hi
    repeat' split
    all_goals first | exact RK_fail hi _ | exact RK_done (SK.rfl' hi) | exact RK_alignLoop hi _ _
  | phaseShift phi qs b => exact RK_store _ (RK_phaseShift hi _ _ _)
  | enableEom n e =>
    simp only [stepRaw]
    split
    · exact RK_fail hi _
    · split
      · exact RK_fail hi _
      · split
        · exact RK_fail hi _
        · split
          · exact RK_fail hi _
          · split
            · exact RK_fail hi _
            · apply RK_orRollback hi
              unfold enableEomCommit
              apply RK_bind (RK_withChan_gn hi (fun c hc => enableEom_gn hc))
              intro s1 hi1 _
              apply RK_store
              repeat' split
              all_goals first
                | exact RK_phaseShift hi1 _ _ _ | exact RK_fail hi1 _ | exact RK_done (SK.rfl' hi1)
  | modifyEom n e =>
    simp only [stepRaw]
    split
    · exact RK_fail hi _
    · split
      · exact RK_fail hi _
      · split
        · exact RK_fail hi _
        · split
          · exact RK_fail hi _
          · apply RK_orRollback hi
            unfold modifyEomCommit
            apply RK_bind (RK_withChan_gn hi (fun c hc => disableEom_gn hc))
            intro s1 hi1 hd1
            split
            · exact RK_fail hi1 _
            · apply RK_bind
              · rw [← hd1]; exact RK_withChan_gn hi1 (fun c hc => enableEom_gn hc)
              · intro s2 hi2 _
                apply RK_store
                repeat' split
                all_goals first
                  | exact RK_phaseShift hi2 _ _ _ | exact RK_fail hi2 _ | exact RK_done (SK.rfl' hi2)
  | disableEom n corr =>
    simp only [stepRaw]
    apply RK_store
    apply RK_orRollback hi
    split
    · exact RK_fail hi _
    · split
      · exact RK_fail hi _
      · split
        · exact RK_fail hi _
        · apply RK_bind (RK_withChan_gn hi (fun c hc => disableEom_gn hc))
          intro s1 hi1 _
          repeat' split
          all_goals first
            | exact RK_phaseShift hi1 _ _ _ | exact RK_fail hi1 _ | exact RK_done (SK.rfl' hi1)
  | measure b =>
    simp only [stepRaw]
    apply RK_store
    repeat' split
    all_goals first | exact RK_fail hi _ | exact RK_done (SK_of_chans_eq hi rfl rfl rfl)
  | getDuration ch fall =>
    simp only [stepRaw]
    repeat' split
    all_goals first | exact RK_fail hi _ | exact SK.rfl' hi
  | estimate p n proto =>
    simp only [stepRaw]
    repeat' split
    all_goals first
      | exact RK_fail hi _
      | (show SK s _; rw [estimateCore_st]; exact SK.rfl' hi)
  | phaseRef q b =>
    simp only [stepRaw]
    repeat' split
    all_goals first | exact RK_fail hi _ | exact SK.rfl' hi

/-- Oracle answers keep `LPC` too. -/
theorem injectOracle_SK {s : SeqState} (hi : SeqInv s) (n : ChName) (d : Rat) (du fs fe : Nat) :
    SK s (s.injectOracle n d du fs fe) := by
  refine ⟨injectOracle_SG hi n d du fs fe, ?_, ?_⟩
  · intro i c hc
    simp only [SeqState.injectOracle, List.getElem?_map, hc, Option.map_some]
    by_cases h : (c.name == n) = true
    · rw [if_pos h]
      exact ⟨_, rfl, ⟨rfl, rfl, List.prefix_refl _, rfl, rfl⟩, fun _ hl => hl, fun h => h⟩
    · rw [if_neg h]; exact ⟨_, rfl, KG.rfl' c⟩
  · intro i c' hi' hc'
    have := (List.getElem?_eq_some_iff.mp hc').1
    simp [SeqState.injectOracle] at this
    omega

theorem FallsOk_of_SG {s s' : SeqState} (h : SG s s') (hf : FallsOk s') : FallsOk s := by
  intro c hc
  obtain ⟨i, hi, rfl⟩ := List.mem_iff_getElem.mp hc
  obtain ⟨c', hc', e⟩ := h.2.2.2 i _ (List.getElem?_eq_getElem hi)
  exact FallsOkC_of_Ext e (hf c' (List.mem_of_getElem? hc'))

theorem stepEv_SK {s : SeqState} (hd : DevOk s.dev) (hi : SeqInv s) (ev : Ev) : SK s (stepEv s ev) := by
  cases ev with
  | call op => exact stepRaw_RK hd hi op
  | oracle n d du fs fe => exact injectOracle_SK hi n d du fs fe

/-- `LPC` along whole histories: A1 is only needed for the pulses present at the end (earlier
states hold fewer pulses of the same channels). -/
theorem runEv_LPC {s : SeqState} (hd : DevOk s.dev) (hi : SeqInv s) (hl : LPCAll s) (evs : List Ev)
    (hf : FallsOk (runEv s evs)) : LPCAll (runEv s evs) := by
  induction evs generalizing s with
  | nil => exact hl
  | cons ev rest ih =>
    have h1 := stepEv_SK hd hi ev
    have hd1 : DevOk (stepEv s ev).dev := by rw [h1.1.2.1]; exact hd
    have hsg : SG (stepEv s ev) (runEv (stepEv s ev) rest) := runEv_SG hd1 h1.1.1 rest
    have hf1 : FallsOk (stepEv s ev) := FallsOk_of_SG hsg hf
    exact ih hd1 h1.1.1 (h1.keeps hf1 hl) hf

/-- The retarget rule along whole histories. -/
theorem runEv_RT {s : SeqState} (hd : DevOk s.dev) (hi : SeqInv s) (hl : RTAll s) (evs : List Ev) :
    RTAll (runEv s evs) := by
  induction evs generalizing s with
  | nil => exact hl
  | cons ev rest ih =>
    have h1 := stepEv_SK hd hi ev
    exact ih (by rw [h1.1.2.1]; exact hd) h1.1.1 (h1.keepsRT hl)

/-- `recentShared` under 'wait-for-all' is the most recent pulse. -/
theorem recentShared_all (myT : List Nat) (l : List Slot) : recentShared myT true l = firstPulse l := by
  induction l with
  | nil => rfl
  | cons s rest ih =>
    unfold recentShared firstPulse
    cases s.kind with
    | pulse p => simp
    | target => simpa using ih
    | delay => simpa using ih

end Pulser
