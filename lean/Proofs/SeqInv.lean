/-
  Proofs.SeqInv — lifting the per-channel timeline invariant to whole sequences
  and to every API call (`stepRaw`), including calls that raise.
-/
import PulserModel.Sequence
import Proofs.Limits
namespace Pulser

def DevOk (d : Device) : Prop := (∀ c ∈ d.chans, 0 < c.clock) ∧ (∀ c ∈ d.dmms, 0 < c.clock)

def SeqInv (s : SeqState) : Prop := ∀ c ∈ s.chans, ChanInv s.dev.maxSeqDur c

/-- `s'` is a good successor of `s`: invariant holds, same device, and every
channel of `s` is still there, at the same position, only extended. -/
def SG (s s' : SeqState) : Prop :=
  SeqInv s' ∧ s'.dev = s.dev ∧ s'.nQ = s.nQ ∧
  ∀ (i : Nat) (c : ChanState), s.chans[i]? = some c → ∃ c', s'.chans[i]? = some c' ∧ Ext c c'

theorem SG.rfl' {s : SeqState} (h : SeqInv s) : SG s s :=
  ⟨h, rfl, rfl, fun _ c hc => ⟨c, hc, Ext.refl c⟩⟩

theorem SG.trans {a b c : SeqState} (h1 : SG a b) (h2 : SG b c) : SG a c := by
  refine ⟨h2.1, h2.2.1.trans h1.2.1, h2.2.2.1.trans h1.2.2.1, ?_⟩
  intro i x hx
  obtain ⟨y, hy, e1⟩ := h1.2.2.2 i x hx
  obtain ⟨z, hz, e2⟩ := h2.2.2.2 i y hy
  exact ⟨z, hz, e1.trans e2⟩

theorem SG_of_chans_eq {s s' : SeqState} (h : SeqInv s) (h1 : s'.chans = s.chans)
    (h2 : s'.dev = s.dev) (h3 : s'.nQ = s.nQ) : SG s s' :=
  ⟨by unfold SeqInv; rw [h1, h2]; exact h, h2, h3,
   fun i c hc => ⟨c, by rw [h1]; exact hc, Ext.refl c⟩⟩

theorem getChan_mem {s : SeqState} {n : ChName} {c : ChanState} (h : s.getChan n = some c) :
    c ∈ s.chans ∧ c.name = n := by
  unfold SeqState.getChan at h
  have h1 := List.mem_of_find?_eq_some h
  have h2 := List.find?_some h
  exact ⟨h1, by simpa using h2⟩

/-- Replacing the first channel named like `c'` by `c'` where `c'` extends it. -/
theorem replaceChan_good {ms : Option Nat} {l : List ChanState} {c c' : ChanState}
    (hl : ∀ x ∈ l, ChanInv ms x) (hf : l.find? (·.name == c.name) = some c) (hg : Good ms c c') :
    (∀ x ∈ SeqState.replaceChan c' l, ChanInv ms x) ∧
    ∀ (i : Nat) (x : ChanState), l[i]? = some x → ∃ y, (SeqState.replaceChan c' l)[i]? = some y ∧ Ext x y := by
  have hname : c'.name = c.name := hg.2.2.1
  induction l with
  | nil => cases hf
  | cons a rest ih =>
    unfold SeqState.replaceChan
    rw [hname]
    by_cases ha : (a.name == c.name) = true
    · simp only [ha, if_true]
      have hac : a = c := by
        simp only [List.find?_cons, ha] at hf; injection hf
      subst hac
      refine ⟨?_, ?_⟩
      · intro x hx
        rcases List.mem_cons.mp hx with hx | hx
        · subst hx; exact hg.1
        · exact hl x (List.mem_cons_of_mem _ hx)
      · intro i x hx
        cases i with
        | zero => simp at hx; subst hx; exact ⟨c', by simp, hg.2⟩
        | succ j => exact ⟨x, by simpa using hx, Ext.refl x⟩
    · simp only [ha, if_false, Bool.false_eq_true]
      have hf' : rest.find? (·.name == c.name) = some c := by
        simp only [List.find?_cons] at hf
        split at hf
        · rename_i hh; exact absurd hh ha
        · exact hf
      obtain ⟨ih1, ih2⟩ := ih (fun x hx => hl x (List.mem_cons_of_mem _ hx)) hf'
      refine ⟨?_, ?_⟩
      · intro x hx
        rcases List.mem_cons.mp hx with hx | hx
        · subst hx; exact hl _ (List.mem_cons_self)
        · exact ih1 x hx
      · intro i x hx
        cases i with
        | zero => simp at hx; subst hx; exact ⟨a, by simp, Ext.refl _⟩
        | succ j =>
          obtain ⟨y, hy, e⟩ := ih2 j x (by simpa using hx)
          exact ⟨y, by simpa using hy, e⟩

theorem setChan_SG {s : SeqState} {n : ChName} {c c' : ChanState} (hi : SeqInv s)
    (hc : s.getChan n = some c) (hg : Good s.dev.maxSeqDur c c') : SG s (s.setChan c') := by
  have hn := (getChan_mem hc).2
  have hf : s.chans.find? (·.name == c.name) = some c := by
    unfold SeqState.getChan at hc; rw [hn]; exact hc
  obtain ⟨h1, h2⟩ := replaceChan_good hi hf hg
  exact ⟨h1, rfl, rfl, h2⟩

/-- Raw results whose state is a good successor. -/
def RG (s : SeqState) (r : Raw) : Prop := SG s r.st

theorem RG_fail {s : SeqState} (hi : SeqInv s) (e : Err) : RG s (fail s e) := SG.rfl' hi
theorem RG_done {s s' : SeqState} (h : SG s s') : RG s (done s') := h
theorem RG_orRollback {s : SeqState} {r : Raw} (hi : SeqInv s) (h : RG s r) : RG s (r.orRollback s) := by
  rcases Raw.orRollback_cases r s with e | ⟨e, he⟩
  · rw [e]; exact h
  · rw [he]; exact RG_fail hi _

theorem RG_withChan {s : SeqState} {n : ChName} {f : ChanState → CRes} (hi : SeqInv s)
    (hf : ∀ c, ChanInv s.dev.maxSeqDur c → Good s.dev.maxSeqDur c (f c).c) : RG s (s.withChan n f) := by
  unfold SeqState.withChan
  cases hc : s.getChan n with
  | none => exact RG_fail hi _
  | some c =>
    have := getChan_mem hc
    exact setChan_SG hi hc (hf c (hi c this.1))

theorem RG_bind {s : SeqState} {r : Raw} {g : SeqState → Raw} (hr : RG s r)
    (hg : ∀ s1, SeqInv s1 → s1.dev = s.dev → RG s1 (g s1)) : RG s (r.bind g) := by
  unfold Raw.bind
  cases r.err with
  | none => exact SG.trans hr (hg _ hr.1 hr.2.1)
  | some e => exact hr

theorem RG_store {s : SeqState} {r : Raw} (op : Op) (hr : RG s r) : RG s (store op r) := by
  unfold store
  cases h : r.err with
  | none => exact SG.trans hr (SG_of_chans_eq hr.1 rfl rfl rfl)
  | some e => exact hr

theorem RG_markNonEmpty {s : SeqState} {r : Raw} (hr : RG s r) : RG s (markNonEmpty r) := by
  unfold markNonEmpty
  cases h : r.err with
  | none => exact SG.trans hr (SG_of_chans_eq hr.1 rfl rfl rfl)
  | some e => exact hr

theorem mapRefs_chans (s : SeqState) (b : Basis) (qs : List Nat) (f : QRef → QRef) :
    (s.mapRefs b qs f).chans = s.chans ∧ (s.mapRefs b qs f).dev = s.dev ∧
    (s.mapRefs b qs f).nQ = s.nQ := by
  unfold SeqState.mapRefs
  cases s.getRefs b with
  | none => exact ⟨rfl, rfl, rfl⟩
  | some l => exact ⟨rfl, rfl, rfl⟩

theorem RG_phaseShift {s : SeqState} (hi : SeqInv s) (phi : Rat) (qs : List Nat) (b : Basis) :
    RG s (s.phaseShift phi qs b) := by
  unfold SeqState.phaseShift
  split
  · exact RG_fail hi _
  · generalize (if qs.isEmpty then s.allQubits else qs) = qs'
    simp only
    split
    · exact RG_fail hi _
    · have := mapRefs_chans s b qs' (·.incrementPhase phi)
      exact SG_of_chans_eq hi this.1 this.2.1 this.2.2

end Pulser

namespace Pulser

theorem RG_targetCore {s : SeqState} (hi : SeqInv s) (qs : List Nat) (n : ChName) :
    RG s (targetCore s qs n) := by
  unfold targetCore
  repeat' split
  all_goals first
    | exact RG_fail hi _
    | exact RG_withChan hi (fun c hc => addTarget_inv hc)

theorem RG_delayCore {s : SeqState} (hi : SeqInv s) (d : Int) (n : ChName) (atRest : Bool) :
    RG s (delayCore s d n atRest) := by
  unfold delayCore
  split
  · exact RG_fail hi _
  · split
    · exact RG_fail hi _
    · apply RG_bind
      · split
        · exact RG_withChan hi (fun c hc => lift_good hc (fun c' h => waitForFall_inv hc h))
        · exact RG_done (SG.rfl' hi)
      · intro s1 hi1 _
        split
        · exact RG_done (SG.rfl' hi1)
        · apply RG_withChan hi1
          intro c hc
          apply lift_good hc
          intro c' h
          split at h
          · cases hl : c.last with
            | error e => simp [hl, bind, Except.bind] at h
            | ok l => simp [hl, bind, Except.bind] at h
          · exact addDelay_inv hc h

theorem RG_delayChecked {s : SeqState} (hi : SeqInv s) (d : Int) (n : ChName) (atRest : Bool) :
    RG s (delayChecked s d n atRest) := by
  rcases delayChecked_cases s d n atRest with h | ⟨e, h⟩ <;> rw [h]
  · exact RG_delayCore hi d n atRest
  · exact RG_fail hi e

theorem RG_alignLoop {s : SeqState} (hi : SeqInv s) (tf : Int) (l : List (ChName × Int)) :
    RG s (alignLoop tf l s) := by
  induction l generalizing s with
  | nil => exact RG_done (SG.rfl' hi)
  | cons a rest ih =>
    obtain ⟨n, t⟩ := a
    unfold alignLoop
    simp only
    split
    · exact RG_fail hi _
    · split
      · split
        · exact RG_fail hi _
        · exact RG_bind (RG_delayCore hi _ _ _) (fun s1 hi1 _ => ih hi1)
      · exact ih hi

theorem validateAndAdjust_ok {c : ChanState} {p : PulseIn} {r : Option Rat} {pr : PulseRec}
    (hc : 0 < c.cfg.clock) (h : validateAndAdjust c p r = .ok pr) :
    (c.cfg.clock ∣ pr.dur ∧ c.cfg.minDur ≤ pr.dur) ∧ PulseLim c.cfg c.maxW c.sumW pr ∧
      WithinLimits c.cfg c.maxW c.sumW p.sum := by
  unfold validateAndAdjust at h
  split at h
  · cases h
  · rename_i u hv
    have hw : WithinLimits c.cfg c.maxW c.sumW p.sum := (validatePulse_iff c p.sum).mp hv
    split at h
    · cases h
    · rename_i d hd
      have := validateDuration_ok hc hd
      split at h
      · cases h
      · split at h
        · cases h
        · rename_i u2 hv2
          injection h with h; subst h
          refine ⟨⟨this.2.2.2.2, by simp; omega⟩, ⟨fun _ => ?_, this.2.1⟩, hw⟩
          -- the summary kept is that of the pulse as scheduled
          show WithinLimits c.cfg c.maxW c.sumW (if d ≠ p.dur then p.sumAdj else p.sum)
          by_cases hdd : d ≠ p.dur
          · rw [if_pos hdd] at hv2 ⊢
            exact (validatePulse_iff c p.sumAdj).mp hv2
          · rw [if_neg hdd]; exact hw

/-- The tail of `_add` once the pulse slot has been appended. -/
theorem RG_addCore {s : SeqState} (hi : SeqInv s) (p : PulseIn) (n : ChName)
    (proto : Option Protocol) (drift : Option Drift) : RG s (addCore s p n proto drift) := by
  unfold addCore
  cases proto with
  | none => exact RG_fail hi _
  | some proto =>
    simp only
    cases hc : s.getChan n with
    | none => exact RG_fail hi _
    | some c =>
      simp only
      have hcm := getChan_mem hc
      cases hl : c.last with
      | error e => exact RG_fail hi _
      | ok last =>
        simp only
        split
        · exact RG_fail hi _
        · generalize (if c.cfg.isDmm = true then none else
            (s.lastPhases c.cfg.basis last.targets).head?) = phaseRef
          cases hpr : validateAndAdjust c p phaseRef with
          | error e => exact RG_fail hi _
          | ok pr =>
            simp only
            cases hadd : addPulse s.dev.maxSeqDur c (s.others n) pr
                (s.lastTimes c.cfg.basis last.targets) proto drift with
            | error e => exact RG_fail hi _
            | ok c' =>
              simp only
              have hva := validateAndAdjust_ok (hi c hcm.1).1 hpr
              have hg := addPulse_inv (hi c hcm.1) hva.1 hva.2.1 hadd
              have h1 : SG s (s.setChan c') := setChan_SG hi hc hg
              cases hl' : c'.last with
              | error e => exact h1
              | ok newSlot =>
                simp only
                have hm := mapRefs_chans (s.setChan c') c.cfg.basis last.targets
                  (·.updateLastUsed newSlot.tf)
                have h2 : SG (s.setChan c') _ := SG_of_chans_eq h1.1 hm.1 hm.2.1 hm.2.2
                split
                · exact SG.trans h1 (SG.trans h2 (RG_phaseShift h2.1 _ _ _))
                · exact SG.trans h1 h2

theorem ensureBasis_chans (s : SeqState) (b : Basis) :
    (s.ensureBasis b).chans = s.chans ∧ (s.ensureBasis b).dev = s.dev ∧ (s.ensureBasis b).nQ = s.nQ := by
  unfold SeqState.ensureBasis
  split <;> exact ⟨rfl, rfl, rfl⟩

/-- Appending a fresh channel that satisfies the invariant. -/
theorem SG_append {s s' : SeqState} {c : ChanState} (hi : SeqInv s) (hc : ChanInv s.dev.maxSeqDur c)
    (h1 : s'.chans = s.chans ++ [c]) (h2 : s'.dev = s.dev) (h3 : s'.nQ = s.nQ) : SG s s' := by
  refine ⟨?_, h2, h3, ?_⟩
  · intro x hx
    rw [h1] at hx
    rw [h2]
    rcases List.mem_append.mp hx with hx | hx
    · exact hi x hx
    · simp at hx; subst hx; exact hc
  · intro i x hx
    refine ⟨x, ?_, Ext.refl x⟩
    rw [h1, List.getElem?_append_left]
    · exact hx
    · exact (List.getElem?_eq_some_iff.mp hx).1

theorem freshChan_inv {name : ChName} {chId : Nat} {cfg : ChanCfg} {qs : List Nat} {w : Bool}
    {a b : Rat} {ms : Option Nat} (h : 0 < cfg.clock) :
    ChanInv ms (SeqState.freshChan name chId cfg qs w a b) := by
  refine ⟨h, ?_⟩
  show InvR _ (if w = true then _ else _ : List Slot).reverse
  split
  · exact ⟨rfl, rfl, rfl⟩
  · trivial

theorem addChannel_SG {s : SeqState} {c : ChanState} (hi : SeqInv s) (hc : ChanInv s.dev.maxSeqDur c) :
    SG s (s.addChannel c) := by
  unfold SeqState.addChannel
  simp only
  split
  · have he := ensureBasis_chans { ({ s with inXY := true } : SeqState) with chans := s.chans ++ [c] } c.cfg.basis
    exact SG_append hi hc (by rw [he.1]) (by rw [he.2.1]) (by rw [he.2.2])
  · have he := ensureBasis_chans { ({ s with inIsing := true } : SeqState) with chans := s.chans ++ [c] } c.cfg.basis
    exact SG_append hi hc (by rw [he.1]) (by rw [he.2.1]) (by rw [he.2.2])

theorem estimateCore_st (s : SeqState) (p : PulseIn) (c : ChanState) (proto : Protocol) :
    (estimateCore s p c proto).st = s := by
  unfold estimateCore
  split
  · rfl
  · simp only
    split
    · rfl
    · split
      · rfl
      · split <;> rfl

/-- Every API call — successful or raising — keeps the timeline invariant and
only extends the channels' timelines. -/
theorem stepRaw_RG {s : SeqState} (hd : DevOk s.dev) (hi : SeqInv s) (op : Op) :
    RG s (stepRaw s op) := by
  cases op with
  | declare name chId init =>
    simp only [stepRaw]
    split
    · exact RG_fail hi _
    · split
      · exact RG_fail hi _
      · split
        · exact RG_fail hi _
        · split
          · exact RG_fail hi _
          · rename_i cfg hcfg
            split
            · repeat' split
              all_goals exact RG_fail hi _
            · apply RG_store
              have hmem : cfg ∈ s.dev.chans := List.mem_of_getElem? hcfg
              have hfc := fun nm => freshChan_inv (name := nm) (chId := chId) (qs := s.allQubits)
                (w := !cfg.isLocal) (a := 1) (b := 1) (ms := s.dev.maxSeqDur) (hd.1 cfg hmem)
              split
              · exact addChannel_SG hi (hfc _)
              · split
                · exact RG_orRollback hi
                    (SG.trans (addChannel_SG hi (hfc _)) (RG_targetCore (addChannel_SG hi (hfc _)).1 _ _))
                · exact addChannel_SG hi (hfc _)
  | configDetMap dmmId maxW sumW =>
    simp only [stepRaw]
    split
    · exact RG_fail hi _
    · split
      · exact RG_fail hi _
      · rename_i cfg hcfg
        split
        · exact RG_fail hi _
        · split
          · exact RG_fail hi _
          · apply RG_store
            have hmem : cfg ∈ s.dev.dmms := List.mem_of_getElem? hcfg
            exact addChannel_SG hi (freshChan_inv (hd.2 cfg hmem))
  | target qs n => exact RG_store _ (RG_orRollback hi (RG_targetCore hi _ _))
  | add p n proto =>
    simp only [stepRaw]
    apply RG_store; apply RG_markNonEmpty
    repeat' split
    all_goals first | exact RG_fail hi _ | exact RG_addCore hi _ _ _ _
  | addDmm p n proto =>
    simp only [stepRaw]
    apply RG_store; apply RG_markNonEmpty
    repeat' split
    all_goals first | exact RG_fail hi _ | exact RG_addCore hi _ _ _ _
  | addEom n dur phase post proto corr fs fe ref =>
    simp only [stepRaw]
    apply RG_store; apply RG_markNonEmpty
    repeat' split
    all_goals first | exact RG_fail hi _ | exact RG_addCore hi _ _ _ _
  | delay d n atRest => exact RG_store _ (RG_orRollback hi (RG_delayChecked hi _ _ _))
  | align chs atRest =>
    simp only [stepRaw]
    apply RG_store
    apply RG_orRollback hi
    repeat' split
    all_goals first | exact RG_fail hi _ | exact RG_done (SG.rfl' hi) | exact RG_alignLoop hi _ _
  | phaseShift phi qs b => exact RG_store _ (RG_phaseShift hi _ _ _)
  | enableEom n e =>
    simp only [stepRaw]
    split
    · exact RG_fail hi _
    · split
      · exact RG_fail hi _
      · split
        · exact RG_fail hi _
        · split
          · exact RG_fail hi _
          · split
            · exact RG_fail hi _
            · apply RG_orRollback hi
              unfold enableEomCommit
              apply RG_bind (RG_withChan hi (fun c hc => enableEom_inv hc))
              intro s1 hi1 _
              apply RG_store
              repeat' split
              all_goals first
                | exact RG_phaseShift hi1 _ _ _ | exact RG_fail hi1 _ | exact RG_done (SG.rfl' hi1)
  | modifyEom n e =>
    simp only [stepRaw]
    split
    · exact RG_fail hi _
    · split
      · exact RG_fail hi _
      · split
        · exact RG_fail hi _
        · split
          · exact RG_fail hi _
          · apply RG_orRollback hi
            unfold modifyEomCommit
            apply RG_bind (RG_withChan hi (fun c hc => disableEom_inv hc))
            intro s1 hi1 hd1
            split
            · exact RG_fail hi1 _
            · apply RG_bind
              · rw [← hd1]; exact RG_withChan hi1 (fun c hc => enableEom_inv hc)
              · intro s2 hi2 _
                apply RG_store
                repeat' split
                all_goals first
                  | exact RG_phaseShift hi2 _ _ _ | exact RG_fail hi2 _ | exact RG_done (SG.rfl' hi2)
  | disableEom n corr =>
    simp only [stepRaw]
    apply RG_store
    apply RG_orRollback hi
    split
    · exact RG_fail hi _
    · split
      · exact RG_fail hi _
      · split
        · exact RG_fail hi _
        · apply RG_bind (RG_withChan hi (fun c hc => disableEom_inv hc))
          intro s1 hi1 _
          repeat' split
          all_goals first
            | exact RG_phaseShift hi1 _ _ _ | exact RG_fail hi1 _ | exact RG_done (SG.rfl' hi1)
  | measure b =>
    simp only [stepRaw]
    apply RG_store
    repeat' split
    all_goals first | exact RG_fail hi _ | exact RG_done (SG_of_chans_eq hi rfl rfl rfl)
  | getDuration ch fall =>
    simp only [stepRaw]
    repeat' split
    all_goals first | exact RG_fail hi _ | exact SG.rfl' hi
  | estimate p n proto =>
    simp only [stepRaw]
    repeat' split
    all_goals first
      | exact RG_fail hi _
      | (show SG s _; rw [estimateCore_st]; exact SG.rfl' hi)
  | phaseRef q b =>
    simp only [stepRaw]
    repeat' split
    all_goals first | exact RG_fail hi _ | exact SG.rfl' hi

/-- An oracle answer touches no instruction, configuration or bookkeeping: every invariant
of the timelines is kept. -/
theorem injectOracle_SG {s : SeqState} (hi : SeqInv s) (n : ChName) (d : Rat) (du fs fe : Nat) :
    SG s (s.injectOracle n d du fs fe) := by
  refine ⟨?_, rfl, rfl, ?_⟩
  · intro c hc
    simp only [SeqState.injectOracle, List.mem_map] at hc
    obtain ⟨c0, hc0, rfl⟩ := hc
    have := hi c0 hc0
    by_cases h : (c0.name == n) = true
    · rw [if_pos h]; exact this
    · rw [if_neg h]; exact this
  · intro i c hc
    simp only [SeqState.injectOracle, List.getElem?_map, hc, Option.map_some]
    by_cases h : (c.name == n) = true
    · rw [if_pos h]; exact ⟨_, rfl, rfl, rfl, List.prefix_refl _, rfl, rfl⟩
    · rw [if_neg h]; exact ⟨_, rfl, Ext.refl c⟩

theorem runEv_calls (s : SeqState) (ops : List Op) : runEv s (ops.map Ev.call) = run s ops := by
  induction ops generalizing s with
  | nil => rfl
  | cons op rest ih => exact ih _


theorem stepEv_SG {s : SeqState} (hd : DevOk s.dev) (hi : SeqInv s) (ev : Ev) : SG s (stepEv s ev) := by
  cases ev with
  | call op => exact stepRaw_RG hd hi op
  | oracle n d du fs fe => exact injectOracle_SG hi n d du fs fe

theorem runEv_SG {s : SeqState} (hd : DevOk s.dev) (hi : SeqInv s) (evs : List Ev) :
    SG s (runEv s evs) := by
  induction evs generalizing s with
  | nil => exact SG.rfl' hi
  | cons ev rest ih =>
    have h1 := stepEv_SG hd hi ev
    have h2 : SG (stepEv s ev) (runEv (stepEv s ev) rest) :=
      ih (by rw [h1.2.1]; exact hd) h1.1
    exact SG.trans h1 h2


end Pulser
