/-
  Proofs.Sampler — helper lemmas for C06: what the timeline invariant (C02) gives for
  the pulse instructions of a channel, and the behaviour of the rendering loops of
  `PulserModel/Sampler.lean` on such lists.
-/
import PulserModel.Sampler
import Proofs.Timeline
namespace Pulser

/-! ### The timeline invariant on the instruction list -/

/-- On the reversed instruction list: every later instruction starts after every earlier
one ends, every instruction has `ti ≤ tf`, and every end is at most the head's end. -/
theorem invR_sorted {x : Ctx} : ∀ {r : List Slot}, InvR x r →
    List.Pairwise (fun a b => b.tf ≤ a.ti) r ∧ (∀ a ∈ r, a.ti ≤ a.tf) ∧
      (∀ s rest, r = s :: rest → ∀ a ∈ r, a.tf ≤ s.tf)
  | [], _ => ⟨List.Pairwise.nil, fun a ha => absurd ha (by simp), fun s rest h => by cases h⟩
  | [s], h => by
    obtain ⟨_, h2, h3⟩ := h
    refine ⟨List.pairwise_singleton _ _, ?_, ?_⟩
    · intro a ha; simp at ha; subst ha; omega
    · intro s' rest hr a ha; simp at ha; subst ha; injection hr with hr _; subst hr; exact Int.le_refl _
  | s :: prev :: rest, h => by
    obtain ⟨⟨h1, h2, _⟩, h5⟩ := h
    obtain ⟨ih1, ih2, ih3⟩ := invR_sorted h5
    have hprev : prev.ti ≤ prev.tf := ih2 prev List.mem_cons_self
    refine ⟨?_, ?_, ?_⟩
    · refine List.Pairwise.cons ?_ ih1
      intro a ha
      have := ih3 prev rest rfl a ha
      omega
    · intro a ha
      rcases List.mem_cons.mp ha with ha | ha
      · subst ha; exact h2
      · exact ih2 a ha
    · intro s' rest' hr a ha
      injection hr with hr _; subst hr
      rcases List.mem_cons.mp ha with ha | ha
      · subst ha; exact Int.le_refl _
      · have := ih3 prev rest rfl a ha
        omega

/-- Pulse instructions start at a non-negative time and occupy exactly their duration. -/
theorem invR_pulse {x : Ctx} : ∀ {r : List Slot}, InvR x r →
    ∀ a ∈ r, ∀ p, a.kind = .pulse p → 0 ≤ a.ti ∧ a.tf = a.ti + p.dur
  | [], _ => fun a ha => absurd ha (by simp)
  | [s], h => by
    intro a ha p hp
    simp at ha; subst ha
    rw [h.1] at hp; cases hp
  | s :: prev :: rest, h => by
    intro a ha p hp
    obtain ⟨⟨h1, _, _, _, h4⟩, h5⟩ := h
    rcases List.mem_cons.mp ha with ha | ha
    · subst ha
      rw [hp] at h4
      have := (InvR_head h5).2
      exact ⟨by omega, h4.1⟩
    · exact invR_pulse h5 a ha p hp

/-- Forward form of the invariant, as the rendering loops use it. -/
structure SlotsOk (l : List Slot) (dur : Int) : Prop where
  sorted : List.Pairwise (fun a b => a.tf ≤ b.ti) l
  le : ∀ a ∈ l, a.ti ≤ a.tf
  pulse : ∀ a ∈ l, ∀ p, a.kind = .pulse p → 0 ≤ a.ti ∧ a.tf = a.ti + p.dur
  bound : ∀ a ∈ l, a.tf ≤ dur

theorem getDuration_false (c : ChanState) :
    c.getDuration false = match c.slots.reverse with | [] => 0 | s :: _ => s.tf := by
  unfold ChanState.getDuration
  cases c.slots.reverse <;> rfl

theorem slotsOk_of_inv {ms : Option Nat} {c : ChanState} (h : ChanInv ms c) :
    SlotsOk c.slots (c.getDuration false) := by
  obtain ⟨_, hinv⟩ := h
  obtain ⟨s1, s2, s3⟩ := invR_sorted hinv
  have hp := invR_pulse hinv
  refine ⟨?_, ?_, ?_, ?_⟩
  · have := List.pairwise_reverse.mpr s1
    simpa using this
  · intro a ha; exact s2 a (List.mem_reverse.mpr ha)
  · intro a ha; exact hp a (List.mem_reverse.mpr ha)
  · intro a ha
    rw [getDuration_false]
    cases hr : c.slots.reverse with
    | nil =>
      have : a ∈ c.slots.reverse := List.mem_reverse.mpr ha
      rw [hr] at this; cases this
    | cons s rest => exact s3 s rest hr a (List.mem_reverse.mpr ha)

theorem getDuration_nonneg {ms : Option Nat} {c : ChanState} (h : ChanInv ms c) :
    0 ≤ c.getDuration false := by
  rw [getDuration_false]
  cases hr : c.slots.reverse with
  | nil => exact Int.le_refl _
  | cons s rest =>
    have := h.2; rw [hr] at this
    exact (InvR_head this).2

/-! ### The pulse instructions -/

theorem mem_pulseSlotsFrom {x : PSlot} : ∀ {l : List Slot} {k : Nat},
    x ∈ pulseSlotsFrom k l ↔ ∃ j, x.idx = k + j ∧ l[j]? = some x.s ∧ x.s.kind = .pulse x.p
  | [], k => by simp [pulseSlotsFrom]
  | s :: rest, k => by
    have ih := @mem_pulseSlotsFrom x rest (k + 1)
    unfold pulseSlotsFrom
    have tail : (∃ j, x.idx = k + 1 + j ∧ rest[j]? = some x.s ∧ x.s.kind = .pulse x.p) ↔
        ∃ j, 0 < j ∧ x.idx = k + j ∧ (s :: rest)[j]? = some x.s ∧ x.s.kind = .pulse x.p := by
      constructor
      · rintro ⟨j, h1, h2, h3⟩
        exact ⟨j + 1, by omega, by omega, by simpa using h2, h3⟩
      · rintro ⟨j, h0, h1, h2, h3⟩
        obtain ⟨j', rfl⟩ : ∃ j', j = j' + 1 := ⟨j - 1, by omega⟩
        exact ⟨j', by omega, by simpa using h2, h3⟩
    cases hk : s.kind with
    | pulse p =>
      simp only []
      rw [List.mem_cons, ih, tail]
      constructor
      · rintro (h | ⟨j, _, h⟩)
        · subst h; exact ⟨0, by simp, by simp, hk⟩
        · exact ⟨j, h⟩
      · rintro ⟨j, h1, h2, h3⟩
        cases j with
        | zero =>
          left
          simp at h2
          obtain ⟨xi, xs, xp⟩ := x
          simp only at h1 h2 h3
          subst h2
          rw [hk] at h3; injection h3 with h3
          subst h3; simp [h1]
        | succ j' => exact .inr ⟨j' + 1, by omega, h1, h2, h3⟩
    | target =>
      simp only []
      rw [ih, tail]
      constructor
      · rintro ⟨j, _, h⟩; exact ⟨j, h⟩
      · rintro ⟨j, h1, h2, h3⟩
        cases j with
        | zero => simp at h2; rw [← h2, hk] at h3; cases h3
        | succ j' => exact ⟨j' + 1, by omega, h1, h2, h3⟩
    | delay =>
      simp only []
      rw [ih, tail]
      constructor
      · rintro ⟨j, _, h⟩; exact ⟨j, h⟩
      · rintro ⟨j, h1, h2, h3⟩
        cases j with
        | zero => simp at h2; rw [← h2, hk] at h3; cases h3
        | succ j' => exact ⟨j' + 1, by omega, h1, h2, h3⟩

theorem mem_pulseSlots {c : ChanState} {x : PSlot} :
    x ∈ c.pulseSlots ↔ c.slots[x.idx]? = some x.s ∧ x.s.kind = .pulse x.p := by
  unfold ChanState.pulseSlots
  rw [mem_pulseSlotsFrom]
  constructor
  · rintro ⟨j, h1, h2⟩
    have : x.idx = j := by omega
    rw [this]; exact h2
  · intro h; exact ⟨x.idx, by omega, h⟩

theorem pulseSlotsFrom_slot_mem {x : PSlot} {l : List Slot} {k : Nat} (h : x ∈ pulseSlotsFrom k l) :
    x.s ∈ l ∧ x.s.kind = .pulse x.p := by
  obtain ⟨j, _, h2, h3⟩ := mem_pulseSlotsFrom.mp h
  exact ⟨List.mem_of_getElem? h2, h3⟩

theorem pulseSlotsFrom_sorted : ∀ {l : List Slot} {k : Nat},
    List.Pairwise (fun a b => a.tf ≤ b.ti) l →
    List.Pairwise (fun a b : PSlot => a.s.tf ≤ b.s.ti) (pulseSlotsFrom k l)
  | [], _, _ => by simp [pulseSlotsFrom]
  | s :: rest, k, h => by
    obtain ⟨h1, h2⟩ := List.pairwise_cons.mp h
    have ih := @pulseSlotsFrom_sorted rest (k + 1) h2
    unfold pulseSlotsFrom
    cases hk : s.kind with
    | pulse p =>
      simp only []
      refine List.Pairwise.cons ?_ ih
      intro b hb
      exact h1 b.s (pulseSlotsFrom_slot_mem hb).1
    | target => exact ih
    | delay => exact ih

/-- What the rendering loops need to know about the list of pulse instructions. -/
structure PSOk (l : List PSlot) (T : Int) : Prop where
  sorted : List.Pairwise (fun a b : PSlot => a.s.tf ≤ b.s.ti) l
  nonneg : ∀ a ∈ l, 0 ≤ a.s.ti
  durEq : ∀ a ∈ l, a.s.tf = a.s.ti + a.p.dur
  bound : ∀ a ∈ l, a.s.tf ≤ T

theorem PSOk.le {l : List PSlot} {d : Int} (h : PSOk l d) : ∀ a ∈ l, a.s.ti ≤ a.s.tf := by
  intro a ha; have := h.durEq a ha; omega

theorem psOk_of_inv {ms : Option Nat} {c : ChanState} (h : ChanInv ms c) :
    PSOk c.pulseSlots (c.getDuration false) := by
  have ok := slotsOk_of_inv h
  refine ⟨pulseSlotsFrom_sorted ok.sorted, ?_, ?_, ?_⟩
  · intro a ha
    obtain ⟨h1, h2⟩ := pulseSlotsFrom_slot_mem ha
    exact (ok.pulse a.s h1 a.p h2).1
  · intro a ha
    obtain ⟨h1, h2⟩ := pulseSlotsFrom_slot_mem ha
    exact (ok.pulse a.s h1 a.p h2).2
  · intro a ha
    exact ok.bound a.s (pulseSlotsFrom_slot_mem ha).1

theorem PSOk.tail {x : PSlot} {l : List PSlot} {d : Int} (h : PSOk (x :: l) d) : PSOk l d :=
  ⟨(List.pairwise_cons.mp h.sorted).2, fun a ha => h.nonneg a (List.mem_cons_of_mem _ ha),
   fun a ha => h.durEq a (List.mem_cons_of_mem _ ha), fun a ha => h.bound a (List.mem_cons_of_mem _ ha)⟩

/-- The pulse instruction number `i` of channel `c` is `s`, holding pulse `p`. -/
abbrev IsPulseSlot (c : ChanState) (i : Nat) (s : Slot) (p : PulseRec) : Prop :=
  c.slots[i]? = some s ∧ s.kind = .pulse p

theorem IsPulseSlot.mem {c : ChanState} {i : Nat} {s : Slot} {p : PulseRec} (h : IsPulseSlot c i s p) :
    (⟨i, s, p⟩ : PSlot) ∈ c.pulseSlots := mem_pulseSlots.mpr h

/-! ### Amplitude / detuning: at most one term -/

theorem contribAt_none {l : List PSlot} {t : Int}
    (h : ∀ a ∈ l, ¬ (a.s.ti ≤ t ∧ t < a.s.tf)) : contribAt l t = [] := by
  unfold contribAt
  induction l with
  | nil => rfl
  | cons a rest ih =>
    rw [List.filterMap_cons]
    have := h a List.mem_cons_self
    simp only [this, if_false]
    exact ih (fun b hb => h b (List.mem_cons_of_mem _ hb))

theorem contribAt_unique {l : List PSlot} {d : Int} (ok : PSOk l d) {x : PSlot} (hx : x ∈ l)
    {t : Int} (h1 : x.s.ti ≤ t) (h2 : t < x.s.tf) : contribAt l t = [(x.idx, t - x.s.ti)] := by
  induction l with
  | nil => cases hx
  | cons a rest ih =>
    obtain ⟨hs1, _⟩ := List.pairwise_cons.mp ok.sorted
    by_cases hax : a = x
    · subst hax
      have : contribAt rest t = [] := by
        apply contribAt_none
        intro b hb hcon
        have := hs1 b hb
        omega
      unfold contribAt at this ⊢
      rw [List.filterMap_cons]
      simp only [h1, h2, and_self, if_true]
      rw [this]
    · have hxr : x ∈ rest := by
        rcases List.mem_cons.mp hx with hx | hx
        · exact absurd hx.symm hax
        · exact hx
      have hlt := hs1 x hxr
      have := ih ok.tail hxr
      unfold contribAt at this ⊢
      rw [List.filterMap_cons]
      have hn : ¬ (a.s.ti ≤ t ∧ t < a.s.tf) := by omega
      simp only [hn, if_false]
      exact this

/-! ### Phase: the overwrite order never clobbers an earlier pulse's own interval -/

theorem ord_cons {y : PSlot} {rest prevRev : List PSlot}
    (hord : ∀ y' ∈ y :: rest, ∀ z ∈ prevRev, z.s.tf ≤ y'.s.ti)
    (hsort : List.Pairwise (fun a b : PSlot => a.s.tf ≤ b.s.ti) (y :: rest)) :
    ∀ y' ∈ rest, ∀ z ∈ y :: prevRev, z.s.tf ≤ y'.s.ti := by
  intro y' hy' z hz
  rcases List.mem_cons.mp hz with hz | hz
  · subst hz; exact (List.pairwise_cons.mp hsort).1 y' hy'
  · exact hord y' (List.mem_cons_of_mem _ hy') z hz

/-- Later pulses leave the array alone before the end of the last pulse that counts. -/
theorem paintLoop_keep (pjt : Nat) (ign : Bool) {t b : Int} (htb : t < b) :
    ∀ (rest prevRev : List PSlot) (arr : Int → Option Nat),
      (∃ l, prevRev.find? (counts ign) = some l ∧ b ≤ l.s.tf) →
      (∀ y ∈ rest, ∀ z ∈ prevRev, z.s.tf ≤ y.s.ti) →
      List.Pairwise (fun a b : PSlot => a.s.tf ≤ b.s.ti) rest →
      (∀ y ∈ rest, y.s.ti ≤ y.s.tf) →
      paintLoop pjt ign prevRev rest arr t = arr t
  | [], _, _, _, _, _, _ => rfl
  | y :: rest, prevRev, arr, ⟨l, hfind, hb⟩, hord, hsort, hle => by
    unfold paintLoop
    have hlmem : l ∈ prevRev := List.mem_of_find?_eq_some hfind
    have hly : l.s.tf ≤ y.s.ti := hord y List.mem_cons_self l hlmem
    have hyle := hle y List.mem_cons_self
    have hs2 := (List.pairwise_cons.mp hsort).2
    have hord' := ord_cons hord hsort
    have hle' : ∀ y' ∈ rest, y'.s.ti ≤ y'.s.tf := fun y' hy' => hle y' (List.mem_cons_of_mem _ hy')
    by_cases hc : counts ign y = true
    · have hl' : ∃ l', (y :: prevRev).find? (counts ign) = some l' ∧ b ≤ l'.s.tf :=
        ⟨y, by simp [hc], by omega⟩
      rw [paintLoop_keep pjt ign htb rest (y :: prevRev) _ hl' hord' hs2 hle']
      simp only [hc, if_true]
      unfold paintFrom tStart
      rw [hfind]
      have : ¬ (max (y.s.ti - (pjt : Int)) l.s.tf ≤ t) := by omega
      simp only [this, if_false]
    · have hl' : ∃ l', (y :: prevRev).find? (counts ign) = some l' ∧ b ≤ l'.s.tf :=
        ⟨l, by simp [hc, hfind], hb⟩
      rw [paintLoop_keep pjt ign htb rest (y :: prevRev) _ hl' hord' hs2 hle']
      simp only [hc, if_false, Bool.false_eq_true]

/-- Over its own interval a pulse that counts is what the phase array holds at the end. -/
theorem paintLoop_on_pulse (pjt : Nat) (ign : Bool) {x : PSlot} {t : Int} (hc : counts ign x = true)
    (h1 : x.s.ti ≤ t) (h2 : t < x.s.tf) :
    ∀ (rest prevRev : List PSlot) (arr : Int → Option Nat), x ∈ rest →
      (∀ y ∈ rest, ∀ z ∈ prevRev, z.s.tf ≤ y.s.ti) →
      List.Pairwise (fun a b : PSlot => a.s.tf ≤ b.s.ti) rest →
      (∀ y ∈ rest, 0 ≤ y.s.ti ∧ y.s.ti ≤ y.s.tf) →
      paintLoop pjt ign prevRev rest arr t = some x.idx
  | [], _, _, hx, _, _, _ => by cases hx
  | y :: rest, prevRev, arr, hx, hord, hsort, hwf => by
    unfold paintLoop
    have hs2 := (List.pairwise_cons.mp hsort).2
    have hord' := ord_cons hord hsort
    have hwf' : ∀ y' ∈ rest, 0 ≤ y'.s.ti ∧ y'.s.ti ≤ y'.s.tf :=
      fun y' hy' => hwf y' (List.mem_cons_of_mem _ hy')
    by_cases hyx : y = x
    · subst hyx
      have hl' : ∃ l', (y :: prevRev).find? (counts ign) = some l' ∧ y.s.tf ≤ l'.s.tf :=
        ⟨y, by simp [hc], Int.le_refl _⟩
      rw [paintLoop_keep pjt ign h2 rest (y :: prevRev) _ hl' hord' hs2 (fun y' hy' => (hwf' y' hy').2)]
      simp only [hc, if_true]
      unfold paintFrom
      have : tStart pjt ign prevRev y ≤ t := by
        unfold tStart
        cases hf : prevRev.find? (counts ign) with
        | none => have := (hwf y List.mem_cons_self).1; simp only; omega
        | some l =>
          have := hord y List.mem_cons_self l (List.mem_of_find?_eq_some hf)
          simp only; omega
      simp only [this, if_true]
    · have hxr : x ∈ rest := by
        rcases List.mem_cons.mp hx with hx | hx
        · exact absurd hx.symm hyx
        · exact hx
      exact paintLoop_on_pulse pjt ign hc h1 h2 rest (y :: prevRev) _ hxr hord' hs2 hwf'

/-- Without any pulse that counts the array keeps its initial zeros. -/
theorem paintLoop_none (pjt : Nat) (ign : Bool) (t : Int) :
    ∀ (rest prevRev : List PSlot) (arr : Int → Option Nat), (∀ y ∈ rest, counts ign y = false) →
      paintLoop pjt ign prevRev rest arr t = arr t
  | [], _, _, _ => rfl
  | y :: rest, prevRev, arr, h => by
    unfold paintLoop
    rw [paintLoop_none pjt ign t rest (y :: prevRev) _ (fun y' hy' => h y' (List.mem_cons_of_mem _ hy'))]
    simp [h y List.mem_cons_self]

/-! ### Pulse target slots (`ChannelSamples.slots`) -/

/-- The end of the `_PulseTargetSlot` of `a` when the later pulses are `rest`. -/
def extTf (c : ChanState) (a : PSlot) : List PSlot → Int
  | [] => a.s.tf + (a.p.fall (c.inEomAt a.s.ti) : Nat)
  | y :: _ => a.s.tf + min ((a.p.fall (c.inEomAt a.s.ti) : Nat) : Int) (y.s.ti - a.s.tf)

theorem ptSlotsAux_cons (c : ChanState) (a : PSlot) (rest : List PSlot) :
    ptSlotsAux c (a :: rest) = ⟨a.s.ti, extTf c a rest, a.s.targets⟩ :: ptSlotsAux c rest := by
  cases rest <;> rfl

theorem extTf_bounds (c : ChanState) {a : PSlot} {rest : List PSlot}
    (hsort : List.Pairwise (fun a b : PSlot => a.s.tf ≤ b.s.ti) (a :: rest))
    (hle : ∀ y ∈ rest, y.s.ti ≤ y.s.tf) :
    a.s.tf ≤ extTf c a rest ∧ ∀ y ∈ rest, extTf c a rest ≤ y.s.ti := by
  obtain ⟨h1, h2⟩ := List.pairwise_cons.mp hsort
  cases rest with
  | nil => exact ⟨by simp only [extTf]; omega, fun y hy => absurd hy (by simp)⟩
  | cons y0 rest' =>
    have h0 := h1 y0 List.mem_cons_self
    refine ⟨by simp only [extTf]; omega, ?_⟩
    intro y hy
    have : y0.s.ti ≤ y.s.ti := by
      rcases List.mem_cons.mp hy with hy | hy
      · subst hy; exact Int.le_refl _
      · have := (List.pairwise_cons.mp h2).1 y hy
        have := hle y0 List.mem_cons_self
        omega
    simp only [extTf]; omega

theorem ptSlotsAux_ti (c : ChanState) : ∀ {l : List PSlot} {s : PTSlot}, s ∈ ptSlotsAux c l →
    ∃ y ∈ l, s.ti = y.s.ti
  | [], s, h => by simp [ptSlotsAux] at h
  | a :: rest, s, h => by
    rw [ptSlotsAux_cons] at h
    rcases List.mem_cons.mp h with h | h
    · subst h; exact ⟨a, List.mem_cons_self, rfl⟩
    · obtain ⟨y, hy, e⟩ := ptSlotsAux_ti c h
      exact ⟨y, List.mem_cons_of_mem _ hy, e⟩

/-- The only pulse-target slot whose window contains a time inside pulse `x` is the slot of `x`. -/
theorem ptSlots_window (c : ChanState) {x : PSlot} {t : Int} (h1 : x.s.ti ≤ t) (h2 : t < x.s.tf) :
    ∀ {l : List PSlot}, List.Pairwise (fun a b : PSlot => a.s.tf ≤ b.s.ti) l →
      (∀ y ∈ l, y.s.ti ≤ y.s.tf) → x ∈ l →
      (∀ s ∈ ptSlotsAux c l, s.ti ≤ t → t < s.tf → s.ti = x.s.ti ∧ s.targets = x.s.targets) ∧
      (∃ s ∈ ptSlotsAux c l, s.ti = x.s.ti ∧ s.targets = x.s.targets ∧ t < s.tf)
  | [], _, _, hx => by cases hx
  | a :: rest, hsort, hle, hx => by
    rw [ptSlotsAux_cons]
    obtain ⟨hs1, hs2⟩ := List.pairwise_cons.mp hsort
    have hle' : ∀ y ∈ rest, y.s.ti ≤ y.s.tf := fun y hy => hle y (List.mem_cons_of_mem _ hy)
    obtain ⟨b1, b2⟩ := extTf_bounds c hsort hle'
    by_cases hax : a = x
    · subst hax
      refine ⟨?_, ⟨_, List.mem_cons_self, rfl, rfl, by show t < extTf c a rest; omega⟩⟩
      intro s hs e1 e2
      rcases List.mem_cons.mp hs with hs | hs
      · subst hs; exact ⟨rfl, rfl⟩
      · obtain ⟨y, hy, e⟩ := ptSlotsAux_ti c hs
        have := hs1 y hy
        omega
    · have hxr : x ∈ rest := by
        rcases List.mem_cons.mp hx with hx | hx
        · exact absurd hx.symm hax
        · exact hx
      obtain ⟨ih1, s, hs, ih2⟩ := ptSlots_window c h1 h2 hs2 hle' hxr
      refine ⟨?_, ⟨s, List.mem_cons_of_mem _ hs, ih2⟩⟩
      intro s' hs' e1 e2
      rcases List.mem_cons.mp hs' with hs' | hs'
      · subst hs'
        have := b2 x hxr
        simp only at e2
        omega
      · exact ih1 s' hs' e1 e2

/-- `t` lies below the end `hi` of a slice (`None` = to the end of the arrays). -/
def inHi (hi : Option Int) (t : Int) : Prop :=
  match hi with
  | some h => t < h
  | none => True

theorem slotWindows_cons (o : Bool) (s : PTSlot) (l : List PTSlot) :
    slotWindows o (s :: l) = (s, if l.isEmpty && o then none else some s.tf) :: slotWindows o l := by
  cases l with
  | nil => cases o <;> rfl
  | cons a r => rfl

theorem mem_slotWindows {o : Bool} : ∀ {l : List PTSlot} {sw : PTSlot × Option Int},
    sw ∈ slotWindows o l → sw.1 ∈ l
  | [], sw, h => by simp [slotWindows] at h
  | s :: l, sw, h => by
    rw [slotWindows_cons] at h
    rcases List.mem_cons.mp h with h | h
    · subst h; exact List.mem_cons_self
    · exact List.mem_cons_of_mem _ (mem_slotWindows h)

theorem ptSlotsAux_isEmpty (c : ChanState) (l : List PSlot) : (ptSlotsAux c l).isEmpty = l.isEmpty := by
  cases l with
  | nil => rfl
  | cons a r => rw [ptSlotsAux_cons]; rfl

/-- The only slice of the per-qubit loop of `to_nested_dict` that contains a time inside pulse `x`
is the one of the slot of `x` — also when the last slice is open-ended (channel left in EOM mode). -/
theorem slotWindows_window (c : ChanState) (o : Bool) {x : PSlot} {t : Int} (h1 : x.s.ti ≤ t)
    (h2 : t < x.s.tf) :
    ∀ {l : List PSlot}, List.Pairwise (fun a b : PSlot => a.s.tf ≤ b.s.ti) l →
      (∀ y ∈ l, y.s.ti ≤ y.s.tf) → x ∈ l →
      (∀ sw ∈ slotWindows o (ptSlotsAux c l), sw.1.ti ≤ t → inHi sw.2 t →
        sw.1.ti = x.s.ti ∧ sw.1.targets = x.s.targets) ∧
      (∃ sw ∈ slotWindows o (ptSlotsAux c l), sw.1.ti = x.s.ti ∧ sw.1.targets = x.s.targets ∧ inHi sw.2 t)
  | [], _, _, hx => by cases hx
  | a :: rest, hsort, hle, hx => by
    rw [ptSlotsAux_cons, slotWindows_cons, ptSlotsAux_isEmpty]
    obtain ⟨hs1, hs2⟩ := List.pairwise_cons.mp hsort
    have hle' : ∀ y ∈ rest, y.s.ti ≤ y.s.tf := fun y hy => hle y (List.mem_cons_of_mem _ hy)
    obtain ⟨b1, b2⟩ := extTf_bounds c hsort hle'
    by_cases hax : a = x
    · subst hax
      refine ⟨?_, ⟨_, List.mem_cons_self, rfl, rfl, ?_⟩⟩
      · intro sw hs e1 e2
        rcases List.mem_cons.mp hs with hs | hs
        · subst hs; exact ⟨rfl, rfl⟩
        · obtain ⟨y, hy, e⟩ := ptSlotsAux_ti c (mem_slotWindows hs)
          have := hs1 y hy
          omega
      · show inHi (if (rest.isEmpty && o) = true then none else some (extTf c a rest)) t
        split
        · trivial
        · show t < extTf c a rest; omega
    · have hxr : x ∈ rest := by
        rcases List.mem_cons.mp hx with hx | hx
        · exact absurd hx.symm hax
        · exact hx
      have hne : rest.isEmpty = false := by
        cases rest with
        | nil => cases hxr
        | cons _ _ => rfl
      obtain ⟨ih1, sw, hs, ih2⟩ := slotWindows_window c o h1 h2 hs2 hle' hxr
      refine ⟨?_, ⟨sw, List.mem_cons_of_mem _ hs, ih2⟩⟩
      intro sw' hs' e1 e2
      rcases List.mem_cons.mp hs' with hs' | hs'
      · subst hs'
        have := b2 x hxr
        simp only [hne, Bool.false_and, Bool.false_eq_true, if_false] at e2
        have e2' : t < extTf c a rest := e2
        omega
      · exact ih1 sw' hs' e1 e2

/-! ### `to_nested_dict`: which statements reach an entry -/

theorem hits_add_some {b' b : Basis} {q' q : Option Nat} {k k' : Nat} {lo h t : Int} {w w' : Rat} :
    (NInstr.add b' q' k lo (some h) w).hits b q t = some (k', w') ↔
      b' = b ∧ q' = q ∧ lo ≤ t ∧ t < h ∧ k' = k ∧ w' = w := by
  simp only [NInstr.hits]
  by_cases hc : b' = b ∧ q' = q ∧ lo ≤ t ∧ t < h
  · rw [if_pos hc]
    constructor
    · intro e; injection e with e; injection e with e1 e2
      exact ⟨hc.1, hc.2.1, hc.2.2.1, hc.2.2.2, e1.symm, e2.symm⟩
    · rintro ⟨_, _, _, _, rfl, rfl⟩; rfl
  · rw [if_neg hc]
    constructor
    · intro e; cases e
    · rintro ⟨e1, e2, e3, e4, _, _⟩; exact absurd ⟨e1, e2, e3, e4⟩ hc

theorem hits_add_none {b' b : Basis} {q' q : Option Nat} {k k' : Nat} {lo t : Int} {w w' : Rat} :
    (NInstr.add b' q' k lo none w).hits b q t = some (k', w') ↔
      b' = b ∧ q' = q ∧ lo ≤ t ∧ k' = k ∧ w' = w := by
  simp only [NInstr.hits]
  by_cases hc : b' = b ∧ q' = q ∧ lo ≤ t
  · rw [if_pos hc]
    constructor
    · intro e; injection e with e; injection e with e1 e2
      exact ⟨hc.1, hc.2.1, hc.2.2, e1.symm, e2.symm⟩
    · rintro ⟨_, _, _, rfl, rfl⟩; rfl
  · rw [if_neg hc]
    constructor
    · intro e; cases e
    · rintro ⟨e1, e2, e3, _, _⟩; exact absurd ⟨e1, e2, e3⟩ hc

theorem hits_touch {b' b : Basis} {q' : Nat} {q : Option Nat} {t : Int} {r : Nat × Rat} :
    (NInstr.touch b' q').hits b q t = some r ↔ False := by
  simp [NInstr.hits]

theorem hits_add {b' b : Basis} {q' q : Option Nat} {k k' : Nat} {lo t : Int} {hi : Option Int} {w w' : Rat} :
    (NInstr.add b' q' k lo hi w).hits b q t = some (k', w') ↔
      b' = b ∧ q' = q ∧ lo ≤ t ∧ inHi hi t ∧ k' = k ∧ w' = w := by
  cases hi with
  | none =>
    rw [hits_add_none]
    exact ⟨fun ⟨a, b1, c, d, e⟩ => ⟨a, b1, c, trivial, d, e⟩, fun ⟨a, b1, c, _, d, e⟩ => ⟨a, b1, c, d, e⟩⟩
  | some h => exact hits_add_some

/-- Local branch (`Local` channel, DMM, or `all_local`): a statement of channel `k` reaches
`(b, q)` at `t` exactly when some pulse-target slot that targets `q` has `t` in its slice
(started at the mask end for a masked atom in XY mode; open-ended for the last slot of a
channel left in EOM mode) — or, for a channel without pulses that is left in EOM mode, when
`q` is one of its last targets. -/
theorem mem_attrib_local {allLocal : Bool} {m : SlmMask} {k : Nat} {v : ChanView}
    (hb : v.globalBranch allLocal = false) {b : Basis} {q : Nat} {t : Int} {k' : Nat} {w : Rat} :
    (k', w) ∈ attribAt (chanInstrs allLocal m k v) b (some q) t ↔
      k' = k ∧ b = v.basis ∧ w = v.weight q ∧
      ((∃ sw ∈ slotWindows v.openEom v.slots, q ∈ sw.1.targets ∧
          (if v.basis == .xy && m.targets.contains q then max sw.1.ti m.end_ else sw.1.ti) ≤ t ∧
          inHi sw.2 t) ∨
       (v.slots.isEmpty = true ∧ v.openEom = true ∧ q ∈ v.lastTargets ∧ 0 ≤ t)) := by
  unfold attribAt chanInstrs
  simp only [hb, Bool.false_eq_true, if_false, List.mem_filterMap, List.mem_append, List.mem_flatMap,
    List.mem_map, List.mem_eraseDups]
  constructor
  · rintro ⟨i, hi, hh⟩
    rcases hi with hi | ⟨sw, hs, q', hq', rfl⟩
    · by_cases he : v.slots.isEmpty = true
      · rw [if_pos he] at hi
        rcases List.mem_append.mp hi with hi | hi
        · obtain ⟨q', _, rfl⟩ := List.mem_map.mp hi
          exact (hits_touch.mp hh).elim
        · by_cases ho : v.openEom = true
          · rw [if_pos ho] at hi
            obtain ⟨q', hq', rfl⟩ := List.mem_map.mp hi
            obtain ⟨e1, e2, e3, _, e5, e6⟩ := hits_add.mp hh
            injection e2 with e2; subst e2
            exact ⟨e5, e1.symm, e6, .inr ⟨he, ho, List.mem_eraseDups.mp hq', e3⟩⟩
          · rw [if_neg ho] at hi; cases hi
      · rw [if_neg he] at hi; cases hi
    · obtain ⟨e1, e2, e3, e4, e5, e6⟩ := hits_add.mp hh
      injection e2 with e2; subst e2
      exact ⟨e5, e1.symm, e6, .inl ⟨sw, hs, hq', e3, e4⟩⟩
  · rintro ⟨rfl, rfl, rfl, h | ⟨he, ho, hq, e3⟩⟩
    · obtain ⟨sw, hs, hq, e3, e4⟩ := h
      exact ⟨_, .inr ⟨sw, hs, q, hq, rfl⟩, hits_add.mpr ⟨rfl, rfl, e3, e4, rfl, rfl⟩⟩
    · refine ⟨NInstr.add v.basis (some q) k' 0 none (v.weight q), .inl ?_,
        hits_add.mpr ⟨rfl, rfl, e3, trivial, rfl, rfl⟩⟩
      rw [if_pos he, if_pos ho]
      exact List.mem_append.mpr (.inr (List.mem_map.mpr ⟨q, List.mem_eraseDups.mpr hq, rfl⟩))

/-- Global branch: the channel's samples go to `d["Global"][basis]` from `start_t` on … -/
theorem mem_attrib_global {allLocal : Bool} {m : SlmMask} {k : Nat} {v : ChanView}
    (hb : v.globalBranch allLocal = true) {b : Basis} {t : Int} {k' : Nat} {w : Rat} :
    (k', w) ∈ attribAt (chanInstrs allLocal m k v) b none t ↔
      k' = k ∧ b = v.basis ∧ w = 1 ∧ startT m v ≤ t := by
  unfold attribAt chanInstrs
  simp only [hb, if_true, List.mem_filterMap, List.mem_cons]
  constructor
  · rintro ⟨i, hi, hh⟩
    rcases hi with rfl | hi
    · obtain ⟨e1, _, e3, e5, e6⟩ := hits_add_none.mp hh
      exact ⟨e5, e1.symm, e6, e3⟩
    · by_cases hz : startT m v = 0
      · rw [if_pos hz] at hi; cases hi
      · rw [if_neg hz] at hi
        cases hh0 : v.slots.head? with
        | none => rw [hh0] at hi; cases hi
        | some s0 =>
          rw [hh0] at hi
          obtain ⟨q', _, rfl⟩ := List.mem_map.mp hi
          obtain ⟨_, e2, _⟩ := hits_add_some.mp hh
          cases e2
  · rintro ⟨rfl, rfl, rfl, e⟩
    exact ⟨_, .inl rfl, hits_add_none.mpr ⟨rfl, rfl, e, rfl, rfl⟩⟩

/-- … and, before a non-zero `start_t` (XY mode with an SLM mask), to the `Local` entries of
the unmasked targets of the first pulse. -/
theorem mem_attrib_global_local {allLocal : Bool} {m : SlmMask} {k : Nat} {v : ChanView}
    (hb : v.globalBranch allLocal = true) {b : Basis} {q : Nat} {t : Int} {k' : Nat} {w : Rat} :
    (k', w) ∈ attribAt (chanInstrs allLocal m k v) b (some q) t ↔
      k' = k ∧ b = v.basis ∧ w = 1 ∧ startT m v ≠ 0 ∧ 0 ≤ t ∧ t < startT m v ∧
        (∃ s0, v.slots.head? = some s0 ∧ q ∈ s0.targets) ∧ m.targets.contains q = false := by
  unfold attribAt chanInstrs
  simp only [hb, if_true, List.mem_filterMap, List.mem_cons]
  constructor
  · rintro ⟨i, hi, hh⟩
    rcases hi with rfl | hi
    · obtain ⟨_, e2, _⟩ := hits_add_none.mp hh
      cases e2
    · by_cases hz : startT m v = 0
      · rw [if_pos hz] at hi; cases hi
      · rw [if_neg hz] at hi
        cases hh0 : v.slots.head? with
        | none => rw [hh0] at hi; cases hi
        | some s0 =>
          rw [hh0] at hi
          simp only [List.mem_map, List.mem_filter, List.mem_eraseDups] at hi
          obtain ⟨q', ⟨hq1, hq2⟩, rfl⟩ := hi
          obtain ⟨e1, e2, e3, e4, e5, e6⟩ := hits_add_some.mp hh
          injection e2 with e2; subst e2
          exact ⟨e5, e1.symm, e6, hz, e3, e4, ⟨s0, rfl, hq1⟩, by simpa using hq2⟩
  · rintro ⟨rfl, rfl, rfl, hne, e3, e4, ⟨s0, hs0, hq⟩, hm⟩
    refine ⟨NInstr.add v.basis (some q) k' 0 (some (startT m v)) 1, .inr ?_,
      hits_add_some.mpr ⟨rfl, rfl, e3, e4, rfl, rfl⟩⟩
    rw [if_neg hne, hs0]
    simp only [List.mem_map, List.mem_filter, List.mem_eraseDups]
    exact ⟨q, ⟨hq, by simpa using hm⟩, rfl⟩

/-- A channel only writes entries of its own position. -/
theorem mem_nestedInstrsFrom {allLocal : Bool} {m : SlmMask} {i : NInstr} :
    ∀ {views : List ChanView} {k0 : Nat}, i ∈ nestedInstrsFrom allLocal m k0 views ↔
      ∃ j v, views[j]? = some v ∧ i ∈ chanInstrs allLocal m (k0 + j) v
  | [], k0 => by simp [nestedInstrsFrom]
  | v :: rest, k0 => by
    unfold nestedInstrsFrom
    rw [List.mem_append, @mem_nestedInstrsFrom allLocal m i rest (k0 + 1)]
    constructor
    · rintro (h | ⟨j, v', h1, h2⟩)
      · exact ⟨0, v, by simp, by simpa using h⟩
      · exact ⟨j + 1, v', by simpa using h1, by rw [show k0 + (j + 1) = k0 + 1 + j by omega]; exact h2⟩
    · rintro ⟨j, v', h1, h2⟩
      cases j with
      | zero => simp at h1; subst h1; exact .inl (by simpa using h2)
      | succ j' =>
        exact .inr ⟨j', v', by simpa using h1, by rw [show k0 + 1 + j' = k0 + (j' + 1) by omega]; exact h2⟩

/-- Every statement generated for the channel at position `k` carries `k`. -/
theorem chanInstrs_chan {allLocal : Bool} {m : SlmMask} {k : Nat} {v : ChanView} {i : NInstr}
    (hi : i ∈ chanInstrs allLocal m k v) (b : Basis) (q : Option Nat) (t : Int) (r : Nat × Rat)
    (hh : i.hits b q t = some r) : r.1 = k := by
  obtain ⟨k', w⟩ := r
  have key : (∃ q', i = NInstr.touch v.basis q') ∨ (∃ b' q' lo hi' w', i = NInstr.add b' q' k lo hi' w') := by
    unfold chanInstrs at hi
    split at hi
    · rcases List.mem_cons.mp hi with hi | hi
      · exact .inr ⟨_, _, _, _, _, hi⟩
      · split at hi
        · cases hi
        · split at hi
          · cases hi
          · obtain ⟨q', _, rfl⟩ := List.mem_map.mp hi
            exact .inr ⟨_, _, _, _, _, rfl⟩
    · rcases List.mem_append.mp hi with hi | hi
      · split at hi
        · rcases List.mem_append.mp hi with hi | hi
          · obtain ⟨q', _, rfl⟩ := List.mem_map.mp hi
            exact .inl ⟨q', rfl⟩
          · split at hi
            · obtain ⟨q', _, rfl⟩ := List.mem_map.mp hi
              exact .inr ⟨_, _, _, _, _, rfl⟩
            · cases hi
        · cases hi
      · obtain ⟨s, _, hi⟩ := List.mem_flatMap.mp hi
        obtain ⟨q', _, rfl⟩ := List.mem_map.mp hi
        exact .inr ⟨_, _, _, _, _, rfl⟩
  rcases key with ⟨q', rfl⟩ | ⟨b', q', lo, hi', w', rfl⟩
  · exact (hits_touch.mp hh).elim
  · cases hi' with
    | none => exact (hits_add_none.mp hh).2.2.2.1
    | some h' => exact (hits_add_some.mp hh).2.2.2.2.1

/-! ### The phase rule of `_add_channel_samples` -/

theorem phaseStep_off_off (on : Nat → Bool) (acc : List Nat) {k : Nat} (hk : on k = false) :
    phaseStep on (acc, false) k = (acc ++ [k], false) := by
  simp [phaseStep, mergePhase, hk]

theorem phaseStep_on_off (on : Nat → Bool) (acc : List Nat) {k : Nat} (hk : on k = false) :
    phaseStep on (acc, true) k = (acc, true) := by
  simp [phaseStep, mergePhase, hk]

theorem phaseStep_off_on (on : Nat → Bool) (acc : List Nat) {k : Nat} (hk : on k = true) :
    phaseStep on (acc, false) k = ([k], true) := by
  simp [phaseStep, mergePhase, hk]

theorem entryPhase_all_off (on : Nat → Bool) : ∀ (ws : List Nat) (acc : List Nat),
    (∀ k ∈ ws, on k = false) → ws.foldl (phaseStep on) (acc, false) = (acc ++ ws, false)
  | [], acc, _ => by simp
  | k :: rest, acc, h => by
    rw [List.foldl_cons, phaseStep_off_off on acc (h k List.mem_cons_self),
      entryPhase_all_off on rest _ (fun k' hk' => h k' (List.mem_cons_of_mem _ hk'))]
    simp

theorem entryPhase_keep (on : Nat → Bool) : ∀ (ws : List Nat) (acc : List Nat),
    (∀ k ∈ ws, on k = false) → ws.foldl (phaseStep on) (acc, true) = (acc, true)
  | [], acc, _ => by simp
  | k :: rest, acc, h => by
    rw [List.foldl_cons, phaseStep_on_off on acc (h k List.mem_cons_self)]
    exact entryPhase_keep on rest acc (fun k' hk' => h k' (List.mem_cons_of_mem _ hk'))

/-- When exactly one of the channels written into an entry drives at that time, the entry's
phase is that channel's alone. -/
theorem entryPhase_single (on : Nat → Bool) (pre post : List Nat) (k0 : Nat) (hk0 : on k0 = true)
    (hpre : ∀ k ∈ pre, on k = false) (hpost : ∀ k ∈ post, on k = false) :
    entryPhase on (pre ++ k0 :: post) = ([k0], true) := by
  unfold entryPhase
  rw [List.foldl_append, entryPhase_all_off on pre [] hpre, List.foldl_cons,
    phaseStep_off_on on _ hk0]
  exact entryPhase_keep on post [k0] hpost

end Pulser
