/-
  Proofs.Duration — facts about `validateDuration` / `adjustDuration`.
-/
import PulserModel.Basic
namespace Pulser

theorem overNat_false {m : Option Nat} {d : Nat} :
    overNat m d = false ↔ ∀ x, m = some x → d ≤ x := by
  unfold overNat
  cases m with
  | none => simp
  | some x => simp

theorem validateDuration_ok {c : ChanCfg} {d d' : Nat} (hc : 0 < c.clock)
    (h : validateDuration c d = .ok d') :
    c.minDur ≤ d ∧ (∀ m, c.maxDur = some m → d' ≤ m) ∧ d ≤ d' ∧ d' < d + c.clock ∧ c.clock ∣ d' := by
  unfold validateDuration at h
  by_cases h1 : d < c.minDur
  · simp [h1] at h
  · cases h2 : overNat c.maxDur d with
    | true => simp [h1, h2] at h
    | false =>
      have hmax := overNat_false.mp h2
      rw [if_neg h1, h2] at h
      rw [if_neg (by simp)] at h
      have hm := Nat.mod_lt d hc
      by_cases h3 : d % c.clock ≠ 0
      · rw [if_pos h3] at h
        cases h4 : overNat c.maxDur (d + (c.clock - d % c.clock)) with
        | true => simp [h4] at h
        | false =>
          rw [h4] at h
          rw [if_neg (by simp)] at h
          injection h with h; subst h
          refine ⟨by omega, overNat_false.mp h4, by omega, by omega, ?_⟩
          have h5 : d + (c.clock - d % c.clock) = (d / c.clock + 1) * c.clock := by
            have := Nat.div_add_mod d c.clock
            rw [Nat.add_mul, Nat.one_mul, Nat.mul_comm]; omega
          rw [h5]; exact Nat.dvd_mul_left _ _
      · rw [if_neg h3] at h
        injection h with h; subst h
        refine ⟨by omega, hmax, Nat.le_refl _, by omega, ?_⟩
        exact Nat.dvd_of_mod_eq_zero (by omega)

/-- An already valid duration is returned unchanged. -/
theorem validateDuration_idem {c : ChanCfg} {d : Nat} (h1 : c.minDur ≤ d)
    (h2 : ∀ m, c.maxDur = some m → d ≤ m) (h3 : c.clock ∣ d) : validateDuration c d = .ok d := by
  unfold validateDuration
  have h0 : ¬ d < c.minDur := by omega
  have h4 : overNat c.maxDur d = false := overNat_false.mpr h2
  have h5 : d % c.clock = 0 := Nat.mod_eq_zero_of_dvd h3
  simp [h0, h4, h5]

theorem adjustDuration_ok {c : ChanCfg} {d d' : Nat} (hc : 0 < c.clock)
    (h : adjustDuration c d = .ok d') :
    c.minDur ≤ d' ∧ d ≤ d' ∧ c.clock ∣ d' ∧ d' < max d c.minDur + c.clock ∧
      (∀ m, c.maxDur = some m → d' ≤ m) := by
  unfold adjustDuration at h
  have := validateDuration_ok hc h
  refine ⟨by omega, by omega, this.2.2.2.2, by omega, this.2.1⟩

end Pulser
