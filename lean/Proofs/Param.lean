/-
  Proofs.Param — helper lemmas for C08 (parametrized sequences and `build`):
  folding histories, the call log of successful calls, replay of the concrete prefix.
-/
import PulserModel.Param
namespace Pulser
namespace Param

instance {ε α : Type} [DecidableEq ε] [DecidableEq α] : DecidableEq (Except ε α) := fun a b =>
  match a, b with
  | .ok x, .ok y => if h : x = y then isTrue (by rw [h]) else isFalse (by intro hh; cases hh; exact h rfl)
  | .error x, .error y =>
    if h : x = y then isTrue (by rw [h]) else isFalse (by intro hh; cases hh; exact h rfl)
  | .ok _, .error _ => isFalse (by intro hh; cases hh)
  | .error _, .ok _ => isFalse (by intro hh; cases hh)

/-! ### Histories -/

theorem run_append (s : SeqState) (a b : List Op) : run s (a ++ b) = run (run s a) b := by
  unfold run; exact List.foldl_append

theorem run_cons (s : SeqState) (op : Op) (rest : List Op) :
    run s (op :: rest) = run (stepRaw s op).st rest := rfl

theorem runAllFrom_ok_run {k : Nat} {s s' : SeqState} {ops : List Op}
    (h : runAllFrom k s ops = .ok s') : run s ops = s' := by
  induction ops generalizing k s with
  | nil => simp [runAllFrom] at h; simp [run, h]
  | cons op rest ih =>
    unfold runAllFrom at h
    rw [run_cons]
    cases he : (stepRaw s op).err with
    | none => rw [he] at h; exact ih h
    | some e => rw [he] at h; cases h

/-- Error indices are relative to the starting index. -/
def shiftErr (n : Nat) : Except (Nat × Err) SeqState → Except (Nat × Err) SeqState
  | .ok s => .ok s
  | .error (k, e) => .error (n + k, e)

theorem runAllFrom_shift (n k : Nat) (s : SeqState) (ops : List Op) :
    runAllFrom (n + k) s ops = shiftErr n (runAllFrom k s ops) := by
  induction ops generalizing k s with
  | nil => rfl
  | cons op rest ih =>
    unfold runAllFrom
    cases he : (stepRaw s op).err with
    | none => simp only; rw [← ih (k + 1)]; rfl
    | some e => rfl

/-- A run that must succeed throughout splits at any point. -/
theorem runAll_append_ok {s s1 : SeqState} {a b : List Op} (ha : runAll s a = .ok s1) :
    runAll s (a ++ b) = runAllFrom a.length s1 b := by
  unfold runAll at ha ⊢
  have gen : ∀ (k : Nat) (s : SeqState), runAllFrom k s a = .ok s1 →
      runAllFrom k s (a ++ b) = runAllFrom (k + a.length) s1 b := by
    clear ha
    induction a with
    | nil => intro k s h; simp [runAllFrom] at h; simp [h]
    | cons op rest ih =>
      intro k s h
      unfold runAllFrom at h
      simp only [List.cons_append, List.length_cons]
      rw [runAllFrom]
      cases he : (stepRaw s op).err with
      | none =>
        rw [he] at h; simp only
        rw [ih (k + 1) _ h]; congr 1; omega
      | some e => rw [he] at h; cases h
  simpa using gen 0 s ha

/-! ### Frame: what a building call leaves alone before it is stored -/

/-- The call log, the device and the register size are untouched. -/
def Fr (s : SeqState) (r : Raw) : Prop :=
  r.st.calls = s.calls ∧ r.st.dev = s.dev ∧ r.st.nQ = s.nQ

def FrS (s s' : SeqState) : Prop := s'.calls = s.calls ∧ s'.dev = s.dev ∧ s'.nQ = s.nQ

theorem FrS.trans {a b c : SeqState} (h1 : FrS a b) (h2 : FrS b c) : FrS a c :=
  ⟨h2.1.trans h1.1, h2.2.1.trans h1.2.1, h2.2.2.trans h1.2.2⟩

theorem Fr_fail (s : SeqState) (e : Err) : Fr s (fail s e) := ⟨rfl, rfl, rfl⟩
theorem Fr_done {s s' : SeqState} (h : FrS s s') : Fr s (done s') := h
theorem Fr_orRollback {s : SeqState} {r : Raw} (h : Fr s r) : Fr s (r.orRollback s) := by
  rcases Raw.orRollback_cases r s with e | ⟨e, he⟩
  · rw [e]; exact h
  · rw [he]; exact ⟨rfl, rfl, rfl⟩

theorem Fr_of {s s1 : SeqState} {r : Raw} (h1 : FrS s s1) (h2 : Fr s1 r) : Fr s r :=
  FrS.trans h1 h2

theorem Fr_withChan (s : SeqState) (n : ChName) (f : ChanState → CRes) : Fr s (s.withChan n f) := by
  unfold SeqState.withChan
  cases s.getChan n with
  | none => exact Fr_fail s _
  | some c => exact ⟨rfl, rfl, rfl⟩

theorem Fr_bind {s : SeqState} {r : Raw} {g : SeqState → Raw} (hr : Fr s r)
    (hg : ∀ s1, Fr s1 (g s1)) : Fr s (r.bind g) := by
  unfold Raw.bind
  cases r.err with
  | none => exact Fr_of hr (hg _)
  | some e => exact hr

theorem mapRefs_FrS (s : SeqState) (b : Basis) (qs : List Nat) (f : QRef → QRef) :
    FrS s (s.mapRefs b qs f) := by
  unfold SeqState.mapRefs
  cases s.getRefs b with
  | none => exact ⟨rfl, rfl, rfl⟩
  | some l => exact ⟨rfl, rfl, rfl⟩

theorem Fr_phaseShift (s : SeqState) (phi : Rat) (qs : List Nat) (b : Basis) :
    Fr s (s.phaseShift phi qs b) := by
  unfold SeqState.phaseShift
  split
  · exact Fr_fail s _
  · generalize (if qs.isEmpty then s.allQubits else qs) = qs'
    simp only
    split
    · exact Fr_fail s _
    · exact Fr_done (mapRefs_FrS s _ _ _)

theorem Fr_targetCore (s : SeqState) (qs : List Nat) (n : ChName) : Fr s (targetCore s qs n) := by
  unfold targetCore
  repeat' split
  all_goals first | exact Fr_fail s _ | exact Fr_withChan s _ _

theorem Fr_delayCore (s : SeqState) (d : Int) (n : ChName) (atRest : Bool) :
    Fr s (delayCore s d n atRest) := by
  unfold delayCore
  split
  · exact Fr_fail s _
  · split
    · exact Fr_fail s _
    · apply Fr_bind
      · split
        · exact Fr_withChan s _ _
        · exact Fr_done ⟨rfl, rfl, rfl⟩
      · intro s1
        split
        · exact Fr_done ⟨rfl, rfl, rfl⟩
        · exact Fr_withChan s1 _ _

theorem Fr_alignLoop (tf : Int) (l : List (ChName × Int)) (s : SeqState) : Fr s (alignLoop tf l s) := by
  induction l generalizing s with
  | nil => exact Fr_done ⟨rfl, rfl, rfl⟩
  | cons x rest ih =>
    obtain ⟨n, t⟩ := x
    unfold alignLoop
    split
    · exact Fr_fail s _
    · simp only
      split
      · split
        · exact Fr_fail s _
        · exact Fr_bind (Fr_delayCore s _ _ _) (fun s1 => ih s1)
      · exact ih s

theorem Fr_addCore (s : SeqState) (p : PulseIn) (n : ChName) (proto : Option Protocol)
    (drift : Option Drift) : Fr s (addCore s p n proto drift) := by
  unfold addCore
  cases proto with
  | none => exact Fr_fail s _
  | some proto =>
    simp only
    cases hc : s.getChan n with
    | none => exact Fr_fail s _
    | some c =>
      simp only
      cases hl : c.last with
      | error e => exact Fr_fail s _
      | ok last =>
        simp only
        split
        · exact Fr_fail s _
        · generalize (if c.cfg.isDmm = true then none else
            (s.lastPhases c.cfg.basis last.targets).head?) = phaseRef
          cases hpr : validateAndAdjust c p phaseRef with
          | error e => exact Fr_fail s _
          | ok pr =>
            simp only
            cases hadd : addPulse s.dev.maxSeqDur c (s.others n) pr
                (s.lastTimes c.cfg.basis last.targets) proto drift with
            | error e => exact Fr_fail s _
            | ok c' =>
              simp only
              have h1 : FrS s (s.setChan c') := ⟨rfl, rfl, rfl⟩
              cases hl' : c'.last with
              | error e => exact h1
              | ok newSlot =>
                simp only
                have h2 := mapRefs_FrS (s.setChan c') c.cfg.basis last.targets
                  (·.updateLastUsed newSlot.tf)
                split
                · exact Fr_of (FrS.trans h1 h2) (Fr_phaseShift _ _ _ _)
                · exact FrS.trans h1 h2

theorem ensureBasis_FrS (s : SeqState) (b : Basis) : FrS s (s.ensureBasis b) := by
  unfold SeqState.ensureBasis
  split
  · exact ⟨rfl, rfl, rfl⟩
  · exact ⟨rfl, rfl, rfl⟩

theorem addChannel_FrS (s : SeqState) (c : ChanState) : FrS s (s.addChannel c) := by
  unfold SeqState.addChannel
  simp only
  split
  · exact FrS.trans (b := { s with inXY := true, chans := s.chans ++ [c] }) ⟨rfl, rfl, rfl⟩
      (ensureBasis_FrS _ _)
  · exact FrS.trans (b := { s with inIsing := true, chans := s.chans ++ [c] }) ⟨rfl, rfl, rfl⟩
      (ensureBasis_FrS _ _)

theorem Fr_markNonEmpty {s : SeqState} {r : Raw} (h : Fr s r) : Fr s (markNonEmpty r) := by
  unfold markNonEmpty
  cases he : r.err with
  | none => exact h
  | some e => exact h

/-- Storing a successful call appends exactly it. -/
theorem store_ok {s : SeqState} {r : Raw} {op : Op} (hr : Fr s r) (h : (store op r).err = none) :
    (store op r).st.calls = s.calls ++ [op] ∧ (store op r).st.dev = s.dev ∧
      (store op r).st.nQ = s.nQ := by
  unfold store at h ⊢
  cases he : r.err with
  | none => simp only; rw [hr.1]; exact ⟨rfl, hr.2.1, hr.2.2⟩
  | some e => simp only [he] at h; cases h

/-- Calls whose stored form is the call itself: every building call except the two EOM
calls that store the chosen `detuning_off` (and the read-only queries, which are not stored). -/
def selfStored : Op → Bool
  | .enableEom .. | .modifyEom .. | .getDuration .. | .estimate .. | .phaseRef .. => false
  | _ => true

/-- **A successful building call is appended verbatim to the call log** and leaves the
device and the register alone. -/
theorem stepRaw_calls {s : SeqState} {op : Op} (hs : selfStored op = true)
    (h : (stepRaw s op).err = none) :
    (stepRaw s op).st.calls = s.calls ++ [op] ∧ (stepRaw s op).st.dev = s.dev ∧
      (stepRaw s op).st.nQ = s.nQ := by
  cases op with
  | declare name chId init =>
    simp only [stepRaw] at h ⊢
    repeat' split at h
    all_goals first
      | (simp [fail] at h; done)
      | skip
    all_goals
      repeat' split
      all_goals first
        | (simp_all; done)
        | exact store_ok (Fr_done (addChannel_FrS _ _)) (by assumption)
        | exact store_ok (Fr_orRollback (Fr_of (addChannel_FrS _ _) (Fr_targetCore _ _ _))) (by assumption)
  | configDetMap dmmId w1 w2 =>
    simp only [stepRaw] at h ⊢
    repeat' split at h
    all_goals first
      | (simp [fail] at h; done)
      | skip
    all_goals
      repeat' split
      all_goals first
        | (simp_all; done)
        | exact store_ok (Fr_done (addChannel_FrS _ _)) (by assumption)
  | target qs n => exact store_ok (Fr_orRollback (Fr_targetCore s qs n)) h
  | add p n proto =>
    simp only [stepRaw] at h ⊢
    refine store_ok (Fr_markNonEmpty ?_) h
    repeat' split
    all_goals first | exact Fr_fail s _ | exact Fr_addCore s _ _ _ _
  | addDmm p n proto =>
    simp only [stepRaw] at h ⊢
    refine store_ok (Fr_markNonEmpty ?_) h
    repeat' split
    all_goals first | exact Fr_fail s _ | exact Fr_addCore s _ _ _ _
  | addEom n dur phase post proto corr fs fe ref =>
    simp only [stepRaw] at h ⊢
    refine store_ok (Fr_markNonEmpty ?_) h
    repeat' split
    all_goals first | exact Fr_fail s _ | exact Fr_addCore s _ _ _ _
  | delay d n atRest =>
    refine store_ok (Fr_orRollback ?_) h
    rcases delayChecked_cases s d n atRest with hc | ⟨e, hc⟩ <;> rw [hc]
    · exact Fr_delayCore s d n atRest
    · exact Fr_fail s e
  | align chs atRest =>
    simp only [stepRaw] at h ⊢
    refine store_ok (Fr_orRollback ?_) h
    repeat' split
    all_goals first
      | exact Fr_fail s _ | exact Fr_done ⟨rfl, rfl, rfl⟩ | exact Fr_alignLoop _ _ _
  | phaseShift phi qs b => exact store_ok (Fr_phaseShift s phi qs b) h
  | disableEom n corr =>
    simp only [stepRaw] at h ⊢
    refine store_ok (Fr_orRollback ?_) h
    repeat' split
    all_goals first
      | exact Fr_fail s _
      | (apply Fr_bind (Fr_withChan s _ _); intro s1
         repeat' split
         all_goals first
           | exact Fr_fail s1 _ | exact Fr_done ⟨rfl, rfl, rfl⟩ | exact Fr_phaseShift _ _ _ _)
  | measure b =>
    simp only [stepRaw] at h ⊢
    refine store_ok ?_ h
    repeat' split
    all_goals first | exact Fr_fail s _ | exact Fr_done ⟨rfl, rfl, rfl⟩
  | enableEom _ _ => simp [selfStored] at hs
  | modifyEom _ _ => simp [selfStored] at hs
  | getDuration _ _ => simp [selfStored] at hs
  | estimate _ _ _ => simp [selfStored] at hs
  | phaseRef _ _ => simp [selfStored] at hs

/-- The call log of a history of successful self-stored calls is that history. -/
theorem calls_of_runAll {k : Nat} {s s' : SeqState} {ops : List Op}
    (hs : ∀ op ∈ ops, selfStored op = true) (h : runAllFrom k s ops = .ok s') :
    s'.calls = s.calls ++ ops ∧ s'.dev = s.dev ∧ s'.nQ = s.nQ := by
  induction ops generalizing k s with
  | nil => simp [runAllFrom] at h; subst h; simp
  | cons op rest ih =>
    unfold runAllFrom at h
    cases he : (stepRaw s op).err with
    | some e => rw [he] at h; cases h
    | none =>
      rw [he] at h
      obtain ⟨h1, h2, h3⟩ := stepRaw_calls (hs op (List.mem_cons_self)) he
      obtain ⟨i1, i2, i3⟩ := ih (fun o ho => hs o (List.mem_cons_of_mem _ ho)) h
      refine ⟨?_, i2.trans h2, i3.trans h3⟩
      rw [i1, h1]; simp

/-- **Replay of the concrete prefix**: a sequence built by successful self-stored calls is
reproduced by replaying its call log on a fresh sequence (what `build` does with `_calls`). -/
theorem replay_prefix {dev : Device} {nQ : Nat} {ops : List Op} {s : SeqState}
    (hs : ∀ op ∈ ops, selfStored op = true) (h : runAll (SeqState.init dev nQ) ops = .ok s) :
    run (SeqState.init s.dev s.nQ) s.calls = s := by
  obtain ⟨h1, h2, h3⟩ := calls_of_runAll hs h
  have hc : s.calls = ops := by simpa [SeqState.init] using h1
  have hd : s.dev = dev := by simpa [SeqState.init] using h2
  have hn : s.nQ = nQ := by simpa [SeqState.init] using h3
  rw [hc, hd, hn]
  exact runAllFrom_ok_run h

/-! ### Evaluation reads only what the assignment gives -/

theorem lookup_append_left {ρ st : List (Nat × List Rat)} {n : Nat} {v : List Rat}
    (h : ρ.lookup n = some v) : (ρ ++ st).lookup n = some v := by
  induction ρ with
  | nil => simp at h
  | cons x rest ih =>
    obtain ⟨a, b⟩ := x
    simp only [List.cons_append, List.lookup_cons] at h ⊢
    split
    · rename_i heq; rw [heq] at h; exact h
    · rename_i heq; rw [heq] at h; exact ih h

/-- All variables of the expression are bound by `ρ`. -/
def boundIn (ρ : Assign) (vs : List Nat) : Prop := ∀ n ∈ vs, (ρ.lookup n).isSome = true

theorem get_shadow {ρ st : Assign} {n i : Nat} (h : (ρ.lookup n).isSome = true) :
    Assign.get (ρ ++ st) n i = Assign.get ρ n i := by
  unfold Assign.get
  cases hl : ρ.lookup n with
  | none => rw [hl] at h; simp at h
  | some v => rw [lookup_append_left hl]

theorem eval_shadow (I : Interp) {ρ st : Assign} (e : Expr) (h : boundIn ρ e.vars) :
    eval I (ρ ++ st) e = eval I ρ e := by
  induction e with
  | const q => rfl
  | var n i => exact get_shadow (h n (by simp [Expr.vars]))
  | add a b iha ihb | sub a b iha ihb | mul a b iha ihb | div a b iha ihb =>
    have ha := iha (fun n hn => h n (by simp [Expr.vars, hn]))
    have hb := ihb (fun n hn => h n (by simp [Expr.vars, hn]))
    simp only [eval, ha, hb]
  | neg a ih =>
    have ha := ih (fun n hn => h n (by simpa [Expr.vars] using hn))
    simp only [eval, ha]
  | fn f a ih =>
    have ha := ih (fun n hn => h n (by simpa [Expr.vars] using hn))
    simp only [eval, ha]

theorem evalExprs_shadow (I : Interp) {ρ st : Assign} (es : List Expr)
    (h : boundIn ρ (es.flatMap Expr.vars)) : evalExprs I (ρ ++ st) es = evalExprs I ρ es := by
  induction es with
  | nil => rfl
  | cons e rest ih =>
    have h1 := eval_shadow I (st := st) e (fun n hn => h n (by simp [hn]))
    have h2 := ih (fun n hn => h n (by
      simp only [List.flatMap_cons, List.mem_append]; exact Or.inr hn))
    simp only [evalExprs, h1, h2]

theorem evalList_shadow (I : Interp) {ρ st : Assign} (es : List Expr)
    (h : boundIn ρ (es.flatMap Expr.vars)) : evalList I (ρ ++ st) es = evalList I ρ es := by
  induction es with
  | nil => rfl
  | cons e rest ih =>
    have h1 := eval_shadow I (st := st) e (fun n hn => h n (by simp [hn]))
    have h2 := ih (fun n hn => h n (by
      simp only [List.flatMap_cons, List.mem_append]; exact Or.inr hn))
    simp only [evalList, h1, h2]

theorem evalRat_shadow (I : Interp) {ρ st : Assign} (a : Arg Rat) (h : boundIn ρ a.vars) :
    evalRat I (ρ ++ st) a = evalRat I ρ a := by
  cases a with
  | conc v => rfl
  | param e => exact eval_shadow I e h

theorem evalInt_shadow (I : Interp) {ρ st : Assign} (a : Arg Int) (h : boundIn ρ a.vars) :
    evalInt I (ρ ++ st) a = evalInt I ρ a := by
  cases a with
  | conc v => rfl
  | param e => simp only [evalInt, eval_shadow I e h]

theorem evalNat_shadow (I : Interp) {ρ st : Assign} (a : Arg Nat) (h : boundIn ρ a.vars) :
    evalNat I (ρ ++ st) a = evalNat I ρ a := by
  cases a with
  | conc v => rfl
  | param e => simp only [evalNat, eval_shadow I e h]

theorem evalNats_shadow (I : Interp) {ρ st : Assign} (l : List (Arg Nat))
    (h : boundIn ρ (l.flatMap Arg.vars)) : evalNats I (ρ ++ st) l = evalNats I ρ l := by
  induction l with
  | nil => rfl
  | cons a rest ih =>
    have h1 := evalNat_shadow I (st := st) a (fun n hn => h n (by simp [hn]))
    have h2 := ih (fun n hn => h n (by
      simp only [List.flatMap_cons, List.mem_append]; exact Or.inr hn))
    simp only [evalNats, h1, h2]

theorem boundIn_app_l {ρ : Assign} {a b : List Nat} (h : boundIn ρ (a ++ b)) : boundIn ρ a :=
  fun n hn => h n (List.mem_append_left _ hn)
theorem boundIn_app_r {ρ : Assign} {a b : List Nat} (h : boundIn ρ (a ++ b)) : boundIn ρ b :=
  fun n hn => h n (List.mem_append_right _ hn)

theorem evalEom_shadow (I : Interp) {ρ st : Assign} (e : PEom)
    (h : boundIn ρ (match e with | .conc _ => [] | .param _ a d o _ => a.vars ++ d.vars ++ o.vars)) :
    evalEom I (ρ ++ st) e = evalEom I ρ e := by
  cases e with
  | conc e => rfl
  | param mk a d o corr =>
    simp only at h
    have ha := evalRat_shadow I (st := st) a (boundIn_app_l (boundIn_app_l h))
    have hd := evalRat_shadow I (st := st) d (boundIn_app_r (boundIn_app_l h))
    have ho := evalRat_shadow I (st := st) o (boundIn_app_r h)
    simp only [evalEom, ha, hd, ho]

theorem evalOp_shadow (I : Interp) {ρ st : Assign} (p : POp) (h : boundIn ρ p.vars) :
    evalOp I (ρ ++ st) p = evalOp I ρ p := by
  cases p with
  | target qs ch =>
    cases qs with
    | conc l => rfl
    | arr es => simp only [evalOp, evalTArg, evalList_shadow I es (by simpa [POp.vars] using h)]
  | add p ch proto =>
    cases p with
    | conc pi => rfl
    | param mk args =>
      simp only [evalOp, evalPulse, evalExprs_shadow I args (by simpa [POp.vars] using h)]
  | addDmm p ch proto =>
    cases p with
    | conc pi => rfl
    | param mk args =>
      simp only [evalOp, evalPulse, evalExprs_shadow I args (by simpa [POp.vars] using h)]
  | addEom ch dur phase post proto corr fall ref =>
    have h' : boundIn ρ (dur.vars ++ phase.vars ++ post.vars) := by simpa [POp.vars] using h
    have h1 := evalNat_shadow I (st := st) dur (boundIn_app_l (boundIn_app_l h'))
    have h2 := evalRat_shadow I (st := st) phase (boundIn_app_r (boundIn_app_l h'))
    have h3 := evalRat_shadow I (st := st) post (boundIn_app_r h')
    simp only [evalOp, h1, h2, h3]
  | delay d ch atRest =>
    simp only [evalOp, evalInt_shadow I d (by simpa [POp.vars] using h)]
  | align chs atRest => rfl
  | phaseShift phi qs b =>
    have h' : boundIn ρ (phi.vars ++ qs.flatMap Arg.vars) := by simpa [POp.vars] using h
    have h1 := evalRat_shadow I (st := st) phi (boundIn_app_l h')
    have h2 := evalNats_shadow I (st := st) qs (boundIn_app_r h')
    simp only [evalOp, h1, h2]
  | enableEom ch e =>
    have := evalEom_shadow I (st := st) e (by
      cases e with
      | conc e => intro n hn; simp at hn
      | param mk a d o c => simpa [POp.vars] using h)
    simp only [evalOp, this]
  | modifyEom ch e =>
    have := evalEom_shadow I (st := st) e (by
      cases e with
      | conc e => intro n hn; simp at hn
      | param mk a d o c => simpa [POp.vars] using h)
    simp only [evalOp, this]
  | disableEom ch corr => rfl
  | measure b => rfl

theorem evalOps_shadow (I : Interp) {ρ st : Assign} (ps : List POp)
    (h : ∀ p ∈ ps, boundIn ρ p.vars) : evalOps I (ρ ++ st) ps = evalOps I ρ ps := by
  induction ps with
  | nil => rfl
  | cons p rest ih =>
    have h1 := evalOp_shadow I (st := st) p (h p List.mem_cons_self)
    have h2 := ih (fun q hq => h q (List.mem_cons_of_mem _ hq))
    simp only [evalOps, h1, h2]

/-- `covers` binds every declared variable. -/
theorem covers_bound {vars : List (Nat × Nat)} {ρ : Assign} (h : covers vars ρ = true) {n : Nat}
    (hn : vars.any (·.1 == n) = true) : (ρ.lookup n).isSome = true := by
  unfold covers at h
  rw [List.all_eq_true] at h
  rw [List.any_eq_true] at hn
  obtain ⟨x, hx, hxn⟩ := hn
  have := h x hx
  obtain ⟨a, b⟩ := x
  simp only [beq_iff_eq] at hxn
  subst hxn
  simp only at this
  cases hl : ρ.lookup a with
  | none => rw [hl] at this; simp at this
  | some v => rfl

/-! ### Mappable registers -/

theorem filter_take_of_sets {d ids : List Nat} (hd : d.Nodup)
    (h1 : ∀ x ∈ ids, x ∈ d.take ids.length) (h2 : ∀ x ∈ d.take ids.length, x ∈ ids) :
    d.filter (ids.contains ·) = d.take ids.length := by
  have hsplit : d = d.take ids.length ++ d.drop ids.length := (List.take_append_drop _ _).symm
  have hdis : ∀ x ∈ d.drop ids.length, x ∉ d.take ids.length := by
    intro x hx hx'
    rw [hsplit] at hd
    exact (List.nodup_append.mp hd).2.2 x hx' x hx rfl
  conv => lhs; rw [hsplit]
  rw [List.filter_append]
  have ht : (d.take ids.length).filter (ids.contains ·) = d.take ids.length := by
    apply List.filter_eq_self.mpr
    intro x hx; simpa using h2 x hx
  have hdr : (d.drop ids.length).filter (ids.contains ·) = [] := by
    apply List.filter_eq_nil_iff.mpr
    intro x hx hc
    have : x ∈ ids := by simpa using hc
    exact hdis x hx (h1 x this)
  rw [ht, hdr, List.append_nil]

end Param
end Pulser
