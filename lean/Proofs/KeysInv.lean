/-
  Proofs.KeysInv — a basis that has phase references keeps them: no API call removes the references
  of an addressed basis (same pass as Proofs/RefsInv.lean, for the predicate "basis `b0` is addressed").
-/
import Proofs.RefsInv
namespace Pulser
namespace Keys

variable {b0 : Basis}

/-- Basis `b0` has phase references. -/
def HasB (b0 : Basis) (s : SeqState) : Prop := s.refs.any (·.1 == b0) = true

def KeepsB (b0 : Basis) (s : SeqState) (r : Raw) : Prop := HasB b0 s → HasB b0 r.st

theorem hasB_iff (s : SeqState) : HasB b0 s ↔ (s.getRefs b0).isSome = true := by
  unfold HasB SeqState.getRefs
  rw [Option.isSome_map, List.find?_isSome]
  simp [List.any_eq_true]

theorem kb_same {s : SeqState} {r : Raw} (h : r.st.refs = s.refs) : KeepsB b0 s r := by
  intro hs; unfold HasB; rw [h]; exact hs

theorem setRefs_hasB (s : SeqState) (b : Basis) (l : List QRef) (h : HasB b0 s) :
    HasB b0 (s.setRefs b l) := by
  unfold HasB SeqState.setRefs at *
  simp only [List.any_map]
  obtain ⟨x, hx, hxb⟩ := List.any_eq_true.mp h
  refine List.any_eq_true.mpr ⟨x, hx, ?_⟩
  simp only [Function.comp]
  by_cases hb : (x.1 == b) = true
  · rw [if_pos hb]
    have : x.1 = b := by simpa using hb
    rw [← this]; exact hxb
  · rw [if_neg hb]; exact hxb

theorem mapRefs_hasB {s : SeqState} (b : Basis) (qs : List Nat) (f : QRef → QRef) (h : HasB b0 s) :
    HasB b0 (s.mapRefs b qs f) := by
  unfold SeqState.mapRefs
  cases s.getRefs b with
  | none => exact h
  | some l => exact setRefs_hasB s b _ h

theorem ensureBasis_ok {s : SeqState} (b : Basis) (h : HasB b0 s) : HasB b0 (s.ensureBasis b) := by
  unfold SeqState.ensureBasis
  split
  · exact h
  · unfold HasB at *
    simp only [List.any_append, h, Bool.true_or]

/-- ... and the basis asked for is there afterwards. -/
theorem ensureBasis_has (s : SeqState) (b : Basis) : HasB b (s.ensureBasis b) := by
  unfold SeqState.ensureBasis
  split
  · rename_i h; exact h
  · unfold HasB
    simp [List.any_append]

theorem addChannel_hasB {s : SeqState} (c : ChanState) (h : HasB b0 s) : HasB b0 (s.addChannel c) := by
  unfold SeqState.addChannel
  simp only
  split <;> exact ensureBasis_ok _ h

theorem addChannel_has (s : SeqState) (c : ChanState) : HasB c.cfg.basis (s.addChannel c) := by
  unfold SeqState.addChannel
  simp only
  split <;> exact ensureBasis_has _ _

theorem kb_fail (s : SeqState) (e : Err) : KeepsB b0 s (fail s e) := fun h => h
theorem kb_orRollback {s : SeqState} {r : Raw} (h : KeepsB b0 s r) : KeepsB b0 s (r.orRollback s) := by
  rcases Raw.orRollback_cases r s with e | ⟨e, he⟩
  · rw [e]; exact h
  · rw [he]; exact kb_fail _ _
theorem kb_bind {s : SeqState} {r : Raw} {g : SeqState → Raw} (hr : KeepsB b0 s r)
    (hg : ∀ s1, KeepsB b0 s1 (g s1)) : KeepsB b0 s (r.bind g) := by
  unfold Raw.bind
  cases r.err with
  | none => exact fun h => hg _ (hr h)
  | some e => exact hr

theorem kb_withChan (s : SeqState) (n : ChName) (f : ChanState → CRes) : KeepsB b0 s (s.withChan n f) := by
  apply kb_same
  unfold SeqState.withChan
  cases s.getChan n <;> rfl

theorem kb_phaseShift (s : SeqState) (phi : Rat) (qs : List Nat) (b : Basis) :
    KeepsB b0 s (s.phaseShift phi qs b) := by
  unfold SeqState.phaseShift
  by_cases h1 : (s.getRefs b).isNone = true
  · rw [if_pos h1]; exact kb_fail _ _
  · rw [if_neg h1]
    simp only
    generalize (if qs.isEmpty = true then s.allQubits else qs) = qs'
    by_cases h2 : (qs'.any fun x => decide (x ≥ s.nQ)) = true
    · rw [if_pos h2]; exact kb_fail _ _
    · rw [if_neg h2]
      exact fun h => mapRefs_hasB b qs' _ h

theorem kb_targetCore (s : SeqState) (qs : List Nat) (n : ChName) : KeepsB b0 s (targetCore s qs n) := by
  unfold targetCore
  repeat' split
  all_goals first | exact kb_fail _ _ | exact kb_withChan _ _ _

theorem kb_delayCore (s : SeqState) (d : Int) (n : ChName) (atRest : Bool) :
    KeepsB b0 s (delayCore s d n atRest) := by
  unfold delayCore
  split
  · exact kb_fail _ _
  · split
    · exact kb_fail _ _
    · apply kb_bind
      · split
        · exact kb_withChan _ _ _
        · exact fun h => h
      · intro s1
        split
        · exact fun h => h
        · exact kb_withChan _ _ _

theorem kb_delayChecked (s : SeqState) (d : Int) (n : ChName) (atRest : Bool) :
    KeepsB b0 s (delayChecked s d n atRest) := by
  rcases delayChecked_cases s d n atRest with h | ⟨e, h⟩ <;> rw [h]
  · exact kb_delayCore s d n atRest
  · exact kb_fail s e

theorem kb_alignLoop (tf : Int) (l : List (ChName × Int)) : ∀ s, KeepsB b0 s (alignLoop tf l s) := by
  induction l with
  | nil => intro s; exact fun h => h
  | cons a rest ih =>
    intro s
    obtain ⟨n, t⟩ := a
    unfold alignLoop
    simp only
    split
    · exact kb_fail _ _
    · split
      · split
        · exact kb_fail _ _
        · exact kb_bind (kb_delayCore _ _ _ _) (fun s1 => ih s1)
      · exact ih s

theorem kb_addCore (s : SeqState) (p : PulseIn) (n : ChName) (proto : Option Protocol)
    (drift : Option Drift) : KeepsB b0 s (addCore s p n proto drift) := by
  unfold addCore
  cases proto with
  | none => exact kb_fail _ _
  | some proto =>
    simp only
    cases s.getChan n with
    | none => exact kb_fail _ _
    | some c =>
      simp only
      cases c.last with
      | error e => exact kb_fail _ _
      | ok last =>
        simp only
        split
        · exact kb_fail _ _
        · generalize (if c.cfg.isDmm = true then none else
            (s.lastPhases c.cfg.basis last.targets).head?) = phaseRef
          cases validateAndAdjust c p phaseRef with
          | error e => exact kb_fail _ _
          | ok pr =>
            simp only
            cases addPulse s.dev.maxSeqDur c (s.others n) pr
                (s.lastTimes c.cfg.basis last.targets) proto drift with
            | error e => exact kb_fail _ _
            | ok c' =>
              simp only
              have h1 : HasB b0 s → HasB b0 (s.setChan c') := fun h => h
              cases c'.last with
              | error e => exact h1
              | ok newSlot =>
                simp only
                have h2 : HasB b0 s → HasB b0 ((s.setChan c').mapRefs c.cfg.basis last.targets
                    (·.updateLastUsed newSlot.tf)) :=
                  fun h => mapRefs_hasB _ _ _ (h1 h)
                split
                · exact fun h => kb_phaseShift _ _ _ _ (h2 h)
                · exact h2

theorem kb_store {s : SeqState} {r : Raw} (op : Op) (h : KeepsB b0 s r) : KeepsB b0 s (store op r) := by
  unfold store
  cases r.err with
  | none => exact h
  | some e => exact h

theorem kb_markNonEmpty {s : SeqState} {r : Raw} (h : KeepsB b0 s r) : KeepsB b0 s (markNonEmpty r) := by
  unfold markNonEmpty
  cases r.err with
  | none => exact h
  | some e => exact h

/-- Every API call keeps the phase references of an addressed basis. -/
theorem stepRaw_hasB (s : SeqState) (op : Op) : KeepsB b0 s (stepRaw s op) := by
  cases op with
  | declare name chId init =>
    simp only [stepRaw]
    repeat' split
    all_goals first
      | exact kb_fail _ _
      | exact kb_store _ (fun h => addChannel_hasB _ h)
      | exact kb_store _ (kb_orRollback (fun h => kb_targetCore _ _ _ (addChannel_hasB _ h)))
  | configDetMap dmmId maxW sumW =>
    simp only [stepRaw]
    repeat' split
    all_goals first
      | exact kb_fail _ _
      | exact kb_store _ (fun h => addChannel_hasB _ h)
  | target qs n => exact kb_store _ (kb_orRollback (kb_targetCore _ _ _))
  | add p n proto =>
    simp only [stepRaw]
    apply kb_store; apply kb_markNonEmpty
    repeat' split
    all_goals first | exact kb_fail _ _ | exact kb_addCore _ _ _ _ _
  | addDmm p n proto =>
    simp only [stepRaw]
    apply kb_store; apply kb_markNonEmpty
    repeat' split
    all_goals first | exact kb_fail _ _ | exact kb_addCore _ _ _ _ _
  | addEom n dur phase post proto corr fs fe ref =>
    simp only [stepRaw]
    apply kb_store; apply kb_markNonEmpty
    repeat' split
    all_goals first | exact kb_fail _ _ | exact kb_addCore _ _ _ _ _
  | delay d n atRest => exact kb_store _ (kb_orRollback (kb_delayChecked _ _ _ _))
  | align chs atRest =>
    simp only [stepRaw]
    apply kb_store
    apply kb_orRollback
    repeat' split
    all_goals first | exact kb_fail _ _ | exact (fun h => h) | exact kb_alignLoop _ _ _
  | phaseShift phi qs b => exact kb_store _ (kb_phaseShift _ _ _ _)
  | enableEom n e =>
    simp only [stepRaw]
    repeat' split
    all_goals first
      | exact kb_fail _ _
      | (apply kb_orRollback
         unfold enableEomCommit
         apply kb_bind (kb_withChan _ _ _)
         intro s1
         apply kb_store
         repeat' split
         all_goals first | exact kb_phaseShift _ _ _ _ | exact kb_fail _ _ | exact (fun h => h))
  | modifyEom n e =>
    simp only [stepRaw]
    repeat' split
    all_goals first
      | exact kb_fail _ _
      | (apply kb_orRollback
         unfold modifyEomCommit
         apply kb_bind (kb_withChan _ _ _)
         intro s1
         split
         · exact kb_fail _ _
         · apply kb_bind (kb_withChan _ _ _)
           intro s2
           apply kb_store
           repeat' split
           all_goals first | exact kb_phaseShift _ _ _ _ | exact kb_fail _ _ | exact (fun h => h))
  | disableEom n corr =>
    simp only [stepRaw]
    apply kb_store
    apply kb_orRollback
    repeat' split
    all_goals first
      | exact kb_fail _ _
      | (apply kb_bind (kb_withChan _ _ _)
         intro s1
         repeat' split
         all_goals first | exact kb_phaseShift _ _ _ _ | exact kb_fail _ _ | exact (fun h => h))
  | measure b =>
    simp only [stepRaw]
    apply kb_store
    repeat' split
    all_goals first | exact kb_fail _ _ | exact (fun h => h)
  | getDuration ch fall =>
    simp only [stepRaw]
    repeat' split
    all_goals first | exact kb_fail _ _ | exact (fun h => h)
  | estimate p n proto =>
    simp only [stepRaw]
    repeat' split
    all_goals first
      | exact kb_fail _ _
      | (intro h; rw [estimateCore_st]; exact h)
  | phaseRef q b =>
    simp only [stepRaw]
    repeat' split
    all_goals first | exact kb_fail _ _ | exact (fun h => h)

end Keys
end Pulser
