/-
  Proofs.ParamStore — the bookkeeping a parametrized sequence keeps at STORE time
  (declared channels and their configuration, EOM mode read off the stored calls, the
  `_param_measurement` flag, the addressed bases) agrees with the state the direct
  construction is in, and stays in agreement after every successful call (C08,
  `store_no_spurious_reject`).
-/
import Proofs.Param
namespace Pulser
namespace Param

/-! ### What the slots-only operations leave alone on a channel -/

/-- Static signature of a channel + its EOM blocks. -/
def Keep (c c' : ChanState) : Prop :=
  c'.name = c.name ∧ c'.cfg = c.cfg ∧ c'.maxW = c.maxW ∧ c'.sumW = c.sumW ∧ c'.chId = c.chId ∧ c'.eom = c.eom

theorem Keep.rfl' (c : ChanState) : Keep c c := ⟨rfl, rfl, rfl, rfl, rfl, rfl⟩
theorem Keep.trans {a b c : ChanState} (h1 : Keep a b) (h2 : Keep b c) : Keep a c :=
  ⟨h2.1.trans h1.1, h2.2.1.trans h1.2.1, h2.2.2.1.trans h1.2.2.1, h2.2.2.2.1.trans h1.2.2.2.1,
   h2.2.2.2.2.1.trans h1.2.2.2.2.1, h2.2.2.2.2.2.trans h1.2.2.2.2.2⟩

theorem addDelay_keep {ms : Option Nat} {c c' : ChanState} {d : Nat} (h : addDelay ms c d = .ok c') :
    Keep c c' := by
  unfold addDelay at h
  simp only [bind, Except.bind] at h
  repeat' split at h
  all_goals (cases h; first | done | exact ⟨rfl, rfl, rfl, rfl, rfl, rfl⟩)

theorem waitForFall_keep {ms : Option Nat} {c c' : ChanState} (h : waitForFall ms c = .ok c') :
    Keep c c' := by
  unfold waitForFall at h
  simp only [bind, Except.bind] at h
  repeat' split at h
  all_goals first
    | exact addDelay_keep h
    | (cases h; first | done | exact Keep.rfl' _)

theorem lift_keep {c : ChanState} {e : Except Err ChanState} (h : ∀ c', e = .ok c' → Keep c c') :
    Keep c (CRes.lift c e).c := by
  unfold CRes.lift
  cases e with
  | error x => exact Keep.rfl' c
  | ok c' => exact h c' rfl

theorem bind_keep {c : ChanState} {r : CRes} {f : ChanState → CRes} (hr : Keep c r.c)
    (hf : ∀ c1, Keep c1 (f c1).c) : Keep c (r.bind f).c := by
  unfold CRes.bind
  cases r.err with
  | none => exact hr.trans (hf _)
  | some e => exact hr

theorem addTargetTail_keep {ms : Option Nat} {c c' : ChanState} {qs : List Nat}
    (h : addTargetTail ms c qs = .ok c') : Keep c c' := by
  unfold addTargetTail at h
  simp only at h
  repeat' split at h
  all_goals (cases h; first | done | exact ⟨rfl, rfl, rfl, rfl, rfl, rfl⟩)

theorem addTarget_keep (ms : Option Nat) (c : ChanState) (qs : List Nat) : Keep c (addTarget ms c qs).c := by
  unfold addTarget
  split
  · apply lift_keep
    intro c' h
    simp only [bind, Except.bind] at h
    repeat' split at h
    all_goals (cases h; first | done | exact ⟨rfl, rfl, rfl, rfl, rfl, rfl⟩)
  · split
    · exact Keep.rfl' c
    · exact bind_keep (lift_keep fun c' h => waitForFall_keep h)
        (fun c1 => lift_keep fun c' h => addTargetTail_keep h)

theorem addPulse_keep {ms : Option Nat} {c c' : ChanState} {o : List ChanState} {p : PulseRec}
    {b : List Int} {proto : Protocol} {drift : Option Drift}
    (h : addPulse ms c o p b proto drift = .ok c') : Keep c c' := by
  unfold addPulse at h
  simp only [bind, Except.bind, pure, Except.pure] at h
  repeat' split at h
  all_goals
    (cases h
     first
       | done
       | exact ⟨rfl, rfl, rfl, rfl, rfl, rfl⟩
       | (rename_i hd; have := addDelay_keep hd
          exact ⟨this.1, this.2.1, this.2.2.1, this.2.2.2.1, this.2.2.2.2.1, this.2.2.2.2.2⟩))

/-! ### Channel tables -/

theorem replaceChan_map {β : Type} (g : ChanState → β) {l : List ChanState} {c c' : ChanState}
    (hf : l.find? (·.name == c.name) = some c) (hn : c'.name = c.name) (hg : g c' = g c) :
    (SeqState.replaceChan c' l).map g = l.map g := by
  induction l with
  | nil => cases hf
  | cons a rest ih =>
    unfold SeqState.replaceChan
    rw [hn]
    by_cases ha : (a.name == c.name) = true
    · simp only [ha, if_true]
      have hac : a = c := by simp only [List.find?_cons, ha] at hf; injection hf
      subst hac
      simp [hg]
    · simp only [ha, if_false, Bool.false_eq_true]
      have hf' : rest.find? (·.name == c.name) = some c := by
        simp only [List.find?_cons] at hf
        split at hf
        · rename_i hh; exact absurd hh ha
        · exact hf
      simp only [List.map_cons, ih hf']

/-- What is read off a channel table entry by the store-time checks. -/
def esig (c : ChanState) : ChName × ChanCfg × Rat × Rat × Nat × Bool :=
  (c.name, c.cfg, c.maxW, c.sumW, c.chId, c.inEomMode)

theorem Keep.esig {c c' : ChanState} (h : Keep c c') : esig c' = esig c := by
  unfold Param.esig ChanState.inEomMode
  rw [h.1, h.2.1, h.2.2.1, h.2.2.2.1, h.2.2.2.2.1, h.2.2.2.2.2]

theorem getChan_name {s : SeqState} {n : ChName} {c : ChanState} (h : s.getChan n = some c) : c.name = n := by
  unfold SeqState.getChan at h
  have h2 := List.find?_some h
  simpa using h2

theorem withChan_esig (s : SeqState) (n : ChName) (f : ChanState → CRes) (hf : ∀ c, Keep c (f c).c) :
    (s.withChan n f).st.chans.map esig = s.chans.map esig := by
  unfold SeqState.withChan
  cases hc : s.getChan n with
  | none => rfl
  | some c =>
    simp only [SeqState.setChan]
    have hn := getChan_name hc
    have hfind : s.chans.find? (·.name == c.name) = some c := by
      unfold SeqState.getChan at hc; rw [hn]; exact hc
    exact replaceChan_map esig hfind (hf c).1 (hf c).esig

/-! ### Frame of a whole API call: everything the store-time bookkeeping looks at -/

structure Same (s s' : SeqState) : Prop where
  nQ : s'.nQ = s.nQ
  dev : s'.dev = s.dev
  inXY : s'.inXY = s.inXY
  measured : s'.measured = s.measured
  bases : s'.refs.map (·.1) = s.refs.map (·.1)
  chans : s'.chans.map esig = s.chans.map esig

theorem Same.rfl' (s : SeqState) : Same s s := ⟨rfl, rfl, rfl, rfl, rfl, rfl⟩
theorem Same.trans {a b c : SeqState} (h1 : Same a b) (h2 : Same b c) : Same a c :=
  ⟨h2.nQ.trans h1.nQ, h2.dev.trans h1.dev, h2.inXY.trans h1.inXY, h2.measured.trans h1.measured,
   h2.bases.trans h1.bases, h2.chans.trans h1.chans⟩

def SameR (s : SeqState) (r : Raw) : Prop := Same s r.st

theorem SameR_fail (s : SeqState) (e : Err) : SameR s (fail s e) := Same.rfl' s
theorem SameR_done {s s' : SeqState} (h : Same s s') : SameR s (done s') := h
theorem SameR_orRollback {s : SeqState} {r : Raw} (h : SameR s r) : SameR s (r.orRollback s) := by
  rcases Raw.orRollback_cases r s with e | ⟨e, he⟩
  · rw [e]; exact h
  · rw [he]; exact SameR_fail s _

theorem SameR_withChan (s : SeqState) (n : ChName) (f : ChanState → CRes) (hf : ∀ c, Keep c (f c).c) :
    SameR s (s.withChan n f) := by
  refine ⟨?_, ?_, ?_, ?_, ?_, withChan_esig s n f hf⟩
  all_goals
    unfold SeqState.withChan
    cases s.getChan n <;> rfl

theorem SameR_bind {s : SeqState} {r : Raw} {g : SeqState → Raw} (hr : SameR s r)
    (hg : ∀ s1, SameR s1 (g s1)) : SameR s (r.bind g) := by
  unfold Raw.bind
  cases r.err with
  | none => exact Same.trans hr (hg _)
  | some e => exact hr

theorem setRefs_bases (s : SeqState) (b : Basis) (l : List QRef) :
    (s.setRefs b l).refs.map (·.1) = s.refs.map (·.1) := by
  unfold SeqState.setRefs
  simp only [List.map_map]
  apply List.map_congr_left
  intro x _
  simp only [Function.comp]
  split
  · rename_i h; have h2 : x.1 = b := by simpa using h
    exact h2.symm
  · rfl

theorem mapRefs_same (s : SeqState) (b : Basis) (qs : List Nat) (f : QRef → QRef) :
    Same s (s.mapRefs b qs f) := by
  unfold SeqState.mapRefs
  cases s.getRefs b with
  | none => exact Same.rfl' s
  | some l => exact ⟨rfl, rfl, rfl, rfl, setRefs_bases s b _, rfl⟩

theorem SameR_phaseShift (s : SeqState) (phi : Rat) (qs : List Nat) (b : Basis) :
    SameR s (s.phaseShift phi qs b) := by
  unfold SeqState.phaseShift
  split
  · exact SameR_fail s _
  · generalize (if qs.isEmpty then s.allQubits else qs) = qs'
    simp only
    split
    · exact SameR_fail s _
    · exact SameR_done (mapRefs_same s _ _ _)

theorem SameR_targetCore (s : SeqState) (qs : List Nat) (n : ChName) : SameR s (targetCore s qs n) := by
  unfold targetCore
  repeat' split
  all_goals first
    | exact SameR_fail s _
    | exact SameR_withChan s _ _ (fun c => addTarget_keep _ c _)

theorem SameR_delayCore (s : SeqState) (d : Int) (n : ChName) (atRest : Bool) :
    SameR s (delayCore s d n atRest) := by
  unfold delayCore
  split
  · exact SameR_fail s _
  · split
    · exact SameR_fail s _
    · apply SameR_bind
      · split
        · exact SameR_withChan s _ _ (fun c => lift_keep fun c' h => waitForFall_keep h)
        · exact SameR_done (Same.rfl' s)
      · intro s1
        split
        · exact SameR_done (Same.rfl' s1)
        · apply SameR_withChan s1
          intro c
          apply lift_keep
          intro c' h
          split at h
          · simp only [bind, Except.bind] at h
            split at h <;> cases h
          · exact addDelay_keep h

theorem SameR_alignLoop (tf : Int) (l : List (ChName × Int)) (s : SeqState) : SameR s (alignLoop tf l s) := by
  induction l generalizing s with
  | nil => exact SameR_done (Same.rfl' s)
  | cons x rest ih =>
    obtain ⟨n, t⟩ := x
    unfold alignLoop
    split
    · exact SameR_fail s _
    · simp only
      split
      · split
        · exact SameR_fail s _
        · exact SameR_bind (SameR_delayCore s _ _ _) (fun s1 => ih s1)
      · exact ih s

theorem setChan_same {s : SeqState} {n : ChName} {c c' : ChanState} (hc : s.getChan n = some c)
    (hk : Keep c c') : Same s (s.setChan c') := by
  have hn := getChan_name hc
  have hfind : s.chans.find? (·.name == c.name) = some c := by
    unfold SeqState.getChan at hc; rw [hn]; exact hc
  exact ⟨rfl, rfl, rfl, rfl, rfl, replaceChan_map esig hfind hk.1 hk.esig⟩

theorem SameR_addCore (s : SeqState) (p : PulseIn) (n : ChName) (proto : Option Protocol)
    (drift : Option Drift) : SameR s (addCore s p n proto drift) := by
  unfold addCore
  cases proto with
  | none => exact SameR_fail s _
  | some proto =>
    simp only
    cases hc : s.getChan n with
    | none => exact SameR_fail s _
    | some c =>
      simp only
      cases hl : c.last with
      | error e => exact SameR_fail s _
      | ok last =>
        simp only
        split
        · exact SameR_fail s _
        · generalize (if c.cfg.isDmm = true then none else
            (s.lastPhases c.cfg.basis last.targets).head?) = phaseRef
          cases hpr : validateAndAdjust c p phaseRef with
          | error e => exact SameR_fail s _
          | ok pr =>
            simp only
            cases hadd : addPulse s.dev.maxSeqDur c (s.others n) pr
                (s.lastTimes c.cfg.basis last.targets) proto drift with
            | error e => exact SameR_fail s _
            | ok c' =>
              simp only
              have h1 : Same s (s.setChan c') := setChan_same hc (addPulse_keep hadd)
              cases hl' : c'.last with
              | error e => exact h1
              | ok newSlot =>
                simp only
                have h2 := mapRefs_same (s.setChan c') c.cfg.basis last.targets
                  (·.updateLastUsed newSlot.tf)
                split
                · exact Same.trans (Same.trans h1 h2) (SameR_phaseShift _ _ _ _)
                · exact Same.trans h1 h2

theorem SameR_markNonEmpty {s : SeqState} {r : Raw} (h : SameR s r) : SameR s (markNonEmpty r) := by
  unfold markNonEmpty
  cases he : r.err with
  | none => exact ⟨h.nQ, h.dev, h.inXY, h.measured, h.bases, h.chans⟩
  | some e => exact h

theorem SameR_store {s : SeqState} {r : Raw} (op : Op) (h : SameR s r) : SameR s (store op r) := by
  unfold store
  cases he : r.err with
  | none => exact ⟨h.nQ, h.dev, h.inXY, h.measured, h.bases, h.chans⟩
  | some e => exact h

/-- The calls that only append slots / move phase references. -/
def slotsOnly : Op → Bool
  | .target .. | .add .. | .addDmm .. | .addEom .. | .delay .. | .align .. | .phaseShift .. => true
  | _ => false

/-- **A slots-only call — successful or not — leaves the channel table, the EOM modes, the
measurement flag and the addressed bases alone.** -/
theorem stepRaw_same {s : SeqState} {op : Op} (h : slotsOnly op = true) : Same s (stepRaw s op).st := by
  cases op with
  | target qs n => exact SameR_store _ (SameR_orRollback (SameR_targetCore s qs n))
  | add p n proto =>
    simp only [stepRaw]
    apply SameR_store; apply SameR_markNonEmpty
    repeat' split
    all_goals first | exact SameR_fail s _ | exact SameR_addCore s _ _ _ _
  | addDmm p n proto =>
    simp only [stepRaw]
    apply SameR_store; apply SameR_markNonEmpty
    repeat' split
    all_goals first | exact SameR_fail s _ | exact SameR_addCore s _ _ _ _
  | addEom n dur phase post proto corr fs fe ref =>
    simp only [stepRaw]
    apply SameR_store; apply SameR_markNonEmpty
    repeat' split
    all_goals first | exact SameR_fail s _ | exact SameR_addCore s _ _ _ _
  | delay d n atRest =>
    refine SameR_store _ (SameR_orRollback ?_)
    rcases delayChecked_cases s d n atRest with hc | ⟨e, hc⟩ <;> rw [hc]
    · exact SameR_delayCore s d n atRest
    · exact SameR_fail s e
  | align chs atRest =>
    simp only [stepRaw]
    apply SameR_store
    apply SameR_orRollback
    repeat' split
    all_goals first
      | exact SameR_fail s _ | exact SameR_done (Same.rfl' s) | exact SameR_alignLoop _ _ _
  | phaseShift phi qs b => exact SameR_store _ (SameR_phaseShift s phi qs b)
  | _ => simp [slotsOnly] at h

/-! ### The EOM calls: the channel table keeps its static part, the mode of one channel flips -/

/-- Static part of a channel (everything `Keep` keeps except the EOM blocks). -/
def KeepX (c c' : ChanState) : Prop :=
  c'.name = c.name ∧ c'.cfg = c.cfg ∧ c'.maxW = c.maxW ∧ c'.sumW = c.sumW ∧ c'.chId = c.chId

theorem KeepX.rfl' (c : ChanState) : KeepX c c := ⟨rfl, rfl, rfl, rfl, rfl⟩
theorem KeepX.trans {a b c : ChanState} (h1 : KeepX a b) (h2 : KeepX b c) : KeepX a c :=
  ⟨h2.1.trans h1.1, h2.2.1.trans h1.2.1, h2.2.2.1.trans h1.2.2.1, h2.2.2.2.1.trans h1.2.2.2.1,
   h2.2.2.2.2.trans h1.2.2.2.2⟩
theorem Keep.toX {c c' : ChanState} (h : Keep c c') : KeepX c c' :=
  ⟨h.1, h.2.1, h.2.2.1, h.2.2.2.1, h.2.2.2.2.1⟩

/-- Result of a channel operation: static part kept; when it succeeds, the EOM mode is `b`. -/
def Sets (b : Bool) (c : ChanState) (r : CRes) : Prop :=
  KeepX c r.c ∧ (r.err = none → r.c.inEomMode = b)

theorem getLast_append_one {α : Type} (l : List α) (x : α) : (l ++ [x]).getLast? = some x := by
  simp

theorem enableEom_sets (ms : Option Nat) (c : ChanState) (amp detOn detOff : Rat) (sb sw : Bool) :
    Sets true c (enableEom ms c amp detOn detOff sb sw) := by
  unfold enableEom
  simp only
  -- first part: fall wait + buffer (slots only)
  have h1 : Keep c
      (if (!sb && decide (c.getDuration false ≠ 0)) = true then
        (if (!sw) = true then CRes.lift c (waitForFall ms c) else ⟨c, none⟩).bind fun c =>
          CRes.lift c (do
            let buf ← c.adjust (match c.cfg.eom with | some e => e.bufferTime | none => 0)
            if detOff ≠ 0 then
              let p ← mkDetunedDelay c buf detOff c.lastPulsePhase
              addPulse ms c [] p [0] .noDelay none
            else addDelay ms c buf)
       else ⟨c, none⟩).c := by
    split
    · apply bind_keep
      · split
        · exact lift_keep fun c' h => waitForFall_keep h
        · exact Keep.rfl' c
      · intro c1
        apply lift_keep
        intro c' h
        simp only [bind, Except.bind] at h
        repeat' split at h
        all_goals first
          | exact addPulse_keep h
          | exact addDelay_keep h
          | cases h
    · exact Keep.rfl' c
  generalize (if (!sb && decide (c.getDuration false ≠ 0)) = true then
        (if (!sw) = true then CRes.lift c (waitForFall ms c) else ⟨c, none⟩).bind fun c =>
          CRes.lift c (do
            let buf ← c.adjust (match c.cfg.eom with | some e => e.bufferTime | none => 0)
            if detOff ≠ 0 then
              let p ← mkDetunedDelay c buf detOff c.lastPulsePhase
              addPulse ms c [] p [0] .noDelay none
            else addDelay ms c buf)
       else ⟨c, none⟩) = r at h1
  unfold CRes.bind
  cases hr : r.err with
  | some e => exact ⟨h1.toX, fun h => by simp [hr] at h⟩
  | none =>
    simp only
    unfold CRes.lift
    simp only [bind, Except.bind]
    cases hl : r.c.last with
    | error e => exact ⟨h1.toX, fun h => by simp at h⟩
    | ok last =>
      refine ⟨⟨h1.1, h1.2.1, h1.2.2.1, h1.2.2.2.1, h1.2.2.2.2.1⟩, fun _ => ?_⟩
      simp [ChanState.inEomMode]

theorem closeLastBlock_mode (l : List EomBlock) (tf : Int) :
    (match (closeLastBlock l tf).getLast? with | some b => b.tf.isNone | none => false) = false := by
  unfold closeLastBlock
  cases hl : l.reverse with
  | nil => rfl
  | cons b rest => simp

theorem disableEom_sets (ms : Option Nat) (c : ChanState) (sb : Bool) :
    Sets false c (disableEom ms c sb) := by
  unfold disableEom
  unfold CRes.bind
  cases hl : c.last with
  | error e =>
    simp only [CRes.lift, bind, Except.bind]
    exact ⟨KeepX.rfl' c, fun h => by simp at h⟩
  | ok last =>
    simp only [CRes.lift, bind, Except.bind]
    -- the channel with the block closed
    have hmode : ({ c with eom := closeLastBlock c.eom last.tf } : ChanState).inEomMode = false := by
      unfold ChanState.inEomMode
      exact closeLastBlock_mode c.eom last.tf
    generalize hc1 : ({ c with eom := closeLastBlock c.eom last.tf } : ChanState) = c1 at hmode
    have hk : KeepX c c1 := by subst hc1; exact ⟨rfl, rfl, rfl, rfl, rfl⟩
    have tail : ∀ (e : Except Err ChanState), (∀ c', e = .ok c' → Keep c1 c') →
        Sets false c (match e with | .ok c' => ⟨c', none⟩ | .error x => ⟨c1, some x⟩) := by
      intro e he
      cases e with
      | error x => exact ⟨hk, fun h => by simp at h⟩
      | ok c' =>
        have := he c' rfl
        refine ⟨hk.trans this.toX, fun _ => ?_⟩
        simp only
        unfold ChanState.inEomMode at hmode ⊢
        rw [this.2.2.2.2.2]; exact hmode
    split
    · exact ⟨hk, fun _ => hmode⟩
    · split
      · split
        · apply tail
          intro c' h
          repeat' split at h
          all_goals first | exact addDelay_keep h | cases h
        · exact tail _ (fun c' h => waitForFall_keep h)
      · exact tail _ (fun c' h => waitForFall_keep h)

/-! ### Looking a channel up by name -/

def sigX (c : ChanState) : ChName × ChanCfg × Rat × Rat × Nat := (c.name, c.cfg, c.maxW, c.sumW, c.chId)

theorem find_map {β : Type} (g : ChanState → β) (hname : ∀ c c', g c = g c' → c.name = c'.name)
    {l l' : List ChanState} (h : l'.map g = l.map g) (m : ChName) :
    (l'.find? (·.name == m)).map g = (l.find? (·.name == m)).map g := by
  induction l generalizing l' with
  | nil =>
    have : l' = [] := by simpa using h
    subst this; rfl
  | cons a rest ih =>
    cases l' with
    | nil => simp at h
    | cons a' rest' =>
      simp only [List.map_cons, List.cons.injEq] at h
      have hn : a'.name = a.name := hname _ _ h.1
      simp only [List.find?_cons, hn]
      split
      · simp [h.1]
      · exact ih h.2

theorem esig_name (c c' : ChanState) (h : esig c = esig c') : c.name = c'.name := by
  unfold esig at h; exact (Prod.mk.injEq .. ▸ h).1
theorem sigX_name (c c' : ChanState) (h : sigX c = sigX c') : c.name = c'.name := by
  unfold sigX at h; exact (Prod.mk.injEq .. ▸ h).1

theorem esig_sigX {l l' : List ChanState} (h : l'.map esig = l.map esig) : l'.map sigX = l.map sigX := by
  have : sigX = (fun p : ChName × ChanCfg × Rat × Rat × Nat × Bool => (p.1, p.2.1, p.2.2.1, p.2.2.2.1, p.2.2.2.2.1)) ∘ esig := by
    funext c; rfl
  rw [this, ← List.map_map, ← List.map_map, h]

theorem getChan_setChan (s : SeqState) (c' : ChanState) (m : ChName) :
    (s.setChan c').getChan m =
      if m = c'.name then (s.getChan m).map (fun _ => c') else s.getChan m := by
  unfold SeqState.setChan SeqState.getChan
  simp only
  induction s.chans with
  | nil => simp [SeqState.replaceChan]
  | cons a rest ih =>
    unfold SeqState.replaceChan
    by_cases ha : (a.name == c'.name) = true
    · have ha' : a.name = c'.name := by simpa using ha
      simp only [ha, if_true, List.find?_cons]
      by_cases hm : m = c'.name
      · subst hm; simp [ha']
      · have h1 : (c'.name == m) = false := by simpa using (fun e => hm e.symm)
        have h2 : (a.name == m) = false := by rw [ha']; exact h1
        simp [hm, h1, h2]
    · simp only [ha, if_false, Bool.false_eq_true, List.find?_cons]
      by_cases ham : (a.name == m) = true
      · have : m ≠ c'.name := by
          intro e; apply ha; rw [← e]; exact ham
        simp [ham, this]
      · simp only [ham]
        exact ih

/-- The static part of the state an EOM call keeps. -/
structure SameX (s s' : SeqState) : Prop where
  nQ : s'.nQ = s.nQ
  dev : s'.dev = s.dev
  inXY : s'.inXY = s.inXY
  measured : s'.measured = s.measured
  bases : s'.refs.map (·.1) = s.refs.map (·.1)
  chans : s'.chans.map sigX = s.chans.map sigX

theorem Same.toX {s s' : SeqState} (h : Same s s') : SameX s s' :=
  ⟨h.nQ, h.dev, h.inXY, h.measured, h.bases, esig_sigX h.chans⟩
theorem SameX.rfl' (s : SeqState) : SameX s s := ⟨rfl, rfl, rfl, rfl, rfl, rfl⟩
theorem SameX.trans {a b c : SeqState} (h1 : SameX a b) (h2 : SameX b c) : SameX a c :=
  ⟨h2.nQ.trans h1.nQ, h2.dev.trans h1.dev, h2.inXY.trans h1.inXY, h2.measured.trans h1.measured,
   h2.bases.trans h1.bases, h2.chans.trans h1.chans⟩

/-- EOM mode of the channel named `m` (`none`: not declared). -/
def modeOf (s : SeqState) (m : ChName) : Option Bool := (s.getChan m).map (·.inEomMode)
def sigOf (s : SeqState) (m : ChName) : Option (ChName × ChanCfg × Rat × Rat × Nat) := (s.getChan m).map sigX

theorem Same.modeOf {s s' : SeqState} (h : Same s s') (m : ChName) : modeOf s' m = modeOf s m := by
  have := find_map esig esig_name h.chans m
  unfold Param.modeOf SeqState.getChan
  have e : (fun c : ChanState => c.inEomMode) = (fun p : ChName × ChanCfg × Rat × Rat × Nat × Bool => p.2.2.2.2.2) ∘ esig := by
    funext c; rfl
  rw [e, ← Option.map_map, ← Option.map_map, this]

theorem SameX.sigOf {s s' : SeqState} (h : SameX s s') (m : ChName) : sigOf s' m = sigOf s m :=
  find_map sigX sigX_name h.chans m

/-- `withChan n f` for a channel operation that sets the EOM mode. -/
theorem withChan_sets {s : SeqState} {n : ChName} {f : ChanState → CRes} {b : Bool}
    (hf : ∀ c, Sets b c (f c)) :
    SameX s (s.withChan n f).st ∧
    ((s.withChan n f).err = none →
      ∀ m, modeOf (s.withChan n f).st m = if m = n then (modeOf s m).map (fun _ => b) else modeOf s m) := by
  unfold SeqState.withChan
  cases hc : s.getChan n with
  | none => exact ⟨SameX.rfl' s, fun h => by simp [fail] at h⟩
  | some c =>
    simp only
    have hn := getChan_name hc
    have hk := (hf c).1
    have hfind : s.chans.find? (·.name == c.name) = some c := by
      unfold SeqState.getChan at hc; rw [hn]; exact hc
    refine ⟨⟨rfl, rfl, rfl, rfl, rfl, ?_⟩, ?_⟩
    · exact replaceChan_map sigX hfind hk.1 (by unfold sigX; rw [hk.1, hk.2.1, hk.2.2.1, hk.2.2.2.1, hk.2.2.2.2])
    · intro herr m
      unfold modeOf
      rw [getChan_setChan, hk.1, hn]
      by_cases hm : m = n
      · subst hm
        simp only [if_true, hc, Option.map_some]
        rw [(hf c).2 herr]
      · simp [hm]

/-! ### The EOM calls on a sequence -/

theorem store_ok' {r : Raw} {op : Op} (h : (store op r).err = none) :
    r.err = none ∧ (store op r).st.calls = r.st.calls ++ [op] ∧
      Same r.st (store op r).st := by
  unfold store at h ⊢
  cases he : r.err with
  | none => exact ⟨rfl, rfl, ⟨rfl, rfl, rfl, rfl, rfl, rfl⟩⟩
  | some e => simp only [he] at h; cases h

/-- `(withChan n f).bind (fun s1 => store op' (rOf s1))` where `f` sets the EOM mode of the channel and
`rOf` only moves phase references. -/
theorem eom_commit {s : SeqState} {n : ChName} {f : ChanState → CRes} {b : Bool} {op' : Op}
    {rOf : SeqState → Raw} (hf : ∀ c, Sets b c (f c)) (hr : ∀ s1, SameR s1 (rOf s1))
    (hfr : ∀ s1, Fr s1 (rOf s1))
    (hok : ((s.withChan n f).bind fun s1 => store op' (rOf s1)).err = none) :
    SameX s ((s.withChan n f).bind fun s1 => store op' (rOf s1)).st ∧
    (∀ m, modeOf ((s.withChan n f).bind fun s1 => store op' (rOf s1)).st m
        = if m = n then (modeOf s m).map (fun _ => b) else modeOf s m) ∧
    ((s.withChan n f).bind fun s1 => store op' (rOf s1)).st.calls = s.calls ++ [op'] := by
  obtain ⟨hx, hm⟩ := withChan_sets (s := s) (n := n) hf
  have hfrw := Fr_withChan s n f
  unfold Raw.bind at hok ⊢
  cases he : (s.withChan n f).err with
  | some e => rw [he] at hok; simp only at hok; rw [he] at hok; cases hok
  | none =>
    rw [he] at hok
    simp only at hok ⊢
    obtain ⟨h1, h2, h3⟩ := store_ok' hok
    have hsame := Same.trans (hr (s.withChan n f).st) h3
    refine ⟨SameX.trans hx hsame.toX, ?_, ?_⟩
    · intro m
      rw [hsame.modeOf m, hm he m]
    · rw [h2, (hfr _).1, hfrw.1]

theorem validateChannel_modeOf {s : SeqState} {n : ChName} {c : ChanState}
    (hv : s.validateChannel n false = .ok c) : modeOf s n = some c.inEomMode ∧ s.getChan n = some c := by
  unfold SeqState.validateChannel at hv
  unfold modeOf
  cases hgc : s.getChan n with
  | none => rw [hgc] at hv; cases hv
  | some c0 =>
    rw [hgc] at hv
    simp only [Bool.false_and, Bool.false_eq_true, if_false] at hv
    injection hv with hv
    subst hv
    exact ⟨rfl, rfl⟩

theorem enableEom_step {s : SeqState} {n : ChName} {e : EomIn}
    (hok : (stepRaw s (.enableEom n e)).err = none) :
    SameX s (stepRaw s (.enableEom n e)).st ∧
    (∀ m, modeOf (stepRaw s (.enableEom n e)).st m
        = if m = n then (modeOf s m).map (fun _ => true) else modeOf s m) ∧
    (∃ e', (stepRaw s (.enableEom n e)).st.calls = s.calls ++ [.enableEom n e']) ∧
    modeOf s n = some false ∧ s.measured = none ∧
    ∃ c, s.getChan n = some c ∧ c.cfg.eom.isSome = true ∧ ∃ d, processEomParams c e = .ok d := by
  simp only [stepRaw] at hok ⊢
  by_cases g0 : s.measured.isSome = true
  · rw [if_pos g0] at hok; simp [fail] at hok
  · rw [if_neg g0] at hok ⊢
    cases hv : s.validateChannel n false with
    | error er => rw [hv] at hok; simp [fail] at hok
    | ok c =>
      rw [hv] at hok
      simp only at hok ⊢
      by_cases g1 : c.inEomMode = true
      · rw [if_pos g1] at hok; simp [fail] at hok
      · rw [if_neg g1] at hok ⊢
        by_cases g2 : c.cfg.eom.isNone = true
        · rw [if_pos g2] at hok; simp [fail] at hok
        · rw [if_neg g2] at hok ⊢
          cases hp : processEomParams c e with
          | error er => rw [hp] at hok; simp [fail] at hok
          | ok detOff =>
            rw [hp] at hok
            simp only at hok ⊢
            have hro := Raw.orRollback_ok hok
            rw [hro] at hok ⊢
            unfold enableEomCommit at hok ⊢
            simp only at hok ⊢
            have := eom_commit (s := s) (n := n) (b := true)
              (hf := fun c => enableEom_sets _ c _ _ _ _ _) (hr := ?_) (hfr := ?_) hok
            · obtain ⟨hm1, hg1⟩ := validateChannel_modeOf hv
              refine ⟨this.1, this.2.1, ⟨_, this.2.2⟩, ?_, ?_, c, hg1, ?_, detOff, hp⟩
              · rw [hm1]; simpa using g1
              · cases hm : s.measured with
                | none => rfl
                | some x => rw [hm] at g0; simp at g0
              · cases he : c.cfg.eom with
                | none => rw [he] at g2; simp at g2
                | some x => rfl
            · intro s1
              repeat' split
              all_goals first
                | exact SameR_phaseShift _ _ _ _ | exact SameR_fail _ _ | exact SameR_done (Same.rfl' _)
            · intro s1
              repeat' split
              all_goals first
                | exact Fr_phaseShift _ _ _ _ | exact Fr_fail _ _ | exact Fr_done ⟨rfl, rfl, rfl⟩

theorem eom_bind {s : SeqState} {n : ChName} {f : ChanState → CRes} {b : Bool}
    {g : SeqState → Raw} (hf : ∀ c, Sets b c (f c)) (hr : ∀ s1, SameR s1 (g s1))
    (hfr : ∀ s1, Fr s1 (g s1)) (hok : ((s.withChan n f).bind g).err = none) :
    SameX s ((s.withChan n f).bind g).st ∧
    (∀ m, modeOf ((s.withChan n f).bind g).st m
        = if m = n then (modeOf s m).map (fun _ => b) else modeOf s m) ∧
    ((s.withChan n f).bind g).st.calls = s.calls := by
  obtain ⟨hx, hm⟩ := withChan_sets (s := s) (n := n) hf
  have hfrw := Fr_withChan s n f
  unfold Raw.bind at hok ⊢
  cases he : (s.withChan n f).err with
  | some e => rw [he] at hok; simp only at hok; rw [he] at hok; cases hok
  | none =>
    rw [he] at hok
    simp only at hok ⊢
    have hsame := hr (s.withChan n f).st
    refine ⟨SameX.trans hx hsame.toX, ?_, ?_⟩
    · intro m
      rw [hsame.modeOf m, hm he m]
    · rw [(hfr _).1, hfrw.1]

theorem disableEom_step {s : SeqState} {n : ChName} {corr : Bool}
    (hok : (stepRaw s (.disableEom n corr)).err = none) :
    SameX s (stepRaw s (.disableEom n corr)).st ∧
    (∀ m, modeOf (stepRaw s (.disableEom n corr)).st m
        = if m = n then (modeOf s m).map (fun _ => false) else modeOf s m) ∧
    (stepRaw s (.disableEom n corr)).st.calls = s.calls ++ [.disableEom n corr] ∧
    modeOf s n = some true ∧ s.measured = none := by
  simp only [stepRaw] at hok ⊢
  obtain ⟨h1, h2, h3⟩ := store_ok' hok
  -- (the call succeeded: nothing was rolled back)
  have hro := Raw.orRollback_ok h1
  rw [hro] at h1 h2 h3 ⊢
  -- the call before it is stored
  have inner : ∀ R : Raw,
      R = (if s.measured.isSome then fail s .measured
        else match s.validateChannel n false with
        | .error er => fail s er
        | .ok c =>
        if !c.inEomMode then fail s .notInEom
        else
        (s.withChan n fun c => disableEom s.dev.maxSeqDur c false).bind fun s1 =>
          if corr then
            match s1.getChan n with
            | none => fail s1 .notDeclared
            | some c1 =>
              let lastTf : Int := match c1.eom.getLast? with
                | some b => b.tf.getD 0 | none => 0
              let d := lastEomPulseDrift c1
              match c1.slots.getLast? with
              | some l => s1.phaseShift (-(d.calc lastTf)) l.targets c.cfg.basis
              | none => fail s1 .noTarget
          else done s1) →
      R.err = none →
      SameX s R.st ∧ (∀ m, modeOf R.st m = if m = n then (modeOf s m).map (fun _ => false) else modeOf s m) ∧
        R.st.calls = s.calls ∧ modeOf s n = some true ∧ s.measured = none := by
    intro R hR herr
    by_cases g0 : s.measured.isSome = true
    · rw [if_pos g0] at hR; subst hR; simp [fail] at herr
    · rw [if_neg g0] at hR
      cases hv : s.validateChannel n false with
      | error er => rw [hv] at hR; subst hR; simp [fail] at herr
      | ok c =>
        rw [hv] at hR
        simp only at hR
        by_cases g1 : (!c.inEomMode) = true
        · rw [if_pos g1] at hR; subst hR; simp [fail] at herr
        · rw [if_neg g1] at hR
          subst hR
          have hmode : modeOf s n = some true := by
            rw [(validateChannel_modeOf hv).1]; simpa using g1
          have hmeas : s.measured = none := by
            cases hm : s.measured with
            | none => rfl
            | some x => rw [hm] at g0; simp at g0
          have := eom_bind (s := s) (n := n) (b := false)
            (hf := fun c => disableEom_sets _ c _) (hr := ?_) (hfr := ?_) herr
          · exact ⟨this.1, this.2.1, this.2.2, hmode, hmeas⟩
          · intro s1
            repeat' split
            all_goals first
              | exact SameR_phaseShift _ _ _ _ | exact SameR_fail _ _ | exact SameR_done (Same.rfl' _)
          · intro s1
            repeat' split
            all_goals first
              | exact Fr_phaseShift _ _ _ _ | exact Fr_fail _ _ | exact Fr_done ⟨rfl, rfl, rfl⟩
  obtain ⟨i1, i2, i3, i4, i5⟩ := inner _ rfl h1
  refine ⟨SameX.trans i1 h3.toX, ?_, ?_, i4, i5⟩
  · intro m; exact (h3.modeOf m).trans (i2 m)
  · exact h2.trans (congrArg (· ++ [Op.disableEom n corr]) i3)

theorem modifyEom_step {s : SeqState} {n : ChName} {e : EomIn}
    (hok : (stepRaw s (.modifyEom n e)).err = none) :
    SameX s (stepRaw s (.modifyEom n e)).st ∧
    (∀ m, modeOf (stepRaw s (.modifyEom n e)).st m
        = if m = n then (modeOf s m).map (fun _ => true) else modeOf s m) ∧
    (∃ e', (stepRaw s (.modifyEom n e)).st.calls = s.calls ++ [.modifyEom n e']) ∧
    modeOf s n = some true ∧ s.measured = none ∧
    ∃ c, s.getChan n = some c ∧ ∃ d, processEomParams c e = .ok d := by
  simp only [stepRaw] at hok ⊢
  by_cases g0 : s.measured.isSome = true
  · rw [if_pos g0] at hok; simp [fail] at hok
  · rw [if_neg g0] at hok ⊢
    cases hv : s.validateChannel n false with
    | error er => rw [hv] at hok; simp [fail] at hok
    | ok c =>
      rw [hv] at hok
      simp only at hok ⊢
      by_cases g1 : (!c.inEomMode) = true
      · rw [if_pos g1] at hok; simp [fail] at hok
      · rw [if_neg g1] at hok ⊢
        cases hp : processEomParams c e with
        | error er => rw [hp] at hok; simp [fail] at hok
        | ok detOff =>
          rw [hp] at hok
          simp only at hok ⊢
          have hro := Raw.orRollback_ok hok
          rw [hro] at hok ⊢
          unfold modifyEomCommit at hok ⊢
          -- first half: close the running block
          obtain ⟨hx, hm⟩ := withChan_sets (s := s) (n := n) (b := false)
            (f := fun c => disableEom s.dev.maxSeqDur c true) (fun c => disableEom_sets _ c _)
          have hfrw := Fr_withChan s n (fun c => disableEom s.dev.maxSeqDur c true)
          unfold Raw.bind at hok ⊢
          cases he : (s.withChan n fun c => disableEom s.dev.maxSeqDur c true).err with
          | some er => rw [he] at hok; simp only at hok; rw [he] at hok; cases hok
          | none =>
            rw [he] at hok
            simp only at hok ⊢
            generalize hs1 : (s.withChan n fun c => disableEom s.dev.maxSeqDur c true).st = s1 at *
            cases hg : s1.getChan n with
            | none => rw [hg] at hok; simp [fail] at hok
            | some c1 =>
              rw [hg] at hok
              simp only at hok ⊢
              have := eom_commit (s := s1) (n := n) (b := true)
                (f := fun c => enableEom s.dev.maxSeqDur c e.amp e.detOn detOff false true)
                (op' := .modifyEom n { e with optimal := detOff })
                (rOf := fun s2 =>
                  if e.corr then
                    match (s2.getChan n).bind (·.slots.getLast?) with
                    | some buf =>
                      s2.phaseShift (-((lastEomPulseDrift c1).calc (max buf.ti 0) +
                        ({ rate := -detOff, ti := c1.getDuration false } : Drift).calc buf.tf)) buf.targets c.cfg.basis
                    | none => fail s2 .noTarget
                  else done s2)
                (hf := fun c => enableEom_sets _ c _ _ _ _ _) (hr := ?_) (hfr := ?_) hok
              · obtain ⟨t1, t2, t3⟩ := this
                have hmode : modeOf s n = some true := by
                  unfold SeqState.validateChannel at hv
                  unfold modeOf
                  cases hgc : s.getChan n with
                  | none => rw [hgc] at hv; cases hv
                  | some c0 =>
                    rw [hgc] at hv
                    simp only [Bool.false_and, Bool.false_eq_true, if_false] at hv
                    injection hv with hv
                    subst hv
                    simpa using g1
                have hmeas : s.measured = none := by
                  cases hm0 : s.measured with
                  | none => rfl
                  | some x => rw [hm0] at g0; simp at g0
                refine ⟨SameX.trans hx t1, ?_, ⟨{ e with optimal := detOff }, ?_⟩, hmode, hmeas, c,
                  (validateChannel_modeOf hv).2, detOff, hp⟩
                · intro m
                  have := t2 m
                  rw [hm he m] at this
                  refine this.trans ?_
                  by_cases hmn : m = n
                  · simp [hmn, Option.map_map]
                  · simp [hmn]
                · have hc : s1.calls = s.calls := by rw [← hs1]; exact hfrw.1
                  exact t3.trans (by rw [hc])
              · intro s2
                repeat' split
                all_goals first
                  | exact SameR_phaseShift _ _ _ _ | exact SameR_fail _ _ | exact SameR_done (Same.rfl' _)
              · intro s2
                repeat' split
                all_goals first
                  | exact Fr_phaseShift _ _ _ _ | exact Fr_fail _ _ | exact Fr_done ⟨rfl, rfl, rfl⟩

/-! ### Measurement, declarations -/

theorem measure_step {s : SeqState} {b : Basis} (hok : (stepRaw s (.measure b)).err = none) :
    (stepRaw s (.measure b)).st = { s with measured := some b, calls := s.calls ++ [.measure b] } ∧
    s.measured = none ∧ measBasisOk s b = true := by
  simp only [stepRaw] at hok ⊢
  obtain ⟨h1, _, _⟩ := store_ok' hok
  by_cases g0 : s.measured.isSome = true
  · rw [if_pos g0] at h1; simp [fail] at h1
  · rw [if_neg g0] at h1 ⊢
    by_cases g1 : (!measBasisOk s b) = true
    · rw [if_pos g1] at h1; simp [fail] at h1
    · rw [if_neg g1]
      refine ⟨rfl, ?_, by simpa using g1⟩
      cases hm : s.measured with
      | none => rfl
      | some x => rw [hm] at g0; simp at g0

theorem getChan_append {s s' : SeqState} {c : ChanState} (h : s'.chans = s.chans ++ [c]) (m : ChName) :
    s'.getChan m =
      match s.getChan m with
      | some c0 => some c0
      | none => if c.name = m then some c else none := by
  unfold SeqState.getChan
  rw [h]
  simp only [List.find?_append]
  cases s.chans.find? (·.name == m) with
  | some c0 => rfl
  | none =>
    simp only [Option.none_or, List.find?_cons, List.find?_nil]
    by_cases hn : c.name = m
    · simp [hn]
    · have : (c.name == m) = false := by simpa using hn
      simp [hn, this]

theorem addChannel_chans (s : SeqState) (c : ChanState) : (s.addChannel c).chans = s.chans ++ [c] := by
  unfold SeqState.addChannel SeqState.ensureBasis
  simp only
  repeat' split
  all_goals rfl

/-- Registering a channel: existing names resolve as before, the new name (if it was free) to
the new channel. -/
theorem addChannel_getChan (s : SeqState) (c : ChanState) (m : ChName) :
    (s.addChannel c).getChan m =
      match s.getChan m with
      | some c0 => some c0
      | none => if c.name = m then some c else none :=
  getChan_append (addChannel_chans s c) m

theorem freshChan_mode (name : ChName) (chId : Nat) (cfg : ChanCfg) (qs : List Nat) (w : Bool) (a b : Rat) :
    (SeqState.freshChan name chId cfg qs w a b).inEomMode = false := rfl

/-- Mode table after a channel named `nm` (not in EOM mode) has been registered. -/
def extMode (old : Option Bool) (nm m : ChName) : Option Bool :=
  match old with
  | some b => some b
  | none => if nm = m then some false else none

theorem addChannel_modeOf (s : SeqState) (c : ChanState) (hc : c.inEomMode = false) (m : ChName) :
    modeOf (s.addChannel c) m = extMode (modeOf s m) c.name m := by
  unfold modeOf extMode
  rw [addChannel_getChan]
  cases s.getChan m with
  | some c0 => rfl
  | none =>
    simp only [Option.map_none]
    split
    · simp [hc]
    · rfl

/-- A successful declaration: the new name (if free) resolves to a channel that is not in EOM
mode, every other name as before. -/
theorem declare_step {s : SeqState} {name : ChName} {chId : Nat} {init : Option (List Nat)}
    (hok : (stepRaw s (.declare name chId init)).err = none) (m : ChName) :
    modeOf (stepRaw s (.declare name chId init)).st m = extMode (modeOf s m) name m := by
  simp only [stepRaw] at hok ⊢
  repeat' split at hok
  all_goals first
    | (simp [fail] at hok; done)
    | skip
  all_goals
    repeat' split
    all_goals first
      | (simp_all; done)
      | skip
  all_goals
    obtain ⟨h1, _, h3⟩ := store_ok' hok
    first
      | (rw [h3.modeOf m]
         exact addChannel_modeOf s _ (freshChan_mode _ _ _ _ _ _ _) m)
      | (rw [h3.modeOf m, Raw.orRollback_ok h1, (SameR_targetCore _ _ _).modeOf m]
         exact addChannel_modeOf s _ (freshChan_mode _ _ _ _ _ _ _) m)

theorem configDetMap_step {s : SeqState} {dmmId : Nat} {w1 w2 : Rat}
    (hok : (stepRaw s (.configDetMap dmmId w1 w2)).err = none) :
    ∃ nm : ChName, ∀ m, modeOf (stepRaw s (.configDetMap dmmId w1 w2)).st m = extMode (modeOf s m) nm m := by
  simp only [stepRaw] at hok ⊢
  repeat' split at hok
  all_goals first
    | (simp [fail] at hok; done)
    | skip
  all_goals
    repeat' split
    all_goals first
      | (simp_all; done)
      | skip
  all_goals
    obtain ⟨_, _, h3⟩ := store_ok' hok
    refine ⟨ChName.dmm dmmId (List.filter (fun c => match c.name with
      | ChName.dmm i _ => i == dmmId | _ => false) s.chans).length, fun m => ?_⟩
    rw [h3.modeOf m]
    exact addChannel_modeOf s _ (freshChan_mode _ _ _ _ _ _ _) m

/-! ### The EOM mode of a concrete sequence can be read off its call log
(what `is_in_eom_mode` does once the sequence is parametrized) -/

/-- The latest enable/disable mark of channel `m` in a call log (`false` if none). -/
def markOf (calls : List Op) (m : ChName) : Bool := (calls.reverse.findSome? (eomMark m)).getD false

theorem markOf_snoc (calls : List Op) (op : Op) (m : ChName) :
    markOf (calls ++ [op]) m = (eomMark m op).getD (markOf calls m) := by
  unfold markOf
  simp only [List.reverse_append, List.reverse_cons, List.reverse_nil, List.nil_append, List.cons_append,
    List.findSome?_cons]
  cases eomMark m op <;> rfl

/-- Every declared channel is in EOM mode iff the log says so; an undeclared name has no mark. -/
def PreInv (s : SeqState) : Prop :=
  ∀ m, (modeOf s m = none ∧ markOf s.calls m = false) ∨ modeOf s m = some (markOf s.calls m)

theorem preInv_init (dev : Device) (nQ : Nat) : PreInv (SeqState.init dev nQ) := by
  intro m; left; exact ⟨rfl, rfl⟩

/-- Calls that are recorded (everything except the read-only queries). -/
def building : Op → Bool
  | .getDuration .. | .estimate .. | .phaseRef .. => false
  | _ => true

theorem preInv_same {s s' : SeqState} {op : Op} (hi : PreInv s) (hm : ∀ m, modeOf s' m = modeOf s m)
    (hc : s'.calls = s.calls ++ [op]) (hmark : ∀ m, eomMark m op = none) : PreInv s' := by
  intro m
  rw [hm m, hc, markOf_snoc, hmark m]
  exact hi m

theorem preInv_ext {s s' : SeqState} {op : Op} {nm : ChName} (hi : PreInv s)
    (hm : ∀ m, modeOf s' m = extMode (modeOf s m) nm m)
    (hc : s'.calls = s.calls ++ [op]) (hmark : ∀ m, eomMark m op = none) : PreInv s' := by
  intro m
  rw [hm m, hc, markOf_snoc, hmark m]
  simp only [Option.getD_none]
  unfold extMode
  rcases hi m with ⟨h1, h2⟩ | h1
  · rw [h1, h2]
    by_cases hn : nm = m
    · right; simp [hn]
    · left; simp [hn]
  · rw [h1]; right; rfl

theorem preInv_step {s : SeqState} {op : Op} (hi : PreInv s) (hok : (stepRaw s op).err = none)
    (hb : building op = true) : PreInv (stepRaw s op).st := by
  cases op with
  | declare name chId init =>
    exact preInv_ext hi (fun m => declare_step hok m) (stepRaw_calls rfl hok).1 (fun m => rfl)
  | configDetMap id w1 w2 =>
    obtain ⟨nm, hnm⟩ := configDetMap_step hok
    exact preInv_ext hi hnm (stepRaw_calls rfl hok).1 (fun m => rfl)
  | target qs n =>
    exact preInv_same hi (fun m => (stepRaw_same rfl).modeOf m) (stepRaw_calls rfl hok).1 (fun m => rfl)
  | add p n proto =>
    exact preInv_same hi (fun m => (stepRaw_same rfl).modeOf m) (stepRaw_calls rfl hok).1 (fun m => rfl)
  | addDmm p n proto =>
    exact preInv_same hi (fun m => (stepRaw_same rfl).modeOf m) (stepRaw_calls rfl hok).1 (fun m => rfl)
  | addEom n dur ph po proto corr fs fe ref =>
    exact preInv_same hi (fun m => (stepRaw_same rfl).modeOf m) (stepRaw_calls rfl hok).1 (fun m => rfl)
  | delay d n atRest =>
    exact preInv_same hi (fun m => (stepRaw_same rfl).modeOf m) (stepRaw_calls rfl hok).1 (fun m => rfl)
  | align chs atRest =>
    exact preInv_same hi (fun m => (stepRaw_same rfl).modeOf m) (stepRaw_calls rfl hok).1 (fun m => rfl)
  | phaseShift phi qs b =>
    exact preInv_same hi (fun m => (stepRaw_same rfl).modeOf m) (stepRaw_calls rfl hok).1 (fun m => rfl)
  | measure b =>
    obtain ⟨h1, _, _⟩ := measure_step hok
    rw [h1]
    exact preInv_same (s' := { s with measured := some b, calls := s.calls ++ [.measure b] }) hi
      (fun m => rfl) rfl (fun m => rfl)
  | enableEom n e =>
    obtain ⟨_, hm, ⟨e', hc⟩, hold, _⟩ := enableEom_step hok
    intro m
    rw [hm m, hc, markOf_snoc]
    by_cases hmn : m = n
    · subst hmn
      right
      simp [eomMark, hold]
    · have : eomMark m (Op.enableEom n e') = none := by
        simp only [eomMark]; rw [if_neg (fun h => hmn h.symm)]
      rw [if_neg hmn, this]
      exact hi m
  | modifyEom n e =>
    obtain ⟨_, hm, ⟨e', hc⟩, hold, _⟩ := modifyEom_step hok
    intro m
    rw [hm m, hc, markOf_snoc]
    have hmk : eomMark m (Op.modifyEom n e') = none := rfl
    rw [hmk]
    by_cases hmn : m = n
    · subst hmn
      right
      simp only [if_true, hold, Option.map_some, Option.getD_none]
      rcases hi m with ⟨h1, _⟩ | h1
      · rw [hold] at h1; cases h1
      · rw [hold] at h1; injection h1 with h1; rw [← h1]
    · rw [if_neg hmn]; exact hi m
  | disableEom n corr =>
    obtain ⟨_, hm, hc, hold, _⟩ := disableEom_step hok
    intro m
    rw [hm m, hc, markOf_snoc]
    by_cases hmn : m = n
    · subst hmn
      right
      simp [eomMark, hold]
    · have : eomMark m (Op.disableEom n corr) = none := by
        simp only [eomMark]; rw [if_neg (fun h => hmn h.symm)]
      rw [if_neg hmn, this]
      exact hi m
  | getDuration _ _ => simp [building] at hb
  | estimate _ _ _ => simp [building] at hb
  | phaseRef _ _ => simp [building] at hb

/-- After any history of successful building calls from a fresh sequence the invariant holds. -/
theorem preInv_runAll {k : Nat} {s s' : SeqState} {ops : List Op} (hi : PreInv s)
    (hb : ∀ op ∈ ops, building op = true) (h : runAllFrom k s ops = .ok s') : PreInv s' := by
  induction ops generalizing k s with
  | nil => simp [runAllFrom] at h; subst h; exact hi
  | cons op rest ih =>
    unfold runAllFrom at h
    cases he : (stepRaw s op).err with
    | some e => rw [he] at h; cases h
    | none =>
      rw [he] at h
      exact ih (preInv_step hi he (hb op List.mem_cons_self))
        (fun o ho => hb o (List.mem_cons_of_mem _ ho)) h

/-! ### What the success of a concrete call says about the state (inversion) -/

theorem measured_none_of {s : SeqState} (g0 : ¬ s.measured.isSome = true) : s.measured = none := by
  cases hm : s.measured with
  | none => rfl
  | some x => rw [hm] at g0; simp at g0

theorem validateChannel_block {s : SeqState} {n : ChName} {c : ChanState}
    (hv : s.validateChannel n true = .ok c) : s.getChan n = some c ∧ c.inEomMode = false := by
  unfold SeqState.validateChannel at hv
  cases hgc : s.getChan n with
  | none => rw [hgc] at hv; cases hv
  | some c0 =>
    rw [hgc] at hv
    simp only [Bool.true_and] at hv
    by_cases hm : c0.inEomMode = true
    · rw [if_pos hm] at hv; cases hv
    · rw [if_neg hm] at hv
      injection hv with hv
      subst hv
      exact ⟨rfl, by simpa using hm⟩

theorem markNonEmpty_ok {r : Raw} (h : (markNonEmpty r).err = none) : r.err = none := by
  unfold markNonEmpty at h
  cases he : r.err with
  | none => rfl
  | some e => simp only [he] at h; exact h

theorem validatePulse_sig {c c0 : ChanState} (h : sigX c = sigX c0) (σ : PulseSummary) :
    validatePulse c σ = validatePulse c0 σ := by
  unfold sigX at h
  simp only [Prod.mk.injEq] at h
  obtain ⟨_, h2, h3, h4, _⟩ := h
  unfold validatePulse
  rw [h2, h3, h4]

theorem validateAndAdjust_sig {c c0 : ChanState} (h : sigX c = sigX c0) {p : PulseIn} {r : Option Rat}
    {pr : PulseRec} (hok : validateAndAdjust c p r = .ok pr) (r' : Option Rat) :
    ∃ pr', validateAndAdjust c0 p r' = .ok pr' := by
  have hcfg : c.cfg = c0.cfg := by
    unfold sigX at h; simp only [Prod.mk.injEq] at h; exact h.2.1
  unfold validateAndAdjust at hok ⊢
  rw [← validatePulse_sig h, ← hcfg]
  cases hv : validatePulse c p.sum with
  | error e => rw [hv] at hok; cases hok
  | ok u =>
    rw [hv] at hok
    simp only at hok ⊢
    cases hd : validateDuration c.cfg p.dur with
    | error e => rw [hd] at hok; cases hok
    | ok d =>
      rw [hd] at hok
      simp only at hok ⊢
      split at hok
      · cases hok
      · rename_i hne
        rw [if_neg hne]
        -- the lengthened pulse is validated as scheduled (F37): same verdict on both channels
        rw [← validatePulse_sig h]
        cases hadj : (if d ≠ p.dur then validatePulse c p.sumAdj else Except.ok ()) with
        | error e => rw [hadj] at hok; cases hok
        | ok u2 => exact ⟨_, rfl⟩

theorem processEomParams_sig {c c0 : ChanState} (h : sigX c = sigX c0) (e : EomIn) :
    processEomParams c e = processEomParams c0 e := by
  unfold processEomParams
  simp only [validatePulse_sig h]

theorem target_guards {s : SeqState} {qs : List Nat} {n : ChName}
    (hok : (stepRaw s (.target qs n)).err = none) :
    s.measured = none ∧ ∃ c, s.getChan n = some c ∧ c.inEomMode = false ∧ qs.isEmpty = false ∧
      c.cfg.isLocal = true ∧ overNat c.cfg.maxTargets qs.length = false ∧ qs.any (· ≥ s.nQ) = false := by
  simp only [stepRaw] at hok
  obtain ⟨h1, _, _⟩ := store_ok' hok
  rw [Raw.orRollback_err] at h1
  unfold targetCore at h1
  by_cases g0 : s.measured.isSome = true
  · rw [if_pos g0] at h1; simp [fail] at h1
  · rw [if_neg g0] at h1
    cases hv : s.validateChannel n true with
    | error e => rw [hv] at h1; simp [fail] at h1
    | ok c =>
      rw [hv] at h1
      simp only at h1
      by_cases g1 : qs.isEmpty = true
      · rw [if_pos g1] at h1; simp [fail] at h1
      · rw [if_neg g1] at h1
        by_cases g2 : (!c.cfg.isLocal) = true
        · rw [if_pos g2] at h1; simp [fail] at h1
        · rw [if_neg g2] at h1
          by_cases g3 : overNat c.cfg.maxTargets qs.length = true
          · rw [if_pos g3] at h1; simp [fail] at h1
          · rw [if_neg g3] at h1
            by_cases g4 : qs.any (· ≥ s.nQ) = true
            · rw [if_pos g4] at h1; simp [fail] at h1
            · obtain ⟨a, b⟩ := validateChannel_block hv
              exact ⟨measured_none_of g0, c, a, b, by simpa using g1, by simpa using g2,
                by simpa using g3, by simpa using g4⟩

theorem addCore_guards {s : SeqState} {p : PulseIn} {n : ChName} {proto : Option Protocol}
    {drift : Option Drift} (hok : (addCore s p n proto drift).err = none) :
    proto.isSome = true ∧ ∃ c, s.getChan n = some c ∧ ∃ r pr, validateAndAdjust c p r = .ok pr := by
  unfold addCore at hok
  cases proto with
  | none => simp [fail] at hok
  | some pr0 =>
    simp only at hok
    cases hc : s.getChan n with
    | none => rw [hc] at hok; simp [fail] at hok
    | some c =>
      rw [hc] at hok
      simp only at hok
      cases hl : c.last with
      | error e => rw [hl] at hok; simp [fail] at hok
      | ok last =>
        rw [hl] at hok
        simp only at hok
        split at hok
        · simp [fail] at hok
        · cases hv : validateAndAdjust c p (if c.cfg.isDmm = true then none else
              (s.lastPhases c.cfg.basis last.targets).head?) with
          | error e => rw [hv] at hok; simp [fail] at hok
          | ok pr => exact ⟨rfl, c, rfl, _, pr, hv⟩

theorem add_guards {s : SeqState} {p : PulseIn} {n : ChName} {proto : Option Protocol}
    (hok : (stepRaw s (.add p n proto)).err = none) :
    s.measured = none ∧ proto.isSome = true ∧ ∃ c, s.getChan n = some c ∧ c.inEomMode = false ∧
      c.cfg.isDmm = false ∧ ∃ r pr, validateAndAdjust c p r = .ok pr := by
  simp only [stepRaw] at hok
  obtain ⟨h1, _, _⟩ := store_ok' hok
  have h1 := markNonEmpty_ok h1
  by_cases g0 : s.measured.isSome = true
  · rw [if_pos g0] at h1; simp [fail] at h1
  · rw [if_neg g0] at h1
    cases hv : s.validateChannel n true with
    | error e => rw [hv] at h1; simp [fail] at h1
    | ok c =>
      rw [hv] at h1
      simp only at h1
      by_cases g1 : c.cfg.isDmm = true
      · rw [if_pos g1] at h1; simp [fail] at h1
      · rw [if_neg g1] at h1
        obtain ⟨a, b⟩ := validateChannel_block hv
        obtain ⟨hp, c', hc', r, pr, hva⟩ := addCore_guards h1
        rw [a] at hc'; injection hc' with hc'; subst hc'
        exact ⟨measured_none_of g0, hp, c, a, b, by simpa using g1, r, pr, hva⟩

theorem addDmm_guards {s : SeqState} {p : PulseIn} {n : ChName} {proto : Option Protocol}
    (hok : (stepRaw s (.addDmm p n proto)).err = none) :
    s.measured = none ∧ proto.isSome = true ∧ ∃ c, s.getChan n = some c ∧
      c.cfg.isDmm = true ∧ ∃ r pr, validateAndAdjust c p r = .ok pr := by
  simp only [stepRaw] at hok
  obtain ⟨h1, _, _⟩ := store_ok' hok
  have h1 := markNonEmpty_ok h1
  by_cases g0 : s.measured.isSome = true
  · rw [if_pos g0] at h1; simp [fail] at h1
  · rw [if_neg g0] at h1
    cases hv : s.validateChannel n false with
    | error e => rw [hv] at h1; simp [fail] at h1
    | ok c =>
      rw [hv] at h1
      simp only at h1
      by_cases g1 : (!c.cfg.isDmm) = true
      · rw [if_pos g1] at h1; simp [fail] at h1
      · rw [if_neg g1] at h1
        obtain ⟨_, a⟩ := validateChannel_modeOf hv
        obtain ⟨hp, c', hc', r, pr, hva⟩ := addCore_guards h1
        rw [a] at hc'; injection hc' with hc'; subst hc'
        exact ⟨measured_none_of g0, hp, c, a, by simpa using g1, r, pr, hva⟩

theorem validateAndAdjust_dur {c : ChanState} {p : PulseIn} {r : Option Rat} {pr : PulseRec}
    (h : validateAndAdjust c p r = .ok pr) : ∃ d, validateDuration c.cfg p.dur = .ok d := by
  unfold validateAndAdjust at h
  cases hv : validatePulse c p.sum with
  | error e => rw [hv] at h; cases h
  | ok u =>
    rw [hv] at h
    simp only at h
    cases hd : validateDuration c.cfg p.dur with
    | error e => rw [hd] at h; cases h
    | ok d => exact ⟨d, rfl⟩

theorem addEom_guards {s : SeqState} {n : ChName} {dur : Nat} {ph po : Rat} {proto : Option Protocol}
    {corr : Bool} {fs fe ref : Nat}
    (hok : (stepRaw s (.addEom n dur ph po proto corr fs fe ref)).err = none) :
    s.measured = none ∧ proto.isSome = true ∧ ∃ c, s.getChan n = some c ∧ c.inEomMode = true ∧
      ∃ d, validateDuration c.cfg dur = .ok d := by
  simp only [stepRaw] at hok
  obtain ⟨h1, _, _⟩ := store_ok' hok
  have h1 := markNonEmpty_ok h1
  by_cases g0 : s.measured.isSome = true
  · rw [if_pos g0] at h1; simp [fail] at h1
  · rw [if_neg g0] at h1
    cases hv : s.validateChannel n false with
    | error e => rw [hv] at h1; simp [fail] at h1
    | ok c =>
      rw [hv] at h1
      simp only at h1
      cases hb : c.eom.getLast? with
      | none => rw [hb] at h1; simp [fail] at h1
      | some b =>
        rw [hb] at h1
        simp only at h1
        by_cases g1 : b.tf.isSome = true
        · rw [if_pos g1] at h1; simp [fail] at h1
        · rw [if_neg g1] at h1
          obtain ⟨_, a⟩ := validateChannel_modeOf hv
          obtain ⟨hp, c', hc', r, pr, hva⟩ := addCore_guards h1
          rw [a] at hc'; injection hc' with hc'; subst hc'
          obtain ⟨d, hd⟩ := validateAndAdjust_dur hva
          refine ⟨measured_none_of g0, hp, c, a, ?_, d, hd⟩
          unfold ChanState.inEomMode
          rw [hb]
          cases htf : b.tf with
          | none => simp [htf]
          | some x => rw [htf] at g1; simp at g1

theorem delay_guards {s : SeqState} {d : Int} {n : ChName} {atRest : Bool}
    (hok : (stepRaw s (.delay d n atRest)).err = none) :
    s.measured = none ∧ ∃ c, s.getChan n = some c := by
  simp only [stepRaw] at hok
  obtain ⟨h1, _, _⟩ := store_ok' hok
  rw [Raw.orRollback_err] at h1
  rcases delayChecked_cases s d n atRest with hc | ⟨e, hc⟩
  · rw [hc] at h1
    unfold delayCore at h1
    by_cases g0 : s.measured.isSome = true
    · rw [if_pos g0] at h1; simp [fail] at h1
    · rw [if_neg g0] at h1
      cases hv : s.validateChannel n false with
      | error e => rw [hv] at h1; simp [fail] at h1
      | ok c => exact ⟨measured_none_of g0, c, (validateChannel_modeOf hv).2⟩
  · rw [hc] at h1; simp [fail] at h1

theorem align_guards {s : SeqState} {chs : List ChName} {atRest : Bool}
    (hok : (stepRaw s (.align chs atRest)).err = none) :
    s.measured = none ∧ chs.any (fun n => (s.getChan n).isNone) = false ∧
      chs.eraseDups.length = chs.length ∧ ¬ chs.length < 2 := by
  simp only [stepRaw] at hok
  obtain ⟨h1, _, _⟩ := store_ok' hok
  rw [Raw.orRollback_err] at h1
  by_cases g0 : s.measured.isSome = true
  · rw [if_pos g0] at h1; simp [fail] at h1
  · rw [if_neg g0] at h1
    by_cases g1 : chs.any (fun n => (s.getChan n).isNone) = true
    · rw [if_pos g1] at h1; simp [fail] at h1
    · rw [if_neg g1] at h1
      by_cases g2 : chs.eraseDups.length ≠ chs.length
      · rw [if_pos g2] at h1; simp [fail] at h1
      · rw [if_neg g2] at h1
        by_cases g3 : chs.length < 2
        · rw [if_pos g3] at h1; simp [fail] at h1
        · exact ⟨measured_none_of g0, by simpa using g1, by simpa using g2, g3⟩

theorem phaseShift_guards {s : SeqState} {phi : Rat} {qs : List Nat} {b : Basis}
    (hok : (stepRaw s (.phaseShift phi qs b)).err = none) :
    (s.getRefs b).isSome = true ∧ (qs.isEmpty = false → qs.any (· ≥ s.nQ) = false) := by
  simp only [stepRaw] at hok
  obtain ⟨h1, _, _⟩ := store_ok' hok
  unfold SeqState.phaseShift at h1
  by_cases g0 : (s.getRefs b).isNone = true
  · rw [if_pos g0] at h1; simp [fail] at h1
  · rw [if_neg g0] at h1
    refine ⟨by cases hh : s.getRefs b <;> simp_all, ?_⟩
    intro hne
    simp only [hne, Bool.false_eq_true, if_false] at h1
    by_cases g1 : qs.any (· ≥ s.nQ) = true
    · rw [if_pos g1] at h1; simp [fail] at h1
    · simpa using g1

/-! ### The template's bookkeeping agrees with a state of the direct construction -/

structure Agree (t : Tmpl) (s : SeqState) : Prop where
  nQ : s.nQ = t.pre.nQ
  dev : s.dev = t.pre.dev
  inXY : s.inXY = t.pre.inXY
  sig : ∀ m, sigOf s m = sigOf t.pre m
  mode : ∀ m, modeOf s m = none ∨ modeOf s m = some (inEomT t m)
  meas : s.measured.isSome = t.paramMeas.isSome
  bases : s.refs.map (·.1) = t.pre.refs.map (·.1)

theorem Agree.chan {t : Tmpl} {s : SeqState} (ha : Agree t s) {n : ChName} {c : ChanState}
    (hc : s.getChan n = some c) :
    ∃ c0, t.pre.getChan n = some c0 ∧ sigX c = sigX c0 ∧ inEomT t n = c.inEomMode := by
  have hs := ha.sig n
  unfold sigOf at hs
  rw [hc] at hs
  cases h0 : t.pre.getChan n with
  | none => rw [h0] at hs; simp at hs
  | some c0 =>
    rw [h0] at hs
    simp only [Option.map_some, Option.some.injEq] at hs
    refine ⟨c0, rfl, hs, ?_⟩
    have hm := ha.mode n
    unfold modeOf at hm
    rw [hc] at hm
    simp only [Option.map_some] at hm
    rcases hm with hm | hm
    · cases hm
    · injection hm with hm; exact hm.symm

theorem Agree.unmeasured {t : Tmpl} {s : SeqState} (ha : Agree t s) (h : s.measured = none) :
    t.paramMeas.isSome = false := by
  rw [← ha.meas, h]; rfl

theorem sigX_cfg {c c0 : ChanState} (h : sigX c = sigX c0) : c.cfg = c0.cfg := by
  unfold sigX at h; simp only [Prod.mk.injEq] at h; exact h.2.1

theorem getRefs_isSome (s : SeqState) (b : Basis) :
    (s.getRefs b).isSome = (s.refs.map (·.1)).any (· == b) := by
  unfold SeqState.getRefs
  induction s.refs with
  | nil => rfl
  | cons x rest ih =>
    simp only [List.find?_cons, List.map_cons, List.any_cons]
    cases hx : (x.1 == b) with
    | true => simp
    | false => simpa using ih

theorem Agree.basis {t : Tmpl} {s : SeqState} (ha : Agree t s) (b : Basis) :
    (t.pre.getRefs b).isSome = (s.getRefs b).isSome := by
  rw [getRefs_isSome, getRefs_isSome, ha.bases]

theorem Agree.measBasis {t : Tmpl} {s : SeqState} (ha : Agree t s) (b : Basis) :
    measBasisOk t.pre b = measBasisOk s b := by
  unfold measBasisOk
  rw [ha.inXY, ha.dev]

/-- The evaluated indices of an array target are pairwise distinct (otherwise the size of the
variable overestimates the number of targets: see `C08.store_rejects_what_direct_accepts`). -/
def targetsDistinct (I : Interp) (ρ : Assign) : POp → Prop
  | .target (.arr es) _ => ∀ l, evalList I ρ es = some l → (normTargets l).length = es.length
  | _ => True

theorem normTargets_nil_iff (l : List Nat) : (normTargets l).isEmpty = l.isEmpty := by
  cases l with
  | nil => rfl
  | cons x rest =>
    simp only [normTargets, List.foldr_cons, List.isEmpty_cons]
    generalize List.foldr insertU [] rest = r
    cases r with
    | nil => rfl
    | cons y ys =>
      unfold insertU
      split
      · rfl
      · split <;> rfl

theorem mem_insertU (x y : Nat) (l : List Nat) : x ∈ insertU y l ↔ x = y ∨ x ∈ l := by
  induction l with
  | nil => simp [insertU]
  | cons z rest ih =>
    unfold insertU
    split
    · simp
    · split
      · rename_i h1 h2; subst h2; simp
      · simp only [List.mem_cons, ih]
        constructor
        · rintro (h | h | h)
          · exact Or.inr (Or.inl h)
          · exact Or.inl h
          · exact Or.inr (Or.inr h)
        · rintro (h | h | h)
          · exact Or.inr (Or.inl h)
          · exact Or.inl h
          · exact Or.inr (Or.inr h)

theorem mem_normTargets {x : Nat} {l : List Nat} (h : x ∈ l) : x ∈ normTargets l := by
  unfold normTargets
  induction l with
  | nil => cases h
  | cons y rest ih =>
    simp only [List.foldr_cons, mem_insertU]
    rcases List.mem_cons.mp h with e | e
    · exact Or.inl e
    · exact Or.inr (ih e)

theorem evalNats_mem {I : Interp} {ρ : Assign} {qs : List (Arg Nat)} {l : List Nat} {i : Nat}
    (h : evalNats I ρ qs = some l) (hm : Arg.conc i ∈ qs) : i ∈ l := by
  induction qs generalizing l with
  | nil => cases hm
  | cons a0 rest ih =>
    simp only [evalNats] at h
    cases h1 : evalNat I ρ a0 with
    | none => rw [h1] at h; simp at h
    | some v =>
      cases h2 : evalNats I ρ rest with
      | none => rw [h1, h2] at h; simp at h
      | some vs =>
        rw [h1, h2] at h
        simp only [Option.some.injEq] at h
        subst h
        rcases List.mem_cons.mp hm with e | e
        · subst e
          simp only [evalNat, Option.some.injEq] at h1
          subst h1; exact List.mem_cons_self
        · exact List.mem_cons_of_mem _ (ih h2 e)

/-- **Store-time checks are implied by the build-time checks**: when the template's
bookkeeping agrees with the state of the direct construction and the evaluated call succeeds
there, every check the call goes through when it is STORED passes. -/
theorem store_accepts_of_direct (I : Interp) (ρ : Assign) {t : Tmpl} {s : SeqState} {p : POp} {op : Op}
    (ha : Agree t s) (hev : evalOp I ρ p = some op) (hok : (stepRaw s op).err = none)
    (hnd : targetsDistinct I ρ p) : storeCheck t p = none := by
  cases p with
  | target qs n =>
    simp only [evalOp, Option.map_eq_some_iff] at hev
    obtain ⟨l, hl, rfl⟩ := hev
    obtain ⟨hm, c, hc, hmode, hne, hloc, hmax, hq⟩ := target_guards hok
    obtain ⟨c0, hc0, hsig, hin⟩ := ha.chan hc
    have hcfg := sigX_cfg hsig
    unfold storeCheck
    simp only [ha.unmeasured hm, Bool.false_eq_true, if_false, hc0, hin, hmode]
    cases qs with
    | conc l' =>
      simp only [evalTArg, Option.some.injEq] at hl
      subst hl
      have hlen : ¬ l'.length = 0 := by
        cases l' with
        | nil => simp at hne
        | cons _ _ => simp
      simp only [hlen, if_false, ← hcfg, hloc, hmax, Bool.not_true, Bool.false_eq_true, ← ha.nQ, hq]
    | arr es =>
      simp only [evalTArg, Option.map_eq_some_iff] at hl
      obtain ⟨vals, hv, rfl⟩ := hl
      have hd := hnd vals hv
      have hlen : ¬ es.length = 0 := by
        rw [← hd]
        cases hh : normTargets vals with
        | nil => rw [hh] at hne; simp at hne
        | cons _ _ => simp
      have hmax' : overNat c.cfg.maxTargets es.length = false := by rw [← hd]; exact hmax
      simp only [hlen, if_false, ← hcfg, hloc, hmax', Bool.not_true, Bool.false_eq_true]
  | add pp n proto =>
    simp only [evalOp, Option.map_eq_some_iff] at hev
    obtain ⟨pi, hpi, rfl⟩ := hev
    obtain ⟨hm, hpr, c, hc, hmode, hdmm, r, pr, hva⟩ := add_guards hok
    obtain ⟨c0, hc0, hsig, hin⟩ := ha.chan hc
    have hcfg := sigX_cfg hsig
    unfold storeCheck
    simp only [ha.unmeasured hm, Bool.false_eq_true, if_false, hc0, hin, hmode, ← hcfg, hdmm]
    cases proto with
    | none => simp at hpr
    | some pr0 =>
      simp only
      cases pp with
      | param mk args => rfl
      | conc pi' =>
        simp only [evalPulse, Option.some.injEq] at hpi
        subst hpi
        obtain ⟨pr', hpr'⟩ := validateAndAdjust_sig hsig hva none
        simp only [hpr']
  | addDmm pp n proto =>
    simp only [evalOp, Option.map_eq_some_iff] at hev
    obtain ⟨pi, hpi, rfl⟩ := hev
    obtain ⟨hm, hpr, c, hc, hdmm, r, pr, hva⟩ := addDmm_guards hok
    obtain ⟨c0, hc0, hsig, hin⟩ := ha.chan hc
    have hcfg := sigX_cfg hsig
    unfold storeCheck
    simp only [ha.unmeasured hm, Bool.false_eq_true, if_false, hc0, ← hcfg, hdmm, Bool.not_true]
    cases proto with
    | none => simp at hpr
    | some pr0 =>
      simp only
      cases pp with
      | param mk args => rfl
      | conc pi' =>
        simp only [evalPulse, Option.some.injEq] at hpi
        subst hpi
        obtain ⟨pr', hpr'⟩ := validateAndAdjust_sig hsig hva none
        simp only [hpr']
  | addEom n dur phase post proto corr fall ref =>
    simp only [evalOp] at hev
    cases hd : evalNat I ρ dur with
    | none => rw [hd] at hev; simp at hev
    | some d =>
      cases hph : evalRat I ρ phase with
      | none => rw [hd, hph] at hev; simp at hev
      | some ph =>
        cases hpo : evalRat I ρ post with
        | none => rw [hd, hph, hpo] at hev; simp at hev
        | some po =>
          rw [hd, hph, hpo] at hev
          simp only [Option.some.injEq] at hev
          subst hev
          obtain ⟨hm, hpr, c, hc, hmode, dd, hvd⟩ := addEom_guards hok
          obtain ⟨c0, hc0, hsig, hin⟩ := ha.chan hc
          have hcfg := sigX_cfg hsig
          unfold storeCheck
          simp only [ha.unmeasured hm, Bool.false_eq_true, if_false, hc0, hin, hmode, Bool.not_true]
          cases proto with
          | none => simp at hpr
          | some pr0 =>
            simp only
            cases dur with
            | param e => rfl
            | conc d' =>
              simp only [evalNat, Option.some.injEq] at hd
              subst hd
              simp only [← hcfg, hvd]
  | delay d n atRest =>
    simp only [evalOp, Option.map_eq_some_iff] at hev
    obtain ⟨dv, _, rfl⟩ := hev
    obtain ⟨hm, c, hc⟩ := delay_guards hok
    obtain ⟨c0, hc0, _, _⟩ := ha.chan hc
    unfold storeCheck
    simp only [ha.unmeasured hm, Bool.false_eq_true, if_false, hc0]
  | align chs atRest =>
    simp only [evalOp, Option.some.injEq] at hev
    subst hev
    obtain ⟨hm, hall, hdup, hlen⟩ := align_guards hok
    have hall' : chs.any (fun n => (t.pre.getChan n).isNone) = false := by
      rw [List.any_eq_false] at hall ⊢
      intro n hn
      have := hall n hn
      cases hc : s.getChan n with
      | none => rw [hc] at this; simp at this
      | some c =>
        obtain ⟨c0, hc0, _, _⟩ := ha.chan hc
        rw [hc0]; simp
    unfold storeCheck
    simp only [ha.unmeasured hm, Bool.false_eq_true, if_false, hall', hdup, ne_eq, not_true_eq_false, hlen]
  | phaseShift phi qs b =>
    simp only [evalOp] at hev
    cases hphi : evalRat I ρ phi with
    | none => rw [hphi] at hev; simp at hev
    | some x =>
      cases hqs : evalNats I ρ qs with
      | none => rw [hphi, hqs] at hev; simp at hev
      | some l =>
        rw [hphi, hqs] at hev
        simp only [Option.some.injEq] at hev
        subst hev
        obtain ⟨hb, hq⟩ := phaseShift_guards hok
        unfold storeCheck
        simp only [Option.isNone_iff_eq_none]
        have hbn : ¬ (t.pre.getRefs b = none) := by
          intro h0
          have := ha.basis b
          rw [h0, hb] at this
          simp at this
        simp only [hbn, if_false]
        have hbad : concIdxBad t.pre.nQ qs = false := by
          unfold concIdxBad
          rw [List.any_eq_false]
          intro a hamem
          cases a with
          | param e => simp
          | conc i =>
            have hmem : i ∈ normTargets l := mem_normTargets (evalNats_mem hqs hamem)
            have hne : (normTargets l).isEmpty = false := by
              cases hh : normTargets l with
              | nil => rw [hh] at hmem; cases hmem
              | cons _ _ => rfl
            have := hq hne
            rw [List.any_eq_false] at this
            have hi := this i hmem
            simp only [ge_iff_le, decide_eq_true_eq] at hi ⊢
            rw [← ha.nQ]; exact hi
        simp only [hbad, Bool.false_eq_true, if_false]
  | enableEom n e =>
    simp only [evalOp, Option.map_eq_some_iff] at hev
    obtain ⟨ei, hei, rfl⟩ := hev
    obtain ⟨_, _, _, hold, hm, c, hc, heom, d, hpp⟩ := enableEom_step hok
    obtain ⟨c0, hc0, hsig, hin⟩ := ha.chan hc
    have hcfg := sigX_cfg hsig
    have hmode : c.inEomMode = false := by
      unfold modeOf at hold; rw [hc] at hold; simpa using hold
    have heom0 : c0.cfg.eom.isNone = false := by
      rw [← hcfg]; cases hh : c.cfg.eom with
      | none => rw [hh] at heom; simp at heom
      | some x => rfl
    unfold storeCheck
    simp only [ha.unmeasured hm, Bool.false_eq_true, if_false, hc0, hin, hmode, heom0]
    cases e with
    | param mk a dd o corr => rfl
    | conc e' =>
      simp only [evalEom, Option.some.injEq] at hei
      subst hei
      simp only [← processEomParams_sig hsig, hpp]
  | modifyEom n e =>
    simp only [evalOp, Option.map_eq_some_iff] at hev
    obtain ⟨ei, hei, rfl⟩ := hev
    obtain ⟨_, _, _, hold, hm, c, hc, d, hpp⟩ := modifyEom_step hok
    obtain ⟨c0, hc0, hsig, hin⟩ := ha.chan hc
    have hmode : c.inEomMode = true := by
      unfold modeOf at hold; rw [hc] at hold; simpa using hold
    unfold storeCheck
    simp only [ha.unmeasured hm, Bool.false_eq_true, if_false, hc0, hin, hmode, Bool.not_true]
    cases e with
    | param mk a dd o corr => rfl
    | conc e' =>
      simp only [evalEom, Option.some.injEq] at hei
      subst hei
      simp only [← processEomParams_sig hsig, hpp]
  | disableEom n corr =>
    simp only [evalOp, Option.some.injEq] at hev
    subst hev
    obtain ⟨_, _, _, hold, hm⟩ := disableEom_step hok
    cases hc : s.getChan n with
    | none => unfold modeOf at hold; rw [hc] at hold; simp at hold
    | some c =>
      obtain ⟨c0, hc0, hsig, hin⟩ := ha.chan hc
      have hmode : c.inEomMode = true := by
        unfold modeOf at hold; rw [hc] at hold; simpa using hold
      unfold storeCheck
      simp only [ha.unmeasured hm, Bool.false_eq_true, if_false, hc0, hin, hmode, Bool.not_true]
  | measure b =>
    simp only [evalOp, Option.some.injEq] at hev
    subst hev
    obtain ⟨_, hm, hbok⟩ := measure_step hok
    unfold storeCheck
    simp only [ha.unmeasured hm, Bool.false_eq_true, if_false, ha.measBasis b, hbok, Bool.not_true]

/-! ### Storing keeps the agreement -/

/-- What `tstep` does to the template when a call is accepted while parametrized. -/
def storeT (t : Tmpl) (p : POp) : Tmpl :=
  { t with stored := t.stored ++ [storedForm t p],
           paramMeas := match p with | .measure b => some b | _ => t.paramMeas }

theorem eomMarkP_storedForm (t : Tmpl) (p : POp) (m : ChName) :
    eomMarkP m (storedForm t p) = eomMarkP m p := by
  unfold storedForm
  repeat' split
  all_goals rfl

theorem inEomT_store (t : Tmpl) (p : POp) (m : ChName) :
    inEomT (storeT t p) m = (eomMarkP m p).getD (inEomT t m) := by
  unfold inEomT storeT
  simp only [List.reverse_append, List.reverse_cons, List.reverse_nil, List.nil_append, List.cons_append,
    List.findSome?_cons, eomMarkP_storedForm]
  cases eomMarkP m p <;> rfl

theorem agree_of_same {t : Tmpl} {s s' : SeqState} {p : POp} (ha : Agree t s) (hs : Same s s')
    (hmark : ∀ m, eomMarkP m p = none) (hmeas : ∀ b, p ≠ .measure b) : Agree (storeT t p) s' := by
  refine ⟨hs.nQ.trans ha.nQ, hs.dev.trans ha.dev, hs.inXY.trans ha.inXY, ?_, ?_, ?_, hs.bases.trans ha.bases⟩
  · intro m; rw [hs.toX.sigOf m]; exact ha.sig m
  · intro m
    rw [hs.modeOf m, inEomT_store, hmark m]
    exact ha.mode m
  · rw [hs.measured, ha.meas]
    unfold storeT
    cases p <;> first | rfl | exact absurd rfl (hmeas _)

theorem agree_of_eom {t : Tmpl} {s s' : SeqState} {p : POp} {n : ChName} {b : Bool} (ha : Agree t s)
    (hs : SameX s s')
    (hm : ∀ m, modeOf s' m = if m = n then (modeOf s m).map (fun _ => b) else modeOf s m)
    (hmark : ∀ m, eomMarkP m p = if n = m then some b else none) (hmeas : ∀ b, p ≠ .measure b) :
    Agree (storeT t p) s' := by
  refine ⟨hs.nQ.trans ha.nQ, hs.dev.trans ha.dev, hs.inXY.trans ha.inXY, ?_, ?_, ?_, hs.bases.trans ha.bases⟩
  · intro m; rw [hs.sigOf m]; exact ha.sig m
  · intro m
    rw [hm m, inEomT_store, hmark m]
    by_cases hmn : m = n
    · subst hmn
      simp only [if_true, Option.getD_some]
      cases modeOf s m with
      | none => left; rfl
      | some x => right; rfl
    · rw [if_neg hmn, if_neg (fun h => hmn h.symm)]
      exact ha.mode m
  · rw [hs.measured, ha.meas]
    unfold storeT
    cases p <;> first | rfl | exact absurd rfl (hmeas _)

/-- **The agreement survives every successful stored call.** -/
theorem agree_step (I : Interp) (ρ : Assign) {t : Tmpl} {s : SeqState} {p : POp} {op : Op}
    (ha : Agree t s) (hev : evalOp I ρ p = some op) (hok : (stepRaw s op).err = none) :
    Agree (storeT t p) (stepRaw s op).st := by
  cases p with
  | target qs n =>
    simp only [evalOp, Option.map_eq_some_iff] at hev
    obtain ⟨l, _, rfl⟩ := hev
    exact agree_of_same ha (stepRaw_same rfl) (fun m => rfl) (fun b h => by cases h)
  | add pp n proto =>
    simp only [evalOp, Option.map_eq_some_iff] at hev
    obtain ⟨l, _, rfl⟩ := hev
    exact agree_of_same ha (stepRaw_same rfl) (fun m => rfl) (fun b h => by cases h)
  | addDmm pp n proto =>
    simp only [evalOp, Option.map_eq_some_iff] at hev
    obtain ⟨l, _, rfl⟩ := hev
    exact agree_of_same ha (stepRaw_same rfl) (fun m => rfl) (fun b h => by cases h)
  | addEom n dur phase post proto corr fall ref =>
    simp only [evalOp] at hev
    cases hd : evalNat I ρ dur with
    | none => rw [hd] at hev; simp at hev
    | some d =>
      cases hph : evalRat I ρ phase with
      | none => rw [hd, hph] at hev; simp at hev
      | some ph =>
        cases hpo : evalRat I ρ post with
        | none => rw [hd, hph, hpo] at hev; simp at hev
        | some po =>
          rw [hd, hph, hpo] at hev
          simp only [Option.some.injEq] at hev
          subst hev
          exact agree_of_same ha (stepRaw_same rfl) (fun m => rfl) (fun b h => by cases h)
  | delay d n atRest =>
    simp only [evalOp, Option.map_eq_some_iff] at hev
    obtain ⟨l, _, rfl⟩ := hev
    exact agree_of_same ha (stepRaw_same rfl) (fun m => rfl) (fun b h => by cases h)
  | align chs atRest =>
    simp only [evalOp, Option.some.injEq] at hev
    subst hev
    exact agree_of_same ha (stepRaw_same rfl) (fun m => rfl) (fun b h => by cases h)
  | phaseShift phi qs b =>
    simp only [evalOp] at hev
    cases hphi : evalRat I ρ phi with
    | none => rw [hphi] at hev; simp at hev
    | some x =>
      cases hqs : evalNats I ρ qs with
      | none => rw [hphi, hqs] at hev; simp at hev
      | some l =>
        rw [hphi, hqs] at hev
        simp only [Option.some.injEq] at hev
        subst hev
        exact agree_of_same ha (stepRaw_same rfl) (fun m => rfl) (fun b h => by cases h)
  | enableEom n e =>
    simp only [evalOp, Option.map_eq_some_iff] at hev
    obtain ⟨ei, _, rfl⟩ := hev
    obtain ⟨hx, hm, _⟩ := enableEom_step hok
    exact agree_of_eom ha hx hm (fun m => rfl) (fun b h => by cases h)
  | modifyEom n e =>
    simp only [evalOp, Option.map_eq_some_iff] at hev
    obtain ⟨ei, _, rfl⟩ := hev
    obtain ⟨hx, hm, _, hold, _⟩ := modifyEom_step hok
    -- the mode of `n` was already "on": nothing changes in the template's view
    refine ⟨hx.nQ.trans ha.nQ, hx.dev.trans ha.dev, hx.inXY.trans ha.inXY, ?_, ?_, ?_, hx.bases.trans ha.bases⟩
    · intro m; rw [hx.sigOf m]; exact ha.sig m
    · intro m
      rw [hm m, inEomT_store]
      have hmk : eomMarkP m (POp.modifyEom n e) = none := rfl
      rw [hmk]
      by_cases hmn : m = n
      · subst hmn
        rw [if_pos rfl, hold]
        right
        rcases ha.mode m with h | h
        · rw [hold] at h; cases h
        · rw [hold] at h; injection h with h; simp [← h]
      · rw [if_neg hmn]; exact ha.mode m
    · rw [hx.measured, ha.meas]; rfl
  | disableEom n corr =>
    simp only [evalOp, Option.some.injEq] at hev
    subst hev
    obtain ⟨hx, hm, _⟩ := disableEom_step hok
    exact agree_of_eom ha hx hm (fun m => rfl) (fun b h => by cases h)
  | measure b =>
    simp only [evalOp, Option.some.injEq] at hev
    subst hev
    obtain ⟨h1, _, _⟩ := measure_step hok
    rw [h1]
    refine ⟨ha.nQ, ha.dev, ha.inXY, ?_, ?_, rfl, ha.bases⟩
    · intro m; exact ha.sig m
    · intro m
      rw [inEomT_store]
      exact ha.mode m

/-- Every stored call of the list passes its store-time checks, one after the other. -/
def acceptsAll (t : Tmpl) : List POp → Bool
  | [] => true
  | p :: rest => (storeCheck t p).isNone && acceptsAll (storeT t p) rest

theorem acceptsAll_of_direct (I : Interp) (ρ : Assign) {t : Tmpl} {s s' : SeqState} {k : Nat}
    {stored : List POp} {ops : List Op} (ha : Agree t s) (hev : evalOps I ρ stored = some ops)
    (hrun : runAllFrom k s ops = .ok s') (hnd : ∀ p ∈ stored, targetsDistinct I ρ p) :
    acceptsAll t stored = true := by
  induction stored generalizing t s k ops with
  | nil => rfl
  | cons p rest ih =>
    simp only [evalOps] at hev
    cases h1 : evalOp I ρ p with
    | none => rw [h1] at hev; simp at hev
    | some op =>
      cases h2 : evalOps I ρ rest with
      | none => rw [h1, h2] at hev; simp at hev
      | some os =>
        rw [h1, h2] at hev
        simp only [Option.some.injEq] at hev
        subst hev
        unfold runAllFrom at hrun
        cases he : (stepRaw s op).err with
        | some e => rw [he] at hrun; cases hrun
        | none =>
          rw [he] at hrun
          have hacc := store_accepts_of_direct I ρ ha h1 he (hnd p List.mem_cons_self)
          unfold acceptsAll
          rw [hacc]
          simp only [Option.isNone_none, Bool.true_and]
          exact ih (agree_step I ρ ha h1 he) h2 hrun (fun q hq => hnd q (List.mem_cons_of_mem _ hq))

/-- A freshly parametrized template agrees with its own concrete prefix. -/
theorem agree_init {pre : SeqState} (vars : List (Nat × Nat)) (hi : PreInv pre) (hm : pre.measured = none) :
    Agree { pre := pre, stored := [], vars := vars, param := true, paramMeas := none } pre := by
  refine ⟨rfl, rfl, rfl, fun m => rfl, ?_, by rw [hm], rfl⟩
  intro m
  rcases hi m with ⟨h1, _⟩ | h1
  · left; exact h1
  · right
    rw [h1]
    unfold inEomT markOf
    simp only [List.reverse_nil, List.findSome?_nil]
    cases pre.calls.reverse.findSome? (eomMark m) <;> rfl

/-- `tstep` on a parametrized template stores exactly what `storeT` says when the checks pass. -/
theorem tstep_accepts {t : Tmpl} {p : POp} (hp : t.param = true) (hv : varsDeclared t p = true)
    (hc : storeCheck t p = none) : tstep t p = (storeT t p, none) := by
  have ht : (if p.isParam = true then ({ t with param := true } : Tmpl) else t) = t := by
    split
    · cases t; simp_all
    · rfl
  unfold tstep
  simp only [ht, hv, Bool.not_true, Bool.and_false, Bool.false_eq_true, if_false, hp, hc]
  unfold storeT
  cases p <;> simp [hp]

end Param
end Pulser
