/-
  Proofs.AddSpec — what a successful `add` does, at the level of the API call: the slot computed
  by `make_next_pulse_slot` on the pre-state is the last instruction of the channel afterwards.
-/
import Proofs.ConflictSeq
import Proofs.Align
namespace Pulser

theorem phaseShift_chans (s : SeqState) (phi : Rat) (qs : List Nat) (b : Basis) :
    (s.phaseShift phi qs b).st.chans = s.chans := by
  unfold SeqState.phaseShift
  split
  · rfl
  · generalize (if qs.isEmpty then s.allQubits else qs) = qs'
    simp only
    split
    · rfl
    · exact (mapRefs_chans s b qs' (·.incrementPhase phi)).1

theorem getChan_of_chans {s s' : SeqState} (h : s'.chans = s.chans) (n : ChName) :
    s'.getChan n = s.getChan n := by
  unfold SeqState.getChan; rw [h]

theorem store_ok {op : Op} {r : Raw} (h : (store op r).err = none) :
    r.err = none ∧ (store op r).st.chans = r.st.chans := by
  unfold store at h ⊢
  cases hr : r.err with
  | none => simp
  | some e => simp [hr] at h

theorem markNonEmpty_ok {r : Raw} (h : (markNonEmpty r).err = none) :
    r.err = none ∧ (markNonEmpty r).st.chans = r.st.chans := by
  unfold markNonEmpty at h ⊢
  cases hr : r.err with
  | none => simp
  | some e => simp [hr] at h

/-- The last instruction after a successful `add_pulse` is the slot of `make_next_pulse_slot`. -/
theorem addPulse_last {ms : Option Nat} {c c' : ChanState} {others : List ChanState}
    {p : PulseRec} {barriers : List Int} {proto : Protocol} {drift : Option Drift}
    (h : addPulse ms c others p barriers proto drift = .ok c') :
    ∃ slot, makeNextPulseSlot ms c others p barriers proto drift true = .ok slot ∧
      c'.last = .ok slot := by
  unfold addPulse at h
  cases hl : c.last with
  | error e => simp [hl, bind, Except.bind] at h
  | ok last =>
    cases hm : makeNextPulseSlot ms c others p barriers proto drift true with
    | error e => simp [hl, hm, bind, Except.bind] at h
    | ok slot =>
      simp only [hl, hm, bind, Except.bind] at h
      refine ⟨slot, rfl, ?_⟩
      split at h
      · cases had : addDelay ms c (slot.ti - last.tf).toNat with
        | error e => simp [had] at h
        | ok c1 =>
          simp only [had] at h
          injection h with h; subst h
          unfold ChanState.last; simp
      · simp only [pure, Except.pure] at h
        injection h with h; subst h
        unfold ChanState.last; simp

/-- A successful `_add`: the channel's new last instruction is the slot computed on the pre-state. -/
theorem addCore_ok_spec {s : SeqState} (hi : SeqInv s) {p : PulseIn} {n : ChName} {proto : Protocol}
    {drift : Option Drift} (h : (addCore s p n (some proto) drift).err = none) :
    ∃ (c c' : ChanState) (last slot : Slot) (pr : PulseRec) (ref : Option Rat),
      s.getChan n = some c ∧ c.last = .ok last ∧
      ref = (if c.cfg.isDmm = true then none else (s.lastPhases c.cfg.basis last.targets).head?) ∧
      validateAndAdjust c p ref = .ok pr ∧
      makeNextPulseSlot s.dev.maxSeqDur c (s.others n) pr (s.lastTimes c.cfg.basis last.targets)
        proto drift true = .ok slot ∧
      (addCore s p n (some proto) drift).st.getChan n = some c' ∧ c'.last = .ok slot := by
  unfold addCore at h ⊢
  simp only at h ⊢
  cases hc : s.getChan n with
  | none => simp [hc, fail] at h
  | some c =>
    simp only [hc] at h ⊢
    have hcm := getChan_mem hc
    cases hl : c.last with
    | error e => simp [hl, fail] at h
    | ok last =>
      simp only [hl] at h ⊢
      split at h
      · simp [fail] at h
      · rename_i hsame
        rw [if_neg hsame]
        generalize hpe : (if c.cfg.isDmm = true then none else
          (s.lastPhases c.cfg.basis last.targets).head?) = phaseRef at h ⊢
        cases hpr : validateAndAdjust c p phaseRef with
        | error e => simp [hpr, fail] at h
        | ok pr =>
          simp only [hpr] at h ⊢
          cases hadd : addPulse s.dev.maxSeqDur c (s.others n) pr
              (s.lastTimes c.cfg.basis last.targets) proto drift with
          | error e => simp [hadd, fail] at h
          | ok c' =>
            simp only [hadd] at h ⊢
            obtain ⟨slot, hm, hl'⟩ := addPulse_last hadd
            have hva := validateAndAdjust_ok (hi c hcm.1).1 hpr
            have hg := addPulse_inv (hi c hcm.1) hva.1 hva.2.1 hadd
            have hname : c'.name = n := by rw [hg.2.2.1]; exact hcm.2
            have hget : (s.setChan c').getChan n = some c' := getChan_setChan_same hc hname
            refine ⟨c, c', last, slot, pr, phaseRef, rfl, hl, hpe.symm, hpr, hm, ?_, hl'⟩
            simp only [hl']
            have hm2 := mapRefs_chans (s.setChan c') c.cfg.basis last.targets
              (·.updateLastUsed slot.tf)
            split
            · rw [getChan_of_chans ((phaseShift_chans _ _ _ _).trans hm2.1)]; exact hget
            · show (SeqState.mapRefs _ _ _ _).getChan n = _
              rw [getChan_of_chans hm2.1]; exact hget

end Pulser
