/-
  Proofs.Timeline — the timeline invariant of one channel and its preservation
  by every scheduler primitive (C02), plus the "append-only" relation.
-/
import PulserModel.Schedule
import Proofs.Duration
namespace Pulser

/-- Declarative "inside every limit of the channel" (C01); `maxW`/`sumW` are the
maximum and the sum of the detuning-map weights of a DMM. -/
def WithinLimits (cfg : ChanCfg) (maxW sumW : Rat) (σ : PulseSummary) : Prop :=
  σ.finite = true ∧
  (∀ m, cfg.maxAmp = some m → σ.maxAmp ≤ m) ∧
  (∀ m, cfg.maxAbsDet = some m → σ.maxAbsDetR ≤ m) ∧
  ¬ (0 < σ.avgAmp ∧ σ.avgAmp < cfg.minAvgAmp) ∧
  (cfg.isDmm = true → σ.maxDetR ≤ 0 ∧ (∀ b, cfg.bottom = some b → b ≤ maxW * σ.minDetR) ∧
    (∀ b, cfg.totalBottom = some b → b ≤ sumW * σ.minDetR))

/-- Limits of a scheduled pulse: user pulses (`ref ≠ 0`) are within the channel limits,
every pulse respects the maximum duration. -/
def PulseLim (cfg : ChanCfg) (maxW sumW : Rat) (p : PulseRec) : Prop :=
  (p.ref ≠ 0 → WithinLimits cfg maxW sumW p.sum) ∧ (∀ m, cfg.maxDur = some m → p.dur ≤ m)

/-- Static context of a channel that the invariants refer to. -/
structure Ctx where
  ms : Option Nat      -- device.max_sequence_duration
  cfg : ChanCfg
  maxW : Rat
  sumW : Rat

def ChanState.ctx (c : ChanState) (ms : Option Nat) : Ctx := ⟨ms, c.cfg, c.maxW, c.sumW⟩

@[simp] theorem ChanState.ctx_cfg (c : ChanState) (ms : Option Nat) : (c.ctx ms).cfg = c.cfg := rfl
@[simp] theorem ChanState.ctx_ms (c : ChanState) (ms : Option Nat) : (c.ctx ms).ms = ms := rfl
@[simp] theorem ChanState.ctx_maxW (c : ChanState) (ms : Option Nat) : (c.ctx ms).maxW = c.maxW := rfl
@[simp] theorem ChanState.ctx_sumW (c : ChanState) (ms : Option Nat) : (c.ctx ms).sumW = c.sumW := rfl

/-- How a slot must relate to the slot before it. -/
def SlotOk (x : Ctx) (prev s : Slot) : Prop :=
  s.ti = prev.tf ∧ s.ti ≤ s.tf ∧ (x.cfg.clock : Int) ∣ s.tf ∧ (∀ m, x.ms = some m → s.tf ≤ (m : Int)) ∧
  match s.kind with
  | .pulse p => s.tf = s.ti + p.dur ∧ x.cfg.minDur ≤ p.dur ∧ s.targets = prev.targets ∧
      PulseLim x.cfg x.maxW x.sumW p
  | .delay => (x.cfg.minDur : Int) ≤ s.tf - s.ti ∧ s.targets = prev.targets
  | .target => s.tf = s.ti ∨ (x.cfg.minDur : Int) ≤ s.tf - s.ti

def InitSlot (s : Slot) : Prop := s.kind = .target ∧ s.ti = -1 ∧ s.tf = 0

/-- Timeline invariant, stated on the *reversed* slot list (head = latest slot). -/
def InvR (x : Ctx) : List Slot → Prop
  | [] => True
  | [s] => InitSlot s
  | s :: prev :: rest => SlotOk x prev s ∧ InvR x (prev :: rest)

def ChanInv (ms : Option Nat) (c : ChanState) : Prop :=
  0 < c.cfg.clock ∧ InvR (c.ctx ms) c.slots.reverse

/-- `c'` extends `c`: same channel, and the old instructions are a prefix of the new. -/
def Ext (c c' : ChanState) : Prop :=
  c'.cfg = c.cfg ∧ c'.name = c.name ∧ c.slots <+: c'.slots ∧ c'.maxW = c.maxW ∧ c'.sumW = c.sumW

theorem Ext.refl (c : ChanState) : Ext c c := ⟨rfl, rfl, List.prefix_refl _, rfl, rfl⟩

theorem Ext.trans {a b c : ChanState} (h1 : Ext a b) (h2 : Ext b c) : Ext a c :=
  ⟨h2.1.trans h1.1, h2.2.1.trans h1.2.1, h1.2.2.1.trans h2.2.2.1, h2.2.2.2.1.trans h1.2.2.2.1,
   h2.2.2.2.2.trans h1.2.2.2.2⟩

theorem Ext.ctx {c c' : ChanState} (h : Ext c c') (ms : Option Nat) : c'.ctx ms = c.ctx ms := by
  unfold ChanState.ctx; rw [h.1, h.2.2.2.1, h.2.2.2.2]

theorem InvR_head {x : Ctx} {s : Slot} {rest : List Slot} (h : InvR x (s :: rest)) :
    (x.cfg.clock : Int) ∣ s.tf ∧ 0 ≤ s.tf := by
  induction rest generalizing s with
  | nil => obtain ⟨_, _, h3⟩ := h; rw [h3]; exact ⟨Int.dvd_zero _, Int.le_refl _⟩
  | cons p rest ih =>
    obtain ⟨⟨h1, h2, h3, _⟩, h5⟩ := h
    have := (ih h5).2
    exact ⟨h3, by omega⟩

theorem last_ok {c : ChanState} {s : Slot} (h : c.last = .ok s) :
    ∃ rest, c.slots.reverse = s :: rest := by
  unfold ChanState.last at h
  cases hl : c.slots.getLast? with
  | none => rw [hl] at h; cases h
  | some x =>
    rw [hl] at h; injection h with h; subst h
    rw [List.getLast?_eq_head?_reverse] at hl
    cases hr : c.slots.reverse with
    | nil => rw [hr] at hl; cases hl
    | cons a l => rw [hr] at hl; injection hl with hl; subst hl; exact ⟨l, rfl⟩

/-- Appending a slot that is `SlotOk` w.r.t. the current last slot keeps the invariant. -/
theorem ChanInv_snoc {ms : Option Nat} {c : ChanState} {last x : Slot} (hi : ChanInv ms c)
    (hl : c.last = .ok last)
    (hx : SlotOk (c.ctx ms) last x) : ChanInv ms { c with slots := c.slots ++ [x] } := by
  obtain ⟨rest, hr⟩ := last_ok hl
  refine ⟨hi.1, ?_⟩
  show InvR (c.ctx ms) (c.slots ++ [x]).reverse
  rw [List.reverse_append, hr]
  exact ⟨hx, by have := hi.2; rwa [hr] at this⟩

theorem Ext_snoc (c : ChanState) (x : Slot) : Ext c { c with slots := c.slots ++ [x] } :=
  ⟨rfl, rfl, List.prefix_append _ _, rfl, rfl⟩

theorem checkDuration_bound {ms : Option Nat} {t : Int} {u : Unit} (h : checkDuration ms t = .ok u) :
    ∀ m, ms = some m → t ≤ (m : Int) := by
  intro m hm
  subst hm
  unfold checkDuration at h
  by_cases h1 : t > (m : Int)
  · simp [h1] at h
  · omega

end Pulser

namespace Pulser

theorem mkDetunedDelay_ok {c : ChanState} {d : Nat} {x y : Rat} {p : PulseRec}
    (h : mkDetunedDelay c d x y = .ok p) : p.dur = d := by
  unfold mkDetunedDelay at h
  cases hl : c.lookupDD x d with
  | none => rw [hl] at h; cases h
  | some v => rw [hl] at h; obtain ⟨a, b⟩ := v; injection h with h; subst h; rfl

theorem mkDetunedDelay_ref {c : ChanState} {d : Nat} {x y : Rat} {p : PulseRec}
    (h : mkDetunedDelay c d x y = .ok p) : p.ref = 0 := by
  unfold mkDetunedDelay at h
  cases hl : c.lookupDD x d with
  | none => rw [hl] at h; cases h
  | some v => rw [hl] at h; obtain ⟨a, b⟩ := v; injection h with h; subst h; rfl

theorem addDelay_inv {ms : Option Nat} {c c' : ChanState} {d : Nat} (hi : ChanInv ms c)
    (h : addDelay ms c d = .ok c') : ChanInv ms c' ∧ Ext c c' := by
  unfold addDelay at h
  cases hl : c.last with
  | error e => rw [hl] at h; cases h
  | ok last =>
    cases hv : validateDuration c.cfg d with
    | error e => rw [hl, hv] at h; cases h
    | ok d' =>
      obtain ⟨rest, hr⟩ := last_ok hl
      have hinv := hi.2; rw [hr] at hinv
      have hhead := InvR_head hinv
      have hd := validateDuration_ok hi.1 hv
      have hdvd : (c.cfg.clock : Int) ∣ last.tf + (d' : Int) :=
        Int.dvd_add hhead.1 (Int.ofNat_dvd.mpr hd.2.2.2.2)
      have hmin : (c.cfg.minDur : Int) ≤ (last.tf + (d' : Int)) - last.tf := by omega
      cases hc : checkDuration ms (last.tf + (d' : Int)) with
      | error e => simp [hl, hv, hc, bind, Except.bind] at h
      | ok u =>
        simp only [hl, hv, hc, bind, Except.bind] at h
        have hb := checkDuration_bound hc
        have hdelay : ChanInv ms { c with slots := c.slots ++ [⟨.delay, last.tf, last.tf + d', last.targets⟩] } :=
          ChanInv_snoc hi hl ⟨rfl, by simp; omega, hdvd, hb, hmin, rfl⟩
        split at h
        · split at h
          · rename_i b _ hbb
            cases hm : mkDetunedDelay c d' b.detOff c.lastPulsePhase with
            | error e => rw [hm] at h; cases h
            | ok p =>
              rw [hm] at h; injection h with h; subst h
              have hp := mkDetunedDelay_ok hm
              have hpl : PulseLim c.cfg c.maxW c.sumW p := by
                refine ⟨fun hne => absurd (mkDetunedDelay_ref hm) hne, ?_⟩
                rw [hp]; exact hd.2.1
              exact ⟨ChanInv_snoc hi hl ⟨rfl, by simp; omega, hdvd, hb, by simp [hp], by
                simp [hp]; omega, rfl, hpl⟩, Ext_snoc _ _⟩
          · injection h with h; subst h; exact ⟨hdelay, Ext_snoc _ _⟩
        · injection h with h; subst h; exact ⟨hdelay, Ext_snoc _ _⟩

end Pulser

namespace Pulser

/-- "Good" step on a channel: keeps the invariant and only extends the timeline. -/
def Good (ms : Option Nat) (c c' : ChanState) : Prop := ChanInv ms c' ∧ Ext c c'

theorem Good.rfl' {ms : Option Nat} {c : ChanState} (h : ChanInv ms c) : Good ms c c := ⟨h, Ext.refl c⟩

theorem Good.trans {ms : Option Nat} {a b c : ChanState} (h1 : Good ms a b) (h2 : Good ms b c) : Good ms a c :=
  ⟨h2.1, h1.2.trans h2.2⟩

theorem waitForFall_inv {ms : Option Nat} {c c' : ChanState} (hi : ChanInv ms c)
    (h : waitForFall ms c = .ok c') : Good ms c c' := by
  unfold waitForFall at h
  simp only at h
  split at h
  · cases ha : c.adjust (c.getDuration true - c.getDuration false).toNat with
    | error e => simp [ha, bind, Except.bind] at h
    | ok d =>
      simp only [ha, bind, Except.bind] at h
      exact addDelay_inv hi h
  · injection h with h; subst h; exact Good.rfl' hi

theorem lift_good {ms : Option Nat} {c : ChanState} {e : Except Err ChanState} (hi : ChanInv ms c)
    (h : ∀ c', e = .ok c' → Good ms c c') : Good ms c (CRes.lift c e).c := by
  unfold CRes.lift
  cases e with
  | error x => exact Good.rfl' hi
  | ok c' => exact h c' rfl

theorem bind_good {ms : Option Nat} {c : ChanState} {r : CRes} {f : ChanState → CRes} (hr : Good ms c r.c)
    (hf : ∀ c1, ChanInv ms c1 → Good ms c1 (f c1).c) : Good ms c (r.bind f).c := by
  unfold CRes.bind
  cases r.err with
  | none => exact hr.trans (hf _ hr.1)
  | some e => exact hr

theorem addTarget_inv {ms : Option Nat} {c : ChanState} {qs : List Nat} (hi : ChanInv ms c) :
    Good ms c (addTarget ms c qs).c := by
  unfold addTarget
  split
  · rename_i hemp
    apply lift_good hi
    intro c' h
    cases hc : checkDuration ms 0 with
    | error e => simp [hc, bind, Except.bind] at h
    | ok u =>
      simp only [hc, bind, Except.bind] at h
      injection h with h; subst h
      have : c.slots = [] := by simpa using hemp
      refine ⟨⟨hi.1, ?_⟩, Ext_snoc _ _⟩
      show InvR (c.ctx ms) (c.slots ++ [_]).reverse
      rw [this]; exact ⟨rfl, rfl, rfl⟩
  · cases hsame : sameTargets c qs with
    | true => exact Good.rfl' hi
    | false =>
      simp only [Bool.false_eq_true, if_false]
      apply bind_good (lift_good hi (fun c' h => waitForFall_inv hi h))
      intro c1 hi1
      apply lift_good hi1
      intro c' h
      unfold addTargetTail at h
      cases hl : c1.last with
      | error e => simp [hl] at h
      | ok last =>
        simp only [hl] at h
        obtain ⟨rest, hr⟩ := last_ok hl
        have hinv := hi1.2; rw [hr] at hinv
        have hhead := InvR_head hinv
        -- the adjusted retarget time: 0, or a valid duration
        have hdelta : ∀ delta : Nat,
            (if retargetDelta c1 last.tf ≠ 0 then c1.adjust (retargetDelta c1 last.tf).toNat else .ok 0)
              = .ok delta → delta = 0 ∨ (c1.cfg.minDur ≤ delta ∧ c1.cfg.clock ∣ delta) := by
          intro delta hd
          split at hd
          · have := adjustDuration_ok hi1.1 hd
            exact .inr ⟨this.1, this.2.2.1⟩
          · injection hd with hd; exact .inl hd.symm
        split at h
        · cases h
        · rename_i delta hdl
          split at h
          · cases h
          · rename_i u hc
            injection h with h; subst h
            refine ⟨ChanInv_snoc hi1 hl ⟨rfl, by simp; omega, ?_, checkDuration_bound hc, ?_⟩, Ext_snoc _ _⟩
            · rcases hdelta delta hdl with h0 | ⟨_, h2⟩
              · subst h0; simpa using hhead.1
              · exact Int.dvd_add hhead.1 (Int.ofNat_dvd.mpr h2)
            · rcases hdelta delta hdl with h0 | ⟨h1, _⟩
              · left; subst h0; simp
              · right; simp; omega

end Pulser

namespace Pulser

theorem maxList_ge (x : Int) (l : List Int) : x ≤ maxList x l := by
  unfold maxList
  induction l generalizing x with
  | nil => exact Int.le_refl _
  | cons a l ih => exact Int.le_trans (Int.le_max_left x a) (ih (max x a))

theorem findAddDelayChan_ge (r : Nat) (e : Bool) (t : List Nat) (w : Bool) (cur : Int) (l : List Slot) :
    cur ≤ findAddDelayChan r e t w cur l := by
  induction l with
  | nil => exact Int.le_refl _
  | cons op rest ih =>
    unfold findAddDelayChan
    split
    · split
      · exact Int.le_refl _
      · split
        · omega
        · exact ih
    · split
      · exact Int.le_refl _
      · exact ih

theorem findAddDelay_ge (others : List ChanState) (t : List Nat) (w : Bool) (t0 : Int) :
    t0 ≤ findAddDelay others t w t0 := by
  unfold findAddDelay
  induction others generalizing t0 with
  | nil => exact Int.le_refl _
  | cons ch rest ih =>
    simp only [List.foldl_cons]
    exact Int.le_trans (findAddDelayChan_ge _ _ _ _ _ _) (ih _)

theorem curMaxOf_ge (others : List ChanState) (last : Slot) (barriers : List Int) (proto : Protocol) :
    last.tf ≤ curMaxOf others last barriers proto ∧
    maxList last.tf barriers ≤ curMaxOf others last barriers proto := by
  unfold curMaxOf
  have h1 := maxList_ge last.tf barriers
  split
  · have h2 := findAddDelay_ge others last.targets (proto == .waitForAll) (maxList last.tf barriers)
    exact ⟨by omega, h2⟩
  · exact ⟨h1, Int.le_refl _⟩

/-- What `make_next_pulse_slot` returns: the pulse slot starts `delay` after the channel's
end, where `delay` is `0` when nothing has to be waited for and otherwise the *adjusted*
(minimum duration, clock) value of the required wait
`max (current_max_t − t0) phase_jump_buffer`. -/
theorem makeNextPulseSlot_spec {ms : Option Nat} {c : ChanState} {others : List ChanState}
    {p : PulseRec} {barriers : List Int} {proto : Protocol} {drift : Option Drift} {blk : Bool}
    {slot last : Slot} (hc : 0 < c.cfg.clock) (hl : c.last = .ok last)
    (h : makeNextPulseSlot ms c others p barriers proto drift blk = .ok slot) :
    ∃ (delay : Nat) (p' : PulseRec),
      slot.ti = last.tf + delay ∧ slot.tf = slot.ti + p.dur ∧ slot.targets = last.targets ∧
      slot.kind = .pulse p' ∧ (p'.dur = p.dur ∧ p'.ref = p.ref ∧ p'.sum = p.sum) ∧
      (delay = 0 ∨ (c.cfg.minDur ≤ delay ∧ c.cfg.clock ∣ delay)) ∧
      (blk = true → ∀ m, ms = some m → slot.tf ≤ (m : Int)) ∧
      -- the required wait, and how `delay` relates to it
      (let need := max (curMaxOf others last barriers proto - last.tf)
          (phaseJumpBuffer c last.tf
            (fmtPhase (correctedPhase p drift (curMaxOf others last barriers proto))) proto)
       (need ≤ 0 → delay = 0) ∧ (0 < need → c.adjust need.toNat = .ok delay) ∧ need ≤ delay) := by
  unfold makeNextPulseSlot at h
  simp only [hl] at h
  generalize hneed : max (curMaxOf others last barriers proto - last.tf)
      (phaseJumpBuffer c last.tf
        (fmtPhase (correctedPhase p drift (curMaxOf others last barriers proto))) proto) = need at h ⊢
  cases hdl : (if need > 0 then c.adjust need.toNat else .ok 0) with
  | error e => simp [hdl] at h
  | ok delay =>
    simp only [hdl] at h
    have hdelay : (delay = 0 ∨ (c.cfg.minDur ≤ delay ∧ c.cfg.clock ∣ delay)) ∧
        (need ≤ 0 → delay = 0) ∧ (0 < need → c.adjust need.toNat = .ok delay) ∧ need ≤ delay := by
      by_cases hpos : need > 0
      · rw [if_pos hpos] at hdl
        have hd := adjustDuration_ok hc hdl
        exact ⟨.inr ⟨hd.1, hd.2.2.1⟩, fun hn => by omega, fun _ => hdl, by omega⟩
      · rw [if_neg hpos] at hdl
        injection hdl with hdl
        exact ⟨.inl hdl.symm, fun _ => hdl.symm, fun hn => absurd hn hpos, by omega⟩
    cases hcd : (if blk = true then checkDuration ms (last.tf + (delay : Int) + (p.dur : Int))
        else .ok ()) with
    | error e => simp [hcd] at h
    | ok u =>
      simp only [hcd] at h
      injection h with h; subst h
      refine ⟨delay, _, rfl, rfl, rfl, rfl, by cases drift <;> exact ⟨rfl, rfl, rfl⟩, hdelay.1, ?_,
        hdelay.2⟩
      intro hb
      rw [if_pos hb] at hcd
      exact checkDuration_bound hcd

end Pulser

namespace Pulser

/-- The slot appended by `add_delay`. -/
theorem addDelay_last {ms : Option Nat} {c c' : ChanState} {d : Nat} {last : Slot}
    (hc : 0 < c.cfg.clock) (hl : c.last = .ok last) (h : addDelay ms c d = .ok c') :
    ∃ (x : Slot) (d' : Nat), c'.slots = c.slots ++ [x] ∧ x.ti = last.tf ∧ x.tf = last.tf + d' ∧
      x.targets = last.targets ∧ d ≤ d' ∧ d' < d + c.cfg.clock ∧ c.cfg.clock ∣ d' := by
  unfold addDelay at h
  cases hv : validateDuration c.cfg d with
  | error e => rw [hl, hv] at h; cases h
  | ok d' =>
    have hd := validateDuration_ok hc hv
    cases hcd : checkDuration ms (last.tf + (d' : Int)) with
    | error e => simp [hl, hv, hcd, bind, Except.bind] at h
    | ok u =>
      simp only [hl, hv, hcd, bind, Except.bind] at h
      split at h
      · split at h
        · rename_i b _ hb
          cases hm : mkDetunedDelay c d' b.detOff c.lastPulsePhase with
          | error e => rw [hm] at h; cases h
          | ok p =>
            rw [hm] at h; injection h with h; subst h
            exact ⟨_, d', rfl, rfl, rfl, rfl, hd.2.2.1, hd.2.2.2.1, hd.2.2.2.2⟩
        · injection h with h; subst h
          exact ⟨_, d', rfl, rfl, rfl, rfl, hd.2.2.1, hd.2.2.2.1, hd.2.2.2.2⟩
      · injection h with h; subst h
        exact ⟨_, d', rfl, rfl, rfl, rfl, hd.2.2.1, hd.2.2.2.1, hd.2.2.2.2⟩

theorem last_snoc (c : ChanState) (l : List Slot) (x : Slot) (h : c.slots = l ++ [x]) :
    c.last = .ok x := by
  unfold ChanState.last
  rw [h]; simp

/-- `add_pulse` needs a pulse whose duration has been validated for the channel. -/
theorem addPulse_inv {ms : Option Nat} {c c' : ChanState} {others : List ChanState}
    {p : PulseRec} {barriers : List Int} {proto : Protocol} {drift : Option Drift}
    (hi : ChanInv ms c) (hp : c.cfg.clock ∣ p.dur ∧ c.cfg.minDur ≤ p.dur)
    (hlim : PulseLim c.cfg c.maxW c.sumW p)
    (h : addPulse ms c others p barriers proto drift = .ok c') : Good ms c c' := by
  unfold addPulse at h
  cases hl : c.last with
  | error e => simp [hl, bind, Except.bind] at h
  | ok last =>
    cases hm : makeNextPulseSlot ms c others p barriers proto drift true with
    | error e => simp [hl, hm, bind, Except.bind] at h
    | ok slot =>
      simp only [hl, hm, bind, Except.bind] at h
      obtain ⟨delay, p', h1, h2, h3, h4, ⟨h5, h5r, h5s⟩, h6, h7, _⟩ := makeNextPulseSlot_spec hi.1 hl hm
      have h7 := h7 rfl
      obtain ⟨rest, hr⟩ := last_ok hl
      have hinv := hi.2; rw [hr] at hinv
      have hhead := InvR_head hinv
      have hslot : ∀ (prev : Slot), prev.tf = slot.ti → prev.targets = last.targets →
          (c.cfg.clock : Int) ∣ prev.tf → SlotOk (c.ctx ms) prev slot := by
        intro prev e1 e2 e3
        refine ⟨e1.symm, by omega, ?_, h7, ?_⟩
        · rw [h2, ← e1]; exact Int.dvd_add e3 (Int.ofNat_dvd.mpr hp.1)
        · rw [h4]; simp only; rw [h5]
          refine ⟨h2, hp.2, h3.trans e2.symm, ?_⟩
          unfold PulseLim; rw [h5, h5r, h5s]; exact hlim
      by_cases hpos : slot.ti - last.tf > 0
      · simp only [hpos, if_true] at h
        cases had : addDelay ms c (slot.ti - last.tf).toNat with
        | error e => simp [had] at h
        | ok c1 =>
          simp only [had] at h
          injection h with h; subst h
          have hg := addDelay_inv hi had
          obtain ⟨x, d', e1, e2, e3, e4, e5, e6, e7⟩ := addDelay_last hi.1 hl had
          have hdel : (slot.ti - last.tf).toNat = delay := by omega
          have hdd : d' = delay := by
            rw [hdel] at e5 e6
            rcases h6 with h6 | ⟨_, h6⟩
            · omega
            · obtain ⟨k, hk⟩ := h6
              obtain ⟨k', hk'⟩ := e7
              subst hk hk'
              have hlt : c.cfg.clock * k' < c.cfg.clock * (k + 1) := by rw [Nat.mul_add]; omega
              have := Nat.lt_of_mul_lt_mul_left hlt
              have hle := Nat.le_of_mul_le_mul_left e5 hi.1
              have : k' = k := by omega
              subst this; rfl
          have hl1 : c1.last = .ok x := last_snoc c1 _ x e1
          have hcfg : c1.cfg = c.cfg := hg.2.1
          have hx : SlotOk (c1.ctx ms) x slot := by
            rw [hg.2.ctx ms]
            apply hslot x (by rw [e3, hdd]; omega) e4
            have := (InvR_head (by have := hg.1.2; rw [(last_ok hl1).choose_spec] at this; exact this)).1
            simpa [hcfg] using this
          exact ⟨ChanInv_snoc hg.1 hl1 hx, hg.2.trans (Ext_snoc _ _)⟩
      · simp only [hpos, if_false, pure, Except.pure] at h
        injection h with h; subst h
        have : slot.ti = last.tf := by omega
        exact ⟨ChanInv_snoc hi hl (hslot last this.symm rfl hhead.1), Ext_snoc _ _⟩

end Pulser

namespace Pulser

theorem Good_of_same {ms : Option Nat} {c c' : ChanState} (hi : ChanInv ms c) (h1 : c'.cfg = c.cfg)
    (h2 : c'.slots = c.slots) (h3 : c'.name = c.name) (h4 : c'.maxW = c.maxW) (h5 : c'.sumW = c.sumW) :
    Good ms c c' := by
  have he : Ext c c' := ⟨h1, h3, by rw [h2]; exact List.prefix_refl _, h4, h5⟩
  exact ⟨⟨by rw [h1]; exact hi.1, by rw [he.ctx ms, h2]; exact hi.2⟩, he⟩

theorem mkDetunedDelay_pulseOk {c : ChanState} {d : Nat} {x y : Rat} {p : PulseRec} {d0 : Nat}
    (hc : 0 < c.cfg.clock) (ha : c.adjust d0 = .ok d) (h : mkDetunedDelay c d x y = .ok p) :
    (c.cfg.clock ∣ p.dur ∧ c.cfg.minDur ≤ p.dur) ∧ PulseLim c.cfg c.maxW c.sumW p := by
  have := adjustDuration_ok hc ha
  refine ⟨by rw [mkDetunedDelay_ok h]; exact ⟨this.2.2.1, this.1⟩, ?_⟩
  refine ⟨fun hne => absurd (mkDetunedDelay_ref h) hne, ?_⟩
  rw [mkDetunedDelay_ok h]; exact this.2.2.2.2

theorem enableEom_inv {ms : Option Nat} {c : ChanState} {amp detOn detOff : Rat} {sb sw : Bool}
    (hi : ChanInv ms c) : Good ms c (enableEom ms c amp detOn detOff sb sw).c := by
  unfold enableEom
  simp only
  apply bind_good
  · split
    · apply bind_good
      · split
        · exact lift_good hi (fun c' h => waitForFall_inv hi h)
        · exact Good.rfl' hi
      · intro c1 hi1
        apply lift_good hi1
        intro c' h
        simp only [bind, Except.bind] at h
        split at h
        · cases h
        · rename_i buf ha
          split at h
          · split at h
            · cases h
            · rename_i p hm
              exact addPulse_inv hi1 (mkDetunedDelay_pulseOk hi1.1 ha hm).1 (mkDetunedDelay_pulseOk hi1.1 ha hm).2 h
          · exact addDelay_inv hi1 h
    · exact Good.rfl' hi
  · intro c1 hi1
    apply lift_good hi1
    intro c' h
    cases hl : c1.last with
    | error e => simp [hl, bind, Except.bind] at h
    | ok last =>
      simp only [hl, bind, Except.bind] at h
      injection h with h; subst h
      exact Good_of_same hi1 rfl rfl rfl rfl rfl

theorem disableEom_inv {ms : Option Nat} {c : ChanState} {sb : Bool}
    (hi : ChanInv ms c) : Good ms c (disableEom ms c sb).c := by
  unfold disableEom
  apply bind_good
  · apply lift_good hi
    intro c' h
    cases hl : c.last with
    | error e => simp [hl, bind, Except.bind] at h
    | ok last =>
      simp only [hl, bind, Except.bind] at h
      injection h with h; subst h
      exact Good_of_same hi rfl rfl rfl rfl rfl
  · intro c1 hi1
    split
    · exact Good.rfl' hi1
    · split
      · split
        · apply lift_good hi1
          intro c' h
          rename_i e _ _
          cases ha : c1.adjust e.bufferTime with
          | error e => simp [ha, bind, Except.bind] at h
          | ok buf =>
            simp only [ha, bind, Except.bind] at h
            exact addDelay_inv hi1 h
        · exact lift_good hi1 (fun c' h => waitForFall_inv hi1 h)
      · exact lift_good hi1 (fun c' h => waitForFall_inv hi1 h)

end Pulser
