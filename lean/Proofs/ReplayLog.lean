/-
  Proofs.ReplayLog — every successful call extends the record by a call whose replay from
  the same state reproduces the same result (C09).
-/
import Proofs.Replay
import Proofs.Eom
import Proofs.SeqInv
namespace Pulser

/-- Replaying the stored `optimal_detuning_off` (the value that was chosen) chooses it again. -/
theorem processEomParams_stored {c : ChanState} {e : EomIn} {d : Rat}
    (h : processEomParams c e = .ok d) (hn : e.opts.Nodup) :
    processEomParams c { e with optimal := d } = .ok d := by
  unfold processEomParams at h ⊢
  by_cases h0 : e.amp < 0
  · rw [if_pos h0] at h; cases h
  · rw [if_neg h0] at h
    simp only at h ⊢
    rw [if_neg h0]
    cases hv : validatePulse c e.onSum with
    | error er => rw [hv] at h; cases h
    | ok u =>
      rw [hv] at h
      simp only at h ⊢
      cases hc : closestIdx e.opts e.optimal with
      | none => rw [hc] at h; cases h
      | some i =>
        rw [hc] at h
        simp only at h
        cases ho : e.opts[i]? with
        | none => rw [ho] at h; simp at h
        | some detOff =>
          cases hs : e.offSums[i]? with
          | none => rw [ho, hs] at h; simp at h
          | some σ =>
            rw [ho, hs] at h
            simp only at h
            cases hv2 : validatePulse c σ with
            | error er => rw [hv2] at h; cases h
            | ok u2 =>
              rw [hv2] at h
              injection h with h; subst h
              obtain ⟨hi, hoi⟩ := List.getElem?_eq_some_iff.mp ho
              obtain ⟨j, hj1, hj2, hj3⟩ := closestIdx_of_mem e.opts i hi
              have hji : j = i := (List.getElem_inj hn).mp hj3
              subst hji
              rw [← hoi, hj1]
              simp only
              rw [List.getElem?_eq_getElem hi, hs]
              simp only
              rw [hv2]

/-- **One successful call, one record entry that replays to the same result.** -/
theorem step_record (s : SeqState) (op : Op) (hok : (stepRaw s op).err = none) (hn : NodupOpts op) :
    (op.isQuery = true ∧ (stepRaw s op).st = s) ∨
    (∃ op', (stepRaw s op).st.calls = s.calls ++ [op'] ∧ (stepRaw s op).st.dev = s.dev ∧
        (stepRaw s op).st.nQ = s.nQ ∧ stepRaw s op' = stepRaw s op) := by
  cases op with
  | getDuration ch fall =>
    left; refine ⟨rfl, ?_⟩
    simp only [stepRaw]; repeat' split
    all_goals rfl
  | estimate p n proto =>
    left; refine ⟨rfl, ?_⟩
    simp only [stepRaw]; repeat' split
    all_goals first | rfl | exact estimateCore_st _ _ _ _
  | phaseRef q b =>
    left; refine ⟨rfl, ?_⟩
    simp only [stepRaw]; repeat' split
    all_goals rfl
  | target qs n =>
    right
    have hok' : (store (.target qs n) ((targetCore s qs n).orRollback s)).err = none := hok
    have h := store_record (.target qs n) (kc_orRollback (kc_targetCore s qs n)) hok'
    exact ⟨_, h.1, h.2.1, h.2.2, rfl⟩
  | delay d n atRest =>
    right
    have hok' : (store (.delay d n atRest) ((delayChecked s d n atRest).orRollback s)).err = none := hok
    have h := store_record (.delay d n atRest) (kc_orRollback (kc_delayChecked s d n atRest)) hok'
    exact ⟨_, h.1, h.2.1, h.2.2, rfl⟩
  | phaseShift phi qs b =>
    right
    have hok' : (store (.phaseShift phi qs b) (s.phaseShift phi qs b)).err = none := hok
    have h := store_record (.phaseShift phi qs b) (kc_phaseShift s phi qs b) hok'
    exact ⟨_, h.1, h.2.1, h.2.2, rfl⟩
  | add p n proto =>
    right
    simp only [stepRaw] at hok ⊢
    refine ⟨.add p n proto, ?_⟩
    have hk : KeepsCalls s (markNonEmpty
        (if s.measured.isSome = true then fail s Err.measured
         else match s.validateChannel n true with
          | .error e => fail s e
          | .ok c => if c.cfg.isDmm = true then fail s Err.isDmm else addCore s p n proto none)) := by
      apply kc_markNonEmpty
      repeat' split
      all_goals first | exact Meta.rfl' s | exact kc_addCore _ _ _ _ _
    have h := store_record (.add p n proto) hk hok
    exact ⟨h.1, h.2.1, h.2.2, by simp only [stepRaw]⟩
  | addDmm p n proto =>
    right
    simp only [stepRaw] at hok ⊢
    refine ⟨.addDmm p n proto, ?_⟩
    have hk : KeepsCalls s (markNonEmpty
        (if s.measured.isSome = true then fail s Err.measured
         else match s.validateChannel n false with
          | .error e => fail s e
          | .ok c => if (!c.cfg.isDmm) = true then fail s Err.notDmm else addCore s p n proto none)) := by
      apply kc_markNonEmpty
      repeat' split
      all_goals first | exact Meta.rfl' s | exact kc_addCore _ _ _ _ _
    have h := store_record (.addDmm p n proto) hk hok
    exact ⟨h.1, h.2.1, h.2.2, by simp only [stepRaw]⟩
  | measure b =>
    right
    simp only [stepRaw] at hok ⊢
    refine ⟨.measure b, ?_⟩
    have hk : KeepsCalls s (if s.measured.isSome = true then fail s Err.measured
        else if (!measBasisOk s b) = true then fail s Err.badMeasBasis
        else done { s with measured := some b }) := by
      repeat' split
      all_goals first | exact Meta.rfl' s | exact ⟨rfl, rfl, rfl⟩
    have h := store_record (.measure b) hk hok
    exact ⟨h.1, h.2.1, h.2.2, by simp only [stepRaw]⟩
  | addEom n dur phase post proto corr fs fe ref =>
    right
    simp only [stepRaw] at hok ⊢
    refine ⟨.addEom n dur phase post proto corr fs fe ref, ?_⟩
    have hk : ∀ r : Raw, (r = (if s.measured.isSome = true then fail s Err.measured
         else match s.validateChannel n false with
          | .error e => fail s e
          | .ok c =>
            match c.eom.getLast? with
            | none => fail s Err.notInEom
            | some b =>
              if b.tf.isSome = true then fail s Err.notInEom
              else addCore s
                { dur := dur, resizable := true, phase := fmtPhase phase, post := post, fallStd := fs,
                  fallEom := fe, dd := b.amp == 0, ref := ref, const := true, amp := b.amp, det := b.detOn,
                  sum := { maxAmp := b.amp, avgAmp := b.amp,
                           maxAbsDetR := if b.detOn < 0 then -b.detOn else b.detOn,
                           maxDetR := b.detOn, minDetR := b.detOn } }
                n proto (if corr = true then some (lastEomPulseDrift c) else none))) → KeepsCalls s r := by
      intro r hr
      subst hr
      repeat' split
      all_goals first | exact Meta.rfl' s | exact kc_addCore _ _ _ _ _
    have h := store_record (.addEom n dur phase post proto corr fs fe ref) (kc_markNonEmpty (hk _ rfl)) hok
    exact ⟨h.1, h.2.1, h.2.2, by simp only [stepRaw]⟩
  | align chs atRest =>
    right
    refine ⟨.align chs atRest, ?_⟩
    have hok' := hok
    simp only [stepRaw] at hok'
    obtain ⟨h1, h2, h3⟩ := store_record (.align chs atRest) (by
      apply kc_orRollback
      repeat' split
      all_goals first | exact Meta.rfl' s | exact kc_alignLoop _ _ _) hok'
    refine ⟨?_, ?_, ?_, rfl⟩
    · simp only [stepRaw]; exact h1
    · simp only [stepRaw]; exact h2
    · simp only [stepRaw]; exact h3
  | disableEom n corr =>
    right
    simp only [stepRaw] at hok ⊢
    refine ⟨.disableEom n corr, ?_⟩
    have hk : ∀ r : Raw, (r = (if s.measured.isSome = true then fail s Err.measured
        else match s.validateChannel n false with
          | .error er => fail s er
          | .ok c =>
            if (!c.inEomMode) = true then fail s Err.notInEom
            else
              (s.withChan n fun c => disableEom s.dev.maxSeqDur c false).bind fun s1 =>
                if corr = true then
                  match s1.getChan n with
                  | none => fail s1 Err.notDeclared
                  | some c1 =>
                    match c1.slots.getLast? with
                    | some l =>
                      s1.phaseShift
                        (-(lastEomPulseDrift c1).calc
                            (match c1.eom.getLast? with
                              | some b => b.tf.getD 0
                              | none => 0))
                        l.targets c.cfg.basis
                    | none => fail s1 Err.noTarget
                else done s1)) → KeepsCalls s (r.orRollback s) := by
      intro r hr
      subst hr
      apply kc_orRollback
      split
      · exact Meta.rfl' s
      · split
        · exact Meta.rfl' s
        · split
          · exact Meta.rfl' s
          · apply kc_bind (kc_withChan _ _ _)
            intro s1 _
            repeat' split
            all_goals first | exact Meta.rfl' s1 | exact kc_phaseShift _ _ _ _
    have h := store_record (.disableEom n corr) (hk _ rfl) hok
    exact ⟨h.1, h.2.1, h.2.2, by simp only [stepRaw]⟩
  | configDetMap dmmId maxW sumW =>
    right
    refine ⟨.configDetMap dmmId maxW sumW, ?_⟩
    simp only [stepRaw] at hok ⊢
    by_cases g0 : s.measured.isSome = true
    · rw [if_pos g0] at hok; simp [fail] at hok
    · rw [if_neg g0] at hok ⊢
      cases hc : s.dev.dmms[dmmId]? with
      | none => simp [hc, fail] at hok
      | some cfg =>
        simp only [hc] at hok ⊢
        by_cases g1 : s.inXY = true
        · rw [if_pos g1] at hok; simp [fail] at hok
        · rw [if_neg g1] at hok ⊢
          by_cases g2 : (!s.available true dmmId cfg) = true
          · rw [if_pos g2] at hok; simp [fail] at hok
          · rw [if_neg g2] at hok ⊢
            have h := store_record (.configDetMap dmmId maxW sumW)
              (r := done (s.addChannel _)) (addChannel_calls s _) hok
            exact ⟨h.1, h.2.1, h.2.2, by first | rfl | trivial⟩
  | declare name chId init =>
    right
    refine ⟨.declare name chId init, ?_⟩
    simp only [stepRaw] at hok ⊢
    by_cases g0 : s.measured.isSome = true
    · rw [if_pos g0] at hok; simp [fail] at hok
    · rw [if_neg g0] at hok ⊢
      cases name with
      | dmm i k => simp [fail] at hok
      | user u =>
        simp only at hok ⊢
        by_cases g1 : (s.getChan (ChName.user u)).isSome = true
        · rw [if_pos g1] at hok; simp [fail] at hok
        · rw [if_neg g1] at hok ⊢
          cases hc : s.dev.chans[chId]? with
          | none => simp [hc, fail] at hok
          | some cfg =>
            simp only [hc] at hok ⊢
            by_cases g2 : (!s.available false chId cfg) = true
            · rw [if_pos g2] at hok
              exfalso
              revert hok
              repeat' split
              all_goals simp [fail]
            · rw [if_neg g2] at hok ⊢
              obtain ⟨h1, h2, h3⟩ := store_record (.declare (ChName.user u) chId init) (by
                have ha := addChannel_calls s
                  (SeqState.freshChan (ChName.user u) chId cfg s.allQubits (!cfg.isLocal) 1 1)
                repeat' split
                all_goals first
                  | exact ha
                  | exact kc_orRollback (Meta.trans ha (kc_targetCore _ _ _))) hok
              exact ⟨h1, h2, h3, by first | rfl | trivial⟩
  | enableEom n e =>
    right
    have hok' := hok
    simp only [stepRaw] at hok'
    by_cases g0 : s.measured.isSome = true
    · rw [if_pos g0] at hok'; simp [fail] at hok'
    · rw [if_neg g0] at hok'
      cases hc : s.validateChannel n false with
      | error er => simp [hc, fail] at hok'
      | ok c =>
        simp only [hc] at hok'
        by_cases g1 : c.inEomMode = true
        · rw [if_pos g1] at hok'; simp [fail] at hok'
        · rw [if_neg g1] at hok'
          by_cases g2 : c.cfg.eom.isNone = true
          · rw [if_pos g2] at hok'; simp [fail] at hok'
          · rw [if_neg g2] at hok'
            cases hp : processEomParams c e with
            | error er => simp [hp, fail] at hok'
            | ok detOff =>
              simp only [hp] at hok'
              have hp' := processEomParams_stored hp hn
              -- the call succeeded: nothing was rolled back
              have hro := Raw.orRollback_ok hok'
              rw [hro] at hok'
              have hE : stepRaw s (.enableEom n e) = enableEomCommit s n c e detOff := by
                simp only [stepRaw, if_neg g0, hc, if_neg g1, if_neg g2, hp]
                exact hro
              have hE' : stepRaw s (.enableEom n { e with optimal := detOff }) =
                  enableEomCommit s n c e detOff := by
                simp only [stepRaw, if_neg g0, hc, if_neg g1, if_neg g2, hp']
                exact hro
              refine ⟨.enableEom n { e with optimal := detOff }, ?_, ?_, ?_, by rw [hE, hE']⟩
              all_goals
                rw [hE]
                unfold enableEomCommit at hok' ⊢
                unfold Raw.bind at hok' ⊢
                have hm : KeepsCalls s (s.withChan n fun c =>
                    enableEom s.dev.maxSeqDur c e.amp e.detOn detOff false false) := kc_withChan _ _ _
                cases hw : (s.withChan n fun c =>
                    enableEom s.dev.maxSeqDur c e.amp e.detOn detOff false false).err with
                | some er => simp [hw] at hok'
                | none =>
                  simp only [hw] at hok' ⊢
                  obtain ⟨h1, h2, h3⟩ := store_record (.enableEom n { e with optimal := detOff }) (by
                    repeat' split
                    all_goals first | exact Meta.rfl' _ | exact kc_phaseShift _ _ _ _) hok'
                  first
                    | (rw [h1, hm.1])
                    | (rw [h2, hm.2.1])
                    | (rw [h3, hm.2.2])
  | modifyEom n e =>
    right
    have hok' := hok
    simp only [stepRaw] at hok'
    by_cases g0 : s.measured.isSome = true
    · rw [if_pos g0] at hok'; simp [fail] at hok'
    · rw [if_neg g0] at hok'
      cases hc : s.validateChannel n false with
      | error er => simp [hc, fail] at hok'
      | ok c =>
        simp only [hc] at hok'
        by_cases g1 : (!c.inEomMode) = true
        · rw [if_pos g1] at hok'; simp [fail] at hok'
        · rw [if_neg g1] at hok'
          cases hp : processEomParams c e with
          | error er => simp [hp, fail] at hok'
          | ok detOff =>
            simp only [hp] at hok'
            have hp' := processEomParams_stored hp hn
            have hro := Raw.orRollback_ok hok'
            rw [hro] at hok'
            have hE : stepRaw s (.modifyEom n e) = modifyEomCommit s n c e detOff := by
              simp only [stepRaw, if_neg g0, hc, if_neg g1, hp]
              exact hro
            have hE' : stepRaw s (.modifyEom n { e with optimal := detOff }) =
                modifyEomCommit s n c e detOff := by
              simp only [stepRaw, if_neg g0, hc, if_neg g1, hp']
              exact hro
            refine ⟨.modifyEom n { e with optimal := detOff }, ?_, ?_, ?_, by rw [hE, hE']⟩
            all_goals
              rw [hE]
              unfold modifyEomCommit at hok' ⊢
              unfold Raw.bind at hok' ⊢
              have hm : Meta s (s.withChan n fun c => disableEom s.dev.maxSeqDur c true).st :=
                kc_withChan _ _ _
              cases hw : (s.withChan n fun c => disableEom s.dev.maxSeqDur c true).err with
              | some er => simp [hw] at hok'
              | none =>
                simp only [hw] at hok' ⊢
                generalize (s.withChan n fun c => disableEom s.dev.maxSeqDur c true).st = s1 at hok' hm ⊢
                cases hg : s1.getChan n with
                | none => simp [hg, fail] at hok'
                | some c1 =>
                  simp only [hg] at hok' ⊢
                  have hm2 : Meta s1 (s1.withChan n fun c =>
                      enableEom s.dev.maxSeqDur c e.amp e.detOn detOff false true).st := kc_withChan _ _ _
                  cases hw2 : (s1.withChan n fun c =>
                      enableEom s.dev.maxSeqDur c e.amp e.detOn detOff false true).err with
                  | some er => simp [hw2] at hok'
                  | none =>
                    simp only [hw2] at hok' ⊢
                    obtain ⟨h1, h2, h3⟩ := store_record (.modifyEom n { e with optimal := detOff }) (by
                      repeat' split
                      all_goals first | exact Meta.rfl' _ | exact kc_phaseShift _ _ _ _) hok'
                    first
                      | (rw [h1, hm2.1, hm.1])
                      | (rw [h2, hm2.2.1, hm.2.1])
                      | (rw [h3, hm2.2.2, hm.2.2])

end Pulser
