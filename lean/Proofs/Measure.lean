/-
  Proofs.Measure — helper lemmas for the topic `Meas` (properties C11 and C20):
  bitstring weights, detection-error kernel, the `Results` store, evaluation-time
  bookkeeping, configuration re-creation, complex-rational matrices.

  The property theorems themselves are in Properties/C11.lean and Properties/C20.lean.
-/
import Mathlib.Tactic.Ring
import Mathlib.Tactic.Linarith
import Mathlib.Tactic.FieldSimp
import Mathlib.Algebra.Order.Field.Rat
import Mathlib.Algebra.BigOperators.Group.List.Basic
import Mathlib.Algebra.Ring.MinimalAxioms
import Mathlib.Data.List.Nodup
import PulserModel.Measure
namespace Pulser.Measure

/-! ### 1. weights convention -/

theorem flatMap_ite_nil {α β} (p : α → Bool) (g : α → List β) (l : List α) :
    l.flatMap (fun a => if p a then g a else []) = (l.filter p).flatMap g := by
  induction l with
  | nil => rfl
  | cons a l ih =>
    simp only [List.flatMap_cons, List.filter_cons]
    by_cases h : p a <;> simp [h, ih]

theorem range_filter_beq_of_le (d one : Nat) (h : d ≤ one) :
    (List.range d).filter (· == one) = [] := by
  rw [List.filter_eq_nil_iff]
  intro a ha
  have := List.mem_range.mp ha
  simp; omega

theorem range_filter_beq (d one : Nat) (h : one < d) :
    (List.range d).filter (· == one) = [one] := by
  induction d with
  | zero => omega
  | succ d ih =>
    rw [List.range_succ, List.filter_append]
    by_cases h' : one < d
    · rw [ih h']; simp; omega
    · have : one = d := by omega
      subst this
      rw [range_filter_beq_of_le _ _ (Nat.le_refl _)]; simp

theorem filter_pattern_eq_sel (d one : Nat) (h : one < d) (bits : List Bool) :
    (allStates d bits.length).filter (fun σ => pattern one σ == bits) = selStates d one bits := by
  induction bits with
  | nil => simp [allStates, selStates, pattern]
  | cons b bs ih =>
    simp only [List.length_cons, allStates, selStates]
    rw [List.filter_flatMap]
    have key : ∀ a, List.filter (fun σ => pattern one σ == b :: bs)
        (List.map (fun x => a :: x) (allStates d bs.length)) =
        if ((a == one) == b) then (selStates d one bs).map (a :: ·) else [] := by
      intro a
      rw [List.filter_map, ← ih]
      by_cases hab : (a == one) = b
      · simp only [hab, beq_self_eq_true, if_true]
        congr 1
        apply List.filter_congr
        intro σ _
        simp [pattern, hab]
      · have : ((a == one) == b) = false := by simpa using hab
        simp only [this]
        simp only [Bool.false_eq_true, if_false, List.map_eq_nil_iff, List.filter_eq_nil_iff]
        intro σ _
        simp [pattern, hab]
    simp only [key]
    rw [flatMap_ite_nil (fun a => (a == one) == b)]
    congr 1
    cases b with
    | true =>
      simp only [if_true]
      rw [← range_filter_beq d one h]
      apply List.filter_congr; intro a _; simp
    | false =>
      simp only [Bool.false_eq_true, if_false]
      apply List.filter_congr; intro a _; simp [bne]

/-- weights convention (d = 3, 4 branch of `_weights`, and `bitstring_probabilities`). -/
theorem weightIx_eq_spec (d n one : Nat) (h : one < d) (probs : List Rat) (bits : List Bool)
    (hn : bits.length = n) : weightIx d one probs bits = weightSpec d n one probs bits := by
  subst hn
  unfold weightIx weightSpec
  rw [filter_pattern_eq_sel d one h]

/-! ### 2. dimension 2: one basis state per bitstring, reversed order -/

/-- the single basis state a bitstring stands for when d = 2 -/
def stateOfBits (one : Nat) (bits : List Bool) : List Nat := bits.map fun b => if b then one else 1 - one

theorem selStates_two (one : Nat) (h : one < 2) (bits : List Bool) :
    selStates 2 one bits = [stateOfBits one bits] := by
  induction bits with
  | nil => rfl
  | cons b bs ih =>
    have h2 : (List.range 2).filter (· != one) = [1 - one] := by
      have : one = 0 ∨ one = 1 := by omega
      rcases this with rfl | rfl <;> decide
    cases b <;> simp [selStates, ih, stateOfBits, h2]

theorem bitsIndex_lt (bits : List Bool) : bitsIndex bits < 2 ^ bits.length := by
  induction bits with
  | nil => simp [bitsIndex]
  | cons b bs ih =>
    simp only [bitsIndex, List.length_cons, Nat.pow_succ]
    cases b <;> simp <;> omega

theorem index_stateOfBits_one (bits : List Bool) : index 2 (stateOfBits 1 bits) = bitsIndex bits := by
  induction bits with
  | nil => rfl
  | cons b bs ih =>
    simp only [stateOfBits, List.map_cons, index, List.length_map, bitsIndex] at ih ⊢
    rw [ih]

/-- `reverse_is_complement`: with `r ↦ 1` and `r` stored first, the basis state read as
bitstring `b` sits at position `2ⁿ − 1 − int(b, 2)`. -/
theorem index_stateOfBits_zero (bits : List Bool) :
    index 2 (stateOfBits 0 bits) = 2 ^ bits.length - 1 - bitsIndex bits := by
  induction bits with
  | nil => rfl
  | cons b bs ih =>
    have hlt := bitsIndex_lt bs
    simp only [stateOfBits, List.map_cons, index, List.length_map, bitsIndex, List.length_cons,
      Nat.pow_succ] at ih ⊢
    rw [ih]; cases b <;> simp <;> omega

theorem lookup_reverse (l : List Rat) (i : Nat) (h : i < l.length) :
    lookup l.reverse i = lookup l (l.length - 1 - i) := by
  unfold lookup
  simp [List.getD_eq_getElem?_getD, List.getElem?_reverse h]

/-! ### 3. sums -/

theorem sum_map_div (l : List Rat) (s : Rat) : (l.map (· / s)).sum = l.sum / s := by
  induction l with
  | nil => simp
  | cons a l ih => simp [List.sum_cons, ih, add_div]

theorem normalise_sum_one (w : List Rat) (h : w.sum ≠ 0) : (normalise w).sum = 1 := by
  unfold normalise
  rw [sum_map_div, div_self h]

theorem sum_flatMap {α β} (l : List α) (h : α → List β) (g : β → Rat) :
    ((l.flatMap h).map g).sum = (l.map fun a => ((h a).map g).sum).sum := by
  induction l with
  | nil => simp
  | cons a l ih => simp [List.flatMap_cons, List.sum_append, ih]

theorem sum_map_add' {α} (l : List α) (g1 g2 : α → Rat) :
    (l.map fun y => g1 y + g2 y).sum = (l.map g1).sum + (l.map g2).sum := by
  induction l with
  | nil => simp
  | cons a l ih => simp [ih]; ring

theorem sum_swap {α β} (l1 : List α) (l2 : List β) (g : α → β → Rat) :
    (l1.map fun x => (l2.map fun y => g x y).sum).sum =
    (l2.map fun y => (l1.map fun x => g x y).sum).sum := by
  induction l1 with
  | nil => simp
  | cons a l ih => simp only [List.map_cons, List.sum_cons, ih, sum_map_add']

theorem sum_filter_split {α} (l : List α) (p : α → Bool) (g : α → Rat) :
    (l.map g).sum = ((l.filter p).map g).sum + ((l.filter (fun a => !p a)).map g).sum := by
  induction l with
  | nil => simp
  | cons a l ih =>
    by_cases h : p a <;> simp [h, ih] <;> ring

/-- every basis state is read as exactly one bitstring -/
theorem sum_sel_partition (d one : Nat) (h : one < d) (n : Nat) :
    ∀ (f : List Nat → Rat),
    ((allBits n).map fun bits => ((selStates d one bits).map f).sum).sum =
      ((allStates d n).map f).sum := by
  induction n with
  | zero => intro f; simp [allBits, selStates, allStates]
  | succ n ih =>
    intro f
    simp only [allBits, allStates]
    rw [sum_flatMap, sum_flatMap]
    simp only [List.map_map, Function.comp_def, selStates, sum_flatMap]
    -- left: over b ∈ [false,true], bs, a ∈ S b, σ ; right: over a ∈ range d, σ
    have inner : ∀ (S : List Nat),
        ((allBits n).map fun bs => (S.map fun a => ((selStates d one bs).map fun σ => f (a :: σ)).sum).sum).sum
        = (S.map fun a => ((allStates d n).map fun σ => f (a :: σ)).sum).sum := by
      intro S
      rw [sum_swap]
      congr 1
      apply List.map_congr_left
      intro a _
      exact ih (fun σ => f (a :: σ))
    simp only [List.map_cons, List.map_nil, List.sum_cons, List.sum_nil, Bool.false_eq_true, if_false,
      if_true, add_zero]
    rw [inner, ih (fun σ => f (one :: σ))]
    rw [sum_filter_split (List.range d) (· == one)]
    rw [range_filter_beq d one h]
    have : (List.filter (fun a => !(a == one)) (List.range d)) = List.filter (fun x => x != one) (List.range d) := by
      apply List.filter_congr; intro a _; simp [bne]
    rw [this]
    simp; ring

/-! ### 4. detection-error kernel -/

theorem sum_map_mul_left' {α} (l : List α) (c : Rat) (g : α → Rat) :
    (l.map fun y => c * g y).sum = c * (l.map g).sum := by
  induction l with
  | nil => simp
  | cons a l ih => simp [ih]; ring

theorem flip1_sum (eps epsp : Rat) (b : Bool) : flip1 eps epsp b false + flip1 eps epsp b true = 1 := by
  cases b <;> simp [flip1]

theorem flipKernel_sum_one (eps epsp : Rat) (b : List Bool) :
    ((allBits b.length).map (flipKernel eps epsp b)).sum = 1 := by
  induction b with
  | nil => simp [allBits, flipKernel]
  | cons b bs ih =>
    simp only [List.length_cons, allBits]
    rw [sum_flatMap]
    simp only [List.map_map, Function.comp_def, flipKernel, sum_map_mul_left', ih]
    simp [flip1_sum]

/-- marginal of the detected bit `i` -/
theorem flipKernel_marginal (eps epsp : Rat) (v : Bool) :
    ∀ (b : List Bool) (i : Nat), i < b.length →
    (((allBits b.length).filter fun c => c.getD i false == v).map (flipKernel eps epsp b)).sum =
      flip1 eps epsp (b.getD i false) v := by
  intro b
  induction b with
  | nil => intro i hi; simp at hi
  | cons b bs ih =>
    intro i hi
    simp only [List.length_cons, allBits]
    rw [List.filter_flatMap, sum_flatMap]
    simp only [List.filter_map, List.map_map, Function.comp_def, flipKernel, sum_map_mul_left']
    cases i with
    | zero =>
      simp only [List.getD_cons_zero]
      have hs := flipKernel_sum_one eps epsp bs
      cases v <;> simp [hs]
    | succ k =>
      simp only [List.getD_cons_succ]
      have hk : k < bs.length := by simpa using hi
      rw [ih k hk]
      simp only [List.map_cons, List.map_nil, List.sum_cons, List.sum_nil]
      have := flip1_sum eps epsp b
      have e : flip1 eps epsp b true = 1 - flip1 eps epsp b false := by linarith
      rw [e]; ring

/-! ### 5. Results store -/

theorem alookup_aset_eq {β} (k : Nat) (v : β) (l : List (Nat × β)) : alookup k (aset k v l) = some v := by
  induction l with
  | nil => simp [aset, alookup]
  | cons p l ih =>
    obtain ⟨k', v'⟩ := p
    by_cases h : k' = k <;> simp [aset, alookup, h, ih]

theorem alookup_aset_ne {β} (k k' : Nat) (v : β) (l : List (Nat × β)) (h : k' ≠ k) :
    alookup k' (aset k v l) = alookup k' l := by
  induction l with
  | nil => simp [aset, alookup]; intro h'; exact absurd h'.symm h
  | cons p l ih =>
    obtain ⟨k'', v''⟩ := p
    by_cases h1 : k'' = k
    · subst h1
      have : ¬ k'' = k' := fun e => h e.symm
      simp [aset, alookup, this]
    · by_cases h2 : k'' = k' <;> simp [aset, alookup, h1, h2, ih, h]

theorem aset_self {β} (k : Nat) (v : β) (l : List (Nat × β)) (h : alookup k l = some v) : aset k v l = l := by
  induction l with
  | nil => simp [alookup] at h
  | cons p l ih =>
    obtain ⟨k', v'⟩ := p
    by_cases h1 : k' = k
    · simp [alookup, h1] at h; simp [aset, h1, h]
    · simp [alookup, h1] at h; simp [aset, h1, ih h]

def timesOf (s : Store) (u : Nat) : List Rat := (alookup u s.times).getD []
def valsOf (s : Store) (u : Nat) : List Int := (alookup u s.vals).getD []

def StrictAsc (l : List Rat) : Prop := l.Pairwise (· < ·)

/-- The invariant of the `Results` object. -/
def StoreInv (s : Store) : Prop :=
  ∀ u, StrictAsc (timesOf s u) ∧ (timesOf s u).length = (valsOf s u).length

theorem strictAsc_le_last {l : List Rat} (h : StrictAsc l) {x last : Rat} (hx : x ∈ l)
    (hl : l.getLast? = some last) : x ≤ last := by
  induction l generalizing x with
  | nil => simp at hx
  | cons a l ih =>
    cases l with
    | nil =>
      simp at hx hl; subst hx; subst hl; exact le_refl _
    | cons b l' =>
      have hl' : (b :: l').getLast? = some last := by simpa [List.getLast?_cons_cons] using hl
      rcases List.mem_cons.mp hx with rfl | hx'
      · have h1 : x < b := (List.pairwise_cons.mp h).1 b (List.mem_cons_self)
        have h2 := ih (List.pairwise_cons.mp h).2 (List.mem_cons_self) hl'
        linarith
      · exact ih (List.pairwise_cons.mp h).2 hx' hl'

theorem strictAsc_append {l : List Rat} (h : StrictAsc l) (t : Rat)
    (hl : l = [] ∨ ∃ last, l.getLast? = some last ∧ last < t) : StrictAsc (l ++ [t]) := by
  unfold StrictAsc
  rw [List.pairwise_append]
  refine ⟨h, List.pairwise_singleton _ _, ?_⟩
  intro x hx y hy
  simp at hy; subst hy
  rcases hl with rfl | ⟨last, h1, h2⟩
  · simp at hx
  · have := strictAsc_le_last h hx h1
    linarith

theorem timesOf_aset (s : Store) (u u' : Nat) (ts : List Rat) :
    (alookup u' (aset u ts s.times)).getD [] = if u' = u then ts else timesOf s u' := by
  by_cases h : u' = u
  · subst h; simp [alookup_aset_eq]
  · simp [alookup_aset_ne _ _ _ _ h, h, timesOf]

theorem valsOf_aset (s : Store) (u u' : Nat) (vs : List Int) :
    (alookup u' (aset u vs s.vals)).getD [] = if u' = u then vs else valsOf s u' := by
  by_cases h : u' = u
  · subst h; simp [alookup_aset_eq]
  · simp [alookup_aset_ne _ _ _ _ h, h, valsOf]

/-- one call of `_store_raw` (successful or raising) keeps the invariant -/
theorem storeRaw_inv (s : Store) (hs : StoreInv s) (u tag : Nat) (t : Rat) (v : Int) :
    StoreInv (storeRaw s u tag t v).st := by
  have keep : ∀ (tm : List (Nat × Nat)),
      StoreInv { times := aset u ((alookup u s.times).getD []) s.times, vals := s.vals, tagmap := tm } := by
    intro tm u'
    simp only [timesOf, valsOf, timesOf_aset]
    by_cases h : u' = u
    · subst h; simpa [timesOf, valsOf] using hs u'
    · simpa [h, timesOf, valsOf] using hs u'
  unfold storeRaw
  simp only
  by_cases hc : ((alookup u s.times).getD []).contains t = true
  · simp only [hc, if_true]; exact keep _
  · simp only [hc]
    by_cases ha : okToAppend ((alookup u s.times).getD []) t = true
    · simp only [ha, Bool.not_true, Bool.false_eq_true, if_false]
      intro u'
      simp only [timesOf, valsOf]
      by_cases h : u' = u
      · subst h
        simp only [alookup_aset_eq, Option.getD_some]
        obtain ⟨h1, h2⟩ := hs u'
        refine ⟨?_, ?_⟩
        · apply strictAsc_append h1
          unfold okToAppend at ha
          cases hlast : (timesOf s u').getLast? with
          | none => left; simpa using hlast
          | some last =>
            right
            refine ⟨last, rfl, ?_⟩
            simp only [timesOf] at hlast
            simpa [hlast] using ha
        · simp [timesOf, valsOf] at h2 ⊢; omega
      · have e1 := alookup_aset_ne u u' (((alookup u s.times).getD []) ++ [t])
            (aset u ((alookup u s.times).getD []) s.times) h
        have e2 := alookup_aset_ne u u' ((alookup u s.times).getD []) s.times h
        have e3 := alookup_aset_ne u u' (((alookup u s.vals).getD []) ++ [v]) s.vals h
        simp only [e1, e2, e3]
        simpa [timesOf, valsOf] using hs u'
    · simp only [ha, Bool.not_false, if_true]; exact keep _

theorem storeRaw_ok_iff (s : Store) (u tag : Nat) (t : Rat) (v : Int) :
    (storeRaw s u tag t v).err = none ↔
      (t ∉ timesOf s u ∧ okToAppend (timesOf s u) t = true) := by
  unfold storeRaw timesOf
  simp only
  by_cases hc : t ∈ (alookup u s.times).getD []
  · simp [hc]
  · by_cases ha : okToAppend ((alookup u s.times).getD []) t = true
    · simp [hc, ha]
    · simp [hc, ha]

theorem storeRaw_ok_st (s : Store) (u tag : Nat) (t : Rat) (v : Int)
    (h : (storeRaw s u tag t v).err = none) :
    (storeRaw s u tag t v).st =
      { times := aset u (timesOf s u ++ [t]) (aset u (timesOf s u) s.times),
        vals := aset u (valsOf s u ++ [v]) s.vals,
        tagmap := aset tag u s.tagmap } := by
  obtain ⟨hc, ha⟩ := (storeRaw_ok_iff s u tag t v).mp h
  unfold timesOf at hc ha
  unfold storeRaw timesOf valsOf
  simp [hc, ha]

theorem storeRaw_err_st (s : Store) (u tag : Nat) (t : Rat) (v : Int)
    (h : (storeRaw s u tag t v).err ≠ none) :
    (storeRaw s u tag t v).st.times = aset u (timesOf s u) s.times ∧
    (storeRaw s u tag t v).st.vals = s.vals := by
  unfold storeRaw timesOf at *
  simp only at h ⊢
  by_cases hc : t ∈ (alookup u s.times).getD []
  · simp [hc]
  · by_cases ha : okToAppend ((alookup u s.times).getD []) t = true
    · simp [hc, ha] at h
    · simp [hc, ha]

theorem idxOfTime_lt {t : Rat} {ts : List Rat} {i : Nat} (h : idxOfTime t ts = some i) : i < ts.length := by
  induction ts generalizing i with
  | nil => simp [idxOfTime] at h
  | cons x xs ih =>
    by_cases hx : x = t
    · simp [idxOfTime, hx] at h; subst h; simp
    · simp only [idxOfTime, hx, if_false, Option.map_eq_some_iff] at h
      obtain ⟨j, hj, rfl⟩ := h
      have := ih hj; simp; omega

theorem idxOfTime_append_new (ts : List Rat) (t : Rat) (h : t ∉ ts) :
    idxOfTime t (ts ++ [t]) = some ts.length := by
  induction ts with
  | nil => simp [idxOfTime]
  | cons x xs ih =>
    have hx : ¬ x = t := fun e => h (by simp [e])
    have hxs : t ∉ xs := fun e => h (by simp [e])
    simp [idxOfTime, hx, ih hxs]

theorem idxOfTime_append_old (ts : List Rat) (t t0 : Rat) (i : Nat) (h : idxOfTime t0 ts = some i) :
    idxOfTime t0 (ts ++ [t]) = some i := by
  induction ts generalizing i with
  | nil => simp [idxOfTime] at h
  | cons x xs ih =>
    by_cases hx : x = t0
    · simp [idxOfTime, hx] at h ⊢; exact h
    · simp only [idxOfTime, hx, if_false, Option.map_eq_some_iff, List.cons_append] at h ⊢
      obtain ⟨j, hj, rfl⟩ := h
      exact ⟨j, ih j hj, rfl⟩

/-- what was just stored can be read back, by observable and by tag -/
theorem store_get (s : Store) (hs : StoreInv s) (u tag : Nat) (t : Rat) (v : Int)
    (h : (storeRaw s u tag t v).err = none) :
    getResult (storeRaw s u tag t v).st u t = .ok v ∧
    findByObs (storeRaw s u tag t v).st u = .ok u ∧
    findByTag (storeRaw s u tag t v).st tag = .ok u := by
  rw [storeRaw_ok_st s u tag t v h]
  obtain ⟨hc, _⟩ := (storeRaw_ok_iff s u tag t v).mp h
  have hnot : t ∉ timesOf s u := hc
  have hlen := (hs u).2
  refine ⟨?_, ?_, ?_⟩
  · unfold getResult
    simp only [alookup_aset_eq, idxOfTime_append_new _ _ hnot]
    simp [hlen]
  · simp [findByObs, alookup_aset_eq]
  · simp [findByTag, alookup_aset_eq]

/-- later calls (successful or raising) never lose or change a stored value -/
theorem store_preserves (s : Store) (hs : StoreInv s) (u0 : Nat) (t0 : Rat) (v0 : Int)
    (h0 : getResult s u0 t0 = .ok v0) (u tag : Nat) (t : Rat) (v : Int) :
    getResult (storeRaw s u tag t v).st u0 t0 = .ok v0 := by
  by_cases herr : (storeRaw s u tag t v).err = none
  · rw [storeRaw_ok_st s u tag t v herr]
    by_cases hu : u0 = u
    · subst hu
      unfold getResult at h0 ⊢
      simp only [alookup_aset_eq]
      cases h1 : alookup u0 s.times with
      | none => simp [h1] at h0
      | some ts =>
        cases h2 : alookup u0 s.vals with
        | none => simp [h1, h2] at h0
        | some vs =>
          simp only [h1, h2] at h0
          cases h3 : idxOfTime t0 ts with
          | none => simp [h3] at h0
          | some i =>
            simp only [h3] at h0
            have e1 : timesOf s u0 = ts := by simp [timesOf, h1]
            have e2 : valsOf s u0 = vs := by simp [valsOf, h2]
            rw [e1, e2, idxOfTime_append_old ts t t0 i h3]
            have hi := idxOfTime_lt h3
            have hlen := (hs u0).2
            rw [e1, e2] at hlen
            have : (vs ++ [v])[i]? = vs[i]? := by
              rw [List.getElem?_append_left (by omega)]
            simp only [this]
            exact h0
    · unfold getResult at h0 ⊢
      simp only [alookup_aset_ne _ _ _ _ hu]
      exact h0
  · obtain ⟨ht, hv⟩ := storeRaw_err_st s u tag t v herr
    unfold getResult at h0 ⊢
    rw [hv, ht]
    by_cases hu : u0 = u
    · subst hu
      rw [alookup_aset_eq]
      cases h1 : alookup u0 s.times with
      | none => simp [h1] at h0
      | some ts => simpa [timesOf, h1] using h0
    · rw [alookup_aset_ne _ _ _ _ hu]; exact h0

/-- storing a second value at a time that already has one raises and changes nothing -/
theorem store_twice_raises (s : Store) (u tag tag' : Nat) (t : Rat) (v v' : Int)
    (h : (storeRaw s u tag t v).err = none) :
    (storeRaw (storeRaw s u tag t v).st u tag' t v').err = some .runtime ∧
    (storeRaw (storeRaw s u tag t v).st u tag' t v').st = (storeRaw s u tag t v).st := by
  rw [storeRaw_ok_st s u tag t v h]
  unfold storeRaw
  simp only [alookup_aset_eq, Option.getD_some]
  have : (timesOf s u ++ [t]).contains t = true := by simp
  simp only [this, if_true, true_and]
  congr 1
  apply aset_self
  simp [alookup_aset_eq]

/-! ### 6. evaluation times, configuration -/

theorem inTimes_iff (t : Rat) (l : List Rat) (tol : Rat) :
    inTimes t l tol = true ↔ (0 ≤ t ∧ t ≤ 1 ∧ ∃ x ∈ l, absR (x - t) ≤ tol) := by
  unfold inTimes
  simp [and_assoc]

theorem shouldEvaluate_code_eq_spec_iff (own : Option (List Rat)) (dflt : DefaultTimes) (t tol : Rat) :
    shouldEvaluateCode own dflt t tol = shouldEvaluateSpec own dflt t tol ↔
      (own = none ∨ isEvaluationTime dflt t tol = false ∨
        ∃ l, own = some l ∧ inTimes t l tol = true) := by
  cases own with
  | none => simp [shouldEvaluateCode, shouldEvaluateSpec]
  | some l =>
    simp only [shouldEvaluateCode, shouldEvaluateSpec]
    cases h1 : inTimes t l tol <;> cases h2 : isEvaluationTime dflt t tol <;> simp [h1]

theorem shouldEvaluate_spec_imp_code (own : Option (List Rat)) (dflt : DefaultTimes) (t tol : Rat)
    (h : shouldEvaluateSpec own dflt t tol = true) : shouldEvaluateCode own dflt t tol = true := by
  cases own with
  | none => simpa [shouldEvaluateCode, shouldEvaluateSpec] using h
  | some l => simp only [shouldEvaluateCode, shouldEvaluateSpec] at h ⊢; simp [h]

theorem relTime_roundtrip (T : Nat) (hT : T ≠ 0) (rel : Rat) :
    relTime T (rel * ((T : Rat) / 1000)) = rel := by
  unfold relTime
  have : (T : Rat) ≠ 0 := by exact_mod_cast hT
  field_simp

theorem absR_nonneg (x : Rat) : 0 ≤ absR x := by
  unfold absR; split <;> linarith

theorem absR_le_iff (x b : Rat) : absR x ≤ b ↔ (-b ≤ x ∧ x ≤ b) := by
  unfold absR
  split
  · constructor
    · intro h; constructor <;> linarith
    · intro h; linarith [h.1]
  · constructor
    · intro h; constructor <;> linarith
    · intro h; exact h.2

/-- Two different integer-nanosecond instants are further apart than the matching tolerance. -/
theorem tol_separates (T : Nat) (hT : T ≠ 0) (k1 k2 : Nat) (hk : k1 ≠ k2) :
    ¬ absR ((k1 : Rat) / T - (k2 : Rat) / T) ≤ timeTol T := by
  have hTpos : (0 : Rat) < T := by exact_mod_cast Nat.pos_of_ne_zero hT
  unfold timeTol
  simp only [hT, if_false]
  rw [absR_le_iff]
  intro ⟨h1, h2⟩
  have e : (k1 : Rat) / T - (k2 : Rat) / T = ((k1 : Rat) - k2) / T := by ring
  rw [e] at h1 h2
  rw [div_le_div_iff_of_pos_right hTpos] at h2
  have h1' : -(1/2 : Rat) ≤ (k1 : Rat) - k2 := by
    have := (div_le_div_iff_of_pos_right hTpos).mp (by simpa [neg_div] using h1 : (-(1/2) : Rat) / T ≤ ((k1 : Rat) - k2) / T)
    linarith
  rcases Nat.lt_or_gt_of_ne hk with h | h
  · have : (k1 : Rat) + 1 ≤ k2 := by exact_mod_cast h
    linarith
  · have : (k2 : Rat) + 1 ≤ k1 := by exact_mod_cast h
    linarith

/-- A float error below half a nanosecond still matches the requested time. -/
theorem tol_matches (T : Nat) (rel t : Rat) (h0 : 0 ≤ t) (h1 : t ≤ 1)
    (h : absR (rel - t) ≤ timeTol T) : inTimes t [rel] (timeTol T) = true := by
  rw [inTimes_iff]; exact ⟨h0, h1, rel, by simp, h⟩

theorem mem_insertUniq (x y : Rat) (l : List Rat) : y ∈ insertUniq x l ↔ (y = x ∨ y ∈ l) := by
  induction l with
  | nil => simp [insertUniq]
  | cons a l ih =>
    unfold insertUniq
    split
    · simp
    · split
      · rename_i h; subst h; simp
      · simp [ih]; tauto

theorem insertUniq_strictAsc (x : Rat) (l : List Rat) (h : StrictAsc l) : StrictAsc (insertUniq x l) := by
  induction l with
  | nil => simp [insertUniq, StrictAsc]
  | cons a l ih =>
    unfold insertUniq
    obtain ⟨ha, hl⟩ := List.pairwise_cons.mp h
    split
    · rename_i hxa
      refine List.pairwise_cons.mpr ⟨?_, h⟩
      intro y hy
      rcases List.mem_cons.mp hy with rfl | hy
      · exact hxa
      · exact lt_trans hxa (ha y hy)
    · split
      · exact h
      · rename_i h1 h2
        refine List.pairwise_cons.mpr ⟨?_, ih hl⟩
        intro y hy
        rcases (mem_insertUniq x y l).mp hy with rfl | hy
        · rcases lt_trichotomy y a with h3 | h3 | h3
          · exact absurd h3 h1
          · exact absurd h3 h2
          · exact h3
        · exact ha y hy

theorem union1d_strictAsc (a b : List Rat) : StrictAsc (union1d a b) := by
  unfold union1d
  induction (a ++ b) with
  | nil => simp [StrictAsc]
  | cons x l ih => simpa using insertUniq_strictAsc x _ ih

theorem mem_union1d (a b : List Rat) (y : Rat) : y ∈ union1d a b ↔ (y ∈ a ∨ y ∈ b) := by
  unfold union1d
  rw [← List.mem_append]
  induction (a ++ b) with
  | nil => simp
  | cons x l ih => simp [mem_insertUniq, ih]

theorem strictAsc_map_mul (l : List Rat) (c : Rat) (hc : 0 < c) (h : StrictAsc l) :
    StrictAsc (l.map (· * c)) := by
  unfold StrictAsc at *
  rw [List.pairwise_map]
  exact h.imp (fun hab => by nlinarith)

theorem linspaceInt_le (last m : Nat) : ∀ k ∈ linspaceInt last m, k ≤ last := by
  intro k hk
  unfold linspaceInt at hk
  split at hk
  · simp at hk
  · split at hk
    · simp at hk; omega
    · rename_i h0 h1
      simp only [List.mem_map, List.mem_range] at hk
      obtain ⟨i, hi, rfl⟩ := hk
      apply Nat.div_le_of_le_mul
      have : i ≤ m - 1 := by omega
      exact Nat.mul_le_mul_right last this

/-- The evaluation times handed to the legacy emulator are strictly ascending (hence duplicate free). -/
theorem legacyEvalTimesRaw_sorted (dflt : DefaultTimes) (extras : List Rat) (T m : Nat) (hT : T ≠ 0)
    (hd : ∀ l, dflt = .times l → StrictAsc l) (r : List Rat)
    (h : legacyEvalTimesRaw dflt extras T m = some r) : StrictAsc r := by
  have hpos : (0 : Rat) < (T : Rat) / 1000 := by
    have : (0 : Rat) < T := by exact_mod_cast Nat.pos_of_ne_zero hT
    exact div_pos this (by norm_num)
  unfold legacyEvalTimesRaw at h
  simp only at h
  split at h
  · cases dflt with
    | full => simp at h
    | times l =>
      simp only [Option.some.injEq] at h
      subst h
      exact strictAsc_map_mul _ _ hpos (hd l rfl)
  · simp only [Option.some.injEq] at h
    subst h
    exact strictAsc_map_mul _ _ hpos (union1d_strictAsc _ _)

/-- ... and lie within `[0, T/1000]` when all relative times are within `[0, 1]`. -/
theorem legacyEvalTimesRaw_bounds (dflt : DefaultTimes) (extras : List Rat) (T m : Nat) (hT : T ≠ 0)
    (hd : ∀ l, dflt = .times l → ∀ x ∈ l, 0 ≤ x ∧ x ≤ 1)
    (he : ∀ x ∈ extras, 0 ≤ x ∧ x ≤ 1) (r : List Rat)
    (h : legacyEvalTimesRaw dflt extras T m = some r) : ∀ x ∈ r, 0 ≤ x ∧ x ≤ (T : Rat) / 1000 := by
  have hTpos : (0 : Rat) < T := by exact_mod_cast Nat.pos_of_ne_zero hT
  have hpos : (0 : Rat) < (T : Rat) / 1000 := div_pos hTpos (by norm_num)
  have scale : ∀ y : Rat, 0 ≤ y ∧ y ≤ 1 → 0 ≤ y * ((T : Rat) / 1000) ∧ y * ((T : Rat) / 1000) ≤ (T : Rat) / 1000 := by
    intro y ⟨h0, h1⟩
    constructor
    · exact mul_nonneg h0 (le_of_lt hpos)
    · nlinarith
  unfold legacyEvalTimesRaw at h
  simp only at h
  split at h
  · cases dflt with
    | full => simp at h
    | times l =>
      simp only [Option.some.injEq] at h
      subst h
      intro x hx
      obtain ⟨y, hy, rfl⟩ := List.mem_map.mp hx
      exact scale y (hd l rfl y hy)
  · simp only [Option.some.injEq] at h
    subst h
    intro x hx
    obtain ⟨y, hy, rfl⟩ := List.mem_map.mp hx
    apply scale
    rcases (mem_union1d _ _ y).mp hy with hy | hy
    · cases dflt with
      | times l => exact hd l rfl y hy
      | full =>
        simp only [samplingIndices, List.mem_map] at hy
        obtain ⟨i, hi, rfl⟩ := hy
        have hle := linspaceInt_le _ _ i hi
        have h1 : (i : Rat) ≤ T := by
          have : i ≤ T := by omega
          exact_mod_cast this
        constructor
        · exact div_nonneg (by exact_mod_cast Nat.zero_le i) (le_of_lt hTpos)
        · rw [div_le_iff₀ hTpos]; linarith
    · exact he y hy

theorem clipTo_of_le (b x : Rat) (h : x ≤ b) : clipTo b x = x := by
  unfold clipTo; simp [h]

theorem clipTo_le (b x : Rat) : clipTo b x ≤ b := by
  unfold clipTo; split
  · assumption
  · exact le_refl _

/-- With relative times inside `[0, 1]` the clipping (repair of F30) never changes anything over
the rationals. -/
theorem legacyEvalTimes_eq_raw (dflt : DefaultTimes) (extras : List Rat) (T m : Nat) (hT : T ≠ 0)
    (hd : ∀ l, dflt = .times l → ∀ x ∈ l, 0 ≤ x ∧ x ≤ 1)
    (he : ∀ x ∈ extras, 0 ≤ x ∧ x ≤ 1) :
    legacyEvalTimes dflt extras T m = legacyEvalTimesRaw dflt extras T m := by
  unfold legacyEvalTimes
  cases h : legacyEvalTimesRaw dflt extras T m with
  | none => rfl
  | some l =>
    simp only [Option.map_some, Option.some.injEq]
    have hb := legacyEvalTimesRaw_bounds dflt extras T m hT hd he l h
    calc l.map (clipTo ((T : Rat) / 1000)) = l.map id := by
          apply List.map_congr_left
          intro x hx
          exact clipTo_of_le _ _ (hb x hx).2
      _ = l := List.map_id l

/-- Whatever the inputs, no converted time exceeds the duration. -/
theorem legacyEvalTimes_le (dflt : DefaultTimes) (extras : List Rat) (T m : Nat) (r : List Rat)
    (h : legacyEvalTimes dflt extras T m = some r) : ∀ x ∈ r, x ≤ (T : Rat) / 1000 := by
  unfold legacyEvalTimes at h
  cases hr : legacyEvalTimesRaw dflt extras T m with
  | none => simp [hr] at h
  | some l =>
    simp only [hr, Option.map_some, Option.some.injEq] at h
    subst h
    intro x hx
    obtain ⟨y, _, rfl⟩ := List.mem_map.mp hx
    exact clipTo_le _ _

theorem legacyEvalTimes_sorted (dflt : DefaultTimes) (extras : List Rat) (T m : Nat) (hT : T ≠ 0)
    (hs : ∀ l, dflt = .times l → StrictAsc l)
    (hd : ∀ l, dflt = .times l → ∀ x ∈ l, 0 ≤ x ∧ x ≤ 1)
    (he : ∀ x ∈ extras, 0 ≤ x ∧ x ≤ 1) (r : List Rat)
    (h : legacyEvalTimes dflt extras T m = some r) : StrictAsc r := by
  rw [legacyEvalTimes_eq_raw dflt extras T m hT hd he] at h
  exact legacyEvalTimesRaw_sorted dflt extras T m hT hs r h

theorem legacyEvalTimes_bounds (dflt : DefaultTimes) (extras : List Rat) (T m : Nat) (hT : T ≠ 0)
    (hd : ∀ l, dflt = .times l → ∀ x ∈ l, 0 ≤ x ∧ x ≤ 1)
    (he : ∀ x ∈ extras, 0 ≤ x ∧ x ≤ 1) (r : List Rat)
    (h : legacyEvalTimes dflt extras T m = some r) : ∀ x ∈ r, 0 ≤ x ∧ x ≤ (T : Rat) / 1000 := by
  rw [legacyEvalTimes_eq_raw dflt extras T m hT hd he] at h
  exact legacyEvalTimesRaw_bounds dflt extras T m hT hd he r h

/-- `set_evaluation_times` over the rationals never rejects such a list, and returns it with the end points. -/
theorem setEvaluationTimes_spec (T : Nat) (value : List Rat)
    (hv : ∀ x ∈ value, 0 ≤ x ∧ x ≤ (T : Rat) / 1000) :
    ∃ r, setEvaluationTimes T value = some r ∧ StrictAsc r ∧
      ∀ y, y ∈ r ↔ (y ∈ value ∨ y = 0 ∨ y = (T : Rat) / 1000) := by
  unfold setEvaluationTimes
  have h1 : (value.any fun x => decide ((T : Rat) / 1000 < x)) = false := by
    rw [List.any_eq_false]; intro x hx; simpa using (hv x hx).2
  have h2 : (value.any fun x => decide (x < 0)) = false := by
    rw [List.any_eq_false]; intro x hx; simpa using (hv x hx).1
  simp only [h1, h2, Bool.false_eq_true, if_false]
  exact ⟨_, rfl, union1d_strictAsc _ _, fun y => by simp [mem_union1d]⟩

theorem validateEvalTimes_ok (l l' : List Rat) (h : validateEvalTimes l = .ok l') : l' = l := by
  unfold validateEvalTimes at h
  split at h
  · simp at h
  · split at h
    · simp at h
    · split at h
      · simp at h
      · simp at h; exact h.symm

/-- Re-creating a configuration from its stored options gives the same configuration. -/
theorem cfgInit_idempotent (a c : CfgArgs) (h : cfgInit a = .ok c) : cfgInit c = .ok c := by
  unfold cfgInit at h
  split at h
  · simp at h
  · rename_i hs
    cases hd : a.dflt with
    | full =>
      simp only [hd] at h
      have : c = a := by simpa using h.symm
      subst this
      unfold cfgInit; simp only [hs, hd]; rfl
    | times l =>
      simp only [hd] at h
      cases hv : validateEvalTimes l with
      | error e => simp [hv] at h
      | ok l' =>
        have hl := validateEvalTimes_ok l l' hv
        subst hl
        simp only [hv] at h
        have : c = { a with dflt := .times l' } := by simpa using h.symm
        subst this
        unfold cfgInit
        simp only [hs, hv]; rfl

/-! ### 7. complex rationals, matrices, operators -/

namespace CQ
@[ext] theorem ext' {a b : CQ} (h1 : a.re = b.re) (h2 : a.im = b.im) : a = b := by
  cases a; cases b; simp_all

@[simp] theorem add_re (a b : CQ) : (a + b).re = a.re + b.re := rfl
@[simp] theorem add_im (a b : CQ) : (a + b).im = a.im + b.im := rfl
@[simp] theorem mul_re (a b : CQ) : (a * b).re = a.re * b.re - a.im * b.im := rfl
@[simp] theorem mul_im (a b : CQ) : (a * b).im = a.re * b.im + a.im * b.re := rfl
@[simp] theorem neg_re (a : CQ) : (-a).re = -a.re := rfl
@[simp] theorem neg_im (a : CQ) : (-a).im = -a.im := rfl
@[simp] theorem sub_re (a b : CQ) : (a - b).re = a.re - b.re := rfl
@[simp] theorem sub_im (a b : CQ) : (a - b).im = a.im - b.im := rfl
@[simp] theorem zero_re : (0 : CQ).re = 0 := rfl
@[simp] theorem zero_im : (0 : CQ).im = 0 := rfl
@[simp] theorem one_re : (1 : CQ).re = 1 := rfl
@[simp] theorem one_im : (1 : CQ).im = 0 := rfl
@[simp] theorem conj_re (a : CQ) : a.conj.re = a.re := rfl
@[simp] theorem conj_im (a : CQ) : a.conj.im = -a.im := rfl

instance : CommRing CQ :=
  CommRing.ofMinimalAxioms
    (by intro a b c; ext <;> simp <;> ring)
    (by intro a; ext <;> simp)
    (by intro a; ext <;> simp)
    (by intro a b c; ext <;> simp <;> ring)
    (by intro a b; ext <;> simp <;> ring)
    (by intro a; ext <;> simp)
    (by intro a b c; ext <;> simp <;> ring)

theorem sub_eq (a b : CQ) : a - b = a + -b := by ext <;> simp <;> ring
end CQ

theorem sumTo_congr (n : Nat) (g h : Nat → CQ) (e : ∀ k, k < n → g k = h k) : sumTo n g = sumTo n h := by
  induction n with
  | zero => rfl
  | succ n ih =>
    simp only [sumTo]
    rw [ih (fun k hk => e k (by omega)), e n (by omega)]

theorem sumTo_mul_left (n : Nat) (c : CQ) (g : Nat → CQ) : c * sumTo n g = sumTo n (fun k => c * g k) := by
  induction n with
  | zero => simp [sumTo]
  | succ n ih => simp only [sumTo, mul_add, ih]

theorem sumTo_one (g : Nat → CQ) : sumTo 1 g = g 0 := by simp [sumTo]

/-- `Tr(A |ψ⟩⟨ψ|) = ⟨ψ|A|ψ⟩`: the density-matrix and the state-vector formula agree on pure states. -/
theorem expectDM_pure (A psi : Mat) (hc : psi.c = 1) (hr : A.r = psi.r) :
    expectDM A (pureDM psi) = expectKet A psi := by
  unfold expectDM expectKet pureDM Mat.trace Mat.mul Mat.dagger
  simp only [hc, sumTo_one, hr]
  apply sumTo_congr
  intro k _
  rw [sumTo_mul_left]
  apply sumTo_congr
  intro j _
  ring

theorem kron_entry (A B : Mat) (i j k l : Nat) (hk : k < B.r) (hl : l < B.c) :
    (Mat.kron A B).f (i * B.r + k) (j * B.c + l) = A.f i j * B.f k l := by
  have hr : 0 < B.r := by omega
  have hc : 0 < B.c := by omega
  simp only [Mat.kron]
  have e1 : (i * B.r + k) / B.r = i := by
    rw [Nat.add_comm, Nat.add_mul_div_right _ _ hr, Nat.div_eq_of_lt hk, Nat.zero_add]
  have e2 : (j * B.c + l) / B.c = j := by
    rw [Nat.add_comm, Nat.add_mul_div_right _ _ hc, Nat.div_eq_of_lt hl, Nat.zero_add]
  have e3 : (i * B.r + k) % B.r = k := by
    rw [Nat.add_comm, Nat.add_mul_mod_self_right, Nat.mod_eq_of_lt hk]
  have e4 : (j * B.c + l) % B.c = l := by
    rw [Nat.add_comm, Nat.add_mul_mod_self_right, Nat.mod_eq_of_lt hl]
  rw [e1, e2, e3, e4]

def AllDim (d : Nat) (slots : List Mat) : Prop := ∀ A ∈ slots, A.r = d ∧ A.c = d

def Digits (d : Nat) (σ : List Nat) : Prop := ∀ a ∈ σ, a < d

theorem kronList_dim (d : Nat) (slots : List Mat) (h : AllDim d slots) :
    (Mat.kronList slots).r = d ^ slots.length ∧ (Mat.kronList slots).c = d ^ slots.length := by
  induction slots with
  | nil => simp [Mat.kronList, Mat.ident]
  | cons A rest ih =>
    obtain ⟨h1, h2⟩ := ih (fun B hB => h B (List.mem_cons_of_mem _ hB))
    obtain ⟨h3, h4⟩ := h A List.mem_cons_self
    simp only [Mat.kronList, Mat.kron, h1, h2, h3, h4, List.length_cons, Nat.pow_succ]
    constructor <;> ring

theorem index_lt (d : Nat) (σ : List Nat) (h : Digits d σ) : index d σ < d ^ σ.length := by
  induction σ with
  | nil => simp [index]
  | cons a σ ih =>
    have ha : a < d := h a List.mem_cons_self
    have := ih (fun b hb => h b (List.mem_cons_of_mem _ hb))
    simp only [index, List.length_cons, Nat.pow_succ]
    calc a * d ^ σ.length + index d σ < a * d ^ σ.length + d ^ σ.length := by omega
      _ = (a + 1) * d ^ σ.length := by ring
      _ ≤ d * d ^ σ.length := Nat.mul_le_mul_right _ ha
      _ = d ^ σ.length * d := by ring

/-- Entry `(σ, τ)` of the Kronecker product of the slot operators is the product of the
single-qudit entries. -/
theorem kronList_entry (d : Nat) (slots : List Mat) (h : AllDim d slots) :
    ∀ (σ τ : List Nat), σ.length = slots.length → τ.length = slots.length →
      Digits d σ → Digits d τ →
      (Mat.kronList slots).f (index d σ) (index d τ) = prodEntry slots σ τ := by
  induction slots with
  | nil =>
    intro σ τ hs ht _ _
    have : σ = [] := by simpa using hs
    subst this
    have : τ = [] := by simpa using ht
    subst this
    simp [Mat.kronList, Mat.ident, index, prodEntry]
  | cons A rest ih =>
    intro σ τ hs ht hds hdt
    cases σ with
    | nil => simp at hs
    | cons a σ =>
      cases τ with
      | nil => simp at ht
      | cons b τ =>
        have hrest : AllDim d rest := fun B hB => h B (List.mem_cons_of_mem _ hB)
        obtain ⟨hr, hc⟩ := kronList_dim d rest hrest
        have hs' : σ.length = rest.length := by simpa using hs
        have ht' : τ.length = rest.length := by simpa using ht
        have hds' : Digits d σ := fun x hx => hds x (List.mem_cons_of_mem _ hx)
        have hdt' : Digits d τ := fun x hx => hdt x (List.mem_cons_of_mem _ hx)
        have l1 := index_lt d σ hds'
        have l2 := index_lt d τ hdt'
        simp only [Mat.kronList, index, prodEntry]
        have e1 : a * d ^ σ.length = a * (Mat.kronList rest).r := by rw [hr, hs']
        have e2 : b * d ^ τ.length = b * (Mat.kronList rest).c := by rw [hc, ht']
        rw [e1, e2, kron_entry _ _ _ _ _ _ (by rw [hr, ← hs']; exact l1) (by rw [hc, ← ht']; exact l2)]
        rw [ih hrest σ τ hs' ht' hds' hdt']

theorem buildQuditOp_dim (d : Nat) (q : QuditOp) : (buildQuditOp d q).r = d ∧ (buildQuditOp d q).c = d := by
  induction q with
  | nil => simp [buildQuditOp, Mat.zero]
  | cons e rest ih =>
    obtain ⟨i, j, z⟩ := e
    simpa [buildQuditOp, Mat.add] using ih

theorem slotOps_dim (d n : Nat) (t : TensorOp) : AllDim d (slotOps d n t) ∧ (slotOps d n t).length = n := by
  unfold slotOps
  have base : AllDim d (List.replicate n (Mat.ident d)) ∧ (List.replicate n (Mat.ident d)).length = n := by
    refine ⟨?_, by simp⟩
    intro A hA
    have := List.eq_of_mem_replicate hA
    subst this; simp [Mat.ident]
  generalize List.replicate n (Mat.ident d) = s0 at base
  induction t generalizing s0 with
  | nil => simpa using base
  | cons g rest ih =>
    obtain ⟨q, inds⟩ := g
    simp only [List.foldl_cons]
    apply ih
    clear ih
    induction inds generalizing s0 with
    | nil => simpa using base
    | cons ind inds ih2 =>
      simp only [List.foldl_cons]
      apply ih2
      obtain ⟨b1, b2⟩ := base
      split
      · refine ⟨?_, by simpa using b2⟩
        intro A hA
        rcases List.mem_or_eq_of_mem_set hA with hA | hA
        · exact b1 A hA
        · subst hA; exact buildQuditOp_dim d q
      · exact ⟨b1, b2⟩

/-- **`operator_from_repr`**: the operator built by `from_operator_repr` (Kronecker products of the
slot operators, summed with the coefficients) has the documented entries. -/
theorem fromRepr_entry (d n : Nat) (fo : FullOp) (σ τ : List Nat)
    (hs : σ.length = n) (ht : τ.length = n) (hds : Digits d σ) (hdt : Digits d τ) :
    (fromRepr d n fo).f (index d σ) (index d τ) = fromReprEntry d n fo σ τ := by
  induction fo with
  | nil => simp [fromRepr, fromReprEntry, Mat.zero]
  | cons term rest ih =>
    obtain ⟨z, t⟩ := term
    obtain ⟨hdim, hlen⟩ := slotOps_dim d n t
    simp only [fromRepr, fromReprEntry, Mat.add, Mat.smul]
    rw [ih, kronList_entry d _ hdim σ τ (by rw [hlen, hs]) (by rw [hlen, ht]) hds hdt]

/-! ### 8. enumeration of bitstrings, tags, linear algebra laws -/

theorem allBits_length (n : Nat) : (allBits n).length = 2 ^ n := by
  induction n with
  | zero => rfl
  | succ n ih => simp [allBits, ih, Nat.pow_succ]; omega

theorem allBits_succ (n : Nat) :
    allBits (n + 1) = (allBits n).map (false :: ·) ++ (allBits n).map (true :: ·) := by
  simp [allBits]

/-- position `int(b, 2)` of the list of all bitstrings holds `b` -/
theorem allBits_getElem (b : List Bool) : (allBits b.length)[bitsIndex b]? = some b := by
  induction b with
  | nil => rfl
  | cons x bs ih =>
    have hlt := bitsIndex_lt bs
    simp only [List.length_cons, allBits_succ, bitsIndex]
    cases x with
    | false =>
      simp only [Bool.false_eq_true, if_false, Nat.zero_mul, Nat.zero_add]
      rw [List.getElem?_append_left (by simp [allBits_length]; exact hlt)]
      simp [ih]
    | true =>
      simp only [if_true, Nat.one_mul]
      rw [List.getElem?_append_right (by simp [allBits_length])]
      simp [allBits_length, ih]

theorem lookup_map_allBits (f : List Bool → Rat) (b : List Bool) :
    lookup ((allBits b.length).map f) (bitsIndex b) = f b := by
  unfold lookup
  simp [List.getD_eq_getElem?_getD, allBits_getElem]

theorem storeRaw_tagmap (s : Store) (u' tag' : Nat) (t : Rat) (v : Int) :
    (storeRaw s u' tag' t v).st.tagmap = s.tagmap ∨
    (storeRaw s u' tag' t v).st.tagmap = aset tag' u' s.tagmap := by
  unfold storeRaw
  simp only
  split
  · exact Or.inl rfl
  · split
    · exact Or.inr rfl
    · exact Or.inr rfl

theorem findByTag_preserved (s : Store) (u tag u' tag' : Nat) (t : Rat) (v : Int)
    (h : findByTag s tag = .ok u) (hne : tag' ≠ tag ∨ u' = u) :
    findByTag (storeRaw s u' tag' t v).st tag = .ok u := by
  unfold findByTag at h ⊢
  rcases storeRaw_tagmap s u' tag' t v with e | e
  · rw [e]; exact h
  · rw [e]
    by_cases e2 : tag = tag'
    · subst e2
      rcases hne with hne | hne
      · exact absurd rfl hne
      · subst hne; simp [alookup_aset_eq]
    · rw [alookup_aset_ne _ _ _ _ e2]; exact h

/-- the diagonal of `|ψ⟩⟨ψ|` holds the squared moduli of the amplitudes -/
theorem probs_pure (psi : Mat) (hc : psi.c = 1) : probsDM (pureDM psi) = probsKet psi := by
  unfold probsDM probsKet pureDM Mat.mul Mat.dagger
  simp only [hc, sumTo_one]
  apply List.map_congr_left
  intro i _
  simp [CQ.normSq]

theorem sumTo_add (n : Nat) (g h : Nat → CQ) : sumTo n (fun k => g k + h k) = sumTo n g + sumTo n h := by
  induction n with
  | zero => simp [sumTo]
  | succ n ih => simp only [sumTo, ih]; ring

theorem sumTo_zero (n : Nat) : sumTo n (fun _ => 0) = 0 := by
  induction n with
  | zero => rfl
  | succ n ih => simp [sumTo, ih]

theorem sumTo_swap (n m : Nat) (g : Nat → Nat → CQ) :
    sumTo n (fun i => sumTo m (fun j => g i j)) = sumTo m (fun j => sumTo n (fun i => g i j)) := by
  induction n with
  | zero => simp [sumTo, sumTo_zero]
  | succ n ih => simp only [sumTo, ih, sumTo_add]

theorem sumTo_mul_right (n : Nat) (c : CQ) (g : Nat → CQ) : sumTo n g * c = sumTo n (fun k => g k * c) := by
  induction n with
  | zero => simp [sumTo]
  | succ n ih => simp only [sumTo, add_mul, ih]

/-- matrix product is associative entry-wise: composing then applying = applying twice -/
theorem mul_assoc_entry (A B C : Mat) (i j : Nat) :
    (Mat.mul (Mat.mul A B) C).f i j = (Mat.mul A (Mat.mul B C)).f i j := by
  simp only [Mat.mul]
  -- Σ_k (Σ_l A i l * B l k) * C k j  =  Σ_l A i l * Σ_k B l k * C k j
  have e1 : ∀ k, (sumTo A.c fun l => A.f i l * B.f l k) * C.f k j
      = sumTo A.c fun l => A.f i l * B.f l k * C.f k j := fun k => sumTo_mul_right _ _ _
  have e2 : ∀ l, A.f i l * (sumTo B.c fun k => B.f l k * C.f k j)
      = sumTo B.c fun k => A.f i l * (B.f l k * C.f k j) := fun l => sumTo_mul_left _ _ _
  simp only [e1, e2]
  rw [sumTo_swap]
  apply sumTo_congr; intro l _
  apply sumTo_congr; intro k _
  ring

theorem expectDM_add (A B rho : Mat) (h : B.c = A.c) (hr : B.r = A.r) :
    expectDM (Mat.add A B) rho = expectDM A rho + expectDM B rho := by
  simp only [expectDM, Mat.trace, Mat.mul, Mat.add, h, hr]
  rw [← sumTo_add]
  apply sumTo_congr; intro k _
  rw [← sumTo_add]
  apply sumTo_congr; intro j _
  ring

theorem expectDM_smul (z : CQ) (A rho : Mat) :
    expectDM (Mat.smul z A) rho = z * expectDM A rho := by
  simp only [expectDM, Mat.trace, Mat.mul, Mat.smul]
  rw [sumTo_mul_left]
  apply sumTo_congr; intro k _
  rw [sumTo_mul_left]
  apply sumTo_congr; intro j _
  ring

/-! ### 9. basis-state enumeration, number operators, occupation -/

theorem allStates_length (d : Nat) : ∀ (n : Nat) (σ : List Nat), σ ∈ allStates d n → σ.length = n := by
  intro n
  induction n with
  | zero => intro σ h; simp [allStates] at h; subst h; rfl
  | succ n ih =>
    intro σ h
    simp only [allStates, List.mem_flatMap, List.mem_map] at h
    obtain ⟨a, _, τ, hτ, rfl⟩ := h
    simp [ih τ hτ]

theorem allStates_digits (d : Nat) : ∀ (n : Nat) (σ : List Nat), σ ∈ allStates d n → Digits d σ := by
  intro n
  induction n with
  | zero => intro σ h; simp [allStates] at h; subst h; intro a ha; simp at ha
  | succ n ih =>
    intro σ h
    simp only [allStates, List.mem_flatMap, List.mem_map, List.mem_range] at h
    obtain ⟨a, ha, τ, hτ, rfl⟩ := h
    intro b hb
    rcases List.mem_cons.mp hb with rfl | hb
    · exact ha
    · exact ih τ hτ b hb

theorem range_flatMap_block (d m : Nat) :
    (List.range d).flatMap (fun a => (List.range m).map (a * m + ·)) = List.range (d * m) := by
  induction d with
  | zero => simp
  | succ d ih =>
    rw [List.range_succ, List.flatMap_append, ih]
    simp only [List.flatMap_cons, List.flatMap_nil, List.append_nil]
    rw [Nat.succ_mul, List.range_add]

/-- the basis states are listed in state-vector order: the k-th one has index k -/
theorem allStates_index (d n : Nat) : (allStates d n).map (index d) = List.range (d ^ n) := by
  induction n with
  | zero => simp [allStates, index]
  | succ n ih =>
    simp only [allStates, List.map_flatMap, List.map_map]
    have : ∀ a, List.map (index d ∘ fun x => a :: x) (allStates d n)
        = (List.range (d ^ n)).map (a * d ^ n + ·) := by
      intro a
      rw [← ih, List.map_map]
      apply List.map_congr_left
      intro σ hσ
      simp [index, allStates_length d n σ hσ]
    simp only [this]
    rw [range_flatMap_block, Nat.pow_succ, Nat.mul_comm]

theorem sumTo_eq_list (n : Nat) (g : Nat → CQ) : sumTo n g = ((List.range n).map g).sum := by
  induction n with
  | zero => simp [sumTo]
  | succ n ih => simp [sumTo, ih, List.range_succ]

/-- a sum over positions of a state vector is a sum over basis states -/
theorem sumTo_states (d n : Nat) (g : Nat → CQ) :
    sumTo (d ^ n) g = ((allStates d n).map fun σ => g (index d σ)).sum := by
  rw [sumTo_eq_list, ← allStates_index, List.map_map]
  rfl


/-- the projector `|one⟩⟨one|` as `build_qudit_op` makes it -/
theorem numberQudit_entry (d one a b : Nat) :
    (buildQuditOp d [(one, one, 1)]).f a b = if a = one ∧ b = one then 1 else 0 := by
  simp [buildQuditOp, Mat.add, Mat.smul, Mat.proj, Mat.zero]

theorem ident_f (d a b : Nat) : (Mat.ident d).f a b = if a = b then 1 else 0 := rfl

theorem prodEntry_ident (d : Nat) : ∀ (n : Nat) (σ τ : List Nat), σ.length = n → τ.length = n →
    prodEntry (List.replicate n (Mat.ident d)) σ τ = if σ = τ then 1 else 0 := by
  intro n
  induction n with
  | zero =>
    intro σ τ hs ht
    have : σ = [] := by simpa using hs
    subst this
    have : τ = [] := by simpa using ht
    subst this
    simp [prodEntry]
  | succ n ih =>
    intro σ τ hs ht
    cases σ with
    | nil => simp at hs
    | cons a σ =>
      cases τ with
      | nil => simp at ht
      | cons b τ =>
        simp only [List.replicate_succ, prodEntry, ident_f]
        rw [ih σ τ (by simpa using hs) (by simpa using ht)]
        by_cases hab : a = b <;> by_cases hst : σ = τ <;> simp [hab, hst]

set_option linter.unnecessarySeqFocus false in
/-- entries of the tensor product `1 ⊗ … ⊗ |one⟩⟨one|_i ⊗ … ⊗ 1` -/
theorem prodEntry_number (d one : Nat) : ∀ (n i : Nat) (σ τ : List Nat), i < n → σ.length = n → τ.length = n →
    prodEntry ((List.replicate n (Mat.ident d)).set i (buildQuditOp d [(one, one, 1)])) σ τ
      = if σ = τ ∧ σ.getD i d = one then 1 else 0 := by
  intro n
  induction n with
  | zero => intro i σ τ hi; omega
  | succ n ih =>
    intro i σ τ hi hs ht
    cases σ with
    | nil => simp at hs
    | cons a σ =>
      cases τ with
      | nil => simp at ht
      | cons b τ =>
        have hs' : σ.length = n := by simpa using hs
        have ht' : τ.length = n := by simpa using ht
        cases i with
        | zero =>
          simp only [List.replicate_succ, List.set_cons_zero, prodEntry, numberQudit_entry,
            prodEntry_ident d n σ τ hs' ht', List.getD_cons_zero]
          by_cases ha : a = one <;> by_cases hb : b = one <;> by_cases hst : σ = τ <;>
            simp_all <;> omega
        | succ k =>
          simp only [List.replicate_succ, List.set_cons_succ, prodEntry, ident_f, List.getD_cons_succ]
          rw [ih k σ τ (by omega) hs' ht']
          by_cases hab : a = b <;> by_cases hst : σ = τ <;> simp [hab, hst]

theorem slotOps_number (d n one i : Nat) (hi : i < n) :
    slotOps d n [([(one, one, 1)], [i])]
      = (List.replicate n (Mat.ident d)).set i (buildQuditOp d [(one, one, 1)]) := by
  simp [slotOps, hi]

/-- the number operator `n_i` is the diagonal projector on `σᵢ = one` -/
theorem numberOp_entry (d n one i : Nat) (hi : i < n) (σ τ : List Nat)
    (hs : σ.length = n) (ht : τ.length = n) (hds : Digits d σ) (hdt : Digits d τ) :
    (numberOp d n one [i]).f (index d σ) (index d τ) = if σ = τ ∧ σ.getD i d = one then 1 else 0 := by
  unfold numberOp
  rw [fromRepr_entry d n _ σ τ hs ht hds hdt]
  simp only [fromReprEntry, slotOps_number d n one i hi, prodEntry_number d one n i σ τ hi hs ht]
  simp

theorem numberOp_dim (d n one i : Nat) :
    (numberOp d n one [i]).r = d ^ n ∧ (numberOp d n one [i]).c = d ^ n := by
  obtain ⟨h1, h2⟩ := slotOps_dim d n [([(one, one, 1)], [i])]
  obtain ⟨h3, h4⟩ := kronList_dim d _ h1
  simp only [numberOp, fromRepr, Mat.add, Mat.smul, h3, h4, h2]
  exact ⟨trivial, trivial⟩

theorem allStates_nodup (d n : Nat) : (allStates d n).Nodup := by
  have h : ((allStates d n).map (index d)).Nodup := by
    rw [allStates_index]; exact List.nodup_range
  exact List.Nodup.of_map _ h

theorem sum_ite_eq_of_nodup {α} [DecidableEq α] (L : List α) (hL : L.Nodup) (σ : α) (hσ : σ ∈ L) (h : α → CQ) :
    (L.map fun τ => if σ = τ then h τ else 0).sum = h σ := by
  induction L with
  | nil => simp at hσ
  | cons x L ih =>
    obtain ⟨hx, hL'⟩ := List.nodup_cons.mp hL
    simp only [List.map_cons, List.sum_cons]
    by_cases e : σ = x
    · subst e
      have : (L.map fun τ => if σ = τ then h τ else 0) = L.map fun _ => (0 : CQ) := by
        apply List.map_congr_left
        intro τ hτ
        have : σ ≠ τ := fun e => hx (e ▸ hτ)
        simp [this]
      rw [this]; simp
    · have hσ' : σ ∈ L := by
        rcases List.mem_cons.mp hσ with h1 | h1
        · exact absurd h1 e
        · exact h1
      simp [e, ih hL' hσ']

theorem sum_map_ite_filter {α} (L : List α) (p : α → Bool) (g : α → CQ) :
    (L.map fun σ => if p σ then g σ else 0).sum = ((L.filter p).map g).sum := by
  induction L with
  | nil => simp
  | cons x L ih => by_cases h : p x <;> simp [h, ih]

set_option linter.unusedSimpArgs false in
/-- **Occupation is its definition**: `Tr[ρ n_i] = Σ_σ ρ_σσ [σᵢ = one]`, for every density
matrix (indeed every matrix) `ρ`, every dimension and every number of qudits. -/
theorem occupation_eq (d n one i : Nat) (hi : i < n) (rho : Mat) :
    expectDM (numberOp d n one [i]) rho =
      (((allStates d n).filter fun σ => σ.getD i d == one).map fun σ =>
        rho.f (index d σ) (index d σ)).sum := by
  obtain ⟨hr, hc⟩ := numberOp_dim d n one i
  simp only [expectDM, Mat.trace, Mat.mul, hr, hc]
  rw [sumTo_states]
  have inner : ∀ σ ∈ allStates d n,
      (sumTo (d ^ n) fun k => (numberOp d n one [i]).f (index d σ) k * rho.f k (index d σ))
        = if σ.getD i d == one then rho.f (index d σ) (index d σ) else 0 := by
    intro σ hσ
    rw [sumTo_states]
    have hs := allStates_length d n σ hσ
    have hds := allStates_digits d n σ hσ
    have e : ((allStates d n).map fun τ =>
          (numberOp d n one [i]).f (index d σ) (index d τ) * rho.f (index d τ) (index d σ))
        = (allStates d n).map fun τ =>
          if σ = τ then (if σ.getD i d == one then rho.f (index d τ) (index d σ) else 0) else 0 := by
      apply List.map_congr_left
      intro τ hτ
      rw [numberOp_entry d n one i hi σ τ hs (allStates_length d n τ hτ) hds (allStates_digits d n τ hτ)]
      by_cases h1 : σ = τ <;> by_cases h2 : σ.getD i d = one <;> simp [h1, h2]
    rw [e, sum_ite_eq_of_nodup _ (allStates_nodup d n) σ hσ]
  rw [← sum_map_ite_filter]
  congr 1
  apply List.map_congr_left
  intro σ hσ
  exact inner σ hσ

theorem re_sum {α} (L : List α) (g : α → CQ) : ((L.map g).sum).re = (L.map fun x => (g x).re).sum := by
  induction L with
  | nil => simp
  | cons x L ih => simp [ih]

theorem lookup_probsDM (rho : Mat) (k : Nat) (hk : k < rho.r) : lookup (probsDM rho) k = (rho.f k k).re := by
  unfold lookup probsDM
  simp [List.getD_eq_getElem?_getD, hk]

/-- `⟨n_i⟩ = Σ_σ p_σ [σᵢ = one]` with `p` the diagonal of the state. -/
theorem occupation_re (d n one i : Nat) (hi : i < n) (rho : Mat) (hr : rho.r = d ^ n) :
    (expectDM (numberOp d n one [i]) rho).re = occupationSpec d n one (probsDM rho) i := by
  rw [occupation_eq d n one i hi rho, re_sum]
  unfold occupationSpec
  congr 1
  apply List.map_congr_left
  intro σ hσ
  have hσ' := (List.mem_filter.mp hσ).1
  have hlt := index_lt d σ (allStates_digits d n σ hσ')
  rw [allStates_length d n σ hσ'] at hlt
  rw [lookup_probsDM rho _ (by rw [hr]; exact hlt)]

/-! ### 10. energy second moment and variance (after the repair of F25/F26) -/

theorem sumTo_delta (n k : Nat) (hk : k < n) (g : Nat → CQ) :
    sumTo n (fun j => (if k = j then (1 : CQ) else 0) * g j) = g k := by
  induction n with
  | zero => omega
  | succ n ih =>
    simp only [sumTo]
    by_cases e : k = n
    · subst e
      have : sumTo k (fun j => (if k = j then (1 : CQ) else 0) * g j) = sumTo k (fun _ => 0) := by
        apply sumTo_congr
        intro j hj
        have : k ≠ j := by omega
        simp [this]
      rw [this, sumTo_zero]; simp
    · have hk' : k < n := by omega
      rw [ih hk']; simp [e]

/-- **The second moment stored by the tree is its definition** `Tr[ρ H²]`, for every state
(pure or mixed) and every Hermitian `H`: `identity.expect(H ρ H†) = Tr[H ρ H] = Tr[ρ H H]`. -/
theorem secondMomentCode_eq_def (H rho : Mat) (n : Nat) (hHr : H.r = n) (hHc : H.c = n)
    (hRc : rho.c = n) (herm : IsHermitian H n) :
    secondMomentCodeDM H rho = secondMomentDM H rho := by
  simp only [secondMomentCodeDM, secondMomentDM, expectDM, Mat.trace, Mat.mul, Mat.ident, applyDM,
    Mat.dagger, hHr, hHc, hRc]
  -- left: Σ_k Σ_j δ_kj Σ_b (Σ_a H j a ρ a b) conj(H k b)
  have e1 : ∀ k, k < n →
      (sumTo n fun j => (if k = j then (1 : CQ) else 0) *
        sumTo n fun b => (sumTo n fun a => H.f j a * rho.f a b) * (H.f k b).conj)
      = sumTo n fun b => sumTo n fun a => H.f k a * rho.f a b * H.f b k := by
    intro k hk
    rw [sumTo_delta n k hk]
    apply sumTo_congr
    intro b hb
    rw [herm b k hb hk, sumTo_mul_right]
  rw [sumTo_congr n _ _ e1]
  -- right: Σ_k Σ_j (Σ_a H k a H a j) ρ j k
  have e2 : ∀ k, k < n →
      (sumTo n fun j => (sumTo n fun a => H.f k a * H.f a j) * rho.f j k)
      = sumTo n fun j => sumTo n fun a => H.f k a * H.f a j * rho.f j k := by
    intro k _
    apply sumTo_congr
    intro j _
    rw [sumTo_mul_right]
  rw [sumTo_congr n (fun k => sumTo n fun j => (sumTo n fun a => H.f k a * H.f a j) * rho.f j k) _ e2]
  -- Σ_k Σ_b Σ_a f k a b  with f k a b = H k a ρ a b H b k ;  right = Σ_b' Σ_a' Σ_k' f k' a' b' after renaming
  rw [sumTo_swap n n (fun k b => sumTo n fun a => H.f k a * rho.f a b * H.f b k)]
  apply sumTo_congr
  intro b _
  rw [sumTo_swap n n (fun k a => H.f k a * rho.f a b * H.f b k)]
  apply sumTo_congr
  intro a _
  apply sumTo_congr
  intro k _
  ring

/-- ... and so is the variance. -/
theorem varianceCode_eq_def (H rho : Mat) (n : Nat) (hHr : H.r = n) (hHc : H.c = n)
    (hRc : rho.c = n) (herm : IsHermitian H n) :
    varianceCodeDM H rho = varianceDM H rho := by
  unfold varianceCodeDM varianceDM
  rw [secondMomentCode_eq_def H rho n hHr hHc hRc herm]

/-! ### 11. state-preparation errors -/

theorem decode_encode (bad : List Bool) : decodeConfig (encodeConfig bad) = bad := by
  induction bad with
  | nil => rfl
  | cons b bs ih =>
    simp only [decodeConfig, encodeConfig, List.map_cons] at ih ⊢
    rw [ih]; cases b <;> simp

theorem mem_allBits_length (n : Nat) (b : List Bool) (h : b ∈ allBits n) : b.length = n := by
  induction n generalizing b with
  | zero => simp [allBits] at h; subst h; rfl
  | succ n ih =>
    simp only [allBits, List.mem_flatMap, List.mem_map] at h
    obtain ⟨x, _, c, hc, rfl⟩ := h
    simp [ih c hc]

theorem configWeight_sum_one (eta : Rat) (n : Nat) :
    ((allBits n).map (configWeight eta)).sum = 1 := by
  have e : (allBits n).map (configWeight eta)
      = (allBits n).map (flipKernel eta 0 (List.replicate n false)) := by
    apply List.map_congr_left
    intro c hc
    simp [configWeight, mem_allBits_length n c hc]
  rw [e]
  have := flipKernel_sum_one eta 0 (List.replicate n false)
  simpa using this

theorem configWeight_marginal (eta : Rat) (n i : Nat) (hi : i < n) :
    (((allBits n).filter fun c => c.getD i false == true).map (configWeight eta)).sum = eta := by
  have e : ((allBits n).filter fun c => c.getD i false == true).map (configWeight eta)
      = ((allBits n).filter fun c => c.getD i false == true).map
          (flipKernel eta 0 (List.replicate n false)) := by
    apply List.map_congr_left
    intro c hc
    simp [configWeight, mem_allBits_length n c (List.mem_filter.mp hc).1]
  rw [e]
  have := flipKernel_marginal eta 0 true (List.replicate n false) i (by simpa using hi)
  simp only [List.length_replicate] at this
  rw [this]
  simp [List.getD_eq_getElem?_getD, hi, flip1]

/-! ### Ket-ket overlap -/

theorem CQ.conj_add (a b : CQ) : (a + b).conj = a.conj + b.conj := by ext <;> simp <;> ring
theorem CQ.conj_mul (a b : CQ) : (a * b).conj = a.conj * b.conj := by ext <;> simp <;> ring
theorem CQ.conj_conj (a : CQ) : a.conj.conj = a := by ext <;> simp
theorem CQ.conj_zero : (0 : CQ).conj = 0 := by ext <;> simp
theorem CQ.normSq_conj (a : CQ) : a.conj.normSq = a.normSq := by simp [CQ.normSq]
theorem CQ.normSq_nonneg (a : CQ) : 0 ≤ a.normSq := by
  unfold CQ.normSq; nlinarith [mul_self_nonneg a.re, mul_self_nonneg a.im]

theorem sumTo_conj (n : Nat) (g : Nat → CQ) : (sumTo n g).conj = sumTo n (fun k => (g k).conj) := by
  induction n with
  | zero => simp [sumTo, CQ.conj_zero]
  | succ n ih => simp only [sumTo, CQ.conj_add, ih]

/-- `⟨b|a⟩ = conj ⟨a|b⟩` for kets of the same dimension. -/
theorem innerKet_conj (A B : Mat) (h : A.r = B.r) : innerKet B A = (innerKet A B).conj := by
  unfold innerKet Mat.mul Mat.dagger
  simp only [h, sumTo_conj]
  apply sumTo_congr
  intro k _
  rw [CQ.conj_mul, CQ.conj_conj, mul_comm]

/-- `⟨a|(|b⟩⟨b|)|a⟩ = ⟨a|b⟩⟨b|a⟩`. -/
theorem expectKet_pureDM (A B : Mat) (hB : B.c = 1) :
    expectKet (pureDM B) A = innerKet A B * innerKet B A := by
  unfold expectKet innerKet pureDM Mat.mul Mat.dagger
  simp only [hB, sumTo_one]
  rw [sumTo_mul_right]
  apply sumTo_congr
  intro i _
  have : (sumTo B.r fun k => B.f i 0 * (B.f k 0).conj * A.f k 0)
      = B.f i 0 * sumTo B.r fun k => (B.f k 0).conj * A.f k 0 := by
    rw [sumTo_mul_left]; apply sumTo_congr; intro k _; ring
  rw [this]; ring

end Pulser.Measure
