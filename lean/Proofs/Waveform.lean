/-
  Proofs.Waveform — helper lemmas for C16 (waveforms and pulses over ℚ).
  Model: PulserModel/Waveform.lean.
-/
import Mathlib.Tactic.Ring
import Mathlib.Tactic.Linarith
import Mathlib.Tactic.FieldSimp
import Mathlib.Algebra.Order.Field.Basic
import PulserModel.Waveform
namespace Pulser
namespace Wave

/-! ## Index and slice normalisation -/

theorem checkIndex_spec (d : Nat) (i : Int) (j : Nat) :
    checkIndex d i = some j ↔
      ((0 ≤ i ∧ i < d ∧ (j : Int) = i) ∨ (i < 0 ∧ -(d : Int) ≤ i ∧ (j : Int) = d + i)) := by
  unfold checkIndex
  split
  · simp; omega
  · simp only [Option.some.injEq]
    split <;> omega

theorem adjust_eq (d : Nat) (x : Option Int) (dflt : Int) (h : 0 ≤ dflt ∧ dflt ≤ d) :
    clampHigh d (clampLow (sliceNorm d dflt x)) = pyAdjust d x dflt := by
  unfold clampHigh clampLow sliceNorm pyAdjust
  cases x <;> simp only <;> (repeat' split) <;> omega

theorem checkSlice_spec (d : Nat) (a b st : Option Int) (s e : Nat) :
    checkSlice d a b st = some (s, e) ↔
      (st = none ∨ st = some 1) ∧ (s : Int) = pyAdjust d a 0 ∧
      (e : Int) = max (pyAdjust d a 0) (pyAdjust d b d) := by
  have hA : 0 ≤ pyAdjust d a 0 ∧ pyAdjust d a 0 ≤ d := by
    unfold pyAdjust; cases a <;> simp only <;> (repeat' split) <;> omega
  have hB : 0 ≤ pyAdjust d b d ∧ pyAdjust d b d ≤ d := by
    unfold pyAdjust; cases b <;> simp only <;> (repeat' split) <;> omega
  unfold checkSlice
  by_cases hst : st ≠ none ∧ st ≠ some 1
  · rw [if_pos hst]
    constructor
    · intro h; cases h
    · rintro ⟨h | h, _⟩
      · exact absurd h hst.1
      · exact absurd h hst.2
  · rw [if_neg hst]
    have hst' : st = none ∨ st = some 1 := by
      by_cases h1 : st = none
      · exact .inl h1
      · right
        by_cases h2 : st = some 1
        · exact h2
        · exact absurd ⟨h1, h2⟩ hst
    simp only [adjust_eq d a 0 ⟨by omega, by omega⟩, adjust_eq d b d ⟨by omega, by omega⟩,
      Option.some.injEq, Prod.mk.injEq, hst', true_and]
    split <;> omega

theorem checkIndex_none (d : Nat) (i : Int) :
    checkIndex d i = none ↔ (i < -(d : Int) ∨ (d : Int) ≤ i) := by
  unfold checkIndex
  split <;> simp <;> omega

theorem pyAdjust_range (d : Nat) (x : Option Int) (dflt : Int) (h : 0 ≤ dflt ∧ dflt ≤ d) :
    0 ≤ pyAdjust d x dflt ∧ pyAdjust d x dflt ≤ d := by
  unfold pyAdjust; cases x <;> simp only <;> (repeat' split) <;> omega

theorem sliceList_length {α} (l : List α) (s e : Nat) (h : e ≤ l.length) :
    (sliceList l s e).length = e - s := by
  unfold sliceList; simp; omega

theorem sliceList_getElem? {α} (l : List α) (s e k : Nat) (hk : k < e - s) :
    (sliceList l s e)[k]? = l[s + k]? := by
  unfold sliceList
  rw [List.getElem?_take_of_lt hk, List.getElem?_drop]

/-! ## Durations and samples -/

theorem durationList_eq (ws : List Wf) : durationList ws = (ws.map Wf.duration).sum := by
  induction ws with
  | nil => simp [durationList]
  | cons w ws ih => simp [durationList, ih]

theorem samplesList?_eq (ws : List Wf) :
    samplesList? ws = (ws.mapM Wf.samples?).map List.flatten := by
  induction ws with
  | nil => simp [samplesList?]
  | cons w ws ih =>
    simp only [samplesList?, ih, List.mapM_cons]
    cases w.samples? <;> cases (ws.mapM Wf.samples?) <;> simp

theorem rampSamples?_length {d : Nat} {a b : Rat} {s : List Rat} (h : rampSamples? d a b = some s) :
    s.length = d := by
  unfold rampSamples? at h
  cases hq : divQ? (b - a) ((rampDen d : Nat) : Rat) with
  | none => simp [hq] at h
  | some q => simp [hq] at h; subst h; simp

theorem windowSamples?_length {n : List Rat} {area : Rat} {s : List Rat}
    (h : windowSamples? n area = some s) : s.length = n.length := by
  unfold windowSamples? at h
  cases hq : divQ? area n.sum with
  | none => simp [hq] at h
  | some q => simp [hq] at h; subst h; simp

mutual
theorem samples?_length : ∀ (w : Wf) (s : List Rat), w.samples? = some s → s.length = w.duration
  | .const d v, s, h => by simp [Wf.samples?] at h; subst h; simp [Wf.duration]
  | .ramp d a b, s, h => by simp only [Wf.samples?] at h; simpa [Wf.duration] using rampSamples?_length h
  | .custom xs, s, h => by simp [Wf.samples?] at h; subst h; simp [Wf.duration]
  | .window be n area, s, h => by
    simp only [Wf.samples?] at h; simpa [Wf.duration] using windowSamples?_length h
  | .composite ws, s, h => by
    simp only [Wf.samples?] at h; simpa [Wf.duration] using samplesList?_length ws s h
theorem samplesList?_length : ∀ (ws : List Wf) (s : List Rat), samplesList? ws = some s →
    s.length = durationList ws
  | [], s, h => by simp [samplesList?] at h; subst h; simp [durationList]
  | w :: ws, s, h => by
    simp only [samplesList?] at h
    cases h1 : w.samples? with
    | none => simp [h1] at h
    | some a =>
      cases h2 : samplesList? ws with
      | none => simp [h1, h2] at h
      | some b =>
        simp [h1, h2] at h; subst h
        simp [durationList, samples?_length w a h1, samplesList?_length ws b h2]
end

/-! ## Ramp -/

/-- The documented ramp: sample `i` is `start + i·(stop − start)/(d − 1)`. -/
def rampIdeal (d : Nat) (a b : Rat) : List Rat :=
  (List.range d).map fun (i : Nat) => a + (i : Rat) * (b - a) / ((d : Rat) - 1)

theorem ramp_between {d i : Nat} (a b : Rat) (hd : 2 ≤ d) (hi : i < d) :
    min a b ≤ (b - a) / ((d : Rat) - 1) * (i : Rat) + a ∧
    (b - a) / ((d : Rat) - 1) * (i : Rat) + a ≤ max a b := by
  have hd' : (0 : Rat) < (d : Rat) - 1 := by
    have : (2 : Rat) ≤ (d : Rat) := by exact_mod_cast hd
    linarith
  have hi0 : (0 : Rat) ≤ (i : Rat) := by exact_mod_cast Nat.zero_le i
  have hi1 : (i : Rat) ≤ (d : Rat) - 1 := by
    have : (i : Rat) + 1 ≤ (d : Rat) := by exact_mod_cast hi
    linarith
  have ht0 : 0 ≤ (i : Rat) / ((d : Rat) - 1) := div_nonneg hi0 (le_of_lt hd')
  have ht1 : (i : Rat) / ((d : Rat) - 1) ≤ 1 := by
    rw [div_le_one hd']; exact hi1
  have e : (b - a) / ((d : Rat) - 1) * (i : Rat) + a = a + (b - a) * ((i : Rat) / ((d : Rat) - 1)) := by
    field_simp; ring
  rw [e]
  rcases le_total a b with hab | hab
  · rw [min_eq_left hab, max_eq_right hab]
    constructor <;> nlinarith
  · rw [min_eq_right hab, max_eq_left hab]
    constructor <;> nlinarith

theorem clip_id {x lo hi : Rat} (h1 : lo ≤ x) (h2 : x ≤ hi) : clip x lo hi = x := by
  unfold clip; rw [max_eq_left h1, min_eq_left h2]

theorem rampDen_cast {d : Nat} (hd : 2 ≤ d) : ((rampDen d : Nat) : Rat) = (d : Rat) - 1 := by
  have : rampDen d = d - 1 := by unfold rampDen; omega
  rw [this, Nat.cast_sub (by omega)]; simp

theorem rampDen_pos (d : Nat) : ((rampDen d : Nat) : Rat) ≠ 0 := by
  have : 1 ≤ rampDen d := by unfold rampDen; omega
  have : (1 : Rat) ≤ ((rampDen d : Nat) : Rat) := by exact_mod_cast this
  intro h; linarith

theorem rampSamples?_eq_ideal {d : Nat} (a b : Rat) (hd : 2 ≤ d) :
    rampSamples? d a b = some (rampIdeal d a b) := by
  have hd' : ((d : Rat) - 1) ≠ 0 := by
    have : (2 : Rat) ≤ (d : Rat) := by exact_mod_cast hd
    intro h; linarith
  unfold rampSamples? divQ? rampIdeal
  rw [rampDen_cast hd, if_neg hd']
  simp only [Option.map_some, Option.some.injEq]
  apply List.map_congr_left
  intro i hi
  have hi' : i < d := List.mem_range.mp hi
  obtain ⟨h1, h2⟩ := ramp_between a b hd hi'
  rw [clip_id h1 h2]
  field_simp; ring

theorem rampSamples?_one (a b : Rat) : rampSamples? 1 a b = some [a] := by
  unfold rampSamples? divQ? rampDen
  have h1 : min a b ≤ a := min_le_left a b
  have h2 : a ≤ max a b := le_max_left a b
  simp [clip_id h1 h2]

theorem rampSamples?_zero (a b : Rat) : rampSamples? 0 a b = some [] := by
  unfold rampSamples? divQ? rampDen; simp

/-- The samples of a ramp are always defined (the divisor `max (d-1) 1` is never zero). -/
theorem rampSamples?_isSome (d : Nat) (a b : Rat) : ∃ s, rampSamples? d a b = some s := by
  unfold rampSamples? divQ?
  rw [if_neg (rampDen_pos d)]
  exact ⟨_, rfl⟩

/-- The old formula (before /repo b1aea695) divides by `d - 1 = 0` at `d = 1`. -/
theorem rampSamplesOld?_one (a b : Rat) : rampSamplesOld? 1 a b = none := by
  unfold rampSamplesOld? divQ?; simp

theorem rampIdeal_getElem? {d i : Nat} (a b : Rat) (hi : i < d) :
    (rampIdeal d a b)[i]? = some (a + (i : Rat) * (b - a) / ((d : Rat) - 1)) := by
  unfold rampIdeal; simp [hi]

theorem rampIdeal_scale (d : Nat) (a b k : Rat) :
    rampIdeal d (a * k) (b * k) = (rampIdeal d a b).map (· * k) := by
  unfold rampIdeal
  rw [List.map_map]
  apply List.map_congr_left
  intro i _
  simp only [Function.comp]
  ring

/-! ## Windows -/

theorem sum_map_mul_right (l : List Rat) (c : Rat) : (l.map (· * c)).sum = l.sum * c := by
  induction l with
  | nil => simp
  | cons x xs ih => simp [ih]; ring

theorem windowSamples?_sum {n : List Rat} {area : Rat} {s : List Rat}
    (h : windowSamples? n area = some s) : s.sum / 1000 = area := by
  unfold windowSamples? divQ? at h
  by_cases h0 : n.sum = 0
  · simp [h0] at h
  · simp [h0] at h; subst h
    rw [sum_map_mul_right]; field_simp

theorem windowSamples?_none_iff (n : List Rat) (area : Rat) :
    windowSamples? n area = none ↔ n.sum = 0 := by
  unfold windowSamples? divQ?
  by_cases h0 : n.sum = 0 <;> simp [h0]

theorem windowSamples?_scale (n : List Rat) (area k : Rat) :
    windowSamples? n (area * k) = (windowSamples? n area).map (List.map (· * k)) := by
  unfold windowSamples? divQ?
  by_cases h0 : n.sum = 0
  · simp [h0]
  · simp only [if_neg h0, Option.map_some, Option.some.injEq, List.map_map]
    apply List.map_congr_left
    intro x _
    simp only [Function.comp]
    ring

/-! ## Scaling -/

theorem rampSamples?_scale (d : Nat) (a b k : Rat) :
    rampSamples? d (a * k) (b * k) = (rampSamples? d a b).map (List.map (· * k)) := by
  rcases Nat.lt_or_ge d 2 with h | h
  · obtain rfl | rfl : d = 0 ∨ d = 1 := by omega
    · simp [rampSamples?_zero]
    · simp [rampSamples?_one]
  · rw [rampSamples?_eq_ideal _ _ h, rampSamples?_eq_ideal _ _ h, rampIdeal_scale]; rfl

mutual
theorem scale_samples? (k : Rat) : ∀ (w : Wf),
    (w.scale k).samples? = w.samples?.map (List.map (· * k))
  | .const d v => by simp [Wf.scale, Wf.samples?]
  | .ramp d a b => by simp only [Wf.scale, Wf.samples?]; exact rampSamples?_scale d a b k
  | .custom xs => by simp [Wf.scale, Wf.samples?]
  | .window be n area => by simp only [Wf.scale, Wf.samples?]; exact windowSamples?_scale n area k
  | .composite ws => by simp only [Wf.scale, Wf.samples?]; exact scaleList_samples? k ws
theorem scaleList_samples? (k : Rat) : ∀ (ws : List Wf),
    samplesList? (scaleList k ws) = (samplesList? ws).map (List.map (· * k))
  | [] => by simp [scaleList, samplesList?]
  | w :: ws => by
    simp only [scaleList, samplesList?, scale_samples? k w, scaleList_samples? k ws]
    cases w.samples? <;> cases samplesList? ws <;> simp
end

mutual
theorem scale_duration (k : Rat) : ∀ (w : Wf), (w.scale k).duration = w.duration
  | .const d v => by simp [Wf.scale, Wf.duration]
  | .ramp d a b => by simp [Wf.scale, Wf.duration]
  | .custom xs => by simp [Wf.scale, Wf.duration]
  | .window be n area => by simp [Wf.scale, Wf.duration]
  | .composite ws => by simp only [Wf.scale, Wf.duration]; exact scaleList_duration k ws
theorem scaleList_duration (k : Rat) : ∀ (ws : List Wf),
    durationList (scaleList k ws) = durationList ws
  | [] => by simp [scaleList]
  | w :: ws => by simp [scaleList, durationList, scale_duration k w, scaleList_duration k ws]
end

/-! ## Division, change of duration -/

theorem div?_none_iff (w : Wf) (k : Rat) : w.div? k = none ↔ k = 0 := by
  unfold Wf.div?; by_cases h : k = 0 <;> simp [h]

theorem div?_samples (w : Wf) {k : Rat} (hk : k ≠ 0) :
    ∃ w', w.div? k = some w' ∧ w'.duration = w.duration ∧
      w'.samples? = w.samples?.map (List.map (· / k)) := by
  refine ⟨w.scale (1 / k), by simp [Wf.div?, hk], scale_duration _ w, ?_⟩
  rw [scale_samples?]
  congr 1
  funext l
  apply List.map_congr_left
  intro x _
  field_simp

theorem changeDuration?_spec {w w' : Wf} {new : Nat} {nn : List Rat}
    (h : w.changeDuration? new nn = some w') : w'.params = w.params ∧ w'.duration = new := by
  cases w with
  | const d v => simp [Wf.changeDuration?] at h; subst h; simp [Wf.params, Wf.duration]
  | ramp d a b => simp [Wf.changeDuration?] at h; subst h; simp [Wf.params, Wf.duration]
  | custom xs => simp [Wf.changeDuration?] at h
  | composite ws => simp [Wf.changeDuration?] at h
  | window be n area =>
    simp only [Wf.changeDuration?] at h
    split at h
    · rename_i hl
      simp at h; subst h
      cases be <;> simp [Wf.params, Wf.duration, hl]
    · simp at h

/-! ## Arbitrary phase: telescoping sum -/

theorem telescope (c : Rat) : ∀ (xs : List Rat) (x acc : Rat), c - acc = x →
    (cumsumFrom acc (((diffs (x :: xs)).map fun t => -t * 1000).map (· / 1000))).map (c - ·) = xs
  | [], x, acc, _ => by simp [diffs, cumsumFrom]
  | y :: ys, x, acc, h => by
    simp only [diffs, List.map_cons, cumsumFrom, List.cons.injEq]
    refine ⟨by rw [← h]; ring, ?_⟩
    exact telescope c ys y _ (by rw [← h]; ring)

theorem arb_reconstructs {phi det : List Rat} (h : arbDetuning? phi = some det) :
    phaseModulation (arbPhaseC phi det) det = phi := by
  unfold arbDetuning? at h
  match phi, h with
  | [], h => simp [diffs, padEdgeLeft] at h
  | [x], h =>
    simp at h; subst h
    simp [phaseModulation, arbPhaseC, cumsumFrom]
  | p0 :: p1 :: rest, h =>
    simp only [List.length_cons, diffs, List.map_cons, padEdgeLeft] at h
    rw [if_neg (by omega)] at h
    simp only [Option.some.injEq] at h
    subst h
    simp only [phaseModulation, arbPhaseC, List.headD_cons, List.map_cons, cumsumFrom,
      List.cons.injEq]
    refine ⟨by ring, by ring, ?_⟩
    have := telescope (p0 + -(p1 - p0) * 1000 / 1000) rest p1
      (0 + -(p1 - p0) * 1000 / 1000 + -(p1 - p0) * 1000 / 1000) (by ring)
    simpa [List.map_map] using this

theorem arbDetuning?_none_iff (phi : List Rat) : arbDetuning? phi = none ↔ phi = [] := by
  unfold arbDetuning?
  match phi with
  | [] => simp [diffs, padEdgeLeft]
  | [x] => simp
  | p0 :: p1 :: rest => simp [diffs, padEdgeLeft]

/-- The old formula (before /repo c5791488) edge-pads the empty difference of a one-sample phase. -/
theorem arbDetuningOld?_none_iff (phi : List Rat) : arbDetuningOld? phi = none ↔ phi.length ≤ 1 := by
  unfold arbDetuningOld?
  match phi with
  | [] => simp [diffs, padEdgeLeft]
  | [x] => simp [diffs, padEdgeLeft]
  | p0 :: p1 :: rest => simp [diffs, padEdgeLeft]

theorem cumsum_replicate (c x : Rat) : ∀ (n : Nat) (acc : Rat),
    (cumsumFrom acc (List.replicate n x)).map (c - ·) =
      (List.range n).map fun (i : Nat) => c - (acc + ((i : Rat) + 1) * x)
  | 0, acc => by simp [cumsumFrom]
  | n + 1, acc => by
    rw [List.replicate_succ, cumsumFrom, List.map_cons, cumsum_replicate c x n (acc + x),
      List.range_succ_eq_map, List.map_cons, List.map_map]
    refine congrArg₂ _ (by simp) ?_
    apply List.map_congr_left
    intro i _
    simp only [Function.comp, Nat.cast_succ]
    ring

theorem arbConst_reconstructs (d : Nat) (v : Rat) :
    phaseModulation (arbConst d v).1 (arbConst d v).2 = List.replicate d v := by
  unfold arbConst phaseModulation
  simp only [List.map_replicate]
  rw [cumsum_replicate]
  apply List.ext_getElem <;> simp

theorem arbRamp_reconstructs {d : Nat} {a b c : Rat} {det : List Rat} (hd : 2 ≤ d)
    (h : arbRamp? d a b = some (c, det)) : phaseModulation c det = rampIdeal d a b := by
  have hd' : ((d : Rat) - 1) ≠ 0 := by
    have : (2 : Rat) ≤ (d : Rat) := by exact_mod_cast hd
    intro h; linarith
  unfold arbRamp? divQ? at h
  rw [if_neg (by omega), rampDen_cast hd] at h
  simp only [if_neg hd', Option.map_some, Option.some.injEq, Prod.mk.injEq] at h
  obtain ⟨rfl, rfl⟩ := h
  unfold phaseModulation rampIdeal
  simp only [List.map_replicate]
  rw [cumsum_replicate]
  apply List.map_congr_left
  intro i _
  field_simp
  ring

/-! ## Pulse -/

theorem twoPi_pos : (0 : Rat) < twoPi := by unfold twoPi; norm_num

theorem fmtPhase_range (x : Rat) : 0 ≤ fmtPhase x ∧ fmtPhase x < twoPi := by
  unfold fmtPhase
  have h1 := Rat.floor_le (x / twoPi)
  have h2 := Rat.lt_floor_add_one (x / twoPi)
  have hp := twoPi_pos
  rw [le_div_iff₀ hp] at h1
  rw [div_lt_iff₀ hp] at h2
  push_cast at h2
  constructor <;> linarith

theorem mkPulse_spec {amp det : List Rat} {ph post : Rat} {p : PulseM}
    (h : mkPulse amp det ph post = some p) :
    p.amp.length = p.det.length ∧ (∀ x ∈ p.amp, 0 ≤ x) ∧
    (0 ≤ p.phase ∧ p.phase < twoPi) ∧ (0 ≤ p.post ∧ p.post < twoPi) := by
  unfold mkPulse at h
  split at h
  · simp at h
  · rename_i hl
    split at h
    · simp at h
    · rename_i hn
      simp at h; subst h
      refine ⟨by simp at hl; exact hl.symm, ?_, fmtPhase_range _, fmtPhase_range _⟩
      intro x hx
      simp only [List.any_eq_true, not_exists, not_and, decide_eq_true_eq] at hn
      exact not_lt.mp (hn x hx)

/-! ## `BlackmanWaveform.from_max_val` -/

theorem searchUp_spec {p : Nat → Bool} : ∀ (fuel n m : Nat), searchUp p fuel n = some m →
    n ≤ m ∧ p m = true ∧ ∀ j, n ≤ j → j < m → p j = false
  | 0, n, m, h => by simp [searchUp] at h
  | fuel + 1, n, m, h => by
    unfold searchUp at h
    by_cases hp : p n = true
    · rw [if_pos hp] at h
      cases h
      exact ⟨Nat.le_refl _, hp, fun j h1 h2 => absurd h2 (by omega)⟩
    · rw [if_neg hp] at h
      obtain ⟨h1, h2, h3⟩ := searchUp_spec fuel (n + 1) m h
      refine ⟨by omega, h2, fun j hj1 hj2 => ?_⟩
      by_cases hjn : j = n
      · subst hjn; simpa using hp
      · exact h3 j (by omega) hj2

theorem searchUp_finds {p : Nat → Bool} : ∀ (fuel n k : Nat), k < fuel → p (n + k) = true →
    ∃ m, searchUp p fuel n = some m
  | 0, n, k, h, _ => absurd h (by omega)
  | fuel + 1, n, k, h, hp => by
    unfold searchUp
    by_cases hn : p n = true
    · exact ⟨n, by rw [if_pos hn]⟩
    · rw [if_neg hn]
      cases k with
      | zero => exact absurd hp hn
      | succ k => exact searchUp_finds fuel (n + 1) k (by omega) (by rw [← hp]; congr 1; omega)

/-- `area / (0.42·max_val) · 1e3`, whose ceiling is the first guess. -/
def bmA (area maxVal : Rat) : Rat := area / ((21 : Rat) / 50 * maxVal) * 1000

theorem bmGuess_cast {area maxVal : Rat} (ha : 0 < area) (hm : 0 < maxVal) :
    ((bmGuess area maxVal : Nat) : Rat) = ((bmA area maxVal).ceil : Rat) ∧
    0 < bmA area maxVal := by
  have hA : 0 < bmA area maxVal := by unfold bmA; positivity
  have hc : (0 : Int) ≤ (bmA area maxVal).ceil := by
    have := @Rat.le_ceil (bmA area maxVal)
    have h0 : (0 : Rat) < ((bmA area maxVal).ceil : Rat) := lt_of_lt_of_le hA this
    have : (0 : Int) < (bmA area maxVal).ceil := by exact_mod_cast h0
    omega
  refine ⟨?_, hA⟩
  unfold bmGuess
  change (((bmA area maxVal).ceil.toNat : Nat) : Rat) = _
  have : (((bmA area maxVal).ceil.toNat : Nat) : Int) = (bmA area maxVal).ceil := Int.toNat_of_nonneg hc
  exact_mod_cast this

theorem bmStop_ideal {S : Nat → Rat} {area maxVal : Rat}
    (hm : 0 < maxVal) {N : Nat} (hN : 2 ≤ N) (hSN : S N = bmIdealSum N) :
    bmScaling? S area N = some (area / ((21 : Rat) / 50 * ((N : Rat) - 1)) * 1000) ∧
    (bmStop S area maxVal N = true ↔ bmA area maxVal ≤ (N : Rat) - 1) := by
  have hN' : (0 : Rat) < (N : Rat) - 1 := by
    have : (2 : Rat) ≤ (N : Rat) := by exact_mod_cast hN
    linarith
  have hS0 : S N ≠ 0 := by rw [hSN]; unfold bmIdealSum; positivity
  have e1 : bmScaling? S area N = some (area / ((21 : Rat) / 50 * ((N : Rat) - 1)) * 1000) := by
    unfold bmScaling? divQ?; rw [if_neg hS0, hSN]; rfl
  refine ⟨e1, ?_⟩
  unfold bmStop; rw [e1]
  simp only [decide_eq_true_eq]
  unfold bmA
  have e2 : area / ((21 : Rat) / 50 * ((N : Rat) - 1)) * 1000 ≤ maxVal ↔
      area * 1000 ≤ maxVal * ((21 : Rat) / 50 * ((N : Rat) - 1)) := by
    rw [div_mul_eq_mul_div, div_le_iff₀ (by positivity)]
  have e3 : area / ((21 : Rat) / 50 * maxVal) * 1000 ≤ (N : Rat) - 1 ↔
      area * 1000 ≤ ((N : Rat) - 1) * ((21 : Rat) / 50 * maxVal) := by
    rw [div_mul_eq_mul_div, div_le_iff₀ (by positivity)]
  rw [e2, e3]
  have : maxVal * ((21 : Rat) / 50 * ((N : Rat) - 1)) = ((N : Rat) - 1) * ((21 : Rat) / 50 * maxVal) := by
    ring
  rw [this]

theorem bm_below_guess_fails {S : Nat → Rat} {L : Nat} (hL : 2 ≤ L)
    (hS : ∀ N, L ≤ N → S N = bmIdealSum N)
    {area maxVal : Rat} (ha : 0 < area) (hm : 0 < maxVal) {M : Nat} (hM : L ≤ M)
    (hMg : M ≤ bmGuess area maxVal) : bmStop S area maxVal M = false := by
  obtain ⟨hg, _⟩ := bmGuess_cast ha hm
  have hlt := @Rat.ceil_lt (bmA area maxVal)
  have hMg' : (M : Rat) ≤ (bmGuess area maxVal : Rat) := by exact_mod_cast hMg
  have : ¬ (bmStop S area maxVal M = true) := by
    rw [(bmStop_ideal hm (by omega) (hS M hM)).2]
    intro h; linarith
  simpa using this

theorem bm_guess_succ_stops {S : Nat → Rat} {L : Nat} (hL : 2 ≤ L)
    (hS : ∀ N, L ≤ N → S N = bmIdealSum N)
    {area maxVal : Rat} (ha : 0 < area) (hm : 0 < maxVal) (hg2 : L ≤ bmGuess area maxVal) :
    bmStop S area maxVal (bmGuess area maxVal + 1) = true := by
  obtain ⟨hg, _⟩ := bmGuess_cast ha hm
  rw [(bmStop_ideal hm (by omega) (hS _ (by omega))).2]
  have := @Rat.le_ceil (bmA area maxVal)
  push_cast
  linarith

theorem bmSearch_ideal {S : Nat → Rat} {L : Nat} (hL : 2 ≤ L)
    (hS : ∀ N, L ≤ N → S N = bmIdealSum N)
    {area maxVal : Rat} (ha : 0 < area) (hm : 0 < maxVal) (hg2 : L ≤ bmGuess area maxVal)
    {fuel : Nat} (hf : 2 ≤ fuel) :
    bmSearch S area maxVal fuel = some (bmGuess area maxVal + 1) := by
  unfold bmSearch
  obtain ⟨m, hm'⟩ := searchUp_finds (p := bmStop S area maxVal) fuel (bmGuess area maxVal) 1
    (by omega) (bm_guess_succ_stops hL hS ha hm hg2)
  obtain ⟨h1, h2, h3⟩ := searchUp_spec _ _ _ hm'
  have hne : m ≠ bmGuess area maxVal := by
    intro e; rw [e, bm_below_guess_fails hL hS ha hm hg2 (Nat.le_refl _)] at h2; cases h2
  have hle : m ≤ bmGuess area maxVal + 1 := by
    by_contra hc
    have := h3 (bmGuess area maxVal + 1) (by omega) (by omega)
    rw [bm_guess_succ_stops hL hS ha hm hg2] at this; cases this
  rw [hm']; congr 1; omega

theorem bmAdjust_le {S peak : Nat → Rat}
    (hpk : ∀ N, 0 ≤ peak N ∧ peak N ≤ 1) {area maxVal : Rat} (ha : 0 < area) (hm : 0 < maxVal)
    (g : Nat) {N : Nat} (hN : 2 ≤ N) (hSN : S N = bmIdealSum N)
    (hstop : bmStop S area maxVal N = true) :
    ∃ sc, bmScaling? S area (bmAdjust S peak area maxVal g N) = some sc ∧
      peak (bmAdjust S peak area maxVal g N) * sc ≤ maxVal := by
  obtain ⟨e1, _⟩ := bmStop_ideal (area := area) hm hN hSN
  have hN' : (0 : Rat) < (N : Rat) - 1 := by
    have : (2 : Rat) ≤ (N : Rat) := by exact_mod_cast hN
    linarith
  have hsc : area / ((21 : Rat) / 50 * ((N : Rat) - 1)) * 1000 ≤ maxVal := by
    unfold bmStop at hstop; rw [e1] at hstop; simpa using hstop
  have hsc0 : 0 ≤ area / ((21 : Rat) / 50 * ((N : Rat) - 1)) * 1000 := by positivity
  have normal : ∃ sc, bmScaling? S area N = some sc ∧ peak N * sc ≤ maxVal :=
    ⟨_, e1, by nlinarith [hpk N]⟩
  unfold bmAdjust
  rw [e1]
  cases hP : bmScaling? S area (N - 1) with
  | none => simpa using normal
  | some sP =>
    simp only
    split
    · rename_i hc
      exact ⟨sP, hP, hc.2.2.2⟩
    · exact normal

end Wave
end Pulser
