/-
  Proofs.Conflict — the full no-conflict argument (C03): the scan of `_find_add_delay` is never
  earlier than the end (fall time included) of the most recent pulse *sharing a target atom*,
  even when that pulse lies behind retargets of the other channel.

  Ingredients (all on the reversed instruction list of the other channel):
  * `DescTf`            end times decrease                         (from the timeline invariant)
  * `TargetsRule`       only target instructions change the targets (from the timeline invariant)
  * `LPC`               "last pulse clear": a target instruction starts only after the pulse
                        right before it has ramped down (fall time outside EOM mode)
  * A1 / A2             `fall ≤ 2·rise_time`, `fallEom ≤ fallStd`   (monitored oracle hypotheses)
-/
import Proofs.Protocol
namespace Pulser

/-- Non-target instructions carry the targets of the instruction before them. -/
def TargetsRule : List Slot → Prop
  | [] => True
  | [_] => True
  | a :: b :: rest => (a.isTarget = false → a.targets = b.targets) ∧ TargetsRule (b :: rest)

theorem InvR_TargetsRule {x : Ctx} {l : List Slot} (h : InvR x l) : TargetsRule l := by
  induction l with
  | nil => trivial
  | cons a rest ih =>
    cases rest with
    | nil => trivial
    | cons b rest' =>
      obtain ⟨⟨_, _, _, _, h4⟩, h5⟩ := h
      refine ⟨?_, ih h5⟩
      intro hnt
      cases hk : a.kind with
      | target => simp [Slot.isTarget, hk] at hnt
      | delay => rw [hk] at h4; exact h4.2
      | pulse p => rw [hk] at h4; exact h4.2.2.1

theorem InvR_wf {x : Ctx} {l : List Slot} (h : InvR x l) : ∀ s ∈ l, s.ti ≤ s.tf := by
  induction l with
  | nil => intro s hs; cases hs
  | cons a rest ih =>
    intro s hs
    cases rest with
    | nil =>
      simp at hs; subst hs
      obtain ⟨_, h2, h3⟩ := h; omega
    | cons b rest' =>
      obtain ⟨⟨_, h2, _⟩, h5⟩ := h
      rcases List.mem_cons.mp hs with hh | hh
      · subst hh; exact h2
      · exact ih h5 s hh

/-- Last pulse clear: every target instruction starts at or after the end, standard fall time
included, of the most recent pulse before it. -/
def LPC : List Slot → Prop
  | [] => True
  | s :: rest =>
    (s.isTarget = true → ∀ q pq, firstPulse rest = some (q, pq) → q.tf + (pq.fallStd : Nat) ≤ s.ti) ∧
    LPC rest

/-- The most recent pulse whose targets meet `myT` (every pulse under 'wait-for-all'). -/
def recentShared (myT : List Nat) (wa : Bool) : List Slot → Option (Slot × PulseRec)
  | [] => none
  | s :: rest => match s.kind with
    | .pulse p => if (s.targets.any (myT.contains ·) || wa) then some (s, p) else recentShared myT wa rest
    | _ => recentShared myT wa rest

theorem recentShared_mem {myT : List Nat} {wa : Bool} {l : List Slot} {q : Slot} {pq : PulseRec}
    (h : recentShared myT wa l = some (q, pq)) :
    q ∈ l ∧ q.kind = .pulse pq ∧ (q.targets.any (myT.contains ·) || wa) = true := by
  induction l with
  | nil => cases h
  | cons s rest ih =>
    unfold recentShared at h
    split at h
    · rename_i p hp
      split at h
      · rename_i hs
        injection h with h; injection h with h1 h2; subst h1 h2
        exact ⟨List.mem_cons_self, hp, hs⟩
      · have := ih h; exact ⟨List.mem_cons_of_mem _ this.1, this.2⟩
    · have := ih h; exact ⟨List.mem_cons_of_mem _ this.1, this.2⟩

/-- Between an instruction `x` and the first pulse `q` behind it, if their targets differ there
is a target instruction, and `q` is the pulse right before it: `LPC` applies to `q`. -/
theorem clear_behind_retarget {x : Slot} {rest : List Slot} {q : Slot} {pq : PulseRec}
    (hx : x.isTarget = false) (htr : TargetsRule (x :: rest)) (hlpc : LPC rest)
    (hd : DescTf (x :: rest)) (hwf : ∀ s ∈ rest, s.ti ≤ s.tf)
    (hfp : firstPulse rest = some (q, pq)) (hne : x.targets ≠ q.targets) :
    q.tf + (pq.fallStd : Nat) ≤ x.tf := by
  induction rest generalizing x with
  | nil => cases hfp
  | cons y rest' ih =>
    have hxy : x.targets = y.targets := htr.1 hx
    have hyx : y.tf ≤ x.tf := hd.1
    unfold firstPulse at hfp
    cases hk : y.kind with
    | pulse p =>
      simp only [hk] at hfp
      injection hfp with hfp; injection hfp with h1 h2; subst h1
      exact absurd hxy hne
    | target =>
      simp only [hk] at hfp
      have hyt : y.isTarget = true := by simp [Slot.isTarget, hk]
      have h1 := hlpc.1 hyt q pq hfp
      have h2 := hwf y List.mem_cons_self
      omega
    | delay =>
      simp only [hk] at hfp
      have hyt : y.isTarget = false := by simp [Slot.isTarget, hk]
      have := ih hyt htr.2 hlpc.2 (DescTf_tail hd) (fun s hs => hwf s (List.mem_cons_of_mem _ hs)) hfp
        (by rw [← hxy]; exact hne)
      omega

/-- Where the most recent sharing pulse sits: it is either the very first pulse met by the
backward scan, or it ended (standard fall time included) before the end of some instruction
of the list — the pulse or target instruction that hides it. -/
theorem recentShared_bounded {myT : List Nat} {l : List Slot} {q : Slot} {pq : PulseRec}
    (htr : TargetsRule l) (hlpc : LPC l) (hd : DescTf l) (hwf : ∀ s ∈ l, s.ti ≤ s.tf)
    (h : recentShared myT false l = some (q, pq)) :
    firstPulse l = some (q, pq) ∨ ∃ s ∈ l, q.tf + (pq.fallStd : Nat) ≤ s.tf := by
  induction l with
  | nil => cases h
  | cons y rest ih =>
    have htr' : TargetsRule rest := by
      cases rest with
      | nil => trivial
      | cons b r => exact htr.2
    have ih' := fun h' => ih htr' hlpc.2 (DescTf_tail hd) (fun s hs => hwf s (List.mem_cons_of_mem _ hs)) h'
    unfold recentShared at h
    cases hk : y.kind with
    | pulse p =>
      simp only [hk] at h
      by_cases hs : (y.targets.any (myT.contains ·) || false) = true
      · rw [if_pos hs] at h
        injection h with h; injection h with h1 h2; subst h1 h2
        left; unfold firstPulse; simp [hk]
      · rw [if_neg hs] at h
        right
        rcases ih' h with hfp | ⟨s, hs', hb⟩
        · have hq := recentShared_mem h
          have hne : y.targets ≠ q.targets := by
            intro e
            rw [e] at hs
            exact hs hq.2.2
          have hyt : y.isTarget = false := by simp [Slot.isTarget, hk]
          exact ⟨y, List.mem_cons_self,
            clear_behind_retarget hyt htr hlpc.2 hd (fun s hs => hwf s (List.mem_cons_of_mem _ hs)) hfp hne⟩
        · exact ⟨s, List.mem_cons_of_mem _ hs', hb⟩
    | target =>
      simp only [hk] at h
      rcases ih' h with hfp | ⟨s, hs', hb⟩
      · left; unfold firstPulse; simp [hk]; exact hfp
      · right; exact ⟨s, List.mem_cons_of_mem _ hs', hb⟩
    | delay =>
      simp only [hk] at h
      rcases ih' h with hfp | ⟨s, hs', hb⟩
      · left; unfold firstPulse; simp [hk]; exact hfp
      · right; exact ⟨s, List.mem_cons_of_mem _ hs', hb⟩

/-- **Full scan bound ('min-delay').**  The backward scan of `_find_add_delay` over another
channel returns at least the end — fall time in that channel's current mode included — of
its most recent pulse sharing a target atom, wherever that pulse lies in the channel's history. -/
theorem scan_ge_shared (r2 : Nat) (inEom : Bool) (myT : List Nat) :
    ∀ (l : List Slot) (cur : Int), DescTf l → TargetsRule l → LPC l → (∀ s ∈ l, s.ti ≤ s.tf) →
      (∀ s ∈ l, ∀ p, s.kind = .pulse p → p.fall inEom ≤ r2 ∧ p.fall inEom ≤ p.fallStd) →
      ∀ q pq, recentShared myT false l = some (q, pq) →
        q.tf + (pq.fall inEom : Nat) ≤ findAddDelayChan r2 inEom myT false cur l := by
  intro l
  induction l with
  | nil => intro cur _ _ _ _ _ q pq h; cases h
  | cons op rest ih =>
    intro cur hd htr hlpc hwf hA q pq hq
    have htr' : TargetsRule rest := by
      cases rest with
      | nil => trivial
      | cons b r => exact htr.2
    have hwf' : ∀ s ∈ rest, s.ti ≤ s.tf := fun s hs => hwf s (List.mem_cons_of_mem _ hs)
    have hA' : ∀ s ∈ rest, ∀ p, s.kind = .pulse p → p.fall inEom ≤ r2 ∧ p.fall inEom ≤ p.fallStd :=
      fun s hs => hA s (List.mem_cons_of_mem _ hs)
    unfold findAddDelayChan
    unfold recentShared at hq
    cases hk : op.kind with
    | pulse p =>
      simp only [hk] at hq ⊢
      by_cases hs : (op.targets.any (myT.contains ·) || false) = true
      · rw [if_pos hs] at hq
        injection hq with hq; injection hq with h1 h2; subst h1 h2
        by_cases h1 : op.tf + (p.fall inEom : Nat) ≤ cur
        · rw [if_pos h1]; exact h1
        · rw [if_neg h1, if_pos hs]; exact Int.le_refl _
      · rw [if_neg hs] at hq
        have hqm := recentShared_mem hq
        have hqA := hA' q hqm.1 pq hqm.2.1
        by_cases h1 : op.tf + (p.fall inEom : Nat) ≤ cur
        · rw [if_pos h1]
          -- the sharing pulse is hidden behind `op`: it ended before `op` did
          have hb : q.tf + (pq.fallStd : Nat) ≤ op.tf := by
            rcases recentShared_bounded htr' hlpc.2 (DescTf_tail hd) hwf' hq with hfp | ⟨s, hs', hb⟩
            · have hne : op.targets ≠ q.targets := by
                intro e; rw [e] at hs; exact hs hqm.2.2
              have hot : op.isTarget = false := by simp [Slot.isTarget, hk]
              exact clear_behind_retarget hot htr hlpc.2 hd hwf' hfp hne
            · have := DescTf_le hd s hs'; omega
          omega
        · rw [if_neg h1, if_neg hs]
          exact ih cur (DescTf_tail hd) htr' hlpc.2 hwf' hA' q pq hq
    | target =>
      simp only [hk] at hq ⊢
      have hqm := recentShared_mem hq
      have hqA := hA' q hqm.1 pq hqm.2.1
      by_cases h1 : op.tf + (r2 : Int) ≤ cur
      · rw [if_pos h1]
        have h2 := DescTf_le hd q hqm.1
        omega
      · rw [if_neg h1]
        exact ih cur (DescTf_tail hd) htr' hlpc.2 hwf' hA' q pq hq
    | delay =>
      simp only [hk] at hq ⊢
      have hqm := recentShared_mem hq
      have hqA := hA' q hqm.1 pq hqm.2.1
      by_cases h1 : op.tf + (r2 : Int) ≤ cur
      · rw [if_pos h1]
        have h2 := DescTf_le hd q hqm.1
        omega
      · rw [if_neg h1]
        exact ih cur (DescTf_tail hd) htr' hlpc.2 hwf' hA' q pq hq

end Pulser
