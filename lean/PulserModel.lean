import PulserModel.Basic
import PulserModel.Schedule
import PulserModel.PhaseRef
import PulserModel.Sequence
