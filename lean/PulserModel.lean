import PulserModel.Basic
import PulserModel.Schedule
import PulserModel.PhaseRef
import PulserModel.Sequence
import PulserModel.Layout
import PulserModel.Geometry
import PulserModel.Hamiltonian
import PulserModel.Measure
