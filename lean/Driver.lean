import Driver.Main
