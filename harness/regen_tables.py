#!/venv/bin/python
"""Regenerate every table under lean/PulserModel/Generated/ from the source tree under test
(PULSER_REPO, default /repo).  Run by setup.sh before the build and by the seeded-change tools after
they have pointed a check at a scratch worktree, so that the files on disk always describe /repo."""
import sys
from pathlib import Path

sys.path.insert(0, str(Path(__file__).resolve().parent))
import common  # noqa: E402

common.import_guard()
for name in ("tables_c13", "tables_c17", "tables_c18", "tables_c04"):
    mod = __import__(name)
    try:
        mod.regenerate()
        print(f"regenerated {name}")
    except Exception as e:  # noqa: BLE001
        print(f"WARNING: {name}.regenerate failed: {type(e).__name__}: {e}", file=sys.stderr)
