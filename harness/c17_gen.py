"""C17: generators (JSON-able specs -> real objects), real-code round-trip adapters, monitor.

Every generated case is a *spec* (plain JSON) from which the object is rebuilt deterministically;
the spec is what goes into replay / corpus files.  All randomness comes from the `random.Random`
handed in by props/C17.py.
"""
from __future__ import annotations

import copy
import dataclasses
import json
import math
import uuid as uuidlib
import warnings
from fractions import Fraction

import numpy as np

import common
import tables_c17 as tb
from tables_c17 import to_value, value_key, value_py

# --------------------------------------------------------------------------------------
# spec of the documented noise-type/parameter relation (NoiseModel docstring) -- hand written
# --------------------------------------------------------------------------------------
SPEC_TYPE_PARAMS = {
    "leakage": ("with_leakage",),
    "doppler": ("temperature",),
    "amplitude": ("laser_waist", "amp_sigma"),
    "SPAM": ("p_false_pos", "p_false_neg", "state_prep_error"),
    "dephasing": ("dephasing_rate", "hyperfine_dephasing_rate"),
    "relaxation": ("relaxation_rate",),
    "depolarizing": ("depolarizing_rate",),
    "eff_noise": ("eff_noise_rates", "eff_noise_opers"),
}

# rate-like parameters stored as 0.0 when not given (NoiseModel docstring / `or 0.0` rule) -- hand written
SPEC_ZEROED = ("state_prep_error", "p_false_pos", "p_false_neg", "temperature", "amp_sigma", "relaxation_rate",
               "dephasing_rate", "hyperfine_dephasing_rate", "depolarizing_rate")
# documented defaults of NoiseModel.__init__ -- hand written
SPEC_NOISE_DEFAULTS = {"eff_noise_rates": (), "eff_noise_opers": (), "with_leakage": False}
SPEC_NOISE_PARAMS = ("runs", "samples_per_run", "state_prep_error", "p_false_pos", "p_false_neg", "temperature",
                     "laser_waist", "amp_sigma", "relaxation_rate", "dephasing_rate", "hyperfine_dephasing_rate",
                     "depolarizing_rate", "eff_noise_rates", "eff_noise_opers", "with_leakage")
# documented precision of trap coordinates (pulser.register.traps.COORD_PRECISION) -- hand written
SPEC_COORD_PRECISION = 6


def spec_types(get) -> list[str]:
    """Active noise types from parameter values (`get(param)`), by the documented relation."""
    return sorted(t for t, ps in SPEC_TYPE_PARAMS.items() if any(truthy(get(p)) for p in ps))


def spec_relevant(get) -> set[str]:
    """The parameters a noise model's behaviour depends on: those of its active types; runs / samples_per_run
    when a stochastic noise is active (doppler, amplitude with fluctuations, SPAM with preparation errors);
    laser_waist only when defined.  Re-stated here, not read from NoiseModel._find_relevant_params."""
    types = spec_types(get)
    rel: set[str] = set()
    for t in types:
        rel |= set(SPEC_TYPE_PARAMS[t])
    if "doppler" in types or ("amplitude" in types and truthy(get("amp_sigma"))) or (
            "SPAM" in types and truthy(get("state_prep_error"))):
        rel |= {"runs", "samples_per_run"}
    if get("laser_waist") is None:
        rel.discard("laser_waist")
    return rel


def noise_relevant(nm) -> set[str]:
    return spec_relevant(lambda p: getattr(nm, p))


FAMILIES = ["channel", "device", "layout", "noise", "simconfig", "register", "detmap", "config", "results", "stateop",
            "configalias"]

FLOATS = [0.1, 0.25, 0.5, 1.0, 1.5, 2.0, 2.5, 4.0, 10.0, 12.5, 2 * math.pi, 15.7, 31.4, 125.66, 1e-3, 0.3, 7.0]


def _f(rng, lo=None, hi=None):
    xs = [x for x in FLOATS if (lo is None or x >= lo) and (hi is None or x <= hi)]
    x = rng.choice(xs)
    r = rng.random()
    if r < 0.15:
        return int(x) if float(int(x)) == x and x >= 1 else x  # an int where a float is expected
    if r < 0.3:
        return x * (1 + rng.randrange(1, 9) / 16)  # exact dyadic perturbation
    return x


def _maybe(rng, p, thunk, default=None):
    return thunk() if rng.random() < p else default


# --------------------------------------------------------------------------------------
# spec generators
# --------------------------------------------------------------------------------------
def gen_eom(rng) -> dict:
    beams = rng.choice([["BLUE"], ["RED"], ["BLUE", "RED"], ["RED", "BLUE"]])
    s = dict(mod_bandwidth=rng.choice([5.0, 24.0, 40.0, 100.0, 480.0]), limiting_beam=rng.choice(["RED", "BLUE"]),
             max_limiting_amp=_f(rng, 1.0) * 10, intermediate_detuning=_f(rng, 1.0) * 100,
             controlled_beams=beams)
    # optional fields: at default, explicitly at default, or away from it
    for name, dflt, alt in (("custom_buffer_time", None, lambda: rng.choice([1, 40, 240, 1000])),
                            ("multiple_beam_control", True, lambda: False),
                            ("blue_shift_coeff", 1.0, lambda: _f(rng, 0.1, 4.0)),
                            ("red_shift_coeff", 1.0, lambda: _f(rng, 0.1, 4.0))):
        r = rng.random()
        if r < 0.35:
            continue
        s[name] = dflt if r < 0.5 else alt()
    return s


def gen_channel(rng, cls=None, physical=False) -> dict:
    cls = cls or rng.choice(["Rydberg", "Raman", "Microwave"])
    addressing = rng.choice(["Global", "Local"])
    kw: dict = {}
    undefined_ok = not physical

    def limit():
        return _f(rng, 1.0) * rng.choice([1, 2 * math.pi])

    # undefined limits (virtual channels), independently of each other
    kw["max_abs_detuning"] = None if (undefined_ok and rng.random() < 0.25) else limit()
    kw["max_amp"] = None if (undefined_ok and rng.random() < 0.25) else limit()
    if addressing == "Local":
        r = rng.random()
        if r < 0.8:
            kw["min_retarget_interval"] = rng.choice([0, 1, 100, 220])
            kw["fixed_retarget_t"] = rng.choice([0, 1, 30, 220])
        kw["max_targets"] = None if (undefined_ok and rng.random() < 0.3) else rng.choice([1, 2, 5, 100])
    clock = rng.choice([1, 4, 8])
    for name, dflt, alt in (
        ("clock_period", 1, lambda: clock),
        ("min_duration", 1, lambda: rng.choice([1, 4, 16, 52])),
        ("max_duration", int(1e8), lambda: None if (undefined_ok and rng.random() < 0.3)
            else rng.choice([52, 1000, 2 ** 26, int(1e8) + 1])),
        ("min_avg_amp", 0, lambda: rng.choice([0.0, 0.01, 0.5, 1])),
        ("mod_bandwidth", None, lambda: rng.choice([2.0, 4, 8.0, 40.0, 480.0])),
        ("custom_phase_jump_time", None, lambda: rng.choice([0, 1, 40, 1000])),
    ):
        r = rng.random()
        if r < 0.3:
            continue
        kw[name] = dflt if r < 0.45 else alt()
    if physical and kw.get("max_duration", 1) is None:
        kw["max_duration"] = 1000
    if kw.get("max_duration") is not None and kw.get("max_duration", int(1e8)) < kw.get("min_duration", 1):
        kw["max_duration"] = kw["min_duration"]
    if addressing == "Global":
        r = rng.random()
        if r < 0.25:
            kw["propagation_dir"] = rng.choice([[1.0, 0.0, 0.0], [0, 1, 0], [0.0, 0.5, 0.5], [1, 1, 1]])
        elif r < 0.4:
            kw["propagation_dir"] = None
    eom = None
    if cls == "Rydberg" and rng.random() < 0.5:
        eom = gen_eom(rng)
        if kw.get("mod_bandwidth") is None:
            kw["mod_bandwidth"] = rng.choice([4.0, 8.0, 40.0])
    return dict(cls=cls, addressing=addressing, kw=kw, eom=eom)


def gen_dmm(rng, physical=False) -> dict:
    kw: dict = {}
    undefined_ok = not physical
    kw["bottom_detuning"] = None if (undefined_ok and rng.random() < 0.3) else -_f(rng, 1.0) * 10
    r = rng.random()
    if physical or r < 0.6:
        kw["total_bottom_detuning"] = (kw["bottom_detuning"] or -10.0) * rng.choice([1, 10, 100.5])
    elif r < 0.8:
        kw["total_bottom_detuning"] = None
    for name, dflt, alt in (
        ("clock_period", 1, lambda: rng.choice([1, 4])),
        ("min_duration", 1, lambda: rng.choice([1, 16])),
        ("max_duration", int(1e8), lambda: None if (undefined_ok and rng.random() < 0.3)
            else rng.choice([1000, 2 ** 26])),
        ("min_avg_amp", 0, lambda: rng.choice([0.0, 0.5])),
        ("mod_bandwidth", None, lambda: rng.choice([4.0, 40.0])),
        ("custom_phase_jump_time", None, lambda: rng.choice([0, 40])),
        ("propagation_dir", None, lambda: [0.0, 1.0, 0.0]),
    ):
        r = rng.random()
        if r < 0.4:
            continue
        kw[name] = dflt if r < 0.55 else alt()
    if physical and kw.get("max_duration", 1) is None:
        kw["max_duration"] = 1000
    return dict(cls="DMM", kw=kw)


def gen_layout(rng, dim=None, n=None, spacing=5.0, max_radius=None) -> dict:
    dim = dim or rng.choice([2, 2, 3])
    n = n or rng.choice([1, 2, 3, 5, 9, 16])
    # points of a jittered lattice, distinct after rounding to 6 decimals
    pts = {}
    side = max(2, int(math.ceil(n ** (1 / dim))) + 1)
    style = rng.choice(["grid", "jitter", "fine"])
    attempts = 0
    while len(pts) < n and attempts < 40 * n + 200:
        attempts += 1
        idx = tuple(rng.randrange(-side, side + 1) for _ in range(dim))
        if style == "grid":
            p = tuple(spacing * i for i in idx)
        elif style == "jitter":
            p = tuple(spacing * i + rng.randrange(-8, 9) / 16 for i in idx)
        else:
            p = tuple(spacing * i + rng.randrange(-3, 4) * 1e-7 for i in idx)  # below/at COORD_PRECISION
        if max_radius is not None and math.sqrt(sum(c * c for c in p)) > max_radius:
            continue
        # one trap per lattice site: traps stay distinct at the library's coordinate precision and at least
        # spacing-1 apart (near-ties are C19's business)
        pts.setdefault(idx, tuple(round(c, 6) for c in p) if style != "fine" else p)
    coords = [list(p) for p in pts.values()]
    rng.shuffle(coords)
    if rng.random() < 0.2:
        coords = [[int(c) if float(int(c)) == c else c for c in p] for p in coords]
    r = rng.random()
    slug = None if r < 0.5 else rng.choice(["L", "my layout", "üñí", ""])
    return dict(coords=coords, slug=slug)


def gen_oper(rng, dim: int):
    def entry():
        r = rng.random()
        if r < 0.4:
            return 0.0
        if r < 0.7:
            return rng.choice([1.0, -1.0, 0.5, 2])
        return [rng.choice([0.0, 0.5, 1.0]), rng.choice([1.0, -1.0, 0.25])]  # complex as [re, im]
    return [[entry() for _ in range(dim)] for _ in range(dim)]


def gen_noise(rng, allow_irrelevant=True) -> dict:
    kw: dict = {}
    types = [t for t in ["doppler", "amplitude", "SPAM", "dephasing", "relaxation", "depolarizing", "eff_noise",
                         "leakage"] if rng.random() < 0.3]
    need_runs = False
    if "leakage" in types and "eff_noise" not in types:
        types.append("eff_noise")
    if "doppler" in types:
        # lattice values, and 1-3 decimal values (x / 1e6 * 1e6 != x for about 3% of them, e.g. 510.15, 979.4)
        kw["temperature"] = (rng.choice([50.0, 30, 0.5, 1000.0, 510.15, 979.4, 251.4]) if rng.random() < 0.5
                             else round(rng.uniform(0.1, 1000.0), rng.choice([1, 2, 3])))
        need_runs = True
    if "amplitude" in types:
        r = rng.random()
        if r < 0.4:
            kw["laser_waist"] = rng.choice([175.0, 100, 12.5])
        elif r < 0.7:
            kw["amp_sigma"] = rng.choice([0.05, 1.0, 1e-3])
            need_runs = True
        else:
            kw["laser_waist"] = rng.choice([175.0, 50.0])
            kw["amp_sigma"] = rng.choice([0.05, 0.5])
            need_runs = True
    if "SPAM" in types:
        chosen = [p for p in ("p_false_pos", "p_false_neg", "state_prep_error") if rng.random() < 0.6] or \
            ["p_false_pos"]
        for p in chosen:
            kw[p] = rng.choice([0.01, 0.05, 1.0, 0.5])
        if "state_prep_error" in kw:
            need_runs = True
    if "dephasing" in types:
        chosen = [p for p in ("dephasing_rate", "hyperfine_dephasing_rate") if rng.random() < 0.6] or \
            ["dephasing_rate"]
        for p in chosen:
            kw[p] = rng.choice([0.05, 1e-3, 2.0])
    if "relaxation" in types:
        kw["relaxation_rate"] = rng.choice([0.01, 1.0])
    if "depolarizing" in types:
        kw["depolarizing_rate"] = rng.choice([0.05, 0.5])
    if "eff_noise" in types:
        dim = (3 if "leakage" in types else 2) + rng.choice([0, 0, 1])
        k = rng.choice([1, 1, 2, 3])
        kw["eff_noise_rates"] = [rng.choice([0.1, 1.0, 0.0, 2.5]) for _ in range(k)]
        if not any(kw["eff_noise_rates"]):
            kw["eff_noise_rates"][0] = 0.5
        kw["eff_noise_opers"] = [gen_oper(rng, dim) for _ in range(k)]
    if "leakage" in types:
        kw["with_leakage"] = True
    # explicit zeros / Nones (count as "not set")
    for p in ("p_false_pos", "temperature", "relaxation_rate", "amp_sigma", "dephasing_rate"):
        if p not in kw and rng.random() < 0.1:
            kw[p] = rng.choice([0.0, None, 0])
    if need_runs:
        kw["runs"] = rng.choice([1, 15, 100])
        kw["samples_per_run"] = rng.choice([1, 5])
    elif allow_irrelevant and rng.random() < 0.12:
        # parameters no active noise type uses (accepted with a warning, stored on the object)
        if rng.random() < 0.7:
            kw["runs"] = rng.choice([1, 15])
        if rng.random() < 0.5 or "runs" not in kw:
            kw["samples_per_run"] = rng.choice([1, 5])
    spec = dict(kw=kw)
    if "eff_noise_opers" in kw and rng.random() < 0.25:
        spec["qobj"] = True  # the operators are handed over as qutip.Qobj
    return spec


def gen_device(rng) -> dict:
    virtual = rng.random() < 0.5
    phys = not virtual
    nch = rng.choice([0, 1, 1, 2, 3, 4]) if virtual else rng.choice([1, 1, 2, 3])
    channels = [gen_channel(rng, physical=phys) for _ in range(nch)]
    has_xy = any(c["cls"] == "Microwave" for c in channels)
    dims = rng.choice([2, 3])
    kw: dict = dict(name=rng.choice(["dev", "Fresnel-like", "d_1", "üñí dev"]), dimensions=dims,
                    rydberg_level=rng.choice([50, 60, 70, 100]))
    min_dist = rng.choice([0, 1, 4.0, 2.5])
    if phys:
        kw["min_atom_distance"] = min_dist
        kw["max_atom_num"] = rng.choice([1, 10, 25, 100])
        kw["max_radial_distance"] = rng.choice([10, 35, 50])
    else:
        for name, alt in (("min_atom_distance", lambda: min_dist), ("max_atom_num", lambda: rng.choice([None, 10, 100])),
                          ("max_radial_distance", lambda: rng.choice([None, 35, 50]))):
            if rng.random() < 0.6:
                kw[name] = alt()
    if has_xy:
        kw["interaction_coeff_xy"] = rng.choice([3700.0, 1.5])
    elif rng.random() < 0.3:
        kw["interaction_coeff_xy"] = rng.choice([None, 3700.0])
    # DMMs
    r = rng.random()
    if r < 0.3:
        dmms = None  # class default: () for Device, (DMM(),) for VirtualDevice
    elif r < 0.45:
        dmms = []
    else:
        dmms = [gen_dmm(rng, physical=phys) for _ in range(rng.choice([1, 1, 2]))]
    n_dmm = (1 if virtual else 0) if dmms is None else len(dmms)
    if n_dmm == 0:
        kw["supports_slm_mask"] = False
    elif rng.random() < 0.6:
        kw["supports_slm_mask"] = rng.random() < 0.5
    elif phys:
        pass  # default False
    # optional layout / run parameters
    mlf = 0.5
    if rng.random() < 0.4:
        mlf = rng.choice([0.5, 0.25, 1.0, 0.6])
        kw["max_layout_filling"] = mlf
    if rng.random() < 0.4:
        kw["optimal_layout_filling"] = rng.choice([None, mlf, mlf / 2])
    if rng.random() < 0.4:
        kw["min_layout_traps"] = rng.choice([1, 1, 2, 5])
    if rng.random() < 0.4:
        man = kw.get("max_atom_num") or 1
        need = int(math.ceil(man / mlf)) + 1
        kw["max_layout_traps"] = rng.choice([None, max(need, kw.get("min_layout_traps", 1)) * 2])
    for name, alt in (("max_sequence_duration", lambda: rng.choice([None, 4000, 10 ** 7])),
                      ("max_runs", lambda: rng.choice([None, 1, 2000])),
                      ("requires_layout", lambda: rng.random() < 0.5)):
        if rng.random() < 0.45:
            kw[name] = alt()
    if virtual and rng.random() < 0.3:
        kw["reusable_channels"] = rng.random() < 0.5
    if phys and rng.random() < 0.45:
        kw["accepts_new_layouts"] = rng.random() < 0.5
    if rng.random() < 0.12:
        kw["short_description"] = rng.choice(["", "A test device.", "x"])
    # ids
    ids = None
    if channels and rng.random() < 0.5:
        ids = [rng.choice(["ch", "rydberg_global", "a b", "ü"]) + str(i) for i in range(len(channels))]
    # calibrated layouts (physical only), valid for the device
    layouts = []
    if phys and rng.random() < 0.5:
        for _ in range(rng.choice([1, 1, 2])):
            lo = max(kw.get("min_layout_traps", 1), 1)
            hi = kw.get("max_layout_traps") or 30
            n = min(max(lo, rng.choice([1, 3, 6, 12])), hi)
            sp = max(float(kw["min_atom_distance"]), 1.0) + 1.0
            lay = gen_layout(rng, dim=rng.choice([2, dims]) if dims == 3 else 2, n=n, spacing=sp,
                             max_radius=float(kw["max_radial_distance"]) - 0.6)
            if len(lay["coords"]) >= lo:
                layouts.append(lay)
    noise = gen_noise(rng) if rng.random() < 0.35 else None
    return dict(virtual=virtual, kw=kw, channels=channels, channel_ids=ids, dmms=dmms, layouts=layouts, noise=noise)


def gen_register(rng) -> dict:
    dim = rng.choice([2, 2, 3])
    with_layout = rng.random() < 0.5
    names = rng.choice([lambda i: f"q{i}", lambda i: f"atom {i}", lambda i: str(i), lambda i: "ü" + str(i)])
    if with_layout:
        lay = gen_layout(rng, dim=dim, n=rng.choice([2, 4, 9, 16]))
        n = len(lay["coords"])
        k = rng.randrange(1, n + 1)
        traps = rng.sample(range(n), k)
        return dict(dim=dim, layout=lay, trap_ids=traps, ids=[names(i) for i in range(k)])
    lay = gen_layout(rng, dim=dim, n=rng.choice([1, 2, 5, 12]))
    coords = lay["coords"]
    if rng.random() < 0.3:
        coords = [[c + rng.choice([0.0, 1e-9, 1 / 3]) for c in p] for p in coords]
    return dict(dim=dim, layout=None, coords=coords, ids=[names(i) for i in range(len(coords))])


def gen_detmap(rng) -> dict:
    lay = gen_layout(rng, dim=2, n=rng.choice([2, 3, 5, 8]))
    coords = lay["coords"]
    if rng.random() < 0.5:
        coords = sorted(coords)
    ws = [rng.choice([0.0, 0.25, 0.5, 1.0, 1 / 3]) for _ in coords]
    if rng.random() < 0.3:
        ws = [0.5] * len(coords)
    return dict(coords=coords, weights=ws, slug=lay["slug"])


def _gen_amp(rng):
    r = rng.random()
    if r < 0.4:
        return rng.choice([1.0, 0.5, -0.5, 1])
    return [rng.choice([0.0, 0.5, 1.0]), rng.choice([0.5, -1.0])]


def gen_state(rng, n=None, normalised=False) -> dict:
    eig = rng.choice([["r", "g"], ["g", "h"], ["u", "d"], ["r", "g", "h"], ["r", "g", "x"], ["0", "1"]])
    n = n or rng.choice([1, 2, 3])
    k = min(rng.choice([1, 2, 3]), len(eig) ** n)
    keys = set()
    while len(keys) < k:
        keys.add("".join(rng.choice(eig) for _ in range(n)))
    if normalised:
        a = 1 / math.sqrt(len(keys))
        amps = {key: (a if rng.random() < 0.6 else [0.0, a]) for key in sorted(keys)}
    else:
        amps = {key: _gen_amp(rng) for key in sorted(keys)}
    return dict(eigenstates=eig, amplitudes=amps)


def gen_operator(rng, n=None, eig=None) -> dict:
    eig = eig or rng.choice([["r", "g"], ["g", "h"], ["u", "d"], ["r", "g", "h"]])
    n = n or rng.choice([1, 2, 3, 4])
    ops = []
    for _ in range(rng.choice([1, 2, 3])):
        free = list(range(n))
        rng.shuffle(free)
        tensor = []
        while free and rng.random() < 0.7:
            k = rng.randrange(1, len(free) + 1)
            inds, free = free[:k], free[k:]
            qop = {a + b: _gen_amp(rng) for a in eig for b in eig if rng.random() < 0.4} or {eig[0] * 2: 1.0}
            tensor.append([qop, sorted(inds) if rng.random() < 0.7 else inds])
        ops.append([_gen_amp(rng), tensor])
    return dict(eigenstates=eig, n_qudits=n, operations=ops)


def gen_times(rng):
    r = rng.random()
    if r < 0.4:
        return None
    k = rng.choice([1, 2, 3, 5])
    ts = sorted(set(rng.choice([0.0, 0.1, 0.25, 1 / 3, 0.5, 0.75, 1.0, 1]) for _ in range(k)))
    return ts


def gen_observable(rng, i: int, qutip=False) -> dict:
    kind = rng.choice(["bitstrings", "expectation", "fidelity", "occupation", "correlation_matrix", "energy",
                       "energy_variance", "energy_second_moment"])
    s: dict = dict(kind=kind, evaluation_times=gen_times(rng),
                   tag_suffix=rng.choice([None, None, f"s{i}", "ü"]) if rng.random() < 0.6 else f"t{i}")
    if kind == "bitstrings":
        if rng.random() < 0.6:
            s["num_shots"] = rng.choice([1, 10, 1000])
        if rng.random() < 0.5:
            s["one_state"] = rng.choice([None, "r", "h", "d"])
    elif kind in ("occupation", "correlation_matrix"):
        if rng.random() < 0.5:
            s["one_state"] = rng.choice([None, "r", "h"])
    elif kind == "expectation":
        s["operator"] = gen_operator(rng, eig=["r", "g"] if qutip else None)
    elif kind == "fidelity":
        s["state"] = gen_state(rng, normalised=qutip)
        if qutip:
            s["state"]["eigenstates"] = ["r", "g"]
            s["state"] = _fix_state_eig(s["state"], rng)
    return s


def _fix_state_eig(st, rng):
    eig = st["eigenstates"]
    n = len(next(iter(st["amplitudes"])))
    keys = set()
    while len(keys) < min(len(st["amplitudes"]), len(eig) ** n):
        keys.add("".join(rng.choice(eig) for _ in range(n)))
    a = 1 / math.sqrt(len(keys))
    return dict(eigenstates=eig, amplitudes={k: a for k in sorted(keys)})


def gen_config(rng) -> dict:
    qutip = rng.random() < 0.3
    nobs = rng.choice([0, 1, 2, 3, 4])
    obs, tags = [], set()
    for i in range(nobs):
        o = gen_observable(rng, i, qutip)
        tag = (o["kind"], o["tag_suffix"])
        if tag in tags:
            continue
        tags.add(tag)
        obs.append(o)
    s: dict = dict(cls="QutipConfig" if qutip else "EmulationConfig", observables=obs)
    r = rng.random()
    if r < 0.3:
        pass
    elif r < 0.45:
        s["default_evaluation_times"] = "Full"
    else:
        s["default_evaluation_times"] = gen_times(rng) or [1.0]
    n = rng.choice([1, 2, 3])
    if rng.random() < 0.4:
        st = gen_state(rng, n=n, normalised=qutip)
        if qutip:
            st["eigenstates"] = ["r", "g"]
            st = _fix_state_eig(st, rng)
        s["initial_state"] = st
    if rng.random() < 0.4:
        s["with_modulation"] = rng.random() < 0.5
    if not qutip and rng.random() < 0.35:
        m = [[0.0] * n for _ in range(n)]
        for a in range(n):
            for b in range(a + 1, n):
                m[a][b] = m[b][a] = rng.choice([0.0, 1.5, 862690 / 5 ** 6, 2])
        s["interaction_matrix"] = m
    if rng.random() < 0.4:
        s["prefer_device_noise_model"] = rng.random() < 0.5
    if rng.random() < 0.5:
        s["noise"] = gen_noise(rng, allow_irrelevant=False)
    if qutip and rng.random() < 0.5:
        s["sampling_rate"] = rng.choice([1.0, 0.5, 0.1])
    if not qutip and rng.random() < 0.2:
        s["extra"] = {"my_option": rng.choice([1, "x", [1, 2], None])}
    return s


def gen_results(rng) -> dict:
    n = rng.choice([1, 2, 3])
    entries = []
    for i in range(rng.choice([0, 1, 2, 3])):
        times = gen_times(rng) or [1.0]
        kind = rng.choice(["float", "int", "list", "matrix", "counter", "ndarray", "complex", "str"])

        def val():
            if kind == "float":
                return rng.choice([0.0, 0.5, -1.25, 1e-9, 3.0])
            if kind == "int":
                return rng.choice([0, 1, 1000])
            if kind == "list":
                return [rng.choice([0.0, 0.5, 1.0]) for _ in range(n)]
            if kind == "matrix":
                return [[rng.choice([0.0, 0.25, 1.0]) for _ in range(n)] for _ in range(n)]
            if kind == "counter":
                return {"".join(rng.choice("01") for _ in range(n)): rng.randrange(1, 100) for _ in range(2)}
            if kind == "ndarray":
                return {"__ndarray__": [rng.choice([0.0, 0.5, 1.0]) for _ in range(n)]}
            if kind == "complex":
                return {"__complex__": [rng.choice([0.5, 1.0]), rng.choice([0.0, 0.5, -1.0])]}
            return rng.choice(["a", ""])
        entries.append(dict(tag=f"obs{i}" if rng.random() < 0.7 else rng.choice(["energy", "ü"]) + str(i),
                            uuid=str(uuidlib.UUID(int=rng.getrandbits(128), version=4)),
                            times=times, values=[val() for _ in times], kind=kind))
    return dict(atom_order=[f"q{i}" for i in range(n)], total_duration=rng.choice([0, 1, 100, 10 ** 6]),
                entries=entries)


def gen_stateop(rng) -> dict:
    qutip = rng.random() < 0.3
    n = rng.choice([1, 2, 3])
    eig = ["r", "g"] if qutip else None
    st = gen_state(rng, n=n, normalised=qutip)
    if qutip:
        st["eigenstates"] = ["r", "g"]
        st = _fix_state_eig(st, rng)
    return dict(cls="qutip" if qutip else "repr", state=st, operator=gen_operator(rng, eig=eig),
                eig_container=rng.choice(["list", "tuple"]))


def gen_configalias(rng) -> dict:
    """A config spec whose arguments include caller-owned mutable containers: an array-valued interaction
    matrix, list- and dict-valued extra options, an observable with an evaluation-times list."""
    s = gen_config(rng)
    n = len(next(iter(s["initial_state"]["amplitudes"]))) if "initial_state" in s else rng.choice([1, 2, 3])
    if s["cls"] == "EmulationConfig":
        m = [[0.0] * n for _ in range(n)]
        for a in range(n):
            for b in range(a + 1, n):
                m[a][b] = m[b][a] = rng.choice([0.5, 1.5, 2])
        s["interaction_matrix"] = m
    s["extra"] = {"my_option": {"k": [1, 2], "name": "x"}, "my_list": [rng.choice([1, 2, 3]), 0.5]}
    if not s["observables"]:
        s["observables"] = [dict(kind="energy", evaluation_times=None, tag_suffix=None)]
    s["observables"][0]["evaluation_times"] = [0.25, 0.5]
    if "default_evaluation_times" not in s or s["default_evaluation_times"] == "Full":
        s["default_evaluation_times"] = [0.5, 1.0]
    return s


GENERATORS = {
    "channel": lambda rng: (gen_dmm(rng) if rng.random() < 0.2 else gen_channel(rng)),
    "device": gen_device, "layout": gen_layout, "noise": gen_noise,
    "simconfig": lambda rng: gen_noise(rng, allow_irrelevant=False),
    "register": gen_register, "detmap": gen_detmap, "config": gen_config, "results": gen_results,
    "stateop": gen_stateop, "configalias": gen_configalias,
}


# --------------------------------------------------------------------------------------
# spec -> object
# --------------------------------------------------------------------------------------
def _cplx(x):
    if isinstance(x, list) and len(x) == 2 and all(isinstance(e, (int, float)) for e in x):
        return complex(x[0], x[1])
    return x


def build_eom(s):
    from pulser.channels.eom import RydbergBeam, RydbergEOM

    kw = dict(s)
    kw["limiting_beam"] = RydbergBeam[kw["limiting_beam"]]
    kw["controlled_beams"] = tuple(RydbergBeam[b] for b in kw["controlled_beams"])
    return RydbergEOM(**kw)


def build_channel(s):
    import pulser.channels as pc

    cls = getattr(pc, s["cls"])
    kw = dict(s["kw"])
    if kw.get("propagation_dir") is not None:
        kw["propagation_dir"] = tuple(kw["propagation_dir"])
    if s["cls"] == "DMM":
        return cls(**kw)
    if s.get("eom"):
        kw["eom_config"] = build_eom(s["eom"])
    mad, ma = kw.pop("max_abs_detuning"), kw.pop("max_amp")
    if s["addressing"] == "Local":
        return cls.Local(mad, ma, **kw)
    return cls.Global(mad, ma, **kw)


def build_layout(s):
    from pulser.register.register_layout import RegisterLayout

    return RegisterLayout(s["coords"], slug=s["slug"])


def build_noise(s):
    import pulser

    kw = dict(s["kw"])
    if "eff_noise_opers" in kw:
        kw["eff_noise_opers"] = tuple([[_cplx(e) for e in row] for row in op] for op in kw["eff_noise_opers"])
        if s.get("qobj"):
            import qutip

            kw["eff_noise_opers"] = tuple(qutip.Qobj(np.array(op, dtype=complex)) for op in kw["eff_noise_opers"])
    if "eff_noise_rates" in kw:
        kw["eff_noise_rates"] = tuple(float(r) for r in kw["eff_noise_rates"])
    return pulser.NoiseModel(**kw)


def build_device(s):
    from pulser.devices import Device, VirtualDevice

    if "builtin" in s:
        import pulser.devices as pd

        return getattr(pd, s["builtin"])

    kw = dict(s["kw"])
    kw["channel_objects"] = tuple(build_channel(c) for c in s["channels"])
    if s["channel_ids"] is not None:
        kw["channel_ids"] = tuple(s["channel_ids"])
    if s["dmms"] is not None:
        kw["dmm_objects"] = tuple(build_channel(c) for c in s["dmms"])
    if s["noise"] is not None:
        kw["default_noise_model"] = build_noise(s["noise"])
    if s["virtual"]:
        return VirtualDevice(**kw)
    if s["layouts"]:
        kw["pre_calibrated_layouts"] = tuple(build_layout(x) for x in s["layouts"])
    return Device(**kw)


def build_register(s):
    import pulser

    if s["layout"] is not None:
        return build_layout(s["layout"]).define_register(*s["trap_ids"], qubit_ids=s["ids"])
    cls = pulser.Register3D if s["dim"] == 3 else pulser.Register
    return cls(dict(zip(s["ids"], s["coords"])))


def build_detmap(s):
    from pulser.register.weight_maps import DetuningMap

    return DetuningMap(s["coords"], s["weights"], slug=s["slug"])


def build_state(s, cls):
    return cls.from_state_amplitudes(eigenstates=tuple(s["eigenstates"]),
                                     amplitudes={k: _cplx(v) for k, v in s["amplitudes"].items()})


def build_operator(s, cls):
    ops = [(_cplx(c), [({k: _cplx(v) for k, v in q.items()}, list(inds)) for q, inds in tensor])
           for c, tensor in s["operations"]]
    return cls.from_operator_repr(eigenstates=tuple(s["eigenstates"]), n_qudits=s["n_qudits"], operations=ops)


def _config_types(cls_name):
    from pulser.backend.operator import OperatorRepr
    from pulser.backend.state import StateRepr

    if cls_name == "QutipConfig":
        from pulser_simulation.qutip_config import QutipConfig
        from pulser_simulation.qutip_op import QutipOperator
        from pulser_simulation.qutip_state import QutipState

        return QutipConfig, QutipState, QutipOperator
    from pulser.backend import EmulationConfig

    return EmulationConfig, StateRepr, OperatorRepr


def build_observable(s, state_cls, op_cls):
    import pulser.backend as pb

    kw = dict(evaluation_times=s["evaluation_times"], tag_suffix=s["tag_suffix"])
    k = s["kind"]
    if k == "bitstrings":
        return pb.BitStrings(**kw, **{x: s[x] for x in ("num_shots", "one_state") if x in s})
    if k == "occupation":
        return pb.Occupation(**kw, **{x: s[x] for x in ("one_state",) if x in s})
    if k == "correlation_matrix":
        return pb.CorrelationMatrix(**kw, **{x: s[x] for x in ("one_state",) if x in s})
    if k == "expectation":
        return pb.Expectation(build_operator(s["operator"], op_cls), **kw)
    if k == "fidelity":
        return pb.Fidelity(build_state(s["state"], state_cls), **kw)
    return {"energy": pb.Energy, "energy_variance": pb.EnergyVariance,
            "energy_second_moment": pb.EnergySecondMoment}[k](**kw)


def build_config(s):
    cfg_cls, state_cls, op_cls = _config_types(s["cls"])
    kw: dict = dict(observables=[build_observable(o, state_cls, op_cls) for o in s["observables"]])
    for k in ("default_evaluation_times", "with_modulation", "interaction_matrix", "prefer_device_noise_model",
              "sampling_rate"):
        if k in s:
            kw[k] = s[k]
    if "initial_state" in s:
        kw["initial_state"] = build_state(s["initial_state"], state_cls)
    if "noise" in s:
        kw["noise_model"] = build_noise(s["noise"])
    kw.update(s.get("extra", {}))
    return cfg_cls(**kw)


def _result_value(v):
    if isinstance(v, dict) and "__ndarray__" in v:
        return np.array(v["__ndarray__"])
    if isinstance(v, dict) and "__complex__" in v:
        return complex(*v["__complex__"])
    return copy.deepcopy(v)


def build_results(s):
    from pulser.backend import Results

    r = Results(atom_order=tuple(s["atom_order"]), total_duration=s["total_duration"])
    for e in s["entries"]:
        for t, v in zip(e["times"], e["values"]):
            r._store_raw(uuid=uuidlib.UUID(e["uuid"]), tag=e["tag"], time=t, value=_result_value(v))
    return r


def build(family: str, spec):
    with warnings.catch_warnings():
        warnings.simplefilter("ignore")
        if family == "channel":
            return build_channel(spec)
        if family == "device":
            return build_device(spec)
        if family == "layout":
            return build_layout(spec)
        if family in ("noise", "simconfig"):
            return build_noise(spec)
        if family == "register":
            return build_register(spec)
        if family == "detmap":
            return build_detmap(spec)
        if family == "config":
            return build_config(spec)
        if family == "results":
            return build_results(spec)
        if family in ("stateop", "configalias"):
            return spec  # built (twice, from shared containers) inside run_stateop / run_configalias
    raise ValueError(family)


# --------------------------------------------------------------------------------------
# independent schema validation
# --------------------------------------------------------------------------------------
_VALIDATORS: dict = {}


def install_check_schema_memo() -> None:
    """`jsonschema.validate` re-validates the (constant, 2000-line) schema against its metaschema on every
    call (~90 ms for the device schema).  Memoise `check_schema` per schema object: same verdicts, and the
    library's own `to_abstract_repr` / `from_abstract_repr` stay on their public, validating path."""
    import jsonschema

    if _VALIDATORS.get("memo"):
        return
    for cls in (jsonschema.Draft7Validator, jsonschema.Draft202012Validator, jsonschema.Draft201909Validator,
                jsonschema.Draft6Validator, jsonschema.Draft4Validator):
        orig = cls.check_schema.__func__
        seen: dict = {}

        def check_schema(klass, schema, *a, _orig=orig, _seen=seen, **kw):
            key = id(schema)
            if key not in _seen:
                _orig(klass, schema, *a, **kw)
                _seen[key] = schema  # keeps the object alive so the id stays unique
            return None

        cls.check_schema = classmethod(check_schema)
    _VALIDATORS["memo"] = True


def schema_validate(instance, name: str) -> str | None:
    """Validate against /repo's schema files with our own registry. -> error text or None."""
    import jsonschema
    from referencing import Registry, Resource

    if "registry" not in _VALIDATORS:
        d = common.REPO / "pulser-core" / "pulser" / "json" / "abstract_repr" / "schemas"
        schemas = {n: json.loads((d / f"{n}-schema.json").read_text())
                   for n in ("device", "layout", "register", "noise", "results", "config", "sequence")}
        _VALIDATORS["schemas"] = schemas
        _VALIDATORS["registry"] = Registry().with_resources(
            [(f"{n}-schema.json", Resource.from_contents(schemas[n])) for n in ("device", "layout", "register",
                                                                               "noise")])
    schema = _VALIDATORS["schemas"][name]
    try:
        if name not in _VALIDATORS:
            cls = jsonschema.validators.validator_for(schema)
            cls.check_schema(schema)
            _VALIDATORS[name] = cls(schema, registry=_VALIDATORS["registry"])
        err = jsonschema.exceptions.best_match(_VALIDATORS[name].iter_errors(instance))
        if err is not None:
            raise err
    except jsonschema.exceptions.ValidationError as e:
        return str(e.message)[:300]
    except Exception as e:  # noqa: BLE001
        # The validator of the schema's declared draft crashed (config-schema is draft 2020-12 but $refs the
        # draft-7 noise schema, whose array form of "items" it does not understand): validate as Draft 7, the
        # common denominator (what the library and upstream do for every schema).
        try:
            key = name + ":draft7"
            if key not in _VALIDATORS:
                _VALIDATORS[key] = jsonschema.Draft7Validator(schema, registry=_VALIDATORS["registry"])
            err = jsonschema.exceptions.best_match(_VALIDATORS[key].iter_errors(instance))
            return None if err is None else str(err.message)[:300]
        except Exception as e2:  # noqa: BLE001
            return f"validator raised {type(e).__name__} / {type(e2).__name__}: {str(e2)[:200]}"
    return None


def detmap_schema_validate(instance) -> str | None:
    """A detuning map has no schema of its own: use the sequence schema's definition."""
    import jsonschema

    schema_validate({}, "layout")  # make sure the cache is loaded
    seq = _VALIDATORS["schemas"]["sequence"]
    defs = seq.get("definitions", {})
    if "DetuningMap" not in defs:
        return None
    sub = {"$schema": seq.get("$schema"), "definitions": defs, "$ref": "#/definitions/DetuningMap"}
    try:
        jsonschema.validate(instance=instance, schema=sub)
    except jsonschema.exceptions.ValidationError as e:
        return str(e.message)[:300]
    return None


# --------------------------------------------------------------------------------------
# snapshots (field-wise view of an object, canonical and hashable via value_key)
# --------------------------------------------------------------------------------------
def _num_list(x):
    return None if x is None else [float(t) for t in np.asarray(x, dtype=float).tolist()]


def snap_state(st):
    if st is None:
        return tb.NULL
    amps = st._amplitudes
    return tb.vobj([("class", tb.vstr(type(st).__name__)), ("eigenstates", to_value(list(st.eigenstates))),
                    ("n_qudits", to_value(st.n_qudits)),
                    ("amplitudes", tb.NULL if amps is None else tb.vobj(
                        [(k, to_value(complex(v))) for k, v in sorted(amps.items())]))])


def _snap_ops(ops):
    out = []
    for coeff, tensor in ops:
        out.append(tb.vlist([to_value(complex(coeff)), tb.vlist([
            tb.vlist([tb.vobj([(k, to_value(complex(v))) for k, v in sorted(q.items())]),
                      to_value([int(i) for i in inds])]) for q, inds in tensor])]))
    return tb.vlist(out)


def snap_operator(op):
    return tb.vobj([("class", tb.vstr(type(op).__name__)), ("eigenstates", to_value(list(op._eigenstates))),
                    ("n_qudits", to_value(op._n_qudits)), ("operations", _snap_ops(op._operations))])


def snap_observable(o):
    kvs = [("class", tb.vstr(type(o).__name__)), ("tag", tb.vstr(o.tag)),
           ("evaluation_times", to_value(_num_list(o.evaluation_times))),
           ("tag_suffix", to_value(o._tag_suffix))]
    for a in ("num_shots", "one_state"):
        if hasattr(o, a):
            kvs.append((a, to_value(getattr(o, a))))
    if hasattr(o, "state"):
        kvs.append(("state", snap_state(o.state)))
    if hasattr(o, "operator"):
        kvs.append(("operator", snap_operator(o.operator)))
    return tb.vobj(kvs)


def snap_config(c):
    kvs = [("class", tb.vstr(type(c).__name__))]
    for k, v in sorted(c._backend_options.items()):
        if k == "observables":
            kvs.append((k, tb.vlist([snap_observable(o) for o in v])))
        elif k == "initial_state":
            kvs.append((k, snap_state(v)))
        elif k == "noise_model":
            kvs.append((k, tb.noise_value(v)))
        elif k == "default_evaluation_times":
            kvs.append((k, tb.vstr(v) if isinstance(v, str) else to_value(_num_list(v))))
        elif k == "interaction_matrix":
            kvs.append((k, tb.NULL if v is None else to_value(np.asarray(
                v.as_array(detach=True) if hasattr(v, "as_array") else v, dtype=float).tolist())))
        else:
            kvs.append((k, to_value(v)))
    return tb.vobj(kvs)


def _snap_result_value(v):
    if isinstance(v, np.ndarray):
        return tb.vobj([("ndarray", to_value(v.tolist()))])
    if isinstance(v, (complex, np.complexfloating)):
        if complex(v).imag == 0:  # 1+0j == 1.0: a complex without imaginary part travels as a real number
            return tb.vnum(complex(v).real)
        return tb.vobj([("complex", tb.vlist([tb.vnum(complex(v).real), tb.vnum(complex(v).imag)]))])
    if isinstance(v, dict):
        return tb.vobj([(str(k), _snap_result_value(x)) for k, x in sorted(v.items())])
    if isinstance(v, (list, tuple)):
        return tb.vlist([_snap_result_value(x) for x in v])
    return to_value(v)


def snap_results(r):
    return tb.vobj([("atom_order", to_value(list(r.atom_order))), ("atom_order_type", tb.vstr(type(r.atom_order).__name__)),
                    ("total_duration", to_value(r.total_duration)),
                    ("tagmap", tb.vobj([(k, tb.vstr(str(v))) for k, v in sorted(r._tagmap.items())])),
                    ("times", tb.vobj([(str(k), to_value(v)) for k, v in sorted(r._times.items(), key=lambda kv: str(kv[0]))])),
                    ("results", tb.vobj([(str(k), tb.vlist([_snap_result_value(x) for x in v]))
                                         for k, v in sorted(r._results.items(), key=lambda kv: str(kv[0]))]))])


def snap_register(reg):
    lay = reg.layout
    info = reg._layout_info
    return tb.vobj([("class", tb.vstr(type(reg).__name__)), ("ids", to_value([str(i) for i in reg.qubit_ids])),
                    ("id_types", to_value([type(i).__name__ for i in reg.qubit_ids])),
                    ("coords", to_value(np.asarray(reg._coords_arr.as_array(detach=True)).tolist())),
                    ("layout", tb.NULL if lay is None else tb.layout_value(lay)),
                    ("trap_ids", tb.NULL if info is None else to_value(list(info.trap_ids)))])


def snap_detmap(dm, ordered: bool):
    if ordered:  # the fields as given (dataclass field `weights`, property `trap_coordinates`), coordinates at
        # the library's COORD_PRECISION (sub-precision digits are dropped by design)
        return tb.vobj([("weights", to_value(list(dm.weights))),
                        ("trap_coordinates", to_value((np.round(dm.trap_coordinates, SPEC_COORD_PRECISION)
                                                       + 0.0).tolist())),
                        ("slug", to_value(dm.slug))])
    return tb.vobj([("sorted_weights", to_value(dm.sorted_weights.tolist())),
                    ("sorted_coords", to_value(dm.sorted_coords.tolist())), ("slug", to_value(dm.slug))])


def snapshot(family: str, obj):
    if family == "channel":
        return tb.channel_value(obj, None)
    if family == "device":
        v = tb.device_value(obj)
        return v
    if family == "layout":
        return tb.layout_value(obj)
    if family in ("noise", "simconfig"):
        return tb.noise_value(obj)
    if family == "register":
        return snap_register(obj)
    if family == "detmap":
        return tb.vobj([("given", snap_detmap(obj, True)), ("sorted", snap_detmap(obj, False))])
    if family == "config":
        return snap_config(obj)
    if family == "results":
        return snap_results(obj)
    raise ValueError(family)


def diff_values(a, b, path="") -> list[str]:
    """Paths at which two model values differ (objects compared by key)."""
    if value_key(a) == value_key(b):
        return []
    if a[0] == "obj" and b[0] == "obj":
        da, db = dict(a[1]), dict(b[1])
        out = []
        for k in list(da) + [k for k in db if k not in da]:
            if k not in da or k not in db:
                out.append(f"{path}.{k}")
            else:
                out += diff_values(da[k], db[k], f"{path}.{k}")
        return out
    if a[0] == "list" and b[0] == "list" and len(a[1]) == len(b[1]):
        out = []
        for i, (x, y) in enumerate(zip(a[1], b[1])):
            out += diff_values(x, y, f"{path}[{i}]")
        return out
    return [path or "."]


# --------------------------------------------------------------------------------------
# real-code round trips
# --------------------------------------------------------------------------------------
class Fail:
    """A monitor failure: the property as stated is false on this object."""

    def __init__(self, clause: str, key: dict, msg: str):
        self.clause, self.key, self.msg = clause, key, msg

    def __repr__(self):
        return f"[{self.clause}] {self.msg} key={self.key}"


def real_encode(family: str, obj) -> str:
    from pulser.json.abstract_repr.serializer import AbstractReprEncoder

    if family == "channel":
        raise ValueError("channels are encoded inside a device")
    if family == "detmap":
        return json.dumps(obj, cls=AbstractReprEncoder)
    return obj.to_abstract_repr()


SCHEMA_OF = {"device": "device", "layout": "layout", "noise": "noise", "register": "register",
             "config": "config", "results": "results"}


def real_decode(family: str, s: str, spec):
    import pulser
    from pulser.json.abstract_repr import deserializer as de

    if family == "device":
        return (pulser.devices.VirtualDevice if spec.get("virtual") else pulser.devices.Device).from_abstract_repr(s)
    if family == "layout":
        return pulser.register.register_layout.RegisterLayout.from_abstract_repr(s)
    if family == "noise":
        return pulser.NoiseModel.from_abstract_repr(s)
    if family == "register":
        return (pulser.Register3D if spec["dim"] == 3 else pulser.Register).from_abstract_repr(s)
    if family == "detmap":
        return de._deserialize_det_map(json.loads(s))
    if family == "config":
        return _config_types(spec["cls"])[0].from_abstract_repr(s)
    if family == "results":
        from pulser.backend import Results

        return Results.from_abstract_repr(s)
    raise ValueError(family)


HAS_EQ = {"device", "layout", "noise", "register", "detmap", "results", "channel"}


def channel_host(ch, virtual=True):
    """A minimal device hosting one channel (channels only serialise inside a device)."""
    from pulser.channels import DMM
    from pulser.devices import VirtualDevice

    kw = dict(name="host", dimensions=2, rydberg_level=60)
    if isinstance(ch, DMM):
        return VirtualDevice(dmm_objects=(ch,), **kw)
    if ch.basis == "XY":
        kw["interaction_coeff_xy"] = 3700.0
    return VirtualDevice(channel_objects=(ch,), channel_ids=("the_id",), dmm_objects=(), supports_slm_mask=False, **kw)


def roundtrip(family: str, spec, obj):
    """-> (json str | None, decoded | None, [Fail])"""
    fails: list[Fail] = []
    with warnings.catch_warnings():
        warnings.simplefilter("ignore")
        if family == "channel":
            from pulser.channels import DMM
            from pulser.devices import VirtualDevice

            try:
                host = channel_host(obj)
            except Exception as e:  # noqa: BLE001
                return None, None, [construct_fail(family, spec, e)]
            try:
                s = host.to_abstract_repr()
            except Exception as e:  # noqa: BLE001
                return None, None, [Fail("encode", _key(family, spec, "encode", exc=type(e).__name__),
                                         f"to_abstract_repr raised {type(e).__name__}: {str(e)[:200]}")]
            err = schema_validate(json.loads(s), "device")
            if err:
                fails.append(Fail("schema", _key(family, spec, "schema"), f"schema violation: {err}"))
            try:
                back = VirtualDevice.from_abstract_repr(s)
            except Exception as e:  # noqa: BLE001
                return s, None, fails + [Fail("decode", _key(family, spec, "decode", exc=type(e).__name__),
                                              f"from_abstract_repr raised {type(e).__name__}: {str(e)[:200]}")]
            dec = (back.dmm_objects if isinstance(obj, DMM) else back.channel_objects)[0]
            return s, dec, fails
        try:
            s = real_encode(family, obj)
        except Exception as e:  # noqa: BLE001
            return None, None, [Fail("encode", _key(family, spec, "encode", exc=type(e).__name__, obj=obj,
                                                    case=_encode_case(family, spec, type(e).__name__)),
                                     f"to_abstract_repr raised {type(e).__name__}: {str(e)[:200]}")]
        j = json.loads(s)
        err = detmap_schema_validate(j) if family == "detmap" else schema_validate(j, SCHEMA_OF[family])
        if err:
            fails.append(Fail("schema", _key(family, spec, "schema", obj=obj), f"schema violation: {err}"))
        try:
            dec = real_decode(family, s, spec)
        except Exception as e:  # noqa: BLE001
            return s, None, fails + [Fail("decode", _key(family, spec, "decode", exc=type(e).__name__, obj=obj),
                                          f"from_abstract_repr raised {type(e).__name__}: {str(e)[:200]}")]
    return s, dec, fails


def _key(family, spec, clause, field=None, exc=None, obj=None, case=None) -> dict:
    cls = {"channel": lambda: spec["cls"], "device": lambda: "VirtualDevice" if spec.get("virtual") else "Device",
           "layout": lambda: "RegisterLayout", "noise": lambda: "NoiseModel", "simconfig": lambda: "SimConfig",
           "register": lambda: "Register3D" if spec["dim"] == 3 else "Register", "detmap": lambda: "DetuningMap",
           "config": lambda: spec["cls"], "results": lambda: "Results",
           "stateop": lambda: "QutipState" if spec["cls"] == "qutip" else "StateRepr",
           "configalias": lambda: spec["cls"]}[family]()
    k = dict(clause=clause, **{"class": cls})
    if field is not None:
        k["field"] = field
    if exc is not None:
        k["exception"] = exc
    if case is not None:
        k["case"] = case
    return k


def construct_case(family, spec, exc_name) -> str | None:
    """Discriminating argument of a construction failure of a (by the generator's rules) valid spec."""
    chans = []
    if family == "channel":
        chans = [spec]
    elif family == "device":
        chans = list(spec.get("channels", []))
    if exc_name == "TypeError" and any(
            c["cls"] != "DMM" and c["kw"].get("max_amp") is None and c["kw"].get("max_abs_detuning") is not None
            for c in chans):
        return "channel-max_amp-None-with-max_abs_detuning"
    return None


def construct_fail(family, spec, e) -> Fail:
    k = _key(family, spec, "construct", exc=type(e).__name__, case=construct_case(family, spec, type(e).__name__))
    if family == "channel":
        k["class"] = "VirtualDevice"  # the host device is what fails to build
    return Fail("construct", k, f"construction raised {type(e).__name__}: {str(e)[:200]}")


def _encode_case(family, spec, exc_name) -> str | None:
    """Discriminating argument of an encode/decode failure."""
    if family == "config":
        has_e2 = any(o["kind"] == "energy_second_moment" for o in spec["observables"])
        has_eff = bool(spec.get("noise") and spec["noise"]["kw"].get("eff_noise_rates"))
        if exc_name == "ValidationError" and has_e2:
            return "energy_second_moment"
        if exc_name == "AttributeError" and has_eff:
            return "noise-model-with-eff_noise"
    nspec = spec if family == "noise" else (spec.get("noise") if family in ("device", "config") else None)
    if exc_name == "TypeError" and nspec and nspec.get("qobj"):
        return "qobj-operator"
    return None


def _noise_diff_case(a, b) -> str:
    """Why two noise models differ: only in parameters no active noise type uses, or otherwise."""
    rel = noise_relevant(a)
    diff = [f.name for f in dataclasses.fields(a) if not _approx_equal(getattr(a, f.name), getattr(b, f.name))
            and getattr(a, f.name) != getattr(b, f.name)]
    return "irrelevant-param" if diff and all(d not in rel for d in diff) else "relevant-param"


def _case_of(family, spec, obj, field, dec=None) -> str | None:
    """Discriminating argument of a field-level failure (keeps known findings narrow)."""
    if family == "device" and field == "default_noise_model" and dec is not None \
            and obj.default_noise_model is not None and dec.default_noise_model is not None:
        return _noise_diff_case(obj.default_noise_model, dec.default_noise_model)
    if family == "device" and field == "dmm_objects":
        n = len(obj.dmm_objects) if spec.get("dmms") is None else len(spec["dmms"])
        return "empty" if n == 0 else "non-empty"
    if family in ("noise",) and field in ("runs", "samples_per_run"):
        rel = spec_relevant(lambda p: spec["kw"].get(p))
        return "irrelevant-param" if field not in rel else "relevant-param"
    if family == "detmap" and field in ("given",):
        # from the constructor arguments, with python's own tuple ordering (x, then y)
        given = [_round_coord(c) for c in spec["coords"]]
        return "unsorted" if given != sorted(given) else "sorted"
    if family == "results" and field == "results":
        kinds = {e["kind"] for e in spec["entries"]}
        if "complex" in kinds:
            return "complex-value"
        if "ndarray" in kinds:
            return "ndarray-value"
        return "plain"
    return None


def monitor_roundtrip(family: str, spec, obj, dec) -> list[Fail]:
    """decoded == original, and field-wise."""
    fails: list[Fail] = []
    with warnings.catch_warnings():
        warnings.simplefilter("ignore")
        a, b = snapshot(family, obj), snapshot(family, dec)
        diffs = diff_values(a, b)
        top = sorted({d.split(".")[1].split("[")[0] if "." in d else d for d in diffs})
        if family == "results":
            # documented: numpy arrays come back as lists ("their original class is lost forever")
            diffs = diff_values(_results_lenient(a), _results_lenient(b))
            top = sorted({d.split(".")[1].split("[")[0] if "." in d else d for d in diffs})
        if family == "detmap":
            # the canonical (sorted) view is what equality is defined on; the as-given order is a field too
            top = sorted({("given" if d.startswith(".given") else "sorted") for d in diffs})
        for f in top:
            case = _case_of(family, spec, obj, f, dec)
            fails.append(Fail("roundtrip-field", _key(family, spec, "roundtrip-field", field=f, case=case),
                              f"field {f!r} differs after the round trip: "
                              f"{[d for d in diffs if f in d][:3]}"))
        if family in HAS_EQ:
            try:
                eq = bool(obj == dec)
            except Exception as e:  # noqa: BLE001
                if family == "results" and any(x["kind"] == "ndarray" for x in spec["entries"]):
                    eq = True  # dataclass == over numpy arrays is ill-defined; the field-wise view decides
                else:
                    eq = False
                    fails.append(Fail("roundtrip-eq", _key(family, spec, "roundtrip-eq", exc=type(e).__name__),
                                      f"== raised {type(e).__name__}"))
            if not eq and not fails:
                fails.append(Fail("roundtrip-eq", _key(family, spec, "roundtrip-eq"),
                                  "decoded object != original although every compared field is equal"))
            if not eq and fails and family in ("device", "noise", "results") and not any(
                    f.clause == "roundtrip-eq" for f in fails):
                pass  # explained by the field differences above
            if eq and type(obj) is not type(dec):
                fails.append(Fail("roundtrip-type", _key(family, spec, "roundtrip-type"),
                                  f"decoded type {type(dec).__name__} != {type(obj).__name__}"))
    return fails


def _results_lenient(v):
    if v[0] == "obj":
        d = dict(v[1])
        if set(d) == {"ndarray"}:
            return d["ndarray"]
        return ("obj", [(k, _results_lenient(x)) for k, x in v[1]])
    if v[0] == "list":
        return ("list", [_results_lenient(x) for x in v[1]])
    return v


# --------------------------------------------------------------------------------------
# noise-model clauses
# --------------------------------------------------------------------------------------
def truthy(x) -> bool:
    if isinstance(x, (list, tuple)):
        return len(x) > 0
    return bool(x)


def monitor_noise_types(spec, nm) -> list[Fail]:
    """Active types are exactly those whose parameters were set (documented relation)."""
    kw = spec["kw"]
    expected = sorted(t for t, ps in SPEC_TYPE_PARAMS.items() if any(truthy(kw.get(p)) for p in ps))
    got = list(nm.noise_types)
    if sorted(got) != expected or got != sorted(got) or len(set(got)) != len(got):
        return [Fail("noise-types", dict(clause="noise-types", **{"class": "NoiseModel"}),
                     f"noise_types={got} but the parameters set imply {expected}")]
    return []


def _round_coord(c) -> tuple:
    return tuple(round(float(x), SPEC_COORD_PRECISION) + 0.0 for x in c)


def _num_eq(a, b) -> bool:
    """Numeric / structural equality of plain python data (ints and floats alike, tuples and lists alike)."""
    if isinstance(a, (list, tuple)) or isinstance(b, (list, tuple)):
        return isinstance(a, (list, tuple)) and isinstance(b, (list, tuple)) and len(a) == len(b) and all(
            _num_eq(x, y) for x, y in zip(a, b))
    if isinstance(a, dict) or isinstance(b, dict):
        return isinstance(a, dict) and isinstance(b, dict) and set(a) == set(b) and all(
            _num_eq(a[k], b[k]) for k in a)
    if a is None or b is None or isinstance(a, str) or isinstance(b, str):
        return a is b or (isinstance(a, str) and isinstance(b, str) and a == b)
    if isinstance(a, bool) or isinstance(b, bool):
        return isinstance(a, bool) and isinstance(b, bool) and a == b
    return complex(a) == complex(b)


def monitor_spec(family: str, spec, dec) -> list[Fail]:
    """The decoded object against the *constructor arguments* it must reproduce (an oracle that does not go
    through the original object's attributes, derived views, __eq__ or the library's sorting / relevance code)."""
    out: list[Fail] = []

    def bad(field, msg):
        out.append(Fail("roundtrip-spec", _key(family, spec, "roundtrip-spec", field=field), msg[:300]))

    with warnings.catch_warnings():
        warnings.simplefilter("ignore")
        if family == "layout":
            exp = sorted(_round_coord(c) for c in spec["coords"])
            got = sorted(_round_coord(c) for c in np.asarray(dec._coords, dtype=float).tolist())
            if exp != got:
                bad("coordinates", f"decoded layout holds {got[:4]}…, constructed from {exp[:4]}…")
            if dec.slug != spec["slug"]:
                bad("slug", f"slug {dec.slug!r} != {spec['slug']!r}")
        elif family == "detmap":
            exp = {_round_coord(c): float(w) for c, w in zip(spec["coords"], spec["weights"])}
            got = {_round_coord(c): float(w) for c, w in zip(np.asarray(dec.trap_coordinates).tolist(), dec.weights)}
            if exp != got:
                bad("weights", f"decoded trap -> weight map {sorted(got.items())[:3]} != {sorted(exp.items())[:3]}")
            if dec.slug != spec["slug"]:
                bad("slug", f"slug {dec.slug!r} != {spec['slug']!r}")
        elif family == "register":
            if [str(i) for i in dec.qubit_ids] != [str(i) for i in spec["ids"]] and spec["ids"]:
                bad("ids", f"ids {dec.qubit_ids} != {spec['ids']}")
            got = [tuple(float(x) for x in c) for c in np.asarray(dec._coords_arr.as_array(detach=True)).tolist()]
            if spec["layout"] is None:
                exp = [tuple(float(x) for x in c) for c in spec["coords"]]
            else:
                # which coordinates the trap ids stand for is the layout's numbering (property C19): only the
                # numbering-independent parts are checked here; the coordinates are compared with the original's
                traps = sorted(_round_coord(c) for c in spec["layout"]["coords"])
                exp = got
                lay = dec.layout
                if lay is None:
                    bad("layout", "decoded register has no layout")
                else:
                    if sorted(_round_coord(c) for c in np.asarray(lay._coords, dtype=float).tolist()) != traps:
                        bad("layout", "decoded layout has other traps than the one the register was defined from")
                    if lay.slug != spec["layout"]["slug"]:
                        bad("layout", f"layout slug {lay.slug!r} != {spec['layout']['slug']!r}")
                    if list(dec._layout_info.trap_ids) != list(spec["trap_ids"]):
                        bad("trap_ids", f"trap ids {dec._layout_info.trap_ids} != {spec['trap_ids']}")
            if got != exp:
                bad("coords", f"coordinates {got[:3]} != {exp[:3]}")
        elif family == "noise":
            kw = spec["kw"]
            rel = spec_relevant(lambda p: kw.get(p))
            types = spec_types(lambda p: kw.get(p))
            if list(dec.noise_types) != types:
                bad("noise_types", f"noise_types {dec.noise_types} != {types}")
            for p in SPEC_NOISE_PARAMS:
                given = kw.get(p, SPEC_NOISE_DEFAULTS.get(p))
                if p in ("runs", "samples_per_run") and p not in rel and given is not None:
                    continue  # stored although unused: the round-trip monitor reports it (finding C17-F3)
                if p in SPEC_ZEROED and not truthy(given):
                    given = 0.0
                if p == "eff_noise_opers":
                    given = [[[_cplx(e) for e in row] for row in op] for op in given]
                    ok = len(given) == len(dec.eff_noise_opers) and all(
                        np.array_equal(np.array(a, dtype=complex), tb._oper_array(b))
                        for a, b in zip(given, dec.eff_noise_opers))
                else:
                    ok = _num_eq(given, getattr(dec, p))
                if not ok:
                    bad(p, f"{p}: decoded {getattr(dec, p)!r}, constructed with {given!r}")
        elif family == "results":
            if not isinstance(dec.atom_order, tuple) or list(dec.atom_order) != list(spec["atom_order"]):
                bad("atom_order", f"atom_order {dec.atom_order!r} != {tuple(spec['atom_order'])!r}")
            if dec.total_duration != spec["total_duration"] or isinstance(dec.total_duration, bool):
                bad("total_duration", f"total_duration {dec.total_duration!r} != {spec['total_duration']!r}")
            exp_tags, exp_times, exp_vals = {}, {}, {}
            for e in spec["entries"]:
                exp_tags[e["tag"]] = e["uuid"]
                exp_times.setdefault(e["uuid"], []).extend(e["times"])
                exp_vals.setdefault(e["uuid"], []).extend(
                    (v["__ndarray__"] if isinstance(v, dict) and "__ndarray__" in v else
                     complex(*v["__complex__"]) if isinstance(v, dict) and "__complex__" in v else v)
                    for v in e["values"])
            if {k: str(v) for k, v in dec._tagmap.items()} != exp_tags:
                bad("tagmap", f"tagmap {dec._tagmap} != {exp_tags}")
            if not _num_eq({str(k): v for k, v in dec._times.items()}, exp_times):
                bad("times", f"times {dec._times} != {exp_times}")
            if not _num_eq({str(k): v for k, v in dec._results.items()}, exp_vals):
                bad("results", f"values {str(dec._results)[:120]} != {str(exp_vals)[:120]}")
    return out


def monitor_json_ids(family: str, spec, s: str | None) -> list[Fail]:
    """Channel ids in the JSON: the ids given (or the documented "dmm_[index in dmm_objects]" for DMMs)."""
    if s is None or family not in ("device", "channel"):
        return []
    j = json.loads(s)
    got = [d.get("id") for d in j.get("dmm_objects", [])]
    if got != [f"dmm_{i}" for i in range(len(got))]:
        return [Fail("json-ids", _key(family, spec, "json-ids", field="dmm_objects"),
                     f"DMM ids in the JSON are {got}")]
    if family == "device" and spec.get("channel_ids"):
        got = [d.get("id") for d in j.get("channels", [])]
        if got != list(spec["channel_ids"]):
            return [Fail("json-ids", _key(family, spec, "json-ids", field="channels"),
                         f"channel ids in the JSON are {got}, given {spec['channel_ids']}")]
    return []


def monitor_relevance(spec, nm) -> list[Fail]:
    """`NoiseModel._find_relevant_params` against the independent statement of which parameters matter."""
    got = set(type(nm)._find_relevant_params(nm.noise_types, nm.state_prep_error, nm.amp_sigma, nm.laser_waist))
    exp = spec_relevant(lambda p: spec["kw"].get(p))
    if got != exp:
        return [Fail("relevant-params", dict(clause="relevant-params", **{"class": "NoiseModel"}),
                     f"relevant parameters {sorted(got)} but the active noise types imply {sorted(exp)}")]
    return []


def monitor_simconfig(spec, nm) -> tuple[list[Fail], dict]:
    """NoiseModel -> SimConfig -> NoiseModel keeps the active types and every relevant parameter."""
    from pulser_simulation import SimConfig

    fails = []
    info = {}
    with warnings.catch_warnings():
        warnings.simplefilter("ignore")
        try:
            sc = SimConfig.from_noise_model(nm)
            back = sc.to_noise_model()
        except Exception as e:  # noqa: BLE001
            return [Fail("simconfig", dict(clause="simconfig", **{"class": "SimConfig"}, exception=type(e).__name__),
                         f"conversion raised {type(e).__name__}: {str(e)[:200]}")], info
    info["sc"], info["back"] = sc, back
    if tuple(sc.noise) != tuple(nm.noise_types) or tuple(back.noise_types) != tuple(nm.noise_types):
        fails.append(Fail("simconfig", dict(clause="simconfig", **{"class": "SimConfig"}, field="noise_types"),
                          f"noise types {nm.noise_types} -> {sc.noise} -> {back.noise_types}"))
    rel = spec_relevant(lambda p: spec["kw"].get(p))
    rename = {"state_prep_error": "eta", "p_false_pos": "epsilon", "p_false_neg": "epsilon_prime"}
    for p in sorted(rel):
        a, b = getattr(nm, p), getattr(back, p)
        if not _exact_equal(a, b):
            # back in a NoiseModel the parameter must be *the same* value, not a neighbouring float
            case = "float-rounding" if _approx_equal(a, b) else None
            k = dict(clause="simconfig", **{"class": "SimConfig"}, field=p)
            if case:
                k["case"] = case
            fails.append(Fail("simconfig", k, f"relevant parameter {p}: {a!r} -> {b!r}"))
            continue
        ok = True
        if p not in ("with_leakage",):
            c = getattr(sc, rename.get(p, p))
            if p == "temperature":
                c = c * 1e6
            if p == "eff_noise_opers":
                c = [op.full() for op in c]
            ok = ok and _approx_equal(a, c)
        if not ok:
            fails.append(Fail("simconfig", dict(clause="simconfig", **{"class": "SimConfig"}, field=p),
                              f"relevant parameter {p}: {a!r} -> {b!r}"))
    return fails, info


def _exact_equal(a, b) -> bool:
    if a is None or b is None:
        return a is None and b is None
    if isinstance(a, bool) or isinstance(b, bool):
        return bool(a) == bool(b)
    if isinstance(a, (list, tuple)) and isinstance(b, (list, tuple)) and len(a) != len(b):
        return False
    try:
        if isinstance(a, (list, tuple)) and a and not np.isscalar(a[0]) and not isinstance(a[0], (list, tuple)):
            a = [tb._oper_array(x) for x in a]  # operator objects
        x, y = np.asarray(a, dtype=complex), np.asarray(b, dtype=complex)
    except (TypeError, ValueError):
        return a == b
    return x.shape == y.shape and bool(np.array_equal(x, y))


def _approx_equal(a, b) -> bool:
    if a is None or b is None:
        return a is None and b is None
    if isinstance(a, bool) or isinstance(b, bool):
        return bool(a) == bool(b)
    try:
        x, y = np.asarray(a, dtype=complex), np.asarray(b, dtype=complex)
    except (TypeError, ValueError):
        return a == b
    return x.shape == y.shape and bool(np.allclose(x, y, rtol=1e-12, atol=0.0))


# --------------------------------------------------------------------------------------
# states and operators on their own: round trip + "per-instance amplitudes / operations"
# --------------------------------------------------------------------------------------
_MUTABLE = (dict, list, set, bytearray, np.ndarray)


def _mutables(obj, depth=4, seen=None) -> dict:
    """ids of the mutable containers reachable from an object's attributes."""
    seen = {} if seen is None else seen
    if depth < 0:
        return seen
    vals = []
    if isinstance(obj, dict):
        vals = list(obj.values())
    elif isinstance(obj, (list, tuple, set)):
        vals = list(obj)
    elif hasattr(obj, "__dict__") and not isinstance(obj, type):
        vals = list(vars(obj).values())
    for v in vals:
        if isinstance(v, _MUTABLE):
            if id(v) in seen:
                continue
            seen[id(v)] = v
        if isinstance(v, (dict, list, tuple, set)) or (hasattr(v, "__dict__") and type(v).__module__.startswith(
                ("pulser", "pulser_simulation"))):
            _mutables(v, depth - 1, seen)
    return seen


def run_stateop(spec) -> list[Fail]:
    """A state and an operator built twice from the *same* caller-owned containers: the two objects share no
    mutable container, changing the caller's containers afterwards changes neither, and both survive their
    abstract representation."""
    from pulser.json.abstract_repr.backend import _deserialize_operator, _deserialize_state
    from pulser.json.abstract_repr.serializer import AbstractReprEncoder

    cfg_cls, state_cls, op_cls = _config_types("QutipConfig" if spec["cls"] == "qutip" else "EmulationConfig")
    fails: list[Fail] = []
    conv = list if spec["eig_container"] == "list" else tuple
    with warnings.catch_warnings():
        warnings.simplefilter("ignore")
        # ---- state
        st = spec["state"]
        eig = conv(st["eigenstates"])
        amps = {k: _cplx(v) for k, v in st["amplitudes"].items()}
        a = state_cls.from_state_amplitudes(eigenstates=eig, amplitudes=amps)
        before = snap_state(a)
        b = state_cls.from_state_amplitudes(eigenstates=eig, amplitudes=amps)
        shared = [type(v).__name__ for i, v in _mutables(a).items() if i in _mutables(b)]
        key = lambda f, case: dict(clause="aliasing", **{"class": state_cls.__name__}, field=f, case=case)  # noqa: E731
        if shared:
            fails.append(Fail("aliasing", key("amplitudes", "shared-container"),
                              f"two states built from the same arguments share mutable containers: {shared}"))
        # the caller goes on using its containers
        amps[next(iter(amps))] = 0.125
        amps["".join(reversed(next(iter(amps))))] = 0.5
        if isinstance(eig, list):
            eig.append("x")
        diffs = diff_values(before, snap_state(a))
        if diffs:
            fld = "eigenstates" if all("eigenstates" in d for d in diffs) else "amplitudes"
            fails.append(Fail("aliasing", key(fld, "caller-container"),
                              f"changing the caller's arguments after construction changed the state at {diffs[:3]}"))
        else:
            try:
                j = json.loads(json.dumps(a, cls=AbstractReprEncoder))
                back = _deserialize_state(j, state_cls)
                d2 = diff_values(before, snap_state(back))
                if d2:
                    fails.append(Fail("roundtrip-field", dict(clause="roundtrip-field", **{"class": state_cls.__name__},
                                                              field=d2[0].split(".")[1]),
                                      f"state differs after the round trip at {d2[:3]}"))
            except Exception as e:  # noqa: BLE001
                fails.append(Fail("encode", dict(clause="encode", **{"class": state_cls.__name__},
                                                 exception=type(e).__name__), f"state round trip raised {e!r}"[:300]))
        # ---- operator
        sp = spec["operator"]
        eig = conv(sp["eigenstates"])
        ops = [(_cplx(c), [({k: _cplx(v) for k, v in q.items()}, list(inds)) for q, inds in tensor])
               for c, tensor in sp["operations"]]
        oa = op_cls.from_operator_repr(eigenstates=eig, n_qudits=sp["n_qudits"], operations=ops)
        before = snap_operator(oa)
        ob = op_cls.from_operator_repr(eigenstates=eig, n_qudits=sp["n_qudits"], operations=ops)
        key = lambda f, case: dict(clause="aliasing", **{"class": op_cls.__name__}, field=f, case=case)  # noqa: E731
        if spec["cls"] == "repr":  # backend operators hold library-owned numerical objects; compare the repr data
            shared = [type(v).__name__ for i, v in _mutables(oa).items() if i in _mutables(ob)]
            if shared:
                fails.append(Fail("aliasing", key("operations", "shared-container"),
                                  f"two operators built from the same arguments share mutable containers: {shared}"))
        for c, tensor in ops:
            for q, inds in tensor:
                q[next(iter(q))] = 0.125
                if len(inds) > 1:
                    inds.pop()
        ops.append((1.0, []))
        if isinstance(eig, list):
            eig.append("x")
        diffs = diff_values(before, snap_operator(oa))
        if diffs:
            fld = "eigenstates" if all("eigenstates" in d for d in diffs) else "operations"
            fails.append(Fail("aliasing", key(fld, "caller-container"),
                              f"changing the caller's arguments after construction changed the operator at {diffs[:3]}"))
        else:
            try:
                j = json.loads(json.dumps(oa, cls=AbstractReprEncoder))
                back = _deserialize_operator(j, op_cls)
                d2 = diff_values(before, snap_operator(back))
                if d2:
                    fails.append(Fail("roundtrip-field", dict(clause="roundtrip-field", **{"class": op_cls.__name__},
                                                              field=d2[0].split(".")[1]),
                                      f"operator differs after the round trip at {d2[:3]}"))
            except Exception as e:  # noqa: BLE001
                fails.append(Fail("encode", dict(clause="encode", **{"class": op_cls.__name__},
                                                 exception=type(e).__name__), f"operator round trip raised {e!r}"[:300]))
    return fails


def run_configalias(spec) -> list[Fail]:
    """Two configs built from the *same* caller-owned containers (observable list, evaluation-times lists,
    interaction matrix array, list/dict-valued options): they share no mutable container; changing the caller's
    containers afterwards, or the options stored in one config, changes neither the other config nor what it
    serialises to."""
    from pulser.json.abstract_repr.serializer import AbstractReprEncoder

    spec = copy.deepcopy(spec)  # the containers built below are handed to the library and then modified
    cfg_cls, state_cls, op_cls = _config_types(spec["cls"])
    fails: list[Fail] = []

    def key(field, case):
        return dict(clause="aliasing", **{"class": spec["cls"]}, field=field, case=case)

    def view(cfg):
        return tb.vobj([("fields", deep_snapshot("config", cfg)),
                        ("json", tb.json_value(json.loads(json.dumps(cfg, cls=AbstractReprEncoder))))])

    def top(diffs):
        for d in diffs:
            parts = [x for x in d.replace("[", ".").split(".") if x]
            for x in parts:
                if x not in ("fields", "json", "class"):
                    return x
        return "?"

    with warnings.catch_warnings():
        warnings.simplefilter("ignore")
        # ---- the caller's own objects
        obs = [build_observable(o, state_cls, op_cls) for o in spec["observables"]]
        kw: dict = dict(observables=obs)
        times = list(spec["default_evaluation_times"])
        kw["default_evaluation_times"] = times
        matrix = None
        if "interaction_matrix" in spec:
            matrix = np.array(spec["interaction_matrix"], dtype=float)
            kw["interaction_matrix"] = matrix
        for k in ("with_modulation", "prefer_device_noise_model", "sampling_rate"):
            if k in spec:
                kw[k] = spec[k]
        if "initial_state" in spec:
            kw["initial_state"] = build_state(spec["initial_state"], state_cls)
        if "noise" in spec:
            kw["noise_model"] = build_noise(spec["noise"])
        extra = copy.deepcopy(spec["extra"])
        kw.update(extra)
        a = cfg_cls(**kw)
        before = view(a)
        b = cfg_cls(**kw)
        shared = sorted({type(v).__name__ for i, v in _mutables(a._backend_options, depth=6).items()
                         if i in _mutables(b._backend_options, depth=6)})
        if shared:
            fails.append(Fail("aliasing", key("backend_options", "shared-container"),
                              f"two configs built from the same arguments share mutable containers: {shared}"))
        # ---- the caller goes on using its containers
        if matrix is not None and matrix.shape[0] > 1:
            matrix[0, 1] += 1.0
            matrix[1, 0] += 1.0
        extra["my_option"]["k"].append(3)
        extra["my_option"]["new"] = True
        extra["my_list"].append(9)
        kw["my_option"]["other"] = 1
        times.append(2.0)
        if isinstance(obs[0].evaluation_times, list):
            obs[0].evaluation_times.append(0.75)
        obs.append(obs[0])
        d1 = diff_values(before, view(a))
        if d1:
            fails.append(Fail("aliasing", key(top(d1), "caller-container"),
                              f"changing the caller's arguments after construction changed the config at {d1[:3]}"))
        # ---- the other config's stored options are changed in place
        mid = view(a)
        bo = b._backend_options
        bo["my_option"]["k"].append(4)
        bo["my_list"].append(7)
        im = bo.get("interaction_matrix")
        if im is not None:
            arr = im.as_array(detach=True) if hasattr(im, "as_array") else np.asarray(im)
            if arr.shape[0] > 1:
                arr[0, 1] += 2.0
                arr[1, 0] += 2.0
        bobs = bo["observables"]
        if bobs and isinstance(bobs[0].evaluation_times, list):
            bobs[0].evaluation_times.append(1.0)
        d2 = diff_values(mid, view(a))
        if d2:
            fails.append(Fail("aliasing", key(top(d2), "other-instance"),
                              f"changing the options stored in another config changed this one at {d2[:3]}"))
    return fails


# --------------------------------------------------------------------------------------
# aliasing ("objects of the same class never share state")
# --------------------------------------------------------------------------------------
def deep_snapshot(family: str, obj):
    """Everything observable about an object, including what lives on its class."""
    base = snapshot(family, obj)
    extra = []
    if family == "config":
        st = obj._backend_options.get("initial_state")
        if st is not None:
            extra.append(("initial_state.n_qudits", to_value(st.n_qudits)))
        for i, o in enumerate(obj._backend_options.get("observables", ())):
            if hasattr(o, "state"):
                extra.append((f"obs{i}.state.n_qudits", to_value(o.state.n_qudits)))
            if hasattr(o, "operator"):
                extra.append((f"obs{i}.operator.n_qudits", to_value(o.operator._n_qudits)))
    return tb.vobj([("fields", base)] + extra)


def monitor_aliasing(family: str, spec_a, obj_a, snap_a, what: str) -> list[Fail]:
    """`obj_a` must look exactly as it did before the other object was constructed / decoded."""
    with warnings.catch_warnings():
        warnings.simplefilter("ignore")
        now = deep_snapshot(family, obj_a)
    diffs = diff_values(snap_a, now)
    if not diffs:
        return []
    field = diffs[0].lstrip(".")
    fld = "n_qudits" if "n_qudits" in field else field.split(".")[0]
    cls = "StateRepr" if ("n_qudits" in field and spec_a.get("cls") == "EmulationConfig") else _key(
        family, spec_a, "aliasing")["class"]
    return [Fail("aliasing", dict(clause="aliasing", **{"class": cls}, field=fld),
                 f"{what} changed an existing object at {diffs[:3]}")]
