"""Run one history on the real sequence and on the Lean model in lock step and
report the first divergence (observable + both values)."""
from __future__ import annotations

import json
from fractions import Fraction

from common import Driver, InfraError, rat
from realcode import Dev, RealSeq, diff_snap, normalise_model_snapshot

MUTATING = {
    "declare", "detmap", "target", "add", "adddmm", "addeom", "delay", "align", "shift",
    "eomon", "eommod", "eomoff", "measure",
}


class Step:
    __slots__ = ("op", "wire", "real", "model", "pre", "post", "diverged", "why", "model_post")

    def __init__(self, op):
        self.op = op
        self.wire = None
        self.real = None
        self.model = None
        self.pre = None
        self.post = None
        self.diverged = False
        self.why = None
        self.model_post = None


class Lockstep:
    """One device, one real sequence, one model instance."""

    def __init__(self, driver: Driver, dev_spec: dict, exact: bool = True, tol: float = 1e-9,
                 keep_snapshots: bool = True):
        self.drv = driver
        self.dev = Dev(dev_spec)
        self.real = RealSeq(self.dev)
        self.exact = exact
        self.tol = None if exact else tol
        self.keep = keep_snapshots
        self.steps: list[Step] = []
        self.nref = 0
        self.model_on = True     # switched off after the first divergence: the rest of the history
                                 # still runs on the implementation, for the monitors
        for line in self.dev.wire_lines():
            r = self.drv.ask(line)
            if r != "ok":
                raise InfraError(f"driver refused {line!r}: {r}")
        self.last_real_snap = self.real.snapshot()

    def model_op(self, wire: str) -> str:
        for _ in range(8):
            r = self.drv.ask(wire)
            if not r.startswith("need "):
                return r
            _, name, det_off, dur = r.split()
            fs, fe = self.real.dd_fall(name, Fraction(det_off), int(dur))
            rr = self.drv.ask(f"seq oracle {name} {det_off} {dur} {fs} {fe}")
            if rr != "ok":
                raise InfraError(f"oracle refused: {rr}")
        raise InfraError("oracle loop")

    def model_snapshot(self) -> dict:
        r = self.drv.ask("seq snap")
        try:
            return normalise_model_snapshot(json.loads(r))
        except json.JSONDecodeError:
            raise InfraError(f"bad snapshot from driver: {r[:200]}")

    def step(self, op: dict) -> Step:
        st = Step(op)
        self.nref += 1
        st.pre = self.last_real_snap
        if not self.model_on:
            st.real = self.real.apply(op)
            st.model = None
            st.post = self.real.snapshot()
            self.last_real_snap = st.post
            self.steps.append(st)
            return st
        st.wire = self.real.wire(op, self.nref)  # uses the real PRE-state (oracle fields)
        m = self.model_op(st.wire)
        if m.startswith("bad"):
            raise InfraError(f"driver could not parse {st.wire!r}: {m}")
        status, val = self.real.apply(op)
        st.real = (status, val)
        if m.startswith("err "):
            st.model = ("err", m[4:])
        else:
            rest = m[2:].strip()
            st.model = ("ok", int(rest) if rest else None)
        st.post = self.real.snapshot()
        self.last_real_snap = st.post
        # 1. verdicts
        if st.real[0] != st.model[0]:
            st.diverged, st.why = True, f"verdict: model={st.model} real={st.real}"
        elif st.real[0] == "err" and st.real[1] != st.model[1]:
            st.diverged, st.why = True, f"error class: model={st.model[1]} real={st.real[1]}"
        elif st.real[0] == "ok" and op["k"] in ("dur", "est") and st.real[1] != st.model[1]:
            st.diverged, st.why = True, f"value: model={st.model[1]} real={st.real[1]}"
        else:
            ms = self.model_snapshot()
            d = diff_snap(ms, st.post, "", self.tol)
            if d:
                st.diverged, st.why = True, "state" + d
                st.model_post = ms      # (its exact phases are needed to recognise a float-boundary case)
        if st.diverged and st.model_post is None:
            try:
                st.model_post = self.model_snapshot()      # (the model's own view, for the float-boundary filter)
            except Exception:  # noqa: BLE001
                pass
        self.steps.append(st)
        return st


def is_float_ambiguous(step: Step) -> bool:
    """A divergence that may come from comparing two phases that differ by less than
    1e-9 (model: exact rationals, implementation: rounded floats).

    (a) two phases of the IMPLEMENTATION's own snapshots (before / after the call: pulses and phase
        references) are distinct and closer than 1e-9 mod 2pi, or one of them is within 1e-9 of the
        wrap-around point;
    (b) the phase-jump decision of this call: the phase of the newest pulse of a channel — as the
        implementation scheduled it, or as the model did — is distinct from, and closer than 1e-9 to, the
        phase of the pulse the implementation had last on that channel before the call (the model's
        phases are exact, the implementation's are rounded: `equal` on one side, `different by an ulp`
        on the other).  Only this pair is compared across the two sides: comparing every model phase
        with every implementation phase would call every non-exact history ambiguous."""
    import math

    two_pi = 2 * math.pi

    def close(a, b) -> bool:
        if a == b:
            return False
        d = abs(float(a - b)) % two_pi
        return min(d, two_pi - d) < 1e-9

    phs = []
    for snap in (step.pre, step.post):
        if not snap:
            continue
        for c in snap["chans"]:
            for s in c["slots"]:
                if s["k"] == "P":
                    phs.append(Fraction(s["ph"]))
        for l in snap["refs"].values():
            for q in l:
                phs.extend(Fraction(p) for _, p in q["tr"])
    phs = sorted(set(phs))
    for i, a in enumerate(phs):
        for b in phs[i + 1:]:
            if close(a, b):
                return True
    if any(0 < min(float(p) % two_pi, two_pi - float(p) % two_pi) < 1e-9 for p in phs):
        return True

    # (b)
    def last_pulse_phase(snap, name):
        for c in (snap or {}).get("chans", []):
            if c["name"] == name:
                for s in reversed(c["slots"]):
                    if s["k"] == "P" and not s.get("dd"):
                        return Fraction(s["ph"])
        return None

    for c in (step.pre or {}).get("chans", []):
        old = last_pulse_phase(step.pre, c["name"])
        if old is None:
            continue
        for snap in (step.post, step.model_post):
            new = last_pulse_phase(snap, c["name"])
            if new is not None and close(old, new):
                return True
    return False
