#!/venv/bin/python
"""Entry point of every check:  run.py <Cxx> [--tier quick|thorough] [--replay FILE]

exit 0: property held on everything explored (KNOWN-FINDING lines allowed)
exit 1: `VIOLATION property=<id> replay=<path>` printed
exit 2: infrastructure error (never a verdict)
"""
from __future__ import annotations

import argparse
import json
import os
import sys
import traceback
from pathlib import Path

sys.path.insert(0, str(Path(__file__).resolve().parent))

import common  # noqa: E402


def recheck_with_leanchecker(prop: str) -> int:
    """Thorough tier: the compiled .olean files of the property's own import closure are
    re-checked by the toolchain's independent checker; recorded in the evidence file."""
    import subprocess
    import time

    files = common.lean_import_closure([f"Properties.{prop}"])
    mods = [str(f.relative_to(common.LEAN_DIR))[:-5].replace("/", ".") for f in files]
    if not mods:
        return 0
    t0 = time.time()
    r = subprocess.run(["lake", "env", "leanchecker", *mods], cwd=common.LEAN_DIR,
                       stdout=subprocess.PIPE, stderr=subprocess.STDOUT, text=True, timeout=3600)
    ok = r.returncode == 0
    ev = common.EVIDENCE / f"{prop}.json"
    if ev.exists():
        d = json.loads(ev.read_text())
        d.setdefault("coverage", {})["leanchecker"] = dict(modules=mods, ok=ok, wall_s=round(time.time() - t0, 1))
        ev.write_text(json.dumps(d, indent=1, default=str))
    if not ok:
        raise common.InfraError("leanchecker rejected compiled modules: " + r.stdout[-1500:])
    print(f"LEANCHECKER ok modules={len(mods)} wall={time.time() - t0:.1f}s")
    return 0


def main() -> int:
    ap = argparse.ArgumentParser()
    ap.add_argument("prop")
    ap.add_argument("--tier", default=os.environ.get("VERIF_TIER", "quick"), choices=["quick", "thorough"])
    ap.add_argument("--replay", default=None)
    ap.add_argument("--seed", type=int, default=int(os.environ.get("VERIF_SEED", "0") or 0))
    args = ap.parse_args()
    try:
        common.import_guard()
        import props

        mod = props.load(args.prop)
        if args.replay:
            return mod.replay(args.replay)
        rc = mod.check(args.tier, args.seed)
        if rc == 0 and args.tier == "thorough":
            rc = recheck_with_leanchecker(args.prop)
        return rc
    except common.InfraError as e:
        print(f"INFRA-ERROR property={args.prop}: {e}", file=sys.stderr)
        return 2
    except Exception:  # noqa: BLE001
        traceback.print_exc()
        print(f"INFRA-ERROR property={args.prop}: unexpected exception", file=sys.stderr)
        return 2


if __name__ == "__main__":
    sys.exit(main())
