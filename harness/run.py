#!/venv/bin/python
"""Entry point of every check:  run.py <Cxx> [--tier quick|thorough] [--replay FILE]

exit 0: property held on everything explored (KNOWN-FINDING lines allowed)
exit 1: `VIOLATION property=<id> replay=<path>` printed
exit 2: infrastructure error (never a verdict)
"""
from __future__ import annotations

import argparse
import json
import os
import sys
import traceback
from pathlib import Path

sys.path.insert(0, str(Path(__file__).resolve().parent))

import common  # noqa: E402


def main() -> int:
    ap = argparse.ArgumentParser()
    ap.add_argument("prop")
    ap.add_argument("--tier", default=os.environ.get("VERIF_TIER", "quick"), choices=["quick", "thorough"])
    ap.add_argument("--replay", default=None)
    ap.add_argument("--seed", type=int, default=int(os.environ.get("VERIF_SEED", "0") or 0))
    args = ap.parse_args()
    try:
        common.import_guard()
        import props

        mod = props.load(args.prop)
        if args.replay:
            return mod.replay(args.replay)
        return mod.check(args.tier, args.seed)
    except common.InfraError as e:
        print(f"INFRA-ERROR property={args.prop}: {e}", file=sys.stderr)
        return 2
    except Exception:  # noqa: BLE001
        traceback.print_exc()
        print(f"INFRA-ERROR property={args.prop}: unexpected exception", file=sys.stderr)
        return 2


if __name__ == "__main__":
    sys.exit(main())
