"""Adapters between the JSON-able op language of the harness, the real Pulser
objects in /repo, and the wire format of the Lean driver.

Specs are plain dicts/lists so that every history is a replay file.
"""
from __future__ import annotations

import json
import math
import re
import warnings
from fractions import Fraction

import numpy as np

from common import InfraError, opt, rat, wlist

import pulser
from pulser import Pulse, Register, Sequence
from pulser.channels import DMM, Microwave, Raman, Rydberg
from pulser.channels.eom import RydbergBeam, RydbergEOM
from pulser.devices import VirtualDevice
from pulser.register.weight_maps import DetuningMap
from pulser.sequence._schedule import _ChannelSchedule
from pulser.waveforms import (
    BlackmanWaveform,
    CompositeWaveform,
    ConstantWaveform,
    CustomWaveform,
    InterpolatedWaveform,
    RampWaveform,
)

BASIS_WIRE = {"ground-rydberg": "gr", "digital": "dg", "XY": "xy"}
WIRE_BASIS = {v: k for k, v in BASIS_WIRE.items()}
PROTO_WIRE = {"min-delay": "md", "no-delay": "nd", "wait-for-all": "wa"}
TWO_PI = 2 * np.pi

# --------------------------------------------------------------------------
# devices
# --------------------------------------------------------------------------
KIND_CLS = {"rydberg": Rydberg, "raman": Raman, "microwave": Microwave}
KIND_BASIS = {"rydberg": "ground-rydberg", "raman": "digital", "microwave": "XY", "dmm": "ground-rydberg"}


def doc_is_detuned_delay(pulse) -> bool:
    """A 'detuned delay': a pulse whose amplitude is the constant 0 and whose detuning is constant
    (decided here from the waveforms, not by the scheduler's own helper)."""
    return bool(isinstance(pulse, Pulse) and isinstance(pulse.amplitude, ConstantWaveform)
                and float(pulse.amplitude[0]) == 0.0 and isinstance(pulse.detuning, ConstantWaveform))


def doc_rise_time(obj) -> int:
    """Documented rise time: int(0.48 / mod_bandwidth[MHz] * 1e3) ns, 0 without a bandwidth
    (recomputed from the public attribute, not read from the property under test)."""
    bw = getattr(obj, "mod_bandwidth", None)
    return int(0.48 / bw * 1e3) if bw else 0


def doc_phase_jump_time(obj) -> int:
    """Documented phase-jump time: the custom value when one is given, else twice the rise time."""
    c = getattr(obj, "custom_phase_jump_time", None)
    return int(2 * doc_rise_time(obj) if c is None else c)


def doc_fall_time(pulse, ch, in_eom: bool) -> int:
    """Documented fall time of a pulse on a channel: the rise time of the modulation in effect (the
    EOM's in EOM mode) plus the longer of the end buffers of its amplitude and of its detuning
    (recomputed from the waveforms; `Pulse.fall_time` itself is under test)."""
    if not getattr(ch, "mod_bandwidth", None):
        return 0
    rise = doc_rise_time(ch.eom_config if in_eom else ch)
    return int(rise + max(pulse.amplitude.modulation_buffers(ch, eom=in_eom)[1],
                          pulse.detuning.modulation_buffers(ch, eom=in_eom)[1]))


def make_eom(e: dict) -> RydbergEOM:
    beams = {"BLUE": RydbergBeam.BLUE, "RED": RydbergBeam.RED}
    return RydbergEOM(
        mod_bandwidth=e["mod_bandwidth"],
        limiting_beam=beams[e["limiting_beam"]],
        max_limiting_amp=e["max_limiting_amp"],
        intermediate_detuning=e["intermediate_detuning"],
        controlled_beams=tuple(beams[b] for b in e["controlled_beams"]),
        multiple_beam_control=e.get("multiple_beam_control", True),
        custom_buffer_time=e.get("custom_buffer_time"),
        blue_shift_coeff=e.get("blue_shift_coeff", 1.0),
        red_shift_coeff=e.get("red_shift_coeff", 1.0),
    )


def make_channel(c: dict):
    """Channel spec -> real channel object."""
    kind = c["kind"]
    common = dict(
        clock_period=c.get("clock_period", 1),
        min_duration=c.get("min_duration", 1),
        max_duration=c.get("max_duration", int(1e8)),
        mod_bandwidth=c.get("mod_bandwidth"),
    )
    if kind == "dmm":
        return DMM(
            bottom_detuning=c.get("bottom_detuning"),
            total_bottom_detuning=c.get("total_bottom_detuning"),
            custom_phase_jump_time=c.get("custom_phase_jump_time"),
            **common,
        )
    common.update(
        min_avg_amp=c.get("min_avg_amp", 0),
        custom_phase_jump_time=c.get("custom_phase_jump_time"),
    )
    if kind == "rydberg" and c.get("eom"):
        common["eom_config"] = make_eom(c["eom"])
    cls = KIND_CLS[kind]
    if c.get("local"):
        return cls.Local(
            c.get("max_abs_detuning"),
            c.get("max_amp"),
            min_retarget_interval=c.get("min_retarget_interval", 0),
            fixed_retarget_t=c.get("fixed_retarget_t", 0),
            max_targets=c.get("max_targets"),
            **common,
        )
    return cls.Global(c.get("max_abs_detuning"), c.get("max_amp"), **common)


class Dev:
    """A device spec together with the real objects built from it."""

    def __init__(self, spec: dict):
        self.spec = spec
        self.chan_objs = [make_channel(c) for c in spec["channels"]]
        self.dmm_objs = [make_channel(c) for c in spec.get("dmms", [])]
        self.chan_ids = [f"ch{i}" for i in range(len(self.chan_objs))]
        self.nq = spec["nq"]
        kw = dict(
            name="VerifDevice",
            dimensions=2,
            rydberg_level=60,
            channel_objects=tuple(self.chan_objs),
            channel_ids=tuple(self.chan_ids),
            dmm_objects=tuple(self.dmm_objs),
            reusable_channels=spec.get("reusable", False),
            max_sequence_duration=spec.get("max_seq"),
            supports_slm_mask=bool(self.dmm_objs),
        )
        if any(c["kind"] == "microwave" for c in spec["channels"]):
            kw["interaction_coeff_xy"] = 3700.0
        self.device = VirtualDevice(**kw)
        self.qids = [f"q{i}" for i in range(self.nq)]
        self.register = Register({q: (6.0 * i, 0.0) for i, q in enumerate(self.qids)})

    def new_sequence(self) -> Sequence:
        return Sequence(self.register, self.device)

    # -- wire ---------------------------------------------------------------
    def cfg_wire(self, obj, is_dmm: bool) -> str:
        eom = getattr(obj, "eom_config", None) if not is_dmm else None
        if eom is not None:
            # (the buffer length is recomputed from the public attributes, not read from the
            # private Channel._eom_buffer_time)
            e = [str(doc_rise_time(eom)), str(int(eom.custom_buffer_time or 2 * doc_rise_time(obj))),
                 str(int(bool(eom.custom_buffer_time)))]
        else:
            e = ["-", "-", "-"]
        local = obj.addressing == "Local"
        toks = [
            str(int(is_dmm)),
            BASIS_WIRE[obj.basis],
            str(int(local)),
            str(obj.clock_period),
            str(obj.min_duration),
            opt(obj.max_duration),
            str(doc_rise_time(obj)),
            str(doc_phase_jump_time(obj)),
            str(obj.min_retarget_interval or 0) if local else "0",
            str(obj.fixed_retarget_t or 0) if local else "0",
            opt(obj.max_targets) if local else "-",
            *e,
            opt(obj.max_amp, rat),
            opt(obj.max_abs_detuning, rat),
            rat(obj.min_avg_amp),
            opt(getattr(obj, "bottom_detuning", None), rat) if is_dmm else "-",
            opt(getattr(obj, "total_bottom_detuning", None), rat) if is_dmm else "-",
        ]
        return " ".join(toks)

    def wire_lines(self) -> list[str]:
        lines = ["seq reset"]
        for o in self.chan_objs:
            lines.append("seq chan " + self.cfg_wire(o, False))
        for o in self.dmm_objs:
            lines.append("seq dmmc " + self.cfg_wire(o, True))
        lines.append(
            f"seq start {int(self.spec.get('reusable', False))} {opt(self.spec.get('max_seq'))} {self.nq}"
        )
        return lines


# --------------------------------------------------------------------------
# waveforms / pulses
# --------------------------------------------------------------------------
def make_wf(w):
    k = w[0]
    if k == "const":
        return ConstantWaveform(w[1], w[2])
    if k == "ramp":
        return RampWaveform(w[1], w[2], w[3])
    if k == "blackman":
        return BlackmanWaveform(w[1], w[2])
    if k == "custom":
        return CustomWaveform(w[1])
    if k == "interp":
        return InterpolatedWaveform(w[1], w[2])
    if k == "interp1d":
        return InterpolatedWaveform(w[1], w[2], interpolator="interp1d", kind=w[3])
    if k == "composite":
        return CompositeWaveform(*[make_wf(x) for x in w[1]])
    raise ValueError(k)


def make_pulse(p: dict) -> Pulse:
    return Pulse(make_wf(p["amp"]), make_wf(p["det"]), p.get("phase", 0.0), p.get("post", 0.0))


def resizable(wf) -> bool:
    try:
        wf.change_duration(wf.duration + 1)
        return True
    except NotImplementedError:
        return False


def summary(pulse: Pulse) -> list:
    amp = pulse.amplitude.samples.as_array(detach=True)
    det = pulse.detuning.samples.as_array(detach=True)
    finite = bool(np.all(np.isfinite(amp)) and np.all(np.isfinite(det)))
    if not finite:
        amp = np.nan_to_num(amp, nan=0.0, posinf=0.0, neginf=0.0)
        det = np.nan_to_num(det, nan=0.0, posinf=0.0, neginf=0.0)
    return [
        float(np.max(amp)),
        float(np.average(amp)),
        float(np.max(np.round(np.abs(det), decimals=6))),
        float(np.max(np.round(det, 6))),
        float(np.min(np.round(det, 6))),
        int(finite),
    ]


def sum_wire(s: list) -> str:
    return wlist(s, rat)


def adjusted_duration(ch, d: int):
    """Independent re-computation of Channel.validate_duration (None if rejected)."""
    if d < ch.min_duration:
        return None
    if ch.max_duration is not None and d > ch.max_duration:
        return None
    if d % ch.clock_period:
        d += ch.clock_period - d % ch.clock_period
    return d


def pulse_oracle(pulse: Pulse, ch) -> dict:
    """Everything the model needs to know about `pulse` on channel object `ch`."""
    res = resizable(pulse.amplitude) and resizable(pulse.detuning)
    info = dict(
        dur=pulse.duration,
        res=res,
        phase=float(pulse.phase),
        post=float(pulse.post_phase_shift),
        fs=0,
        fe=0,
        dd=False,
        sum=summary(pulse),
        sum_adj=None,
        const=False,
        amp=0.0,
        det=0.0,
    )
    if ch is None or not info["sum"][5]:
        return info      # (no fall times for undeclared channels or non-finite samples)
    d2 = adjusted_duration(ch, pulse.duration)
    adj = pulse
    if d2 is not None and d2 != pulse.duration:
        if not res:
            return info
        adj = Pulse(
            pulse.amplitude.change_duration(d2),
            pulse.detuning.change_duration(d2),
            pulse.phase,
            pulse.post_phase_shift,
        )
    if adj is not pulse:
        info["sum_adj"] = summary(adj)     # the pulse as scheduled (validated again since the repair of F37)
    if d2 is not None:
        info["fs"] = int(adj.fall_time(ch, in_eom_mode=False))
        if ch.supports_eom():
            info["fe"] = int(adj.fall_time(ch, in_eom_mode=True))
    info["dd"] = bool(doc_is_detuned_delay(adj))
    if isinstance(adj.amplitude, ConstantWaveform) and isinstance(adj.detuning, ConstantWaveform):
        info["const"] = True
        info["amp"] = float(adj.amplitude[0])
        info["det"] = float(adj.detuning[0])
    return info


def pulse_wire(info: dict, ref: int) -> str:
    return " ".join(
        [
            str(info["dur"]),
            str(int(info["res"])),
            rat(info["phase"]),
            rat(info["post"]),
            str(info["fs"]),
            str(info["fe"]),
            str(int(info["dd"])),
            str(ref),
            sum_wire(info["sum"]),
            sum_wire(info.get("sum_adj") or info["sum"]),
            str(int(info["const"])),
            rat(info["amp"]),
            rat(info["det"]),
        ]
    )


# --------------------------------------------------------------------------
# error mapping
# --------------------------------------------------------------------------
ERR_PATTERNS = [
    (RuntimeError, r"has been measured", "measured"),
    (ValueError, r"already in use", "nameInUse"),
    (ValueError, r"is not available", "notAvailable"),
    (ValueError, r"cannot work simultaneously|cannot work\s+simultaneously", "xyConflict"),
    (ValueError, r"Use the name of a declared channel", "notDeclared"),
    (RuntimeError, r"The chosen channel is in EOM mode", "inEom"),
    (RuntimeError, r"must be in EOM mode|is not in EOM mode", "notInEom"),
    (RuntimeError, r"already in EOM mode", "alreadyInEom"),
    (ValueError, r"has no target", "noTarget"),
    (ValueError, r"prior to\s+modulating the DMM", "slmWaiting"),
    (RuntimeError, r"parametrized sequences", "parametrized"),
    (ValueError, r"reserved for DMM", "nameReserved"),
    (ValueError, r"No channel .* in the device", "noSuchChannel"),
    (TypeError, r"does not have an EOM", "noEom"),
    (ValueError, r"can't be used on a DMM channel", "isDmm"),
    (ValueError, r"is not the name of a DMM channel", "notDmm"),
    (ValueError, r"Invalid protocol", "badProtocol"),
    (ValueError, r"different\s+phase references", "diffPhaseRefs"),
    (ValueError, r"duration has to be at least", "durTooShort"),
    (ValueError, r"duration can be at most", "durTooLong"),
    (TypeError, r"Failed to automatically adjust", "notResizable"),
    (ValueError, r"must have finite samples", "nonFinite"),
    (ValueError, r"amplitude goes over the maximum", "ampOverMax"),
    (ValueError, r"detuning values go out of the range", "detOverMax"),
    (ValueError, r"average amplitude is below", "avgAmpLow"),
    (ValueError, r"detuning in a DMM must not be positive", "dmmPositive"),
    (ValueError, r"go below the local bottom", "dmmBottom"),
    (ValueError, r"goes below the total bottom", "dmmTotalBottom"),
    (RuntimeError, r"exceeded the maximum duration", "overMaxSeq"),
    (ValueError, r"Need at least one qubit to target", "emptyTargets"),
    (ValueError, r"Can only choose target of 'Local'", "notLocal"),
    (ValueError, r"can target at most", "tooManyTargets"),
    (ValueError, r"have to be qubit ids declared", "unknownQubit"),
    (ValueError, r"No declared channel targets the given 'basis'", "noBasis"),
    (ValueError, r"must correspond to declared channels", "alignUnknown"),
    (ValueError, r"provided more than once", "alignDup"),
    (ValueError, r"at least two channels", "alignFew"),
    (ValueError, r"is not supported by the\s+selected device", "badMeasBasis"),
    (ValueError, r"No DMM .* in the device", "noDmm"),
    (ValueError, r"must be greater than or equal to zero|amplitude", "badPulse"),
    (ValueError, r"SLM mask", "slm"),
]


def classify(exc: BaseException) -> str:
    msg = str(exc)
    for typ, pat, name in ERR_PATTERNS:
        if isinstance(exc, typ) and re.search(pat, msg, re.S):
            return name
    return f"other:{type(exc).__name__}:{msg[:80]}"


# --------------------------------------------------------------------------
# names
# --------------------------------------------------------------------------
def real_name(w: str) -> str:
    """Wire channel name -> real channel name."""
    if w.startswith("u"):
        return f"chan{w[1:]}"
    i, k = w[1:].split(".")
    return f"dmm_{i}" if k == "0" else f"dmm_{i}_{k}"


def wire_name(r: str) -> str:
    if r.startswith("chan"):
        return "u" + r[4:]
    parts = r.split("_")
    return f"d{parts[1]}.{parts[2] if len(parts) > 2 else 0}"


# --------------------------------------------------------------------------
# the real side
# --------------------------------------------------------------------------
class RealSeq:
    def __init__(self, dev: Dev):
        self.dev = dev
        with warnings.catch_warnings():
            warnings.simplefilter("ignore")
            self.seq = dev.new_sequence()

    # channel object for a declared wire name (None if not declared)
    def chobj(self, w: str):
        sch = self.seq._schedule.get(real_name(w))
        return None if sch is None else sch.channel_obj

    def qids(self, idx) -> list:
        return [self.dev.qids[i] if i < self.dev.nq else f"bogus{i}" for i in idx]

    def eom_oracle(self, w: str, amp: float, det_on: float, optimal: float) -> dict:
        ch = self.chobj(w)
        out = dict(opts=[], on=[0, 0, 0, 0, 0, 1], offs=[])
        if ch is None or not ch.supports_eom() or amp < 0:
            return out
        with warnings.catch_warnings():
            warnings.simplefilter("ignore")
            on = Pulse.ConstantPulse(ch.min_duration, amp, det_on, 0.0)
            out["on"] = summary(on)
            opts = ch.eom_config.detuning_off_options(amp, det_on).as_array(detach=True)
            out["opts"] = [float(x) for x in opts]
            out["offs"] = [
                summary(Pulse.ConstantPulse(ch.min_duration, 0.0, float(x), 0.0)) for x in opts
            ]
        return out

    def apply(self, op: dict):
        """Run one op on the real sequence -> ('ok', value|None) or ('err', name)."""
        seq = self.seq
        k = op["k"]
        try:
            with warnings.catch_warnings():
                warnings.simplefilter("ignore")
                if k == "declare":
                    init = op.get("init")
                    seq.declare_channel(
                        real_name(op["ch"]),
                        self.dev.chan_ids[op["id"]] if op["id"] < len(self.dev.chan_ids) else "nope",
                        initial_target=None if init is None else self.qids(init),
                    )
                elif k == "detmap":
                    w = op["weights"]
                    dm = self.dev.register.define_detuning_map(
                        {q: w[i] for i, q in enumerate(self.dev.qids)}
                    )
                    seq.config_detuning_map(dm, f"dmm_{op['id']}")
                elif k == "slm":
                    # (outside the alphabet of the scheduler model: only the C18 generator draws it)
                    seq.config_slm_mask(self.qids(op["qs"]), f"dmm_{op['id']}")
                # (`kw`: the same call written with keyword arguments — the record of calls then holds them
                # as keywords, which is what the replaying code paths have to cope with)
                elif k == "target" and op.get("kw"):
                    seq.target(qubits=self.qids(op["qs"]), channel=real_name(op["ch"]))
                elif k == "target":
                    seq.target(self.qids(op["qs"]), real_name(op["ch"]))
                elif k == "add" and op.get("kw"):
                    seq.add(pulse=make_pulse(op["pulse"]), channel=real_name(op["ch"]), protocol=op["proto"])
                elif k == "add":
                    seq.add(make_pulse(op["pulse"]), real_name(op["ch"]), op["proto"])
                elif k == "adddmm" and op.get("kw"):
                    seq.add_dmm_detuning(waveform=make_wf(op["wf"]), dmm_name=real_name(op["ch"]), protocol=op["proto"])
                elif k == "adddmm":
                    seq.add_dmm_detuning(make_wf(op["wf"]), real_name(op["ch"]), op["proto"])
                # (`pos`: optional arguments given positionally)
                elif k == "delay" and op.get("pos"):
                    seq.delay(op["d"], real_name(op["ch"]), op.get("at_rest", False))
                elif k == "addeom" and op.get("pos"):
                    seq.add_eom_pulse(real_name(op["ch"]), op["dur"], op["phase"], op.get("post", 0.0), op["proto"],
                                      op.get("corr", False))
                elif k == "eomon" and op.get("pos"):
                    seq.enable_eom_mode(real_name(op["ch"]), op["amp"], op["det_on"], op.get("optimal", 0.0),
                                        op.get("corr", False))
                elif k == "eomoff" and op.get("pos"):
                    seq.disable_eom_mode(real_name(op["ch"]), op.get("corr", False))
                elif k == "delay" and op.get("kw"):
                    seq.delay(duration=op["d"], channel=real_name(op["ch"]), at_rest=op.get("at_rest", False))
                elif k == "addeom":
                    seq.add_eom_pulse(
                        real_name(op["ch"]),
                        op["dur"],
                        op["phase"],
                        post_phase_shift=op.get("post", 0.0),
                        protocol=op["proto"],
                        correct_phase_drift=op.get("corr", False),
                    )
                elif k == "delay":
                    seq.delay(op["d"], real_name(op["ch"]), at_rest=op.get("at_rest", False))
                elif k == "align":
                    seq.align(*[real_name(c) for c in op["chs"]], at_rest=op.get("at_rest", True))
                elif k == "shift":
                    seq.phase_shift(op["phi"], *self.qids(op["qs"]), basis=op["basis"])
                elif k == "eomon":
                    seq.enable_eom_mode(
                        real_name(op["ch"]),
                        op["amp"],
                        op["det_on"],
                        optimal_detuning_off=op.get("optimal", 0.0),
                        correct_phase_drift=op.get("corr", False),
                    )
                elif k == "eommod":
                    seq.modify_eom_setpoint(
                        real_name(op["ch"]),
                        op["amp"],
                        op["det_on"],
                        optimal_detuning_off=op.get("optimal", 0.0),
                        correct_phase_drift=op.get("corr", False),
                    )
                elif k == "eomoff":
                    seq.disable_eom_mode(real_name(op["ch"]), correct_phase_drift=op.get("corr", False))
                elif k == "measure":
                    seq.measure(op["basis"])
                elif k == "dur":
                    ch = op.get("ch")
                    return "ok", int(
                        seq.get_duration(None if ch is None else real_name(ch), op.get("fall", False))
                    )
                elif k == "est":
                    return "ok", int(
                        seq.estimate_added_delay(make_pulse(op["pulse"]), real_name(op["ch"]), op["proto"])
                    )
                elif k == "pref":
                    seq.current_phase_ref(self.qids([op["q"]])[0], op["basis"])
                else:
                    raise InfraError(f"unknown op {k}")
            return "ok", None
        except InfraError:
            raise
        except Exception as e:  # noqa: BLE001
            return "err", classify(e)

    # -- wire form of an op (oracle fields from leaf functions of the library) --
    def wire(self, op: dict, ref: int = 0) -> str:
        k = op["k"]
        P = lambda p: PROTO_WIRE.get(p, "bad")  # noqa: E731
        if k == "declare":
            return f"seq op declare {op['ch']} {op['id']} {opt(op.get('init'), lambda l: wlist(l))}"
        if k == "detmap":
            w = op["weights"]
            return f"seq op detmap {op['id']} {rat(float(np.max(w)))} {rat(float(np.sum(np.array(w, dtype=float))))}"
        if k == "target":
            return f"seq op target {wlist(op['qs'])} {op['ch']}"
        if k in ("add", "est"):
            info = pulse_oracle(make_pulse(op["pulse"]), self.chobj(op["ch"]))
            return f"seq op {k} {op['ch']} {P(op['proto'])} {pulse_wire(info, ref)}"
        if k == "adddmm":
            pulse = Pulse.ConstantAmplitude(0, make_wf(op["wf"]), 0)
            info = pulse_oracle(pulse, self.chobj(op["ch"]))
            return f"seq op adddmm {op['ch']} {P(op['proto'])} {pulse_wire(info, ref)}"
        if k == "addeom":
            fs = fe = 0
            ch = self.chobj(op["ch"])
            sch = self.seq._schedule.get(real_name(op["ch"]))
            if ch is not None and sch is not None and sch.eom_blocks:
                b = sch.eom_blocks[-1]
                d2 = adjusted_duration(ch, op["dur"])
                if d2 is not None:
                    pl = Pulse.ConstantPulse(d2, float(b.rabi_freq), float(b.detuning_on), 0.0)
                    fs = int(pl.fall_time(ch, in_eom_mode=False))
                    fe = int(pl.fall_time(ch, in_eom_mode=True))
            ph = float(op["phase"]) % TWO_PI
            return (
                f"seq op addeom {op['ch']} {op['dur']} {rat(ph)} {rat(float(op.get('post', 0.0)))} "
                f"{P(op['proto'])} {int(op.get('corr', False))} {fs} {fe} {ref}"
            )
        if k == "delay":
            return f"seq op delay {op['d']} {op['ch']} {int(op.get('at_rest', False))}"
        if k == "align":
            return f"seq op align {wlist(op['chs'])} {int(op.get('at_rest', True))}"
        if k == "shift":
            return f"seq op shift {rat(float(op['phi']))} {wlist(op['qs'])} {BASIS_WIRE[op['basis']]}"
        if k in ("eomon", "eommod"):
            o = self.eom_oracle(op["ch"], op["amp"], op["det_on"], op.get("optimal", 0.0))
            offs = "[" + ";".join(",".join(rat(x) for x in s) for s in o["offs"]) + "]"
            return (
                f"seq op {k} {op['ch']} {rat(float(op['amp']))} {rat(float(op['det_on']))} "
                f"{rat(float(op.get('optimal', 0.0)))} {int(op.get('corr', False))} "
                f"{wlist(o['opts'], rat)} {sum_wire(o['on'])} {offs}"
            )
        if k == "eomoff":
            return f"seq op eomoff {op['ch']} {int(op.get('corr', False))}"
        if k == "measure":
            return f"seq op measure {BASIS_WIRE.get(op['basis'], 'xy')}"
        if k == "dur":
            return f"seq op dur {opt(op.get('ch'))} {int(op.get('fall', False))}"
        if k == "pref":
            return f"seq op pref {op['q']} {BASIS_WIRE[op['basis']]}"
        raise InfraError(f"unknown op {k}")

    def dd_fall(self, w: str, det_off: Fraction, dur: int):
        ch = self.chobj(w)
        pl = Pulse.ConstantPulse(dur, 0.0, float(det_off), 0.0)
        fs = int(pl.fall_time(ch, in_eom_mode=False))
        fe = int(pl.fall_time(ch, in_eom_mode=True)) if ch.supports_eom() else 0
        return fs, fe

    # -- canonical snapshot (same structure as the driver's `snap`) ----------
    def snapshot(self) -> dict:
        seq = self.seq
        qidx = {q: i for i, q in enumerate(self.dev.qids)}
        dmm_ids = [f"dmm_{i}" for i in range(len(self.dev.dmm_objs))]
        chans = []
        for name, sch in seq._schedule.items():
            is_dmm = isinstance(sch.channel_obj, DMM)
            slots = []
            for s in sch.slots:
                base = dict(ti=int(s.ti), tf=int(s.tf), tg=sorted(qidx[q] for q in s.targets))
                if isinstance(s.type, Pulse):
                    p = s.type
                    const = isinstance(p.amplitude, ConstantWaveform) and isinstance(
                        p.detuning, ConstantWaveform
                    )
                    slots.append(
                        dict(
                            k="P",
                            **base,
                            ph=rat(float(p.phase)),
                            dd=bool(doc_is_detuned_delay(p)),
                            dur=int(p.duration),
                            const=const,
                            amp=rat(float(p.amplitude[0])) if const else "0",
                            det=rat(float(p.detuning[0])) if const else "0",
                        )
                    )
                else:
                    slots.append(dict(k="T" if s.type == "target" else "D", **base))
            eom = [
                dict(
                    ti=int(b.ti),
                    tf=None if b.tf is None else int(b.tf),
                    amp=rat(float(b.rabi_freq)),
                    detOn=rat(float(b.detuning_on)),
                    detOff=rat(float(b.detuning_off)),
                )
                for b in sch.eom_blocks
            ]
            chans.append(
                dict(
                    name=wire_name(name),
                    id=(dmm_ids.index(sch.channel_id) if is_dmm else self.dev.chan_ids.index(sch.channel_id)),
                    dmm=is_dmm,
                    inEom=bool(sch.in_eom_mode()),
                    slots=slots,
                    eom=eom,
                )
            )
        refs = {}
        for basis, d in seq._basis_ref.items():
            refs[BASIS_WIRE[basis]] = [
                dict(
                    used=int(d[q].last_used),
                    tr=[[int(t), rat(float(p))] for t, p in zip(d[q].phase._times, d[q].phase._phases)],
                )
                for q in self.dev.qids
            ]
        ncalls = sum(1 for c in seq._calls[1:] if c.name != "set_magnetic_field")
        return dict(
            chans=chans,
            refs=refs,
            xy=bool(seq._in_xy),
            ising=bool(seq._in_ising),
            empty=bool(seq._empty_sequence),
            measured=BASIS_WIRE[seq._measurement] if hasattr(seq, "_measurement") else None,
            ncalls=ncalls,
        )


def normalise_model_snapshot(s: dict) -> dict:
    """Drop the model-only keys so that snapshots compare structurally."""
    for c in s["chans"]:
        for sl in c["slots"]:
            sl.pop("ref", None)
    return s


def diff_snap(a, b, path="", tol=None):
    """First difference between two snapshots (model a, real b); None if equal.
    With `tol`, rational strings under keys ph/tr are compared mod 2π within tol."""
    if isinstance(a, dict) and isinstance(b, dict):
        for k in sorted(set(a) | set(b)):
            if k not in a or k not in b:
                return f"{path}/{k}: missing on one side"
            d = diff_snap(a[k], b[k], f"{path}/{k}", tol)
            if d:
                return d
        return None
    if isinstance(a, list) and isinstance(b, list):
        if len(a) != len(b):
            return f"{path}: length {len(a)} (model) vs {len(b)} (real)"
        for i, (x, y) in enumerate(zip(a, b)):
            d = diff_snap(x, y, f"{path}[{i}]", tol)
            if d:
                return d
        return None
    if a == b:
        return None
    if tol is not None and isinstance(a, str) and isinstance(b, str) and ("/ph" in path or "/tr" in path):
        try:
            x, y = float(Fraction(a)), float(Fraction(b))
            dlt = abs(x - y) % TWO_PI
            if min(dlt, TWO_PI - dlt) <= tol:
                return None
        except (ValueError, ZeroDivisionError):
            pass
    return f"{path}: model={a!r} real={b!r}"
