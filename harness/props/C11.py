"""C11 — emulation keeps states physical and follows the measurement conventions (PARTIAL).

Decided by theorems (lean/Properties/C11.lean): the bitstring conventions of `QutipResult._weights`
for every dimension, sampling distributions sum to one, the detection-error kernel, the
evaluation-time bookkeeping between `QutipBackendV2` and the legacy emulator, idempotent
re-creation of the configuration.  Tied to /repo here by differential execution of the real
`QutipResult` / `CoherentResults` / `QutipConfig` / `QutipEmulator.set_evaluation_times` against the
Lean model (`pm_meas`) on identical exact inputs, plus monitors restating each clause.

NOT decided (labelled *test*): norm / trace / positivity along the evolution, zero drive, the Rabi
oscillation, legacy ≡ V2 states — statements about QuTiP's adaptive ODE integrators on float64.
They get a small smoke differential (kind `smoke`) so that a gross break still comes with a replay.
"""
from __future__ import annotations

import itertools
import random
import warnings
from fractions import Fraction
from types import SimpleNamespace

import numpy as np

from common import rat
from props import meas_common as mc
from props.C20 import build_sequence, fake_obs_class, flat_of, gen_state, parse_mat
from props.meas_common import Outcome, close, wfracs

PROP = "C11"

UNCOVERED = [
    "without noise the emulated state stays normalised along sesolve (QuTiP adaptive integrator, float64): smoke test only",
    "with dissipative noise the density matrix stays unit-trace, Hermitian, positive along mesolve: smoke test only",
    "a resonant constant pulse on an isolated atom gives the analytic Rabi oscillation; zero drive leaves the state: smoke test only",
    "legacy emulator and V2 backend produce the same states for every duration / basis / idle period / evaluation times: "
    "smoke differential on ~25 tiny sequences only",
    "sampled counts are random: only looked at under a fixed numpy seed against a 6-sigma band (warnings)",
    "float64 time conversion rel*T*1e-3 (the theorems are over the rationals; the float version is monitored — "
    "finding F30, repaired by clipping, lived there)",
]

EXPLANATION = (
    "Partial. Lean theorems over exact rationals (Properties/C11.lean) carry: weights_convention for d = 2 (both "
    "orders), 3, 4 incl. reverse_is_complement, weights_sum_one / weights_total, flip_kernel_sums_one / "
    "flip_kernel_marginal, state_prep_roundtrip / state_prep_distribution, eval_time_roundtrip, tol_separates / tol_matches, legacy_eval_times (sorted, duplicate "
    "free, in range), legacy_pipeline_total, config_recreate_idempotent. Each run ties the model to /repo by "
    "differential execution of QutipResult._weights / sampling_dist, CoherentResults with measurement errors, "
    "QutipConfig._get_legacy_evaluation_times + QutipEmulator.set_evaluation_times, QutipConfig re-creation, against "
    "pm_meas on identical inputs; monitors restate every clause on the real objects. All dynamics clauses are only "
    "smoke-tested through QutipEmulator and QutipBackendV2 (labelled tests, listed under uncovered_clauses)."
)

RULE = (
    "cases = corpus/C11/*.json first, then generated per kind (weights: random kets / rational density matrices, "
    "1-4 atoms, every (dimension, measurement basis, matching) combination incl. product states that break atom "
    "symmetry; kernel: detection-error rates lattice; evaltimes: default/own relative times x durations incl. the "
    "float-critical ones x sampling rates; config: valid and malformed default times; stateprep: state_prep_error "
    "lattice x 1-3 atoms (isolated / interacting), bad atoms of each run vs the recorded draws, per-run dark-atom "
    "dynamics, V2/legacy averages vs the mixture; smoke: tiny sequences); every "
    "random choice from random.Random('C11-<seed>'); distinct = distinct case JSON; non-trivial = a state with >= 2 "
    "populated basis states / a non-zero error rate / >= 2 requested times / a valid config / a non-zero drive"
)


def basis_name_of(d: int, meas: str, matching: bool) -> str:
    """Documented naming (independent of QutipResult._basis_name)."""
    if meas == "XY":
        return {2: "XY", 3: "XY_with_error"}[d]
    if d == 4:
        return "all_with_error"
    if d == 3:
        return meas + "_with_error" if matching else "all"
    if matching:
        return meas
    return "digital" if meas == "ground-rydberg" else "ground-rydberg"


COMBOS = [
    (2, "ground-rydberg", True), (2, "digital", True), (2, "XY", True),
    (2, "ground-rydberg", False), (2, "digital", False),
    (3, "ground-rydberg", True), (3, "digital", True), (3, "XY", True),
    (3, "ground-rydberg", False), (3, "digital", False),
    (4, "ground-rydberg", True), (4, "digital", True),
]


def make_result(case):
    import qutip
    from pulser_simulation.qutip_result import QutipResult

    d, n = int(case["d"]), int(case["n"])
    dim = d**n
    is_ket = case["state"]["type"] == "ket"
    S = parse_mat(case["state"]["data"], dim, 1 if is_ket else dim)
    q = qutip.Qobj(S, dims=[[d] * n, [1] * n]) if is_ket else qutip.Qobj(S, dims=[[d] * n, [d] * n])
    res = QutipResult(atom_order=tuple(f"q{i}" for i in range(n)), meas_basis=case["meas"], state=q,
                      matching_meas_basis=bool(case["matching"]))
    probs = (np.abs(S.flatten()) ** 2) if is_ket else np.abs(np.diag(S))
    return res, probs


def expected_weights(d, n, meas, matching, probs) -> np.ndarray:
    """The convention of the property, by eigenstate *names*."""
    name = basis_name_of(d, meas, matching)
    eig = mc.BASES[name]
    w = np.zeros(2**n)
    if d == 2 and not matching:
        w[0] = 1.0          # the measured basis was never addressed: every atom reads 0
        return w
    one = mc.ONE_STATE[meas]
    for s, p in zip(itertools.product(eig, repeat=n), probs):
        bits = "".join("1" if ch == one else "0" for ch in s)
        w[int(bits, 2)] += p
    return w / w.sum()


# --------------------------------------------------------------------------------------
# kind: weights
# --------------------------------------------------------------------------------------
def run_weights(drv, case) -> Outcome:
    d, n, meas, matching = int(case["d"]), int(case["n"]), case["meas"], bool(case["matching"])
    res, probs = make_result(case)
    name = basis_name_of(d, meas, matching)
    eig = mc.BASES[name]
    out = Outcome(branch=f"d{d}-{meas}-{'match' if matching else 'nomatch'}-n{n}",
                  nontrivial=int(np.sum(probs > 1e-12)) >= 2)
    real = np.asarray(res._weights(), dtype=float)
    one_idx = eig.index(mc.ONE_STATE[meas]) if mc.ONE_STATE[meas] in eig else 0
    model = np.array([float(x) for x in mc.unlist(
        drv.ask(f"weights {d} {n} {int(matching)} {int(meas == 'ground-rydberg')} {one_idx} {wfracs(probs)}"))])
    out.evaluations += 1
    expected = expected_weights(d, n, meas, matching, probs)
    out.detail = dict(basis_name=name, real=real.tolist()[:16], model=model.tolist()[:16], expected=expected.tolist()[:16])
    # naming used by the result object
    out.evaluations += 1
    if res._basis_name != name or tuple(res._eigenbasis) != tuple(eig):
        out.fail("basis-naming", f"QutipResult names the basis {res._basis_name}/{res._eigenbasis}, documented {name}/{eig}")
    conv_ok = close(real, expected, 1e-12)
    if not conv_ok:
        out.fail("bitstring-convention",
                 f"_weights() = {real[:8]} but 'atoms in register order, {mc.ONE_STATE[meas]}->1, others->0' gives {expected[:8]}",
                 d=d, meas=meas)
    elif not close(real, model, 1e-12):
        out.diverge(f"_weights: /repo {real[:8]} vs model {model[:8]}")
    dist = res.sampling_dist
    out.evaluations += 1
    if abs(sum(dist.values()) - 1.0) > 1e-9:
        out.fail("sampling-dist-sums-to-one", f"sampling_dist sums to {sum(dist.values())}")
    exp_dist = {np.binary_repr(i, width=n): p for i, p in enumerate(expected) if p != 0}
    if conv_ok and (set(dist) != set(exp_dist) or any(abs(dist[k] - exp_dist[k]) > 1e-12 for k in dist)):
        out.fail("bitstring-convention", f"sampling_dist {dist} differs from the convention {exp_dist}", d=d, meas=meas)
    shots = int(case.get("shots", 0))
    if shots:
        np.random.seed(int(case.get("npseed", 0)))
        counts = res.get_samples(shots)
        out.evaluations += 1
        if sum(counts.values()) != shots or any(len(k) != n for k in counts):
            out.fail("sampling", f"get_samples({shots}) returned {dict(counts)}")
        impossible = [k for k in counts if exp_dist.get(k, 0.0) == 0.0]
        if impossible:
            out.fail("sampling-support", f"get_samples produced {impossible}, which have probability 0 ({exp_dist})")
        for w in mc.six_sigma_miss(dict(counts), exp_dist, shots):
            out.warnings.append(f"get_samples outside 6 sigma (seed {case.get('npseed', 0)}): {w}")
    return out


def product_state(rng, d, n) -> np.ndarray:
    v = np.ones(1, dtype=complex)
    for _ in range(n):
        v = np.kron(v, mc.rand_ket(rng, d, "dense"))
    return v / np.linalg.norm(v)


def gen_weights(rng) -> dict:
    d, meas, matching = rng.choice(COMBOS)
    n = rng.randint(1, {2: 4, 3: 3, 4: 2}[d])
    r = rng.random()
    if r < 0.3:
        state = dict(type="ket", data=flat_of(product_state(rng, d, n)))
    else:
        state = gen_state(rng, d**n)
    if rng.random() < 0.15:
        # slightly un-normalised state (what a non-unitary evolution leaves): the final division matters
        fac = rng.choice([0.9, 0.97, 1.05])
        arr = np.array([mc.uncq(x) for x in state["data"]], dtype=complex) * fac
        state = dict(type=state["type"], data=flat_of(arr))
    case = dict(kind="weights", d=d, n=n, meas=meas, matching=matching, state=state)
    if rng.random() < 0.4:
        case.update(shots=rng.choice([300, 1000]), npseed=rng.randint(0, 10**6))
    return case


# --------------------------------------------------------------------------------------
# kind: kernel (detection errors)
# --------------------------------------------------------------------------------------
def np_kernel(n, eps, epsp, w) -> np.ndarray:
    out = np.zeros(2**n)
    for i, p in enumerate(w):
        tb = [int(c) for c in np.binary_repr(i, width=n)]
        for j in range(2**n):
            db = [int(c) for c in np.binary_repr(j, width=n)]
            q = p
            for t, dd in zip(tb, db):
                q *= ((1 - epsp) if dd else epsp) if t else (eps if dd else (1 - eps))
            out[j] += q
    return out


def run_kernel(drv, case) -> Outcome:
    from pulser_simulation.simresults import CoherentResults

    d, n, meas = int(case["d"]), int(case["n"]), case["meas"]
    eps, epsp = float(Fraction(case["eps"])), float(Fraction(case["epsp"]))
    res, probs = make_result(dict(case, matching=True))
    name = basis_name_of(d, meas, True)
    out = Outcome(branch=f"{name}-n{n}", nontrivial=(eps > 0 or epsp > 0))
    cr = CoherentResults([res], n, name, np.array([0.0]), meas, dict(epsilon=eps, epsilon_prime=epsp))
    w = expected_weights(d, n, meas, True, probs)      # the convention itself, not res._weights()
    pd = np.real(cr._calc_pseudo_density(0).diag())
    # position of a detected bitstring in the pseudo-density: ground-rydberg stores |r> (=1) first
    real = np.zeros(2**n)
    for j in range(2**n):
        bits = [int(c) for c in np.binary_repr(j, width=n)]
        digits = [1 - b for b in bits] if "ground-rydberg" in name else bits
        real[j] = pd[int("".join(map(str, digits)), 2)]
    model = np.array([float(x) for x in mc.unlist(
        drv.ask(f"kernel {n} {rat(Fraction(eps))} {rat(Fraction(epsp))} {wfracs(w)}"))])
    expected = np_kernel(n, eps, epsp, w)
    out.evaluations += 1
    out.detail = dict(weights=w.tolist(), real=real.tolist(), model=model.tolist(), expected=expected.tolist())
    if not close(real, expected, 1e-12):
        out.fail("detection-error-rates",
                 f"distribution after detection errors (eps={eps}, eps'={epsp}) is {real[:8]}, independent flips give {expected[:8]}")
    elif not close(real, model, 1e-12):
        out.diverge(f"detection errors: /repo {real[:8]} vs model {model[:8]}")
    out.evaluations += 1
    if abs(real.sum() - 1) > 1e-9:
        out.fail("sampling-dist-sums-to-one", f"distribution after detection errors sums to {real.sum()}")
    if case.get("via_config"):
        via_config_path(out, case, eps, epsp)
    shots = int(case.get("shots", 0))
    if shots:
        np.random.seed(int(case.get("npseed", 0)))
        counts = cr.sample_state(0.0, n_samples=shots)
        out.evaluations += 1
        if sum(counts.values()) != shots:
            out.fail("sampling", f"sample_state returned {sum(counts.values())} of {shots} shots")
        exp_dist = {np.binary_repr(i, width=n): p for i, p in enumerate(expected) if p > 0}
        impossible = [k for k in counts if k not in exp_dist]
        if impossible:      # a probability-zero outcome is a hard failure, not a statistical one
            out.fail("detection-error-rates",
                     f"sample_state (eps={eps}, eps'={epsp}) produced {impossible}, impossible under {exp_dist}")
        for msg in mc.six_sigma_miss(dict(counts), exp_dist, shots):
            out.warnings.append(f"sample_state with detection errors outside 6 sigma (seed {case.get('npseed')}): {msg}")
        hard = mc.binom_tail_miss(dict(counts), exp_dist, shots)
        if hard:
            out.fail("detection-error-rates", f"sample_state (eps={eps}, eps'={epsp}) counts cannot come from "
                     f"independent flips at the configured rates: {hard[:3]}")
        # the V2 route: QutipState.sample with the same rates
        from pulser_simulation.qutip_state import QutipState

        eig = mc.BASES[name]
        st = QutipState(res.state, eigenstates=eig)
        np.random.seed(int(case.get("npseed", 0)) + 1)
        counts2 = st.sample(num_shots=shots, one_state=mc.ONE_STATE[meas], p_false_pos=eps, p_false_neg=epsp)
        out.evaluations += 1
        if sum(counts2.values()) != shots:
            out.fail("sampling", f"QutipState.sample returned {sum(counts2.values())} of {shots} shots")
        impossible = [k for k in counts2 if k not in exp_dist]
        if impossible:
            out.fail("detection-error-rates",
                     f"QutipState.sample (p_false_pos={eps}, p_false_neg={epsp}) produced {impossible}, impossible under {exp_dist}")
        for msg in mc.six_sigma_miss(dict(counts2), exp_dist, shots):
            out.warnings.append(f"QutipState.sample with detection errors outside 6 sigma: {msg}")
        hard = mc.binom_tail_miss(dict(counts2), exp_dist, shots)
        if hard:
            out.fail("detection-error-rates", f"QutipState.sample (p_false_pos={eps}, p_false_neg={epsp}) counts "
                     f"cannot come from independent flips at the configured rates: {hard[:3]}")
    return out


def via_config_path(out: Outcome, case, eps: float, epsp: float) -> None:
    """The same rates given the documented way - NoiseModel(p_false_pos=eps, p_false_neg=eps') - must reach
    the results: the legacy emulator's CoherentResults (epsilon = false positive, epsilon_prime = false
    negative) and the V2 BitStrings observable."""
    from pulser.backend.default_observables import BitStrings, StateResult
    from pulser.noise_model import NoiseModel
    from pulser_simulation import QutipBackendV2, QutipConfig, QutipEmulator, SimConfig

    with warnings.catch_warnings():
        warnings.simplefilter("ignore")
        seq = build_sequence(dict(n=2, spacing=30.0, segments=[dict(ch="ryd", dur=100, amp=10.0, det=0.0, phase=0.0)]))
        nm = NoiseModel(p_false_pos=eps, p_false_neg=epsp)
        emu = QutipEmulator.from_sequence(seq, config=SimConfig.from_noise_model(nm), evaluation_times=[0.1])
        legacy = emu.run()
        out.evaluations += 1
        me = getattr(legacy, "_meas_errors", None)
        want_me = dict(epsilon=eps, epsilon_prime=epsp) if (eps or epsp) else None
        if (me or None) != want_me and not (me == dict(epsilon=0.0, epsilon_prime=0.0) and want_me is None):
            out.fail("detection-error-rates",
                     f"NoiseModel(p_false_pos={eps}, p_false_neg={epsp}) reaches the legacy results as {me}",
                     path="noise-model-to-results")
            return
        psi = legacy.states[-1].full().flatten()
        w = expected_weights(2, 2, "ground-rydberg", True, np.abs(psi) ** 2)
        expected = np_kernel(2, eps, epsp, w)
        if me:
            pd = np.real(legacy._calc_pseudo_density(len(legacy.states) - 1).diag())
            real = np.array([pd[int("".join(str(1 - int(c)) for c in np.binary_repr(j, width=2)), 2)] for j in range(4)])
            out.evaluations += 1
            if not close(real, expected, 1e-9):
                out.fail("detection-error-rates",
                         f"legacy results built from NoiseModel(p_false_pos={eps}, p_false_neg={epsp}): distribution "
                         f"{real} but independent flips give {expected}", path="noise-model-to-results")
        # V2: BitStrings takes the rates from config.noise_model; probability-zero outcomes are hard failures
        np.random.seed(int(case.get("npseed", 0)) + 7)
        res = QutipBackendV2(seq, config=QutipConfig(observables=[BitStrings(num_shots=200), StateResult()],
                                                     noise_model=nm)).run()
        counts = dict(res.bitstrings[-1])
        rho = res.state[-1].to_qobj()
        p2 = np.abs(rho.full().flatten()) ** 2 if rho.isket else np.real(rho.diag())
        exp2 = np_kernel(2, eps, epsp, expected_weights(2, 2, "ground-rydberg", True, p2))
        dist = {np.binary_repr(i, width=2): p for i, p in enumerate(exp2) if p > 1e-9}
        out.evaluations += 1
        impossible = [k for k in counts if k not in dist]
        if impossible or sum(counts.values()) != 200:
            out.fail("detection-error-rates",
                     f"V2 BitStrings with NoiseModel(p_false_pos={eps}, p_false_neg={epsp}) produced {counts}, "
                     f"impossible under {dist}", path="noise-model-to-results")
        for msg in mc.six_sigma_miss(counts, dist, 200):
            out.warnings.append(f"V2 BitStrings with detection errors outside 6 sigma: {msg}")
        # the same rates coming from the device's default noise model (prefer_device_noise_model=True)
        import dataclasses

        import pulser
        from pulser.devices import MockDevice

        dev = dataclasses.replace(MockDevice, default_noise_model=nm)
        reg = pulser.Register.from_coordinates([(0.0, 0.0), (30.0, 0.0)], prefix="q")
        seq_d = pulser.Sequence(reg, dev)
        seq_d.declare_channel("ryd", "rydberg_global")
        seq_d.add(pulser.Pulse.ConstantPulse(100, 10.0, 0.0, 0.0), "ryd")
        np.random.seed(int(case.get("npseed", 0)) + 8)
        res_d = QutipBackendV2(seq_d, config=QutipConfig(observables=[BitStrings(num_shots=200), StateResult()],
                                                        prefer_device_noise_model=True)).run()
        counts_d = dict(res_d.bitstrings[-1])
        out.evaluations += 1
        impossible = [k for k in counts_d if k not in dist]
        if impossible or sum(counts_d.values()) != 200:
            out.fail("detection-error-rates",
                     f"V2 BitStrings emulating the device's noise model (p_false_pos={eps}, p_false_neg={epsp}, "
                     f"prefer_device_noise_model=True) produced {counts_d}, impossible under {dist}",
                     path="device-noise-model-to-results")


def gen_kernel(rng) -> dict:
    d, meas = rng.choice([(2, "ground-rydberg"), (2, "digital"), (2, "XY"), (3, "ground-rydberg"), (3, "digital")])
    n = rng.randint(1, 3)
    rates = ["0", "1/100", "1/20", "1/4", "1/2", "1"]
    r = rng.random()
    if r < 0.25:
        v = np.zeros(d**n, dtype=complex)
        v[rng.randrange(d**n)] = 1.0
        state = dict(type="ket", data=flat_of(v))      # a definite bitstring: rates can be read off
    else:
        state = gen_state(rng, d**n)
    case = dict(kind="kernel", d=d, n=n, meas=meas, eps=rng.choice(rates), epsp=rng.choice(rates), state=state)
    if rng.random() < 0.5:
        case.update(shots=rng.choice([400, 2000]), npseed=rng.randint(0, 10**6))
    if rng.random() < 0.06:
        case["via_config"] = True
    return case


# --------------------------------------------------------------------------------------
# kind: evaltimes
# --------------------------------------------------------------------------------------
def run_evaltimes(drv, case) -> Outcome:
    from pulser_simulation import QutipConfig, QutipEmulator

    Fake = fake_obs_class()
    T = int(case["T"])
    rate = float(Fraction(case["rate"]))
    dflt = "Full" if case["dflt"] == "Full" else [float(Fraction(x)) for x in case["dflt"]]
    own = [None if o is None else [float(Fraction(x)) for x in o] for o in case["own"]]
    requested = sorted(set(([] if dflt == "Full" else dflt) + [x for o in own if o for x in o]))
    out = Outcome(branch=("full" if dflt == "Full" else f"default{len(dflt)}") + ("+own" if any(own) else ""),
                  nontrivial=len(requested) >= 2)
    with warnings.catch_warnings():
        warnings.simplefilter("ignore")
        cfg = QutipConfig(observables=[Fake(i, i, evaluation_times=o) for i, o in enumerate(own)],
                          default_evaluation_times=dflt, sampling_rate=rate)
    # the model works on the ideal rationals of the case (the real code on their float images), so
    # that e.g. the own time 2/5 and the sampling index 210/525 coincide on both sides
    extras = sorted({Fraction(x) for o in case["own"] if o for x in o})
    dflt_exact = None if dflt == "Full" else [Fraction(x) for x in case["dflt"]]
    m = int(rate * T)
    model_legacy = drv.ask(f"legacy {'full' if dflt == 'Full' else wfracs(dflt_exact)} {wfracs(extras)} {T} {m}")
    out.evaluations += 1
    try:
        legacy = cfg._get_legacy_evaluation_times(T)
    except ValueError as e:
        out.detail = dict(raised=str(e)[:100])
        out.fail("legacy-eval-times", f"_get_legacy_evaluation_times raises for default {dflt} + own {own}: {str(e)[:80]}",
                 n_default=">=2" if dflt != "Full" and len(dflt) >= 2 else str(dflt))
        return out
    if isinstance(legacy, str):
        out.detail = dict(real="Full", model=model_legacy)
        if model_legacy != "full":
            out.diverge(f"legacy evaluation times: /repo 'Full', model {model_legacy[:80]}")
            # monitor: with "Full" the solver returns the sampled steps (every 1/rate ns) and the end points;
            # every time an observable asked for must still be among them
            grid = np.arange(T + 1, dtype=float)[np.linspace(0, T, int(rate * (T + 1)), dtype=int)] / 1000
            rel_grid = np.union1d(grid, [0.0, T / 1000]) / T * 1e3
            tol = 0.5 / T
            lost = [r for r in requested if not any(abs(float(t) - r) <= tol for t in rel_grid)]
            out.evaluations += 1
            if lost:
                out.fail("eval-time-roundtrip",
                         f"default 'Full' at sampling_rate={rate}: the observables' own times {lost} (T={T}) are not "
                         f"among the times handed to the solver")
        return out
    if model_legacy == "full":
        out.diverge("legacy evaluation times: model 'Full', /repo an array")
        return out
    legacy = np.asarray(legacy, dtype=float)
    ml = np.array([float(x) for x in mc.unlist(model_legacy)])
    if legacy.shape != ml.shape or not close(legacy, ml, 1e-12):
        # linspace(...).astype(int) in floats vs exact floor: only ever differs at exact integers
        if dflt == "Full" and rate < 1:
            out.warnings.append(f"float_ambiguous sampling indices (T={T}, rate={rate})")
        else:
            out.diverge(f"legacy evaluation times: /repo {legacy[:6]} vs model {ml[:6]}")
    # hand them to the legacy emulator (only the attributes `set_evaluation_times` reads)
    emu = object.__new__(QutipEmulator)
    emu._tot_duration = T
    emu._hamiltonian = SimpleNamespace(sampling_times=np.arange(T + 1, dtype=float) / 1000)
    model_set = drv.ask(f"seteval {T} {model_legacy}")
    out.evaluations += 1
    try:
        emu.set_evaluation_times(legacy)
        final = np.asarray(emu._eval_times_array, dtype=float)
    except ValueError as e:
        out.detail = dict(legacy=legacy.tolist()[:8], raised=str(e)[:100], model=model_set[:120])
        worst = float(np.max(legacy))
        reason = "float-T*1e-3>T/1000" if worst > T / 1000 and worst <= T / 1000 * (1 + 1e-12) else "other"
        out.fail("eval-times-in-range",
                 f"set_evaluation_times rejects the times computed for T={T} ns: max {worst!r} > {T / 1000!r} ({str(e)[:60]})",
                 reason=reason)
        return out
    if model_set == "err":
        out.diverge("model rejects evaluation times that /repo accepts")
        return out
    ms = np.array([float(x) for x in mc.unlist(model_set)])
    out.detail = dict(legacy=legacy.tolist()[:8], final=final.tolist()[:8], model=ms.tolist()[:8])
    if final.shape != ms.shape or not close(final, ms, 1e-12):
        if not (dflt == "Full" and rate < 1):
            out.diverge(f"evaluation times after set_evaluation_times: /repo {final[:6]} vs model {ms[:6]}")
    # ---- monitor ----
    out.evaluations += 1
    if any(not a < b for a, b in zip(final, final[1:])):
        out.fail("eval-times-sorted-unique", f"evaluation times not strictly ascending: {final[:8]}")
    if final[0] < 0 or final[-1] > T / 1000 * (1 + 1e-12):
        out.fail("eval-times-in-range", f"evaluation times outside [0, {T / 1000}]: {final[0]}, {final[-1]}", reason="other")
    if final[0] != 0.0 or abs(final[-1] - T / 1000) > 1e-15:
        out.fail("eval-times-endpoints", f"end points missing: {final[0]}, {final[-1]}")
    tol = 0.5 / T
    rel = final / T * 1e3          # what QutipResult.evaluation_time will hold
    for r in requested:
        hits = [t for t in rel if 0.0 <= float(t) <= 1.0 and abs(float(t) - r) <= tol]
        out.evaluations += 1
        # two requested times (or a requested time and an end point, always present) closer than the
        # tolerance are legitimately matched by both
        near = [q for q in set(requested) | {0.0, 1.0} if q != r and abs(q - r) <= 2 * tol]
        # (with "Full" every nanosecond is a solver time as well, so a neighbour may match too)
        bad = (len(hits) < 1) if dflt == "Full" else (len(hits) != 1 and not near)
        if bad:
            out.fail("eval-time-roundtrip", f"requested relative time {r!r} is matched by {len(hits)} solver times (T={T})")
    return out


CRITICAL_T = [9, 13, 18, 26, 36, 43, 51, 52, 59, 71, 72, 104, 208]     # T*1e-3 > T/1000 in float64


def gen_evaltimes(rng) -> dict:
    r = rng.random()
    T = rng.choice(CRITICAL_T) if r < 0.15 else rng.choice([4, 16, 100, 101, 137, 200, 300, 1000, 1581]) if r < 0.6 \
        else rng.randint(4, 3000)

    def times(k):
        style = rng.random()
        if style < 0.5:
            pts = {Fraction(rng.randint(0, 20), 20) for _ in range(k)}
        elif style < 0.8:
            pts = {Fraction(rng.randint(0, T), T) for _ in range(k)}
        else:
            pts = {Fraction(rng.randint(0, 10**6), 10**6) for _ in range(k)}
        return [rat(p) for p in sorted(pts)]

    q = rng.random()
    dflt = "Full" if q < 0.2 else times(1) if q < 0.75 else times(2)
    if dflt != "Full" and rng.random() < 0.5:
        dflt = [rat(Fraction(1))]
    own = [None if rng.random() < 0.5 else times(rng.randint(1, 3)) for _ in range(rng.randint(1, 3))]
    rate = rng.choice(["1", "1", "1", "1/2", "3/10"]) if T >= 16 else "1"
    return dict(kind="evaltimes", T=T, rate=rate, dflt=dflt, own=own)


def shrink_evaltimes(case):
    own = case["own"]
    for i in range(len(own)):
        if len(own) > 1:
            yield dict(case, own=own[:i] + own[i + 1:])
    for i, o in enumerate(own):
        if o:
            yield dict(case, own=own[:i] + [None] + own[i + 1:])
    if case["rate"] != "1":
        yield dict(case, rate="1")


# --------------------------------------------------------------------------------------
# kind: config (re-creation by EmulatorBackend.__init__)
# --------------------------------------------------------------------------------------
def run_config(drv, case) -> Outcome:
    from pulser_simulation import QutipConfig

    Fake = fake_obs_class()
    if case["dflt"] == "default":
        return run_config_defaults(drv, case)
    dflt = "Full" if case["dflt"] == "Full" else [float(Fraction(x)) for x in case["dflt"]]
    num, den = case["rate"]
    obs = [Fake(i, i, evaluation_times=None) for i in range(int(case["n_obs"]))]
    out = Outcome(branch="full" if dflt == "Full" else f"default{len(dflt)}")
    model = drv.ask("cfg {} {} {} {} {} {}".format(
        "[" + ",".join(str(i) for i in range(len(obs))) + "]",
        "full" if dflt == "Full" else wfracs(dflt), int(case["wm"]), int(case["pd"]), num, den))
    out.evaluations += 1

    def classify(e: Exception) -> str:
        s = str(e)
        if "between 0. and 1." in s:
            return "err range"
        if "must be unique" in s:
            return "err repeated"
        if "ascending order" in s:
            return "err order"
        if "sampling rate" in s:
            return "err sampling"
        return "raise " + type(e).__name__ + ": " + s[:60]

    with warnings.catch_warnings():
        warnings.simplefilter("ignore")
        try:
            c1 = QutipConfig(observables=obs, default_evaluation_times=dflt, with_modulation=case["wm"],
                             prefer_device_noise_model=case["pd"], sampling_rate=num / den)
            real = "ok"
        except Exception as e:  # noqa: BLE001
            real = classify(e)
        out.detail = dict(first=real, model=model)
        if real != "ok":
            if model != real:
                out.diverge(f"config validation: /repo {real}, model {model}")
            return out
        if not model.startswith("ok"):
            out.diverge(f"config validation: /repo accepts, model {model}")
            return out
        out.nontrivial = True
        # the re-creation done by EmulatorBackend.__init__
        model2 = drv.ask("cfg " + model[3:])
        out.evaluations += 1
        if model2 != model:
            out.diverge("model: re-creation is not idempotent (theorem config_recreate_idempotent!)")
        try:
            c2 = QutipConfig(**c1._backend_options)
        except Exception as e:  # noqa: BLE001
            out.detail["second"] = classify(e)
            out.fail("config-recreate",
                     f"re-creating QutipConfig from its own options raises ({str(e)[:70]}) for default_evaluation_times={dflt}",
                     n_default=">=2" if dflt != "Full" and len(dflt) >= 2 else str(len(dflt)))
            return out
        o1, o2 = c1._backend_options, c2._backend_options
        same = (
            [(o.uuid, o.tag, o.evaluation_times) for o in o1["observables"]]
            == [(o.uuid, o.tag, o.evaluation_times) for o in o2["observables"]]
            and np.array_equal(np.asarray(o1["default_evaluation_times"]), np.asarray(o2["default_evaluation_times"]))
            and all(o1[k] == o2[k] for k in ("with_modulation", "prefer_device_noise_model", "sampling_rate"))
            and set(o1) == set(o2)
        )
        out.evaluations += 1
        if not same:
            out.fail("config-recreate", "re-created configuration differs from the original", n_default="differs")
    return out


def run_config_defaults(drv, case) -> Outcome:
    """Documented defaults of QutipConfig / EmulationConfig (written out here, not read back):
    default_evaluation_times (1.0,), sampling_rate 1.0, with_modulation False,
    prefer_device_noise_model False, no initial state, no interaction matrix, empty noise model."""
    from pulser.noise_model import NoiseModel
    from pulser_simulation import QutipConfig

    Fake = fake_obs_class()
    out = Outcome(branch="constructor-defaults", nontrivial=True)
    with warnings.catch_warnings():
        warnings.simplefilter("ignore")
        c = QutipConfig(observables=[Fake(0, 0)])
        c2 = QutipConfig(**c._backend_options)
    model = drv.ask("cfg [0] [1] 0 0 1 1")
    for cfg, which in ((c, "constructed"), (c2, "re-created")):
        got = dict(
            default_evaluation_times=[float(x) for x in np.asarray(cfg.default_evaluation_times).flatten()],
            sampling_rate=cfg.sampling_rate, with_modulation=cfg.with_modulation,
            prefer_device_noise_model=cfg.prefer_device_noise_model, initial_state=cfg.initial_state,
            interaction_matrix=cfg.interaction_matrix, noise_types=tuple(cfg.noise_model.noise_types),
        )
        want = dict(default_evaluation_times=[1.0], sampling_rate=1.0, with_modulation=False,
                    prefer_device_noise_model=False, initial_state=None, interaction_matrix=None, noise_types=())
        out.evaluations += 1
        out.detail[which] = got
        if got != want:
            out.fail("config-defaults", f"{which} default configuration is {got}, documented {want}")
        # the default time 1.0 is an evaluation time, 0.5 is not
        if not cfg.is_evaluation_time(1.0) or cfg.is_evaluation_time(0.5):
            out.fail("config-defaults", f"{which} default configuration: is_evaluation_time(1.0/0.5) = "
                                        f"{cfg.is_evaluation_time(1.0)}/{cfg.is_evaluation_time(0.5)}")
    if model != "ok [0] [1] 0 0 1 1":
        out.diverge(f"model rejects the default configuration: {model}")
    return out


def gen_config(rng) -> dict:
    if rng.random() < 0.03:
        return dict(kind="config", dflt="default", n_obs=1, wm=False, pd=False, rate=[1, 1])
    r = rng.random()
    if r < 0.15:
        dflt = "Full"
    else:
        k = rng.choice([1, 1, 2, 3])
        pts = [Fraction(rng.randint(0, 16), 16) for _ in range(k)]
        s = rng.random()
        if s < 0.7:
            pts = sorted(set(pts))
        elif s < 0.8:
            pts = pts + [rng.choice([Fraction(-1, 4), Fraction(5, 4)])]
        dflt = [rat(p) for p in pts]
    rate = rng.choice([(1, 1), (1, 1), (1, 2), (3, 10), (0, 1), (3, 2)])
    return dict(kind="config", dflt=dflt, n_obs=rng.randint(1, 3), wm=rng.random() < 0.3, pd=rng.random() < 0.3,
                rate=list(rate))


# --------------------------------------------------------------------------------------
# kind: smoke  (TEST of the dynamics clauses — not a theorem)
# --------------------------------------------------------------------------------------
def run_smoke(drv, case) -> Outcome:
    from pulser.backend.default_observables import StateResult
    from pulser.noise_model import NoiseModel
    from pulser_simulation import QutipBackendV2, QutipConfig, QutipEmulator, SimConfig

    out = Outcome(branch="smoke-" + case.get("label", ""), nontrivial=True)
    spec = case["seq"]
    rel_times = [float(x) for x in case["times"]]
    noise = case.get("noise")
    with warnings.catch_warnings():
        warnings.simplefilter("ignore")
        seq = build_sequence(spec)
        T = seq.get_duration()
        nm = NoiseModel(**noise) if noise else NoiseModel()
        np.random.seed(int(case.get("npseed", 0)))
        rate = float(case.get("rate", 1.0))
        eval_full = bool(case.get("eval_full"))
        emu = QutipEmulator.from_sequence(
            seq, sampling_rate=rate, config=SimConfig.from_noise_model(nm),
            evaluation_times="Full" if eval_full else [t * T / 1000 for t in rel_times if t * T / 1000 <= T / 1000])
        init = None
        if case.get("init"):
            import qutip
            from pulser_simulation import QutipState

            v = np.array([mc.uncq(x) for x in case["init"]], dtype=complex)
            # levels of the emulation, in its documented order: (r, g), or (r, g, h) when a Raman channel is used too
            emu_eig = ("r", "g", "h") if any(sg.get("ch") == "ram" for sg in spec["segments"]) else ("r", "g")
            dd, nn = len(emu_eig), int(spec["n"])
            if v.size == dd**nn:
                init = qutip.Qobj(v.reshape(-1, 1), dims=[[dd] * nn, [1] * nn])      # amplitudes on emu_eig
                emu.set_initial_state(init)
                init_v2, init_eig = init, emu_eig
                want_eig = tuple(case.get("init_eig") or emu_eig)
                if want_eig != emu_eig and sorted(want_eig) == sorted(emu_eig):
                    # the same physical state written on the eigenstates in another order: the amplitude of
                    # every label stays, the digit that stands for it changes
                    idx = [emu_eig.index(lab) for lab in want_eig]
                    w = v.reshape([dd] * nn)
                    for ax in range(nn):
                        w = np.take(w, idx, axis=ax)
                    init_v2 = qutip.Qobj(w.reshape(-1, 1), dims=[[dd] * nn, [1] * nn])
                    init_eig = want_eig
        legacy = emu.run()
        random_noise = bool(noise and any(k in noise for k in ("temperature", "amp_sigma", "state_prep_error")))
        out.evaluations += 1
        if random_noise and hasattr(legacy, "_meas_basis"):
            out.fail("legacy-stochastic-noise",
                     f"legacy run() with random noise {sorted(noise)} (runs={noise.get('runs')}) returned a single "
                     f"coherent trajectory instead of results over the noise realisations", noise="+".join(sorted(noise)))
            return out
        # the times the legacy emulator was asked for, plus both end points (written out, not read back)
        own_times = [k / 1000 for k in range(T + 1)] if eval_full else \
            sorted({t * T / 1000 for t in rel_times} | {0.0, T / 1000})
        out.detail = dict(T=T, basis=emu.basis_name, times=rel_times)
        out.evaluations += 1
        n_atoms = int(spec["n"])
        if len(legacy) != len(own_times) or tuple(legacy[0].atom_order) != tuple(f"q{i}" for i in range(n_atoms)):
            out.fail("legacy-results-header",
                     f"legacy emulator returned {len(legacy)} results with atom_order {legacy[0].atom_order} for "
                     f"times {own_times} on atoms q0..q{n_atoms - 1}")
            return out
        # random noise (doppler, amplitude, state preparation): the legacy emulator returns one random
        # trajectory or sampled counts, V2 the average density matrix over `runs` - nothing to compare
        # state by state; only the physicality of what V2 returns is looked at
        stochastic = (not hasattr(legacy, "_meas_basis")) or bool(
            noise and any(k in noise for k in ("temperature", "amp_sigma", "state_prep_error")))
        if hasattr(legacy, "_meas_basis"):
            for st in legacy.states:
                out.evaluations += 1
                if st.isket:
                    if abs(st.norm() - 1) > 2e-5:       # integrator tolerance (rtol 1e-6) is not a break
                        out.fail("norm", f"state norm {st.norm()} after noiseless evolution (T={T})")
                else:
                    m = st.full()
                    ev = np.linalg.eigvalsh((m + m.conj().T) / 2)
                    if abs(np.trace(m) - 1) > 2e-5 or np.max(np.abs(m - m.conj().T)) > 1e-8 or ev.min() < -1e-6:
                        out.fail("density-matrix-physical",
                                 f"trace {np.trace(m)}, hermiticity {np.max(np.abs(m - m.conj().T)):.2g}, min eig {ev.min():.2g}")
            if eval_full:
                # every returned state is retrievable at its own time (and the final one as such)
                for k, t in enumerate(own_times):
                    out.evaluations += 1
                    if legacy.get_state(t, ignore_global_phase=False) != legacy.states[k].tidyup():
                        j = [i for i, st in enumerate(legacy.states)
                             if legacy.get_state(t, ignore_global_phase=False) == st.tidyup()]
                        out.fail("legacy-get-state-time",
                                 f"get_state({t}) returns the state of step {j[:1]} instead of step {k} (T={T}, 'Full')",
                                 what="previous-step" if j[:1] == [k - 1] else "other")
                        break
                out.evaluations += 1
                if legacy.get_final_state(ignore_global_phase=False) != legacy.states[-1].tidyup() \
                        and not any(f.clause == "legacy-get-state-time" for f in out.fails):
                    out.fail("legacy-get-state-time", "get_final_state() is not the last state", what="final")
            if case.get("zero_drive"):
                out.evaluations += 1
                a, b = legacy.states[0].full(), legacy.states[-1].full()
                if not close(a, b, 1e-9):
                    out.fail("zero-drive", f"all-zero drive changed the state by {np.max(np.abs(a - b)):.3g}")
            if case.get("rabi"):
                omega = case["rabi"]
                for st, t in zip(legacy.states, own_times):
                    out.evaluations += 1
                    p_r = abs(st.full()[0, 0]) ** 2          # |r> is the first basis vector
                    ref = np.sin(omega * t / 2) ** 2
                    if abs(p_r - ref) > 5e-3:
                        out.fail("rabi", f"P_r({t} us) = {p_r}, analytic sin^2(Omega t/2) = {ref}")
            if case.get("area") is not None:
                # isolated atom, one resonant square pulse of area theta after an idle period: P_r = sin^2(theta/2)
                out.evaluations += 1
                p_r = abs(legacy.states[-1].full()[0, 0]) ** 2
                ref = np.sin(float(case["area"]) / 2) ** 2
                if abs(p_r - ref) > 0.03:
                    out.fail("analytic-after-idle",
                             f"legacy emulator, sampling_rate={rate}: P_r = {p_r:.4f} after a pulse of area "
                             f"{float(case['area']):.4f}, analytic {ref:.4f} (T={T})", engine="legacy")
        # ---- V2 on the same sequence / configuration ----
        state_obs = StateResult(evaluation_times=rel_times)
        out.evaluations += 1
        try:
            np.random.seed(int(case.get("npseed", 0)))
            extra = {}
            if init is not None:
                from pulser_simulation import QutipState

                extra["initial_state"] = QutipState(init_v2, eigenstates=init_eig)
            cfg = QutipConfig(observables=[state_obs], noise_model=nm, sampling_rate=rate, **extra)
            backend = QutipBackendV2(seq, config=cfg)
            res = backend.run()
        except Exception as e:  # noqa: BLE001
            msg = f"{type(e).__name__}: {str(e)[:140]}"
            out.detail["v2_raised"] = msg
            if "extends further than sequence duration" in msg:
                out.fail("eval-times-in-range", f"QutipBackendV2 rejects a {T} ns sequence: {msg}",
                         reason="float-T*1e-3>T/1000")
            elif "incompatible dimensions" in msg:
                out.fail("v2-runs", f"QutipBackendV2.run raises: {msg}", levels=3, noise="stochastic")
            elif noise and noise.get("with_leakage"):
                out.fail("v2-runs", f"QutipBackendV2 raises with a leakage noise model the legacy emulator runs: {msg}",
                         levels="leakage", noise="eff_noise")
            else:
                out.fail("v2-runs", f"QutipBackendV2 raises on a sequence the legacy emulator runs: {msg}",
                         levels="?", noise="?")
            return out
        if stochastic:
            for s in res.state:
                out.evaluations += 1
                m = s.to_qobj().full()
                ev = np.linalg.eigvalsh((m + m.conj().T) / 2)
                if abs(np.trace(m) - 1) > 2e-5 or np.max(np.abs(m - m.conj().T)) > 1e-8 or ev.min() < -1e-6:
                    out.fail("density-matrix-physical",
                             f"averaged density matrix: trace {np.trace(m)}, hermiticity "
                             f"{np.max(np.abs(m - m.conj().T)):.2g}, min eig {ev.min():.2g}")
            return out
        if case.get("area") is not None:
            out.evaluations += 1
            q = res.state[-1].to_qobj()
            p_r = (abs(q.full()[0, 0]) ** 2) if q.isket else float(np.real(q.full()[0, 0]))
            ref = np.sin(float(case["area"]) / 2) ** 2
            if abs(p_r - ref) > 0.03:
                out.fail("analytic-after-idle",
                         f"QutipBackendV2, sampling_rate={rate}: P_r = {p_r:.4f} after a pulse of area "
                         f"{float(case['area']):.4f}, analytic {ref:.4f} (T={T})", engine="v2")
        v2_ts = [float(x) for x in res.get_result_times(state_obs)]
        for t_rel, s in zip(v2_ts, res.state):
            idx = [i for i, t in enumerate(own_times) if abs(t / T * 1e3 - t_rel) <= 0.5 / T]
            if not idx:
                continue
            out.evaluations += 1
            a = legacy.states[idx[0]].full()
            b = s.to_qobj().full()
            if a.shape != b.shape or np.max(np.abs(a - b)) > 2e-5:
                # discriminate the cause: does V2 coincide with the legacy solver run *without* the
                # max_step / nsteps options that QutipEmulator.run() derives from the samples?
                cause = "other"
                try:
                    raw = emu._run_solver(progress_bar=False)
                    c = raw.states[idx[0]].full()
                    if c.shape == b.shape and np.max(np.abs(c - b)) <= 1e-9:
                        cause = "no-max-step"
                except Exception:  # noqa: BLE001
                    pass
                out.fail("legacy-equals-v2",
                         f"state at t={t_rel} (T={T}): legacy and V2 differ by "
                         f"{np.max(np.abs(a - b)) if a.shape == b.shape else 'shape'} (cause: {cause})", cause=cause)
    return out


def gen_smoke(rng) -> dict:
    label = rng.choice(["rabi", "zero", "gr2", "gr2", "delay-pulse", "three-level", "three-level-noise",
                        "dephasing", "xy", "critical-T", "initial-state", "initial-state", "idle-pulse-rates",
                        "idle-pulse-rates", "full-times", "leakage", "doppler"])
    amp = rng.choice([3.0, 6.283185307179586, 10.0])
    dur = rng.choice([64, 100, 120, 200, 300])
    n = rng.choice([1, 2])
    segs = [dict(ch="ryd", dur=dur, amp=amp, det=rng.choice([0.0, -3.0, 4.0]), phase=rng.choice([0.0, 0.7]))]
    case = dict(kind="smoke", label=label, npseed=rng.randint(0, 10**6))
    noise = None
    if label == "rabi":
        n = 1
        segs = [dict(ch="ryd", dur=dur, amp=amp, det=0.0, phase=0.0)]
        case["rabi"] = amp
    elif label == "zero":
        segs = [dict(ch="ryd", dur=dur, amp=0.0, det=0.0, phase=0.0)]
        case["zero_drive"] = True
    elif label == "delay-pulse":
        segs = [dict(ch="ryd", delay=rng.choice([100, 200, 248])), dict(ch="ryd", dur=rng.choice([16, 20, 52]), amp=10.0,
                                                                         det=0.0, phase=0.0)]
    elif label.startswith("three-level"):
        segs.append(dict(ch="ram", dur=rng.choice([52, 100]), amp=amp, det=0.0))
        if label == "three-level-noise":
            noise = rng.choice([dict(runs=3, samples_per_run=1, temperature=50.0),
                                dict(runs=3, samples_per_run=1, amp_sigma=0.1, laser_waist=100.0)])
    elif label == "dephasing":
        noise = rng.choice([dict(dephasing_rate=0.5), dict(depolarizing_rate=0.3), dict(relaxation_rate=0.2, dephasing_rate=0.1)])
    elif label == "xy":
        segs = [dict(ch="mw", dur=dur, amp=amp, det=rng.choice([0.0, 2.0]), phase=0.0)]
    elif label == "critical-T":
        segs = [dict(ch="ryd", dur=rng.choice([52, 104, 208, 72]), amp=amp, det=0.0, phase=0.0)]
    elif label == "initial-state":
        if rng.random() < 0.5:
            # three levels (r, g, h): the state may be given on any ordering of them (cyclic ones included)
            segs.append(dict(ch="ram", dur=rng.choice([52, 100]), amp=amp, det=0.0))
            case["init"] = flat_of(product_state(rng, 3, n))
            case["init_eig"] = rng.choice([["r", "g", "h"], ["g", "h", "r"], ["h", "r", "g"], ["g", "r", "h"],
                                           ["h", "g", "r"], ["r", "h", "g"]])
        else:
            case["init"] = flat_of(product_state(rng, 2, n))
            if rng.random() < 0.5:
                case["init_eig"] = ["g", "r"]
    elif label == "full-times":
        segs = [dict(ch="ryd", dur=rng.choice([52, 100]), amp=amp, det=0.0, phase=0.0)]
        case["eval_full"] = True
    elif label == "leakage":
        noise = dict(eff_noise_opers=[[[0, 0, 0], [0, 0, 0], [1, 0, 0]]], eff_noise_rates=[rng.choice([0.5, 1.0])],
                     with_leakage=True)
    elif label == "doppler":
        noise = dict(runs=rng.choice([3, 5]), samples_per_run=2, temperature=rng.choice([50.0, 1000.0]))
    elif label == "idle-pulse-rates":
        # analytic reference family: isolated atom, idle period, resonant square pulse of area theta, zero tail;
        # the answer may not depend on the sampling rate
        n = 1
        theta = rng.choice([3.141592653589793, 1.5707963267948966])
        segs = [dict(ch="ryd", delay=rng.choice([1000, 3000])),
                dict(ch="ryd", dur=100, amp=theta / 0.1, det=0.0, phase=0.0), dict(ch="ryd", delay=100)]
        case.update(area=theta, rate=rng.choice([1.0, 0.5, 0.25, 0.2, 0.1]))
    grid = [0.0, 0.25, 0.5, 0.75, 1.0]
    times = sorted(set(rng.sample(grid, rng.randint(1, 3)) + [1.0]))
    if case.get("eval_full"):
        times = [1.0]
    case.update(seq=dict(n=n, spacing=rng.choice([6.0, 9.0]), segments=segs), times=times, noise=noise)
    return case


def shrink_smoke(case):
    segs = case["seq"]["segments"]
    for i in range(len(segs)):
        if len(segs) > 1 and not (case.get("area") is not None and "dur" in segs[i]):
            yield dict(case, seq=dict(case["seq"], segments=segs[:i] + segs[i + 1:]))
    if case["seq"]["n"] > 1:
        yield dict(case, seq=dict(case["seq"], n=1))
    if len(case["times"]) > 1:
        yield dict(case, times=[1.0])


# --------------------------------------------------------------------------------------
# kind: stateprep  (state-preparation errors: which atoms are dark in each run)
# --------------------------------------------------------------------------------------
class _RecordUniform:
    """Records every `np.random.uniform(size=n)` draw made while active (the state-preparation draws)."""

    def __init__(self, n):
        self.n, self.draws = n, []

    def __enter__(self):
        self._orig = np.random.uniform
        rec = self

        def uniform(*a, **kw):
            out = rec._orig(*a, **kw)
            size = kw.get("size", a[2] if len(a) > 2 else None)
            if size == rec.n or size == (rec.n,):
                rec.draws.append(np.array(out, dtype=float))
            return out

        np.random.uniform = uniform
        return self

    def __exit__(self, *exc):
        np.random.uniform = self._orig


def _embed(psi_good: np.ndarray, bad: tuple, n: int) -> np.ndarray:
    """State of all atoms: the badly prepared ones stay in |g> (second basis vector of [r, g])."""
    good = [i for i in range(n) if not bad[i]]
    full = np.zeros(2**n, dtype=complex)
    for idx in range(2**n):
        digits = [int(c) for c in np.binary_repr(idx, width=n)]
        if any(digits[i] != 1 for i in range(n) if bad[i]):
            continue
        sub = int("".join(str(digits[i]) for i in good), 2) if good else 0
        full[idx] = psi_good[sub]
    return full


def _embed_dm(rho_good: np.ndarray, bad: tuple, n: int) -> np.ndarray:
    """Density matrix of all atoms: the badly prepared ones stay in |g><g|."""
    good = [i for i in range(n) if not bad[i]]
    pos = {}
    for idx in range(2**n):
        digits = [int(c) for c in np.binary_repr(idx, width=n)]
        if all(digits[i] == 1 for i in range(n) if bad[i]):
            pos[idx] = int("".join(str(digits[i]) for i in good), 2) if good else 0
    full = np.zeros((2**n, 2**n), dtype=complex)
    for a, sa in pos.items():
        for b, sb in pos.items():
            full[a, b] = rho_good[sa, sb]
    return full


def _as_dm(q) -> np.ndarray:
    m = q.full()
    return m if q.isoper else m @ m.conj().T


DISSIPATIVE = ("dephasing_rate", "relaxation_rate")      # leave a dark atom in |g> untouched
RANDOM_NOISE = ("temperature", "amp_sigma")


def run_stateprep(drv, case) -> Outcome:
    import collections

    from pulser.backend.default_observables import StateResult
    from pulser.noise_model import NoiseModel
    from pulser_simulation import QutipBackendV2, QutipConfig, QutipEmulator, SimConfig

    spec = case["seq"]
    n = int(spec["n"])
    eta = float(Fraction(case["eta"]))
    runs = int(case["runs"])
    extra_noise = case.get("extra_noise") or {}
    out = Outcome(branch=f"n{n}-" + ("+".join(sorted(extra_noise)) or "prep-only"), nontrivial=0 < eta < 1)
    coords = [(spec.get("spacing", 8.0) * i, 0.0) for i in range(n)]
    with warnings.catch_warnings():
        warnings.simplefilter("ignore")
        seq = build_sequence(spec)
        nm = NoiseModel(runs=runs, samples_per_run=int(case.get("samples_per_run", 5)), state_prep_error=eta,
                        **extra_noise)
        np.random.seed(int(case["npseed"]))
        emu = QutipEmulator.from_sequence(seq, config=SimConfig.from_noise_model(nm))
        qids = [f"q{i}" for i in range(n)]          # register order, as built by build_sequence
        opts = {}
        emu._validate_options(opts)
        yielded = []            # (bad atoms loaded for the run, repetitions, final state)
        with _RecordUniform(n) as rec:
            for cr, reps in emu._noisy_runs(progress_bar=False, **opts):
                bad = tuple(bool(emu._hamiltonian._bad_atoms[q]) for q in qids)
                yielded.append((bad, int(reps), _as_dm(cr.states[-1])))
        drawn = [tuple(bool(x) for x in (d < eta)) for d in rec.draws]
        # model: draw -> string -> bad atoms (PulserModel/Measure.lean §3b)
        for d in rec.draws[:8]:
            bits = drv.ask(f"prep {rat(Fraction(eta))} {wfracs(d)}").split()[0]
            out.evaluations += 1
            if tuple(c == "1" for c in ("" if bits == "e" else bits)) != tuple(bool(x) for x in (d < eta)):
                out.diverge(f"model drawBad/encode/decode disagrees with u < eta on {d}")
        # ---- (a) per run, the bad atoms loaded are the configuration that was drawn ----
        got = collections.Counter()
        for bad, reps, _ in yielded:
            got[bad] += reps
        want = collections.Counter(drawn)
        out.evaluations += 1
        out.detail = dict(eta=eta, runs=runs, drawn={"".join("1" if b else "0" for b in k): v for k, v in want.items()},
                          loaded={"".join("1" if b else "0" for b in k): v for k, v in got.items()})
        if len(drawn) != runs:
            out.warnings.append(f"recorded {len(drawn)} state-preparation draws for {runs} runs (adapter lost track)")
            return out
        if got != want:
            what = "all-atoms-bad" if all(all(b) for b in got) and not all(all(b) for b in want) else "other"
            out.fail("state-prep-bad-atoms",
                     f"eta={eta}: configurations drawn {out.detail['drawn']} but the runs were made with bad atoms "
                     f"{out.detail['loaded']}", what=what)
            return out
        random_extra = any(k in extra_noise for k in RANDOM_NOISE)
        dissipative = {k: v for k, v in extra_noise.items() if k in DISSIPATIVE}

        def physical(dm, what, t):
            ev = np.linalg.eigvalsh((dm + dm.conj().T) / 2)
            out.evaluations += 1
            if abs(np.trace(dm) - 1) > 2e-5 or np.max(np.abs(dm - dm.conj().T)) > 1e-8 or ev.min() < -1e-6:
                out.fail("density-matrix-physical",
                         f"{what} at t={t}: trace {np.trace(dm).real:.6f}, hermiticity "
                         f"{np.max(np.abs(dm - dm.conj().T)):.2g}, min eig {ev.min():.2g} "
                         f"(eta={eta}, runs={runs}, noise {sorted(extra_noise) or 'state preparation only'})",
                         source="v2-noisy-average")

        if random_extra:
            # doppler / amplitude noise: every run is random, only the physicality of the V2 average is decided
            np.random.seed(int(case["npseed"]) + 1)
            res = QutipBackendV2(seq, config=QutipConfig(
                observables=[StateResult(evaluation_times=[0.5, 1.0])], noise_model=nm)).run()
            for t, st in zip(res.get_result_times("state"), res.state):
                physical(_as_dm(st.to_qobj()), "V2 averaged density matrix", t)
            return out
        # ---- (b) each run evolves the well-prepared atoms only; the others stay in |g> ----
        ref = {}

        def reference(bad):
            if bad not in ref:
                good = [i for i in range(n) if not bad[i]]
                if not good:
                    rho = np.ones((1, 1), dtype=complex)
                else:
                    sub = dict(spec, n=len(good), coords=[list(coords[i]) for i in good])
                    cfg2 = SimConfig.from_noise_model(NoiseModel(**dissipative)) if dissipative else None
                    e2 = QutipEmulator.from_sequence(build_sequence(sub), config=cfg2)
                    rho = _as_dm(e2.run().states[-1])
                ref[bad] = _embed_dm(rho, bad, n)
            return ref[bad]

        for bad, reps, rho_run in yielded:
            out.evaluations += 1
            r = reference(bad)
            if np.max(np.abs(rho_run - r)) > 2e-4:      # integrator tolerance; a wrong dark set is O(0.1)
                out.fail("state-prep-dark-atoms",
                         f"run with bad atoms {bad}: final state differs from 'bad atoms idle in |g>' by "
                         f"{np.max(np.abs(rho_run - r)):.3g}")
                return out
        # ---- (c) the averaged results are the mixture over the drawn configurations ----
        np.random.seed(int(case["npseed"]) + 1)
        backend = QutipBackendV2(seq, config=QutipConfig(
            observables=[StateResult(evaluation_times=[0.5, 1.0])], noise_model=nm))
        with _RecordUniform(n) as rec2:
            res = backend.run()
        # unit trace / Hermitian / positive: the average over runs must weight every run by its repetitions
        for t, st in zip(res.get_result_times("state"), res.state):
            physical(_as_dm(st.to_qobj()), "V2 averaged density matrix", t)
        out.evaluations += 1
        if len(rec2.draws) == runs:
            mix = np.zeros((2**n, 2**n), dtype=complex)
            for d in rec2.draws:
                mix += reference(tuple(bool(x) for x in (d < eta))) / runs
            dm = _as_dm(res.state[-1].to_qobj())
            # (2e-3: both sides come out of the ODE solver, whose own error reaches a few 1e-4 with dissipation;
            # a wrong weighting of the configurations moves entries by 1e-2 .. 0.5)
            if np.max(np.abs(dm - mix)) > 2e-3:
                out.fail("state-prep-mixture",
                         f"V2 density matrix differs from the mixture over the drawn configurations by "
                         f"{np.max(np.abs(dm - mix)):.3g} (diag {np.round(np.real(np.diag(dm)), 4)} vs "
                         f"{np.round(np.real(np.diag(mix)), 4)})")
        else:
            out.warnings.append(f"V2: recorded {len(rec2.draws)} draws for {runs} runs")
        np.random.seed(int(case["npseed"]) + 2)
        emu3 = QutipEmulator.from_sequence(seq, config=SimConfig.from_noise_model(nm))
        with _RecordUniform(n) as rec3:
            noisy = emu3.run()
        out.evaluations += 1
        if len(rec3.draws) == runs and hasattr(noisy[-1], "bitstring_counts"):
            dist = collections.Counter()
            for d in rec3.draws:
                rho_c = reference(tuple(bool(x) for x in (d < eta)))
                for idx, p in enumerate(np.real(np.diag(rho_c))):
                    if p > 1e-12:
                        # r (first basis vector) reads 1
                        dist["".join("1" if c == "0" else "0" for c in np.binary_repr(idx, width=n))] += p / runs
            counts = dict(noisy[-1].bitstring_counts)
            shots = sum(counts.values())
            spr = int(case.get("samples_per_run", 5))
            if shots != runs * spr:
                out.fail("sampling", f"legacy run returned {shots} shots for {runs} x {spr}")
            impossible = [k for k in counts if dist.get(k, 0.0) == 0.0]
            if impossible:
                out.fail("state-prep-mixture", f"legacy run sampled {impossible}, impossible under {dict(dist)}")
            for w in mc.six_sigma_miss(counts, dist, shots):
                out.warnings.append(f"legacy noisy run outside 6 sigma: {w}")
    return out


def gen_stateprep(rng) -> dict:
    n = rng.choice([1, 2, 2, 3])
    amp = rng.choice([3.141592653589793 / 0.1, 10.0, 6.283185307179586])
    segs = [dict(ch="ryd", dur=rng.choice([100, 120]), amp=amp, det=rng.choice([0.0, 0.0, 3.0]), phase=0.0)]
    case = dict(kind="stateprep", seq=dict(n=n, spacing=rng.choice([7.0, 30.0]), segments=segs),
                eta=rng.choice(["1/10", "3/10", "1/2", "9/10", "1"]), runs=rng.choice([4, 8, 16]),
                samples_per_run=rng.choice([5, 25]), npseed=rng.randint(0, 10**6))
    r = rng.random()
    if r < 0.15:
        case["extra_noise"] = rng.choice([dict(temperature=50.0), dict(amp_sigma=0.1, laser_waist=100.0)])
    elif r < 0.55:
        # dissipative noise: every run yields a density matrix, identical configurations are grouped (reps > 1)
        case["extra_noise"] = rng.choice([dict(dephasing_rate=0.5), dict(relaxation_rate=0.3),
                                          dict(relaxation_rate=0.2, dephasing_rate=0.3)])
    return case


def shrink_stateprep(case):
    if case["seq"]["n"] > 1:
        yield dict(case, seq=dict(case["seq"], n=case["seq"]["n"] - 1))
    if case["runs"] > 2:
        yield dict(case, runs=case["runs"] // 2)
    if case.get("extra_noise"):
        yield dict(case, extra_noise=None)


# --------------------------------------------------------------------------------------
RUNNERS = dict(weights=run_weights, kernel=run_kernel, evaltimes=run_evaltimes, config=run_config,
               stateprep=run_stateprep, smoke=run_smoke)
SHRINKERS = dict(evaltimes=shrink_evaltimes, smoke=shrink_smoke, stateprep=shrink_stateprep)
GENS = dict(weights=gen_weights, kernel=gen_kernel, evaltimes=gen_evaltimes, config=gen_config,
            stateprep=gen_stateprep, smoke=gen_smoke)
QUICK = dict(weights=800, kernel=250, evaltimes=900, config=300, stateprep=25, smoke=30)
THOROUGH = dict(weights=20000, kernel=6000, evaltimes=25000, config=8000, stateprep=400, smoke=600)


def runner(drv, case) -> Outcome:
    return RUNNERS[case["kind"]](drv, case)


def shrinker(case):
    f = SHRINKERS.get(case["kind"])
    return f(case) if f else ()


def check(tier: str, seed: int) -> int:
    camp = mc.Campaign(PROP, tier, seed, runner, shrinker)
    camp.lean_obligations()
    rng = random.Random(f"{PROP}-{seed}")
    for case in mc.load_corpus(PROP):
        camp.run_case(case, "corpus")
    plan = QUICK if tier == "quick" else THOROUGH
    limit = 95 if tier == "quick" else 3000
    for kind, count in plan.items():
        for _ in range(count):
            if not camp.budget_left(limit):
                break
            out = camp.run_case(GENS[kind](rng), "generated")
            if kind == "smoke":
                camp.test_results["smoke_runs"] += 1
                if out.fails:
                    camp.test_results["smoke_with_findings"] += 1

    def search(c):
        kind = c.unexplained_div[0]["case"]["kind"]
        for _ in range(300 if tier == "quick" else 5000):
            if c.violations or not c.budget_left(limit + 25):
                break
            c.run_case(GENS[kind](rng), "search")

    return camp.finish(EXPLANATION, UNCOVERED, RULE, search=search)


def replay(path: str) -> int:
    return mc.replay_file(PROP, path, runner)
