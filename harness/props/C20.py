"""C20 — observables and results are correct functions of the emulated state (PARTIAL).

Decided by theorems (lean/Properties/C20.lean): the `Results` store, the evaluation-time rule of
`Observable.__call__` (documented rule vs the rule of this tree, F8), `from_operator_repr` =
tensor-product construction, linear-algebra laws, bitstring-probability convention, pure = mixed.
Tied to /repo here: every case runs the real classes and the Lean model (`pm_meas`) on the same
exact inputs, plus a monitor that restates the property directly over the real objects.

NOT decided (labelled *test*): that the V2 backend feeds the observables the right state at the
right time — a small smoke differential through `QutipBackendV2` (kind `backend`).
"""
from __future__ import annotations

import itertools
import json
import random
import uuid as uuidlib
from fractions import Fraction
from types import SimpleNamespace

import numpy as np

import common
from common import rat
from props import meas_common as mc
from props.meas_common import F, Outcome, close, cq, wfracs, wmat

PROP = "C20"

UNCOVERED = [
    "the V2 backend delivers the state of the right time to each observable (QuTiP sesolve/mesolve on float64): "
    "smoke differential only (kind 'backend'), a test, not a theorem",
    "float64 evaluation of the observables (qutip.expect, overlap, sqrt): compared with the exact model at 1e-9",
    "sampled bitstring counts are random: only looked at under a fixed numpy seed against a 6-sigma band (warnings)",
    "general statement <n_i n_j> = sum_sigma p_sigma [sigma_i = one and sigma_j = one] for the correlation matrix: "
    "instance only (correlation_index_partial); occupation and the energy moments are proved in general",
]

EXPLANATION = (
    "Partial. Lean theorems over exact rationals (Properties/C20.lean) carry: Results store invariant and "
    "retrievability, the evaluation-time rule (documented vs implemented, F8 counterexample + exact divergence "
    "condition), from_operator_repr = Kronecker construction entry-wise, composition/linearity laws, the bitstring "
    "probability convention, pure = mixed, occupation = its definition, energy second moment and variance = their "
    "definitions for pure and mixed states (Hermitian H). Each run ties the model to /repo by differential execution of the real "
    "QutipState/QutipOperator/default_observables/Results/Observable.__call__ against pm_meas on identical exact "
    "inputs, and a monitor restates every clause over the real objects. The dynamics clause is only smoke-tested."
)

RULE = (
    "cases = corpus/C20/*.json first, then generated per kind (store histories, evaluation-time queries, operator "
    "representations, operator algebra, observables on random kets / rational density matrices for d=2,3,4 and "
    "1-4 qudits in every basis, bitstring probabilities, backend smoke runs); every random choice from "
    "random.Random('C20-<seed>'); distinct = distinct case JSON; non-trivial = the case exercised at least one "
    "successful store / a time inside [0,1] / a non-zero operator term / a state with >= 2 populated basis states"
)


# --------------------------------------------------------------------------------------
# real-code helpers
# --------------------------------------------------------------------------------------
def _imports():
    import qutip
    from pulser.backend.config import EmulationConfig
    from pulser.backend.observable import Observable
    from pulser.backend.results import Results
    from pulser_simulation.qutip_op import QutipOperator
    from pulser_simulation.qutip_state import QutipState

    return SimpleNamespace(qutip=qutip, EmulationConfig=EmulationConfig, Observable=Observable, Results=Results,
                           QutipOperator=QutipOperator, QutipState=QutipState)


_FAKE = {}


def fake_obs_class():
    if "cls" not in _FAKE:
        from pulser.backend.observable import Observable

        class FakeObs(Observable):
            def __init__(self, k, tag, evaluation_times=None):
                super().__init__(evaluation_times=evaluation_times)
                self._uuid = uuidlib.UUID(int=k + 1)
                self._tagname = f"t{tag}"

            @property
            def _base_tag(self):
                return self._tagname

            def apply(self, **kw):
                return 1

        _FAKE["cls"] = FakeObs
    return _FAKE["cls"]


def err_name(e: Exception) -> str:
    if isinstance(e, RuntimeError):
        return "err runtime"
    if isinstance(e, AssertionError):
        return "err assertion"
    if isinstance(e, (ValueError, KeyError, AttributeError)):
        return "err value"
    return "err " + type(e).__name__


def qobj_state(I, arr: np.ndarray, d: int, n: int, is_ket: bool):
    if is_ket:
        return I.qutip.Qobj(arr.reshape(-1, 1), dims=[[d] * n, [1] * n])
    return I.qutip.Qobj(arr, dims=[[d] * n, [d] * n])


def qobj_op(I, arr: np.ndarray, d: int, n: int):
    return I.qutip.Qobj(arr, dims=[[d] * n, [d] * n])


def parse_mat(flat: list[str], r: int, c: int) -> np.ndarray:
    return np.array([mc.uncq(s) for s in flat], dtype=complex).reshape(r, c)


def flat_of(arr: np.ndarray) -> list[str]:
    return [cq(z) for z in np.asarray(arr, dtype=complex).flatten()]


def wflat(flat: list[str]) -> str:
    return "[" + ",".join(flat) + "]"


# --------------------------------------------------------------------------------------
# kind: store
# --------------------------------------------------------------------------------------
def run_store(drv, case) -> Outcome:
    I = _imports()
    out = Outcome(branch="store")
    Fake = fake_obs_class()
    res = I.Results(atom_order=("q0",), total_duration=int(case.get("T", 100)))
    drv.ask("store reset")
    obs_cache = {}
    stored = []            # (u, tag, time, value) successfully stored
    tags_of = {}           # tag -> set of uuids that used it
    log = []

    def obs_for(u, tag):
        return obs_cache.setdefault((u, tag), Fake(u, tag))

    for op in case["ops"]:
        k = op[0]
        if k == "put":
            _, u, tag, t, v = op
            tf = float(Fraction(t))
            o = obs_for(u, tag)
            try:
                res._store(observable=o, time=tf, value=int(v))
                real = "ok"
            except Exception as e:  # noqa: BLE001
                real = err_name(e)
            model = drv.ask(f"store put {u} {tag} {rat(Fraction(tf))} {v}")
            had = any(s[0] == u and s[2] == tf for s in stored)
            if real == "ok":
                stored.append((u, tag, tf, int(v)))
                out.nontrivial = True
            # the tag map is written before the sortedness assert (mirrored by the model)
            if real in ("ok", "err assertion"):
                tags_of.setdefault(tag, set()).add(u)
            # monitor: a second value at the same time must raise
            if had and real == "ok":
                out.fail("store-twice-raises", f"second value accepted for uuid {u} at time {tf}")
        elif k == "get":
            _, kind, key, t = op
            tf = float(Fraction(t))
            try:
                target = next((o for (u, _), o in obs_cache.items() if u == key), Fake(key, 999)) if kind == "obs" \
                    else f"t{key}"
                real = str(res.get_result(target, tf))
            except Exception as e:  # noqa: BLE001
                real = err_name(e)
            model = drv.ask(f"store get {kind} {key} {rat(Fraction(tf))}")
        elif k == "times":
            _, kind, key = op
            try:
                target = next((o for (u, _), o in obs_cache.items() if u == key), Fake(key, 999)) if kind == "obs" \
                    else f"t{key}"
                real = wfracs(res.get_result_times(target))
            except Exception as e:  # noqa: BLE001
                real = err_name(e)
            model = drv.ask(f"store times {kind} {key}")
        elif k == "tagged":
            real = "[" + ";".join(f"{tag[1:]}=" + ",".join(str(x) for x in vals)
                                  for tag, vals in res.get_tagged_results().items()) + "]"
            model = drv.ask("store tagged")
        else:
            raise mc.InfraError(f"unknown store op {op}")
        out.evaluations += 1
        log.append((op, real, model))
        if real != model:
            out.diverge(f"store op {op}: /repo -> {real!r}, model -> {model!r}")
        # ---- monitor: the clauses of the property, directly on the real object ----
        for uu, ts in res._times.items():
            if any(not (a < b) for a, b in zip(ts, ts[1:])):
                out.fail("times-ascending", f"times of {uu} not strictly ascending: {ts}")
            if len(ts) != len(res._results.get(uu, [])):
                out.fail("one-value-per-time", f"{len(ts)} times but {len(res._results.get(uu, []))} values for {uu}")
        for (u, tag, tf, v) in stored:
            o = obs_for(u, tag)
            try:
                got = res.get_result(o, tf)
            except Exception as e:  # noqa: BLE001
                got = err_name(e)
            if got != v:
                out.fail("retrievable", f"value {v} stored for uuid {u} at {tf} reads back as {got!r}", by="observable")
            if len(tags_of.get(tag, ())) == 1:      # tags unique, as EmulationConfig enforces
                try:
                    got = res.get_result(f"t{tag}", tf)
                except Exception as e:  # noqa: BLE001
                    got = err_name(e)
                if got != v:
                    out.fail("retrievable", f"value {v} stored under tag t{tag} at {tf} reads back as {got!r}", by="tag")
                vals = getattr(res, f"t{tag}")
                if v not in vals:
                    out.fail("retrievable", f"Results.t{tag} = {vals} lacks {v}", by="attribute")
    # final snapshot
    snap = json.loads(drv.ask("store snap"))
    real_snap = dict(
        times=[dict(u=uu.int - 1, t=[rat(Fraction(x)) for x in ts]) for uu, ts in res._times.items()],
        vals=[dict(u=uu.int - 1, v=list(vs)) for uu, vs in res._results.items()],
        tagmap=[[int(tag[1:]), uu.int - 1] for tag, uu in res._tagmap.items()],
    )
    out.evaluations += 1
    if snap != real_snap:
        out.diverge(f"final store snapshot differs: /repo {real_snap} model {snap}")
    out.detail = dict(log=log, snapshot=real_snap)
    return out


def gen_store(rng) -> dict:
    grid = [Fraction(k, 16) for k in range(0, 17)]
    ops = []
    n_obs = rng.randint(1, 3)
    tags = [rng.randint(0, 2) if rng.random() < 0.25 else 10 + u for u in range(n_obs)]
    clock = {u: 0 for u in range(n_obs)}
    for _ in range(rng.randint(4, 14)):
        r = rng.random()
        u = rng.randrange(n_obs)
        if r < 0.6:
            mode = rng.random()
            if mode < 0.7 and clock[u] < len(grid):
                j = rng.randrange(clock[u], min(len(grid), clock[u] + 4))
                clock[u] = j + 1
            else:
                j = rng.randrange(len(grid))          # duplicate or out of order
            ops.append(["put", u, tags[u], rat(grid[j]), rng.randint(-50, 50)])
        elif r < 0.8:
            kind = rng.choice(["obs", "tag"])
            key = u if kind == "obs" else tags[u]
            if rng.random() < 0.15:
                key = 77
            ops.append(["get", kind, key, rat(rng.choice(grid))])
        elif r < 0.93:
            kind = rng.choice(["obs", "tag"])
            ops.append(["times", kind, u if kind == "obs" else tags[u]])
        else:
            ops.append(["tagged"])
    ops.append(["tagged"])
    return dict(kind="store", T=rng.choice([0, 100, 1000]), ops=ops)


def shrink_store(case):
    ops = case["ops"]
    for i in range(len(ops)):
        yield dict(case, ops=ops[:i] + ops[i + 1:])


# --------------------------------------------------------------------------------------
# kind: should (Observable.__call__)
# --------------------------------------------------------------------------------------
def run_should(drv, case) -> Outcome:
    I = _imports()
    out = Outcome(branch="own" if case["own"] is not None else "default")
    Fake = fake_obs_class()
    own = None if case["own"] is None else [float(Fraction(x)) for x in case["own"]]
    dflt = "Full" if case["dflt"] == "Full" else [float(Fraction(x)) for x in case["dflt"]]
    t = float(Fraction(case["t"]))
    T = int(case["T"])
    obs = Fake(0, 0, evaluation_times=own)
    import warnings

    with warnings.catch_warnings():
        warnings.simplefilter("ignore")
        cfg = I.EmulationConfig(observables=[obs], default_evaluation_times=dflt)
    res = I.Results(atom_order=("q0",), total_duration=T)
    try:
        obs(config=cfg, t=t, state=None, hamiltonian=None, result=res)
        real = 1 if obs.uuid in res._results else 0
    except ValueError as e:
        real = "raise:" + str(e)[:60]
    code, spec = drv.ask(
        "should {} {} {} {}".format(
            "-" if own is None else wfracs(own), "full" if dflt == "Full" else wfracs(dflt), rat(Fraction(t)), T
        )
    ).split()
    out.evaluations += 1
    out.nontrivial = 0.0 <= t <= 1.0
    # monitor: the documented rule, written out directly
    tol = (0.5 / T) if T else 1e-6
    inside = 0.0 <= t <= 1.0

    def member(ts):
        return inside and any(abs(x - t) <= tol for x in ts)

    expected = member(own) if own is not None else (inside if dflt == "Full" else member(dflt))
    out.detail = dict(real=real, model_code=code, model_spec=spec, expected=int(expected))
    if isinstance(real, str):
        out.fail("default-times-usable",
                 f"Observable.__call__ raises with {len(dflt) if dflt != 'Full' else 'Full'} default evaluation times: {real}",
                 n_default=">=2" if dflt != "Full" and len(dflt) >= 2 else str(dflt))
        return out
    if str(real) != code:
        out.diverge(f"should_evaluate: /repo stored={real}, model(code)={code} for {case}")
    if int(expected) != int(spec):
        # boundary of the tolerance decided differently by float and exact arithmetic
        out.warnings.append(f"float_ambiguous tolerance boundary: {case}")
    elif real != int(expected):
        what = "evaluated-at-default-time" if (own is not None and real == 1) else "other"
        out.fail("own-times-only",
                 f"observable with own times {own} and default {dflt}: stored at t={t}: {bool(real)}, documented: {expected}",
                 what=what)
    return out


def gen_should(rng) -> dict:
    T = rng.choice([0, 4, 100, 137, 1000, 2999])
    tol = Fraction(1, 2 * T) if T else Fraction(1, 10**6)

    def times(k):
        pts = sorted({Fraction(rng.randint(0, 64), 64) for _ in range(k)})
        return [rat(Fraction(float(p))) for p in pts]

    own = None if rng.random() < 0.35 else times(rng.randint(1, 3))
    r = rng.random()
    dflt = "Full" if r < 0.2 else times(1) if r < 0.85 else times(2)
    pool = [Fraction(x) for x in (own or [])] + ([Fraction(x) for x in dflt] if dflt != "Full" else [])
    pool += [Fraction(0), Fraction(1), Fraction(rng.randint(0, 64), 64)]
    base = rng.choice(pool)
    off = rng.choice([0, 0, 0, Fraction(2, 5), -Fraction(2, 5), Fraction(3, 5), -Fraction(3, 5), 3, -3]) * tol
    t = Fraction(float(base + off))
    if rng.random() < 0.05:
        t = Fraction(float(rng.choice([-0.25, 1.25])))
    return dict(kind="should", own=own, dflt=dflt, t=rat(t), T=T)


# --------------------------------------------------------------------------------------
# kind: oprepr (from_operator_repr)
# --------------------------------------------------------------------------------------
def np_from_repr(eig, n, operations) -> np.ndarray:
    """Documented tensor-product construction, written independently with numpy."""
    d = len(eig)
    total = np.zeros((d**n, d**n), dtype=complex)
    for coeff, tensor_op in operations:
        slots = [np.eye(d, dtype=complex) for _ in range(n)]
        for qop, inds in tensor_op:
            m = np.zeros((d, d), dtype=complex)
            for key, v in qop.items():
                m[eig.index(key[0]), eig.index(key[1])] += v
            for i in inds:
                slots[i] = m
        acc = np.ones((1, 1), dtype=complex)
        for s in slots:
            acc = np.kron(acc, s)
        total += coeff * acc
    return total


def decode_ops(case):
    return [
        (mc.uncq(c), [({k: mc.uncq(v) for k, v in q.items()}, list(inds)) for q, inds in tensor])
        for c, tensor in case["ops"]
    ]


def run_oprepr(drv, case) -> Outcome:
    I = _imports()
    eig = tuple(case["eig"])
    n = int(case["n"])
    d = len(eig)
    operations = decode_ops(case)
    out = Outcome(branch=f"d{d}n{n}")
    try:
        op = I.QutipOperator.from_operator_repr(
            eigenstates=eig, n_qudits=n,
            operations=[(c, [(q, set(inds)) for q, inds in tensor]) for c, tensor in operations],
        )
        real = op.to_qobj().full()
    except Exception as e:  # noqa: BLE001
        real = f"{type(e).__name__}: {str(e)[:80]}"
    wire = mc.wfullop(operations, eig)
    model = mc.unmat(drv.ask(f"op {d} {n} {wire}"))
    out.evaluations += 1
    out.nontrivial = any(abs(c) > 0 and any(q for q, _ in tensor) for c, tensor in operations)
    if d**n <= 16:
        entry = mc.unmat(drv.ask(f"opentry {d} {n} {wire}"))
        out.evaluations += 1
        if not close(entry, model, 1e-12):
            out.diverge("model: Kronecker construction and entry-wise formula differ (theorem operator_from_repr!)")
    expected = np_from_repr(eig, n, operations)
    out.detail = dict(real=str(real)[:300], expected=str(expected)[:300])
    if isinstance(real, str):
        out.fail("from-repr", f"from_operator_repr raises on a valid representation: {real}",
                 case="empty-operations" if not operations else "other")
        return out
    if not close(real, model, 1e-12):
        out.diverge(f"from_operator_repr: /repo matrix differs from model by {np.max(np.abs(real - model)):.3g}")
    if not close(real, expected, 1e-12):
        out.fail("from-repr", f"operator differs from the documented tensor-product construction by "
                              f"{np.max(np.abs(real - expected)):.3g}", case="tensor-construction")
    # the stored representation serialises back to the same operator
    try:
        rep = op._to_abstract_repr()
        again = I.QutipOperator.from_operator_repr(eigenstates=rep["eigenstates"], n_qudits=rep["n_qudits"],
                                                   operations=rep["operations"])
        out.evaluations += 1
        if not close(again.to_qobj().full(), real, 1e-12):
            out.fail("from-repr", "operator rebuilt from its abstract representation differs", case="repr-roundtrip")
    except Exception as e:  # noqa: BLE001
        out.fail("from-repr", f"rebuilding from the abstract representation raises {e!r}", case="repr-roundtrip")
    return out


def gen_oprepr(rng) -> dict:
    d = rng.choice([2, 2, 3, 4])
    eig = {2: rng.choice([("r", "g"), ("g", "h"), ("u", "d"), ("0", "1")]),
           3: rng.choice([("r", "g", "h"), ("r", "g", "x"), ("u", "d", "x")]),
           4: ("r", "g", "h", "x")}[d]
    n = rng.randint(1, 4 if d == 2 else 3 if d == 3 else 2)
    ops = []
    for _ in range(rng.randint(1, 3)):
        free = list(range(n))
        rng.shuffle(free)
        tensor = []
        while free and rng.random() < 0.75:
            k = rng.randint(1, min(2, len(free)))
            inds, free = sorted(free[:k]), free[k:]
            q = {}
            for _ in range(rng.randint(1, 3)):
                q[rng.choice(eig) + rng.choice(eig)] = cq(mc.rand_complex_dyadic(rng))
            tensor.append([q, inds])
        ops.append([cq(mc.rand_complex_dyadic(rng)), tensor])
    return dict(kind="oprepr", eig=list(eig), n=n, ops=ops)


def shrink_oprepr(case):
    ops = case["ops"]
    for i in range(len(ops)):
        if len(ops) > 1:
            yield dict(case, ops=ops[:i] + ops[i + 1:])
    for i, (c, tensor) in enumerate(ops):
        for j in range(len(tensor)):
            yield dict(case, ops=ops[:i] + [[c, tensor[:j] + tensor[j + 1:]]] + ops[i + 1:])


# --------------------------------------------------------------------------------------
# kind: algebra
# --------------------------------------------------------------------------------------
def run_algebra(drv, case) -> Outcome:
    I = _imports()
    eig = tuple(case["eig"])
    d, n = len(eig), int(case["n"])
    dim = d**n
    A = parse_mat(case["A"], dim, dim)
    B = parse_mat(case["B"], dim, dim)
    z = mc.uncq(case["z"])
    is_ket = case["state"]["type"] == "ket"
    S = parse_mat(case["state"]["data"], dim, 1 if is_ket else dim)
    out = Outcome(branch=("ket" if is_ket else "dm") + f"-d{d}n{n}", nontrivial=bool(np.any(A)) and bool(np.any(S)))
    qa = I.QutipOperator(qobj_op(I, A, d, n), eigenstates=eig)
    qb = I.QutipOperator(qobj_op(I, B, d, n), eigenstates=eig)
    st = I.QutipState(qobj_state(I, S.flatten() if is_ket else S, d, n, is_ket), eigenstates=eig)
    wa, wb, ws = wflat(case["A"]), wflat(case["B"]), wflat(case["state"]["data"])
    checks = [
        ("add", (qa + qb).to_qobj().full(), mc.unmat(drv.ask(f"alg add {dim} {dim} {wa} {wb}")), A + B),
        ("rmul", (z * qa).to_qobj().full(), mc.unmat(drv.ask(f"alg smul {dim} {dim} {case['z']} {wa}")), z * A),
        ("matmul", (qa @ qb).to_qobj().full(), mc.unmat(drv.ask(f"alg mul {dim} {dim} {dim} {wa} {wb}")), A @ B),
    ]
    applied = qa.apply_to(st).to_qobj().full()
    if is_ket:
        checks.append(("apply_to", applied, mc.unmat(drv.ask(f"alg applyket {dim} {wa} {ws}")), A @ S))
        exp_m = mc.uncq(drv.ask(f"alg expectket {dim} {wa} {ws}"))
        exp_np = (S.conj().T @ A @ S)[0, 0]
    else:
        checks.append(("apply_to", applied, mc.unmat(drv.ask(f"alg applydm {dim} {wa} {ws}")), A @ S @ A.conj().T))
        exp_m = mc.uncq(drv.ask(f"alg expectdm {dim} {wa} {ws}"))
        exp_np = np.trace(A @ S)
    checks.append(("expect", np.array([[complex(qa.expect(st))]]), np.array([[exp_m]]), np.array([[exp_np]])))
    for name, real, model, ref in checks:
        out.evaluations += 1
        if not close(real, model, 1e-10):
            out.diverge(f"{name}: /repo differs from model by {np.max(np.abs(real - model)):.3g}")
        if not close(real, ref, 1e-10):
            out.fail("matrix-algebra", f"{name} is not the matrix operation (off by {np.max(np.abs(real - ref)):.3g})",
                     op=name)
    return out


def gen_algebra(rng) -> dict:
    d = rng.choice([2, 2, 3, 4])
    eig = {2: ("r", "g"), 3: ("r", "g", "h"), 4: ("r", "g", "h", "x")}[d]
    n = rng.randint(1, 3 if d == 2 else 2 if d == 3 else 1)
    dim = d**n

    def mat():
        return np.array([[mc.rand_complex_dyadic(rng) if rng.random() < 0.7 else 0 for _ in range(dim)]
                         for _ in range(dim)], dtype=complex)

    if rng.random() < 0.5:
        state = dict(type="ket", data=flat_of(mc.rand_ket(rng, dim)))
    else:
        dm = mc.rand_dm_exact(rng, dim)
        state = dict(type="dm", data=[f"{rat(a)}:{rat(b)}" for row in dm for a, b in row])
        # the real code receives the float image of these rationals; hand the model the same floats
        state["data"] = flat_of(parse_mat(state["data"], dim, dim))
    return dict(kind="algebra", eig=list(eig), n=n, A=flat_of(mat()), B=flat_of(mat()),
                z=cq(mc.rand_complex_dyadic(rng)), state=state)


# --------------------------------------------------------------------------------------
# kind: obs (default observables' apply)
# --------------------------------------------------------------------------------------
def np_defs(eig, n, one, rho: np.ndarray, H: np.ndarray):
    """The definitions of the property, written independently with numpy on a density matrix."""
    d = len(eig)
    probs = np.real(np.diag(rho))
    oi = eig.index(one)
    states = list(itertools.product(range(d), repeat=n))
    occ = [sum(p for s, p in zip(states, probs) if s[i] == oi) for i in range(n)]
    corr = [[sum(p for s, p in zip(states, probs) if s[i] == oi and s[j] == oi) for j in range(n)]
            for i in range(n)]
    e = np.trace(rho @ H)
    m2 = np.trace(rho @ H @ H)
    return dict(occ=occ, corr=corr, energy=e.real, m2=m2.real, var=(m2 - e * e).real)


def run_obs(drv, case) -> Outcome:
    I = _imports()
    from pulser.backend import default_observables as do

    eig = tuple(case["eig"])
    d, n = len(eig), int(case["n"])
    dim = d**n
    is_ket = case["state"]["type"] == "ket"
    S = parse_mat(case["state"]["data"], dim, 1 if is_ket else dim)
    H = parse_mat(case["H"], dim, dim)
    one = case.get("one")
    st = I.QutipState(qobj_state(I, S.flatten() if is_ket else S, d, n, is_ket), eigenstates=eig)
    ham = I.QutipOperator(qobj_op(I, H, d, n), eigenstates=eig)
    one_eff = one or mc.inferred_one_state(eig)      # documented convention, not State.infer_one_state
    rho = S @ S.conj().T if is_ket else S
    purity = float(np.real(np.trace(rho @ rho)))
    kind_state = "pure" if purity > 1 - 1e-9 else "mixed"
    out = Outcome(branch=f"{'ket' if is_ket else 'dm-' + kind_state}-d{d}n{n}",
                  nontrivial=int(np.sum(np.real(np.diag(rho)) > 1e-12)) >= 2)
    cfg = SimpleNamespace(noise_model=SimpleNamespace(p_false_pos=float(case.get("pfp", 0.0)),
                                                      p_false_neg=float(case.get("pfn", 0.0))))
    kw = dict(config=cfg, state=st, hamiltonian=ham)
    if one is None:
        out.evaluations += 1
        if st.infer_one_state() != one_eff:
            out.fail("one-state-inference", f"eigenstates {eig}: inferred one-state {st.infer_one_state()!r}, "
                                            f"documented {one_eff!r}")
    real = dict(
        occ=[complex(x) for x in do.Occupation(one_state=one).apply(**kw)],
        corr=[[complex(x) for x in row] for row in do.CorrelationMatrix(one_state=one).apply(**kw)],
        energy=complex(do.Energy().apply(**kw)),
        m2=float(do.EnergySecondMoment().apply(**kw)),
        var=float(do.EnergyVariance().apply(**kw)),
    )
    ref = np_defs(eig, n, one_eff, rho, H)
    out.detail = dict(real={k: str(v)[:200] for k, v in real.items()}, definition={k: str(v)[:200] for k, v in ref.items()},
                      purity=purity)
    # ---- model ----
    if dim <= 16:
        m = json.loads(drv.ask(f"obs {d} {n} {eig.index(one_eff)} {'ket' if is_ket else 'dm'} "
                               f"{wflat(case['state']['data'])} {wflat(case['H'])}"))
        occ_m = [float(Fraction(x)) for x in m["occ"]]
        occ_op = [mc.uncq(x) for x in m["occ_op"]]
        corr_m = [[float(Fraction(x)) for x in r] for r in m["corr"]]
        corr_op = [[mc.uncq(x) for x in r] for r in m["corr_op"]]
        code_m2 = mc.uncq(m["code_m2"]).real        # identity.expect(H rho H^dagger)
        code_var = mc.uncq(m["code_var"]).real
        pairs = [
            ("occupation", real["occ"], occ_m), ("occupation(operator route)", occ_op, occ_m),
            ("correlation", real["corr"], corr_m), ("correlation(operator route)", corr_op, corr_m),
            ("energy", real["energy"], mc.uncq(m["energy"])),
            ("second moment (identity.expect(H rho H))", real["m2"], code_m2),
            ("variance (identity.expect(H rho H) - <H>^2)", real["var"], code_var),
        ]
        if is_ket:
            pairs.append(("energy (ket formula)", real["energy"], mc.uncq(m["energy_ket"])))
        scale = 1.0 + float(np.max(np.abs(H))) ** 2
        for name, a, b in pairs:
            out.evaluations += 1
            if not close(a, b, 1e-8 * scale):
                out.diverge(f"{name}: /repo {np.asarray(a).flatten()[:4]} vs model {np.asarray(b).flatten()[:4]}")
    else:
        out.branch += "-monitor-only"
    # ---- monitor: each observable is its definition ----
    scale = 1.0 + float(np.max(np.abs(H))) ** 2
    tol = 1e-8 * scale

    def chk(name, a, b, clause, **key):
        out.evaluations += 1
        if not close(a, b, tol):
            out.fail(clause, f"{name}: stored {np.asarray(a).flatten()[:4]} but definition gives "
                             f"{np.asarray(b).flatten()[:4]} ({kind_state} state, d={d}, n={n})", **key)

    chk("occupation", real["occ"], ref["occ"], "occupation")
    chk("correlation", real["corr"], ref["corr"], "correlation")
    chk("energy", real["energy"], ref["energy"], "energy")
    chk("energy second moment", real["m2"], ref["m2"], "energy-second-moment", state=kind_state)
    chk("energy variance", real["var"], ref["var"], "energy-variance", state=kind_state)
    # expectation of an arbitrary operator, fidelity with a pure target
    if "A" in case:
        A = parse_mat(case["A"], dim, dim)
        qa = I.QutipOperator(qobj_op(I, A, d, n), eigenstates=eig)
        chk("expectation", complex(do.Expectation(qa).apply(**kw)), np.trace(A @ rho), "expectation")
    if "target" in case:
        tv = parse_mat(case["target"], dim, 1)
        tgt = I.QutipState(qobj_state(I, tv.flatten(), d, n, True), eigenstates=eig)
        fid_def = (tv.conj().T @ rho @ tv)[0, 0].real
        chk("fidelity", float(do.Fidelity(tgt).apply(**kw)), fid_def, "fidelity")
        if dim <= 16:
            if is_ket:
                fm = float(Fraction(drv.ask(f"overlap kk {dim} {wflat(case['target'])} {wflat(case['state']['data'])}")))
            else:
                fm = mc.uncq(drv.ask(f"overlap kd {dim} {wflat(case['target'])} {wflat(case['state']['data'])}")).real
            out.evaluations += 1
            if not close(float(do.Fidelity(tgt).apply(**kw)), fm, tol):
                out.diverge("fidelity: /repo vs model")
    # StateResult stores a copy of the state
    kept = do.StateResult().apply(**kw)
    out.evaluations += 1
    if kept is st or not (kept == st):
        out.fail("state-result", "StateResult does not store an equal copy of the state")
    # BitStrings: deterministic facts + a statistical look
    shots = int(case.get("shots", 0))
    if shots:
        np.random.seed(int(case.get("npseed", 0)))
        counts = do.BitStrings(num_shots=shots, one_state=one).apply(**kw)
        out.evaluations += 1
        if sum(counts.values()) != shots or any(len(k) != n or set(k) - {"0", "1"} for k in counts):
            out.fail("bitstrings", f"BitStrings returned {dict(counts)} for {shots} shots on {n} qudits")
        probs = np.real(np.diag(rho))
        probs = np.where(probs > 1 / (1000 * shots), probs, 0)
        probs = probs / probs.sum()
        oi = eig.index(one_eff)
        pfp, pfn = cfg.noise_model.p_false_pos, cfg.noise_model.p_false_neg
        dist = {}
        for s, p in zip(itertools.product(range(d), repeat=n), probs):
            if p == 0:
                continue
            true_bits = [1 if x == oi else 0 for x in s]
            for det in itertools.product([0, 1], repeat=n):
                q = p
                for tb, db in zip(true_bits, det):
                    q *= ((1 - pfn) if db else pfn) if tb else (pfp if db else (1 - pfp))
                if q:
                    key = "".join(map(str, det))
                    dist[key] = dist.get(key, 0.0) + q
        impossible = [k for k in counts if dist.get(k, 0.0) == 0.0]
        if impossible:      # a probability-zero outcome is a hard failure, not a statistical one
            out.fail("bitstrings", f"BitStrings sampled {impossible}, which have probability 0 under {dist}")
        for w in mc.six_sigma_miss(dict(counts), dist, shots):
            out.warnings.append(f"BitStrings outside 6 sigma (seed {case.get('npseed', 0)}): {w}")
    return out


def gen_state(rng, dim, want=None):
    kind = want or rng.choice(["ket", "dm", "dm"])
    if kind == "ket":
        return dict(type="ket", data=flat_of(mc.rand_ket(rng, dim)))
    dm = mc.dm_to_np(mc.rand_dm_exact(rng, dim, rank=rng.choice([1, 2, 2, 3])))
    return dict(type="dm", data=flat_of(dm))


def gen_obs(rng, big=False) -> dict:
    basis = rng.choice(list(mc.BASES))
    eig = mc.BASES[basis]
    d = len(eig)
    nmax = {2: 4, 3: 3 if big else 2, 4: 2}[d]
    n = rng.randint(1, nmax)
    dim = d**n
    one = None
    if d > 2 or rng.random() < 0.3:
        cands = [mc.ONE_STATE[b] for b in mc.ONE_STATE if mc.ONE_STATE[b] in eig]
        one = rng.choice(cands)
    case = dict(kind="obs", eig=list(eig), n=n, one=one, state=gen_state(rng, dim),
                H=flat_of(mc.rand_hermitian(rng, dim)))
    if rng.random() < 0.6:
        case["A"] = flat_of(np.array([[mc.rand_complex_dyadic(rng) if rng.random() < 0.5 else 0
                                       for _ in range(dim)] for _ in range(dim)], dtype=complex))
    if rng.random() < 0.6:
        case["target"] = flat_of(mc.rand_ket(rng, dim))
    if rng.random() < 0.5:
        case.update(shots=rng.choice([200, 1000]), npseed=rng.randint(0, 10**6))
        if rng.random() < 0.5:
            case.update(pfp=rng.choice([0.0, 0.05, 0.2]), pfn=rng.choice([0.0, 0.1, 0.3]))
    return case


def shrink_obs(case):
    d = len(case["eig"])
    n = case["n"]
    dim = d**n
    # drop optional parts, then try a diagonal Hamiltonian
    for k in ("A", "target", "shots"):
        if k in case:
            c = dict(case)
            c.pop(k)
            yield c
    H = parse_mat(case["H"], dim, dim)
    if np.any(H - np.diag(np.diag(H))):
        yield dict(case, H=flat_of(np.diag(np.diag(H))))


# --------------------------------------------------------------------------------------
# kind: bitprobs
# --------------------------------------------------------------------------------------
def run_bitprobs(drv, case) -> Outcome:
    I = _imports()
    eig = tuple(case["eig"])
    d, n = len(eig), int(case["n"])
    dim = d**n
    is_ket = case["state"]["type"] == "ket"
    S = parse_mat(case["state"]["data"], dim, 1 if is_ket else dim)
    st = I.QutipState(qobj_state(I, S.flatten() if is_ket else S, d, n, is_ket), eigenstates=eig)
    one = case.get("one")
    cutoff = float(Fraction(case["cutoff"]))
    one_eff = one or mc.inferred_one_state(eig)      # documented convention, not State.infer_one_state
    out = Outcome(branch=f"d{d}n{n}" + ("-digit-eigenstates" if set(eig) & {"0", "1"} else ""))
    real = {k: float(v) for k, v in st.bitstring_probabilities(one_state=one, cutoff=cutoff).items()}
    probs = (np.abs(S.flatten()) ** 2) if is_ket else np.abs(np.diag(S)).real
    out.nontrivial = int(np.sum(probs > cutoff)) >= 2
    reply = drv.ask(f"bitprobs {d} {n} {eig.index(one_eff)} {rat(Fraction(cutoff))} {wfracs(probs)}")
    inner = reply[1:-1]
    model = {}
    for item in (inner.split(",") if inner else []):
        b, p = item.split("=")
        model["" if b == "e" else b] = float(Fraction(p))
    out.evaluations += 1
    # monitor: the convention, written with the eigenstate names
    kept = np.where(probs > cutoff, probs, 0.0)
    kept = kept / kept.sum()
    expected = {}
    for s, p, raw in zip(itertools.product(eig, repeat=n), kept, probs):
        if raw > cutoff:
            key = "".join("1" if ch == one_eff else "0" for ch in s)
            expected[key] = expected.get(key, 0.0) + float(p)
    out.detail = dict(real=real, model=model, expected=expected)
    ok_conv = set(real) == set(expected) and all(abs(real[k] - expected[k]) <= 1e-12 for k in real)
    if not ok_conv:
        out.fail("bitstring-convention",
                 f"bitstring_probabilities(one_state={one!r}) on eigenstates {eig} gives {real}, convention gives {expected}",
                 one_state_named_zero=(one_eff == "0"))
    elif set(real) != set(model) or any(abs(real[k] - model[k]) > 1e-12 for k in real):
        out.diverge(f"bitstring_probabilities: /repo {real} vs model {model}")
    if np.any(probs > cutoff) and abs(sum(real.values()) - 1.0) > 1e-9:
        out.fail("bitstring-sum", f"bitstring probabilities sum to {sum(real.values())}")
    return out


def gen_bitprobs(rng) -> dict:
    r = rng.random()
    if r < 0.15:
        eig = ("0", "1") if rng.random() < 0.5 else ("1", "0")
        one = rng.choice([None, "1", "0"])
    else:
        eig = mc.BASES[rng.choice(list(mc.BASES))]
        one = None
        if len(eig) > 2 or rng.random() < 0.4:
            one = rng.choice([mc.ONE_STATE[b] for b in mc.ONE_STATE if mc.ONE_STATE[b] in eig])
    d = len(eig)
    n = rng.randint(1, {2: 4, 3: 3, 4: 2}[d])
    cutoff = rng.choice(["1/1000000000000", "1/100", "1/4", "0"])
    return dict(kind="bitprobs", eig=list(eig), n=n, one=one, cutoff=cutoff, state=gen_state(rng, d**n))


# --------------------------------------------------------------------------------------
# kind: backend  (SMOKE TEST — not a theorem)
# --------------------------------------------------------------------------------------
def build_sequence(spec):
    import pulser
    from pulser.devices import MockDevice

    n = spec["n"]
    coords = spec.get("coords") or [(spec.get("spacing", 8.0) * i, 0.0) for i in range(n)]
    reg = pulser.Register.from_coordinates([tuple(c) for c in coords], prefix="q")
    seq = pulser.Sequence(reg, MockDevice)
    declared = set()
    for seg in spec["segments"]:
        ch = seg["ch"]
        if ch not in declared:
            declared.add(ch)
            if ch == "ryd":
                seq.declare_channel("ryd", "rydberg_global")
            elif ch == "ram":
                seq.declare_channel("ram", "raman_local", initial_target="q0")
            elif ch == "mw":
                seq.declare_channel("mw", "mw_global")
        if "delay" in seg:
            seq.delay(seg["delay"], ch)
        else:
            seq.add(pulser.Pulse.ConstantPulse(seg["dur"], seg["amp"], seg["det"], seg.get("phase", 0.0)), ch)
    return seq


OBS_TYPES = ["occupation", "correlation_matrix", "energy", "energy_second_moment", "energy_variance",
             "fidelity", "expectation", "bitstrings"]


def run_backend(drv, case) -> Outcome:
    import warnings

    from pulser.backend import default_observables as do
    from pulser.noise_model import NoiseModel
    from pulser_simulation import QutipBackendV2, QutipConfig, QutipOperator, QutipState

    out = Outcome(branch="smoke-" + case.get("label", ""), nontrivial=True)
    spec = case["seq"]
    with warnings.catch_warnings():
        warnings.simplefilter("ignore")
        seq = build_sequence(spec)
        eig_guess = None
        obs_objs = []
        dflt = case["dflt"]
        omit_default = dflt == "default"       # documented constructor default: (1.0,)
        if omit_default:
            dflt = [1.0]
        dflt_arg = "Full" if dflt == "Full" else [float(x) for x in dflt]
        all_times = set()
        for i, o in enumerate(case["obs"]):
            times = None if o.get("times") is None else [float(x) for x in o["times"]]
            if times:
                all_times.update(times)
            kw = dict(evaluation_times=times, tag_suffix=str(i))
            t = o["type"]
            if t == "occupation":
                obs_objs.append(do.Occupation(one_state=o.get("one"), **kw))
            elif t == "correlation_matrix":
                obs_objs.append(do.CorrelationMatrix(one_state=o.get("one"), **kw))
            elif t == "energy":
                obs_objs.append(do.Energy(**kw))
            elif t == "energy_second_moment":
                obs_objs.append(do.EnergySecondMoment(**kw))
            elif t == "energy_variance":
                obs_objs.append(do.EnergyVariance(**kw))
            elif t == "bitstrings":
                obs_objs.append(do.BitStrings(num_shots=50, one_state=o.get("one"), **kw))
        # the state itself at every time anybody asked for (the yardstick of clause (d))
        if dflt != "Full":
            all_times.update(dflt_arg)
        state_times = None if dflt == "Full" else sorted(all_times)
        state_obs = do.StateResult(evaluation_times=state_times, tag_suffix="ref")
        noise = case.get("noise")
        rate = float(case.get("rate", 1.0))
        kwargs = dict(observables=[state_obs] + obs_objs, sampling_rate=rate)
        if not omit_default:
            kwargs["default_evaluation_times"] = dflt_arg
        if noise:
            kwargs["noise_model"] = NoiseModel(**noise)
        try:
            np.random.seed(int(case.get("npseed", 0)))
            cfg = QutipConfig(**kwargs)
            backend = QutipBackendV2(seq, config=cfg)
            res = backend.run()
        except Exception as e:  # noqa: BLE001
            msg = f"{type(e).__name__}: {str(e)[:160]}"
            out.detail = dict(raised=msg)
            out.evaluations += 1
            if "ambiguous" in msg:
                out.fail("config-usable", f"QutipBackendV2 with default_evaluation_times={dflt_arg}: {msg}",
                         n_default=">=2")
            elif "extends further than sequence duration" in msg:
                out.warnings.append(f"foreign(C11): backend rejects duration {seq.get_duration()} ns: {msg}")
            elif "incompatible dimensions" in msg or "Incompatible" in msg:
                out.fail("backend-runs", f"V2 backend raises on a valid sequence/config: {msg}",
                         levels=3, noise="stochastic")
            else:
                out.fail("backend-runs", f"V2 backend raises on a valid sequence/config: {msg}", levels="?", noise="?")
            return out
        # duration: scheduler output (owned by C02/C03) - the Results object must carry exactly it
        T = seq.get_duration()
        n_atoms = int(spec["n"])
        out.evaluations += 1
        if res.total_duration != T or tuple(res.atom_order) != tuple(f"q{i}" for i in range(n_atoms)):
            out.fail("results-header", f"Results(total_duration={res.total_duration}, atom_order={res.atom_order}) for a "
                                       f"{T} ns sequence on atoms q0..q{n_atoms - 1}")
        tol = 0.5 / T
        sim = backend._sim_obj
        # eigenbasis from the channels used (documented ranking), not from the emulator's own attribute
        eig = mc.eigenbasis_of_channels(seg["ch"] for seg in spec["segments"])
        # "Full": every nanosecond 0..T (relative k/T) plus whatever any observable asked for
        solver_times = sorted({k / T for k in range(T + 1)} | {float(x) for x in all_times})
        state_ts = res.get_result_times(state_obs)
        out.detail = dict(T=T, eigenstates=eig, solver_times=solver_times[:12], stored={})
        stored_state = getattr(res, state_obs.tag)[-1]
        # pre-condition of every "observable = definition on the state" clause: the state handed to the
        # observables is a physical state (unit norm / unit trace, Hermitian, positive)
        for t_st, qs in zip(res.get_result_times(state_obs), getattr(res, state_obs.tag)):
            q = qs.to_qobj()
            out.evaluations += 1
            if q.isket:
                bad_state = abs(q.norm() - 1) > 2e-5
                descr = f"norm {q.norm():.6f}"
            else:
                m = q.full()
                ev = np.linalg.eigvalsh((m + m.conj().T) / 2)
                bad_state = abs(np.trace(m) - 1) > 2e-5 or np.max(np.abs(m - m.conj().T)) > 1e-8 or ev.min() < -1e-6
                descr = f"trace {np.trace(m).real:.6f}, min eigenvalue {ev.min():.2g}"
            if bad_state:
                out.fail("state-physical", f"the state the observables are evaluated on at t={t_st} is not a physical "
                                           f"state: {descr} (noise {noise})", noise="+".join(sorted(noise or {})) or "none")
                break
        out.evaluations += 1
        if tuple(stored_state.eigenstates) != tuple(eig):
            out.fail("state-eigenbasis", f"stored states are labelled {stored_state.eigenstates}, the channels used "
                                         f"give the eigenbasis {eig}")
        for o_spec, o in zip(case["obs"], obs_objs):
            stored_ts = [float(x) for x in res.get_result_times(o)] if o.uuid in res._results else []
            out.detail["stored"][o.tag] = stored_ts
            if o_spec.get("times") is None and dflt == "Full" and rate != 1.0:
                continue        # the sampled grid at rate < 1 is C11's subject (legacy_eval_times)
            want = solver_times if (o_spec.get("times") is None and dflt == "Full") else \
                (dflt_arg if o_spec.get("times") is None else [float(x) for x in o_spec["times"]])
            out.evaluations += 1
            # (b) one value per requested time, nothing else
            extra = [t for t in stored_ts if not any(abs(t - w) <= tol for w in want)]
            missing = [w for w in want if not any(abs(t - w) <= tol for t in stored_ts)]
            if extra or missing or any(not a < b for a, b in zip(stored_ts, stored_ts[1:])):
                what = "evaluated-at-default-time" if (extra and not missing and o_spec.get("times") is not None) else "other"
                out.fail("own-times-only", f"{o.tag}: requested {want}, stored {stored_ts} (extra {extra}, missing {missing})",
                         what=what)
            # (c) retrievable at the time that was requested
            for w in want:
                if any(abs(t - w) <= tol for t in stored_ts):
                    out.evaluations += 1
                    try:
                        res.get_result(o, w)
                        res.get_result(o.tag, w)
                    except ValueError:
                        near = min(stored_ts, key=lambda t: abs(t - w))
                        out.fail("retrievable-at-requested-time",
                                 f"{o.tag}: get_result(obs, {w!r}) raises; the value is filed under {near!r}",
                                 reason="float-roundtrip-final-time" if w == 1.0 else "float-roundtrip")
            # (d) the stored value is the definition evaluated on the stored state of that time
            if o_spec["type"] == "bitstrings":
                continue
            for t_st, val in zip(stored_ts, getattr(res, o.tag)):
                ref_t = [s for s in state_ts if abs(s - t_st) <= 1e-12]
                if not ref_t:
                    continue
                qs = res.get_result(state_obs, ref_t[0])
                rho_q = qs.to_qobj()
                rho = rho_q.full() if rho_q.isoper else rho_q.full() @ rho_q.full().conj().T
                Hm = sim.get_hamiltonian(t_st * T, noiseless=True).full()
                one = o_spec.get("one") or {frozenset("rg"): "r", frozenset("gh"): "h", frozenset("ud"): "d"}.get(
                    frozenset(eig))
                defs = np_defs(eig, len(seq.register.qubit_ids), one, rho, Hm) if one else None
                purity = float(np.real(np.trace(rho @ rho)))
                ks = "pure" if purity > 1 - 1e-7 else "mixed"
                key = dict(occupation="occ", correlation_matrix="corr", energy="energy",
                           energy_second_moment="m2", energy_variance="var")[o_spec["type"]]
                if defs is None:
                    continue
                out.evaluations += 1
                scale = 1.0 + float(np.max(np.abs(Hm))) ** 2
                if not close(np.asarray(val, dtype=complex), defs[key], 1e-6 * scale):
                    clause = {"m2": "energy-second-moment", "var": "energy-variance"}.get(key, "backend-value")
                    out.fail(clause, f"{o.tag} at t={t_st}: stored {val}, definition on the stored state gives {defs[key]}",
                             state=ks)
    return out


def gen_backend(rng) -> dict:
    label = rng.choice(["gr1", "gr2", "gr2", "three-level", "three-level-noise", "two-default-times", "full",
                        "dephasing", "state-prep", "state-prep"])
    dur = rng.choice([100, 100, 200, 300, 120, 64, 71, 141])
    amp = rng.choice([3.0, 6.283185307179586, 9.0])
    det = rng.choice([0.0, 0.0, -4.0, 5.0])
    segs = [dict(ch="ryd", dur=dur, amp=amp, det=det, phase=rng.choice([0.0, 1.0]))]
    if rng.random() < 0.4:
        segs.append(dict(ch="ryd", delay=rng.choice([16, 52, 100])))
    n = 1 if label == "gr1" else rng.choice([1, 2])
    noise = None
    if label.startswith("three-level"):
        segs.append(dict(ch="ram", dur=rng.choice([52, 100]), amp=amp, det=0.0))
        if label == "three-level-noise":
            noise = rng.choice([dict(runs=3, samples_per_run=1, temperature=50.0),
                                dict(runs=3, samples_per_run=1, amp_sigma=0.1, laser_waist=100.0)])
    if label == "dephasing":
        noise = dict(dephasing_rate=0.5)
    if label == "state-prep":
        # state preparation errors as the only stochastic noise: identical configurations are grouped and
        # weighted by their repetitions when the runs are averaged
        noise = dict(runs=rng.choice([6, 8, 12]), samples_per_run=1, state_prep_error=rng.choice([0.2, 0.5]))
        if rng.random() < 0.4:
            noise["dephasing_rate"] = 0.5
    grid = [0.0, 0.1, 0.25, 0.3, 0.5, 0.7, 0.75, 0.9, 1.0]
    dflt = "Full" if label == "full" else sorted(rng.sample(grid, 2)) if label == "two-default-times" else \
        rng.choice([[1.0], [1.0], [0.5], "default"])
    obs = []
    for t in rng.sample(OBS_TYPES[:5] + ["bitstrings"], rng.randint(2, 4)):
        times = None if rng.random() < 0.4 else sorted(rng.sample(grid, rng.randint(1, 3)))
        o = dict(type=t, times=times)
        if label.startswith("three-level") and t in ("occupation", "correlation_matrix", "bitstrings"):
            o["one"] = rng.choice(["r", "h"])
        obs.append(o)
    case = dict(kind="backend", label=label, seq=dict(n=n, spacing=rng.choice([7.0, 10.0]), segments=segs),
                obs=obs, dflt=dflt, noise=noise, npseed=rng.randint(0, 10**6))
    if label == "full" and rng.random() < 0.6:
        # coarser sampling: the times an observable asks for lie between the sampled steps
        case["rate"] = rng.choice([0.5, 0.2])
        for o in obs:
            if o["times"] is None:
                o["times"] = sorted(rng.sample(grid, rng.randint(1, 2)))
    return case


def shrink_backend(case):
    obs = case["obs"]
    for i in range(len(obs)):
        if len(obs) > 1:
            yield dict(case, obs=obs[:i] + obs[i + 1:])
    segs = case["seq"]["segments"]
    for i in range(len(segs)):
        if len(segs) > 1:
            yield dict(case, seq=dict(case["seq"], segments=segs[:i] + segs[i + 1:]))
    if case["seq"]["n"] > 1:
        yield dict(case, seq=dict(case["seq"], n=1))


# --------------------------------------------------------------------------------------
RUNNERS = dict(store=run_store, should=run_should, oprepr=run_oprepr, algebra=run_algebra, obs=run_obs,
               bitprobs=run_bitprobs, backend=run_backend)
SHRINKERS = dict(store=shrink_store, oprepr=shrink_oprepr, obs=shrink_obs, backend=shrink_backend)


def runner(drv, case) -> Outcome:
    return RUNNERS[case["kind"]](drv, case)


def shrinker(case):
    f = SHRINKERS.get(case["kind"])
    return f(case) if f else ()


QUICK = dict(store=200, should=1200, oprepr=200, algebra=120, obs=250, bitprobs=250, backend=24)
THOROUGH = dict(store=6000, should=30000, oprepr=5000, algebra=2500, obs=4000, bitprobs=6000, backend=250)
GENS = dict(store=gen_store, should=gen_should, oprepr=gen_oprepr, algebra=gen_algebra, obs=gen_obs,
            bitprobs=gen_bitprobs, backend=gen_backend)


def check(tier: str, seed: int) -> int:
    camp = mc.Campaign(PROP, tier, seed, runner, shrinker)
    camp.lean_obligations()
    rng = random.Random(f"{PROP}-{seed}")
    for case in mc.load_corpus(PROP):
        camp.run_case(case, "corpus")
    plan = QUICK if tier == "quick" else THOROUGH
    limit = 95 if tier == "quick" else 3000
    for kind, count in plan.items():
        for _ in range(count):
            if not camp.budget_left(limit):
                break
            if kind == "obs" and tier == "thorough" and rng.random() < 0.15:
                case = gen_obs(rng, big=True)          # up to 27-dimensional states (monitor only above 16)
            else:
                case = GENS[kind](rng)
            out = camp.run_case(case, "generated")
            if kind == "backend":
                camp.test_results["backend_smoke_runs"] += 1
                if out.fails:
                    camp.test_results["backend_smoke_with_findings"] += 1

    def search(c):
        # a model/implementation divergence without a failing input: look harder around its kind
        kind = c.unexplained_div[0]["case"]["kind"]
        for _ in range(300 if tier == "quick" else 5000):
            if c.violations or not c.budget_left(limit + 25):
                break
            c.run_case(GENS[kind](rng), "search")

    return camp.finish(EXPLANATION, UNCOVERED, RULE, search=search)


def replay(path: str) -> int:
    return mc.replay_file(PROP, path, runner)
