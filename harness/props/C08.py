"""C08 — building a parametrized sequence equals direct construction.

check(tier, seed):
  1. lake build PulserModel.Param Proofs.Param Properties.C08 (+ axiom audit, forbidden tokens);
  2. corpus, then generated templates: a valid history of gen.HistoryGen on a lattice device, a
     random subset of its numeric arguments replaced by variable expressions (harness/paramgen.py),
     on a concrete or a mappable register; 4 builds each, in random order, with repeated and
     distinct assignments.  MONITOR (= the property on the real objects):
       * every built sequence == the DIRECT construction with the evaluated values
         (snapshot, sampled arrays 1e-9, register ids/coordinates, verdict and error class),
       * the template (calls, stored calls incl. argument identities, variables, flags, schedule,
         serialisation) is identical before and after every build — also after the built sequence
         has been mutated through its own API (aliasing),
       * identical assignments give identical sequences whatever was built in between,
       * mappable register: exactly the requested traps, declared order, index targeting against it;
  3. refused-call probe (findings F3 and F41, fixed in /repo): a call with a variable of another sequence,
     or with an OWN variable but refused for another reason (undeclared channel, invalid protocol), raises
     and must leave the sequence — `is_parametrized()`, call logs, schedule — alone;
  4. evidence.
The Lean model is not in the loop (no driver): the model side is exercised by the `decide`
examples of Properties/C08.lean; state leakage cannot be exhibited by a functional model anyway.
"""
from __future__ import annotations

import collections
import copy
import json
import os
import random
import warnings
from pathlib import Path

import numpy as np

import common
from common import InfraError, Timer, load_known_findings, match_known, write_evidence, write_replay
import paramgen as pg
from gen import gen_device

import pulser
from pulser import Register, Sequence

PROP = "C08"
TARGETS = ["PulserModel.Param", "Proofs.Param", "Proofs.ParamStore", "Proofs.ParamReplay", "Properties.C08"]
COUNTS = {"quick": 600, "thorough": 8000}      # (thorough about 10 min)
NBUILDS = 4
TOL = 1e-9

TRUSTED_BASE = [
    "Lean 4.33 kernel; axioms allowed: propext, Classical.choice, Quot.sound (audited per theorem)",
    "statements in lean/Properties/C08.lean say what the property says (templates = concrete prefix + "
    "stored calls over expression trees; opaque symbols for ufuncs / pulse constructors / oracles)",
    "hand-written model lean/PulserModel/Param.lean + Sequence.lean corresponds to /repo: Sequence.lean by "
    "the lock-step runs of the sequence-family checks; Param.lean's `build` = replay `_calls` then the "
    "evaluated stored calls is tied to Sequence.build by the real-vs-direct comparison of this check "
    "(the model is not run in the loop)",
    "harness/paramgen.py: op language, independent expression evaluator (python arithmetic, numpy "
    "scalar ufuncs), canonical snapshots, tolerant differ; harness/realcode.py snapshot + error mapping",
    "pulser.sampler.sample as the rendering of a schedule (subject of C06)",
]
UNCOVERED = [
    "object identity / aliasing between template and built sequence, ParamObj._instance cache, "
    "Variable._count: not representable in the functional Lean model — correspondence only (monitor of "
    "this check)",
    "build_eq_direct_full (any successful concrete prefix, EOM calls included, via C09's step_record) assumes "
    "pairwise distinct detuning-off options (NodupOpts); histories with a call that raised half-way (F2.x) "
    "are outside the theorems — correspondence only",
    "declare_channel / config_detuning_map issued while parametrized (hoisted by build): correspondence only",
    "store_no_spurious_reject is proved for the stored-call language POp (no declare_channel / "
    "config_detuning_map while parametrized) and needs distinct indices in array targets (counterexample "
    "`store_rejects_what_direct_accepts`); store-time rejections of calls the direct construction accepts "
    "(align with a DMM configured while parametrized, ...) are counted in the evidence",
    "float evaluation of expressions: tolerance 1e-9, ties between phases closer than 1e-9 are marked "
    "float_ambiguous and not compared",
]


# --------------------------------------------------------------------------------------
# cases
# --------------------------------------------------------------------------------------
class Fail:
    def __init__(self, clause: str, msg: str, key: dict | None = None, prop: str = PROP):
        self.clause, self.msg, self.prop = clause, msg, prop
        self.key = dict(key or {}, clause=clause)

    def __repr__(self):
        return f"{self.prop}/{self.clause}: {self.msg}"


def gen_case(rng: random.Random, stats: dict) -> dict | None:
    """A replayable case: device, register kind, parametrised ops, variables, builds."""
    want = rng.choice(["any", "eom", "dmm", "local", "local", "any"])
    spec = gen_device(rng, want)
    profile = rng.choice(["mix", "eom", "target", "dmm", "phase"])
    ops = pg.valid_history(rng, spec, rng.randrange(8, 26), profile=profile, exact=rng.random() < 0.5)
    if len(ops) < 3:
        return None
    mappable = rng.random() < 0.3
    extra_ids = rng.choice([0, 0, 1, 2]) if mappable else 0
    id_style = "default"
    if mappable:
        # declared orders that differ from the lexicographic order of the ids: 11+ default names
        # (q10 < q2 as strings) or custom names declared unsorted
        style = rng.choice(["default", "many", "custom", "custom"])
        if style == "many":
            extra_ids = rng.choice([11, 12, 13]) - spec["nq"]
        elif style == "custom":
            id_style = "custom"
            extra_ids = rng.choice([0, 1, 3, 6])
    pool = pg.VarPool(rng)
    par = pg.Parametrizer(rng, pool, p=rng.choice([0.25, 0.45, 0.7]))
    split = rng.randrange(0, len(ops))
    out = []
    for i, op in enumerate(ops):
        if i < split:
            # concrete prefix; index targeting with concrete indices is allowed there too
            q = copy.deepcopy(op)
            if q["k"] == "target" and rng.random() < 0.2:
                q["k"] = "targeti"
            elif q["k"] == "shift" and q["qs"] and rng.random() < 0.2:
                q["k"] = "shifti"
            out.append(q)
        else:
            out.append(par.op(op))
    if not pool.decl:
        # force one expression somewhere after the split
        for i in range(split, len(out)):
            par.p = 1.0
            cand = par.op(ops[i])
            if pg.has_expr(cand):
                out[i] = cand
                break
        par.p = 0.45
    if not pool.decl:
        return None
    pool.finish()
    for k, v in par.positions.items():
        stats["positions"][k] += v
    ctx = pg.Ctx(spec, mappable=mappable, extra_ids=extra_ids, id_style=id_style)
    base = {n: list(v) for n, v in pool.base.items()}
    alts = [pg.sanitize(out, pg.perturb(rng, pool, ctx, strength=rng.choice([0.3, 1.0])), base, pool.decl)
            for _ in range(2)]
    plan = rng.choice([[0, 1, 0, 2], [1, 0, 0, 2], [0, 0, 1, 1], [2, 1, 0, 1], [0, 1, 2, 0], [1, 1, 0, 0]])
    assigns = [base] + alts
    builds = []
    for j in plan:
        b = dict(assign=assigns[j], tag=j, mutate=rng.random() < 0.5, scalars=rng.random() < 0.5)
        if mappable:
            # a prefix of the declared ids (partial mapping), often all of them
            k = len(ctx.qids) if rng.random() < 0.5 else rng.randrange(ctx.nq, len(ctx.qids) + 1)
            traps = rng.sample(range(len(ctx.coords)), k)
            ids = ctx.qids[:k]
            pairs = list(zip(ids, traps))
            rng.shuffle(pairs)
            b["qubits"] = pairs
        builds.append(b)
    decl = {n: dict(dtype=d["dtype"], size=d["size"], roles=d["roles"],
                    scalar=(d["size"] == 1 and rng.random() < 0.6)) for n, d in pool.decl.items()}
    return dict(spec=spec, mappable=mappable, extra_ids=extra_ids, id_style=id_style, ops=out, decl=decl,
                builds=builds, split=split)


def declare_vars(seq: Sequence, decl: dict) -> dict:
    vars_ = {}
    for name, d in decl.items():
        dtype = int if d["dtype"] == "int" else float
        if d.get("scalar") and d["size"] == 1:
            vars_[name] = [seq.declare_variable(name, dtype=dtype)]  # a VariableItem
        else:
            vars_[name] = seq.declare_variable(name, size=d["size"], dtype=dtype)
    return vars_


def make_template(ctx: pg.Ctx, case: dict):
    """-> (template, ops actually stored, store-time rejection or None)."""
    ops = case["ops"]
    reject = None
    for _attempt in range(2):
        seq = ctx.new_template()
        vars_ = declare_vars(seq, case["decl"])
        mk = lambda x: pg.to_param(x, vars_)  # noqa: E731
        failed_at = None
        for i, op in enumerate(ops):
            was = seq.is_parametrized()
            r = pg.try_op(seq, ctx, op, mk)
            if r[0] != "ok":
                failed_at = i
                reject = dict(index=i, op=op, err=r[1], parametrized=seq.is_parametrized(), was_parametrized=was)
                break
        if failed_at is None:
            return seq, ops, reject
        ops = ops[:failed_at]
    return seq, ops, reject


def direct_ctx(ctx: pg.Ctx, qubits):
    """The context of the direct construction: the concrete register a build must produce."""
    if not ctx.mappable:
        return ctx, list(ctx.qids)
    chosen = dict(qubits)
    k = len(chosen)
    ids = ctx.qids[:k]                       # declared order, whatever order the caller used
    coords = {q: ctx.trap_coords(chosen[q]) for q in ids}
    reg = Register(coords)
    d = pg.Ctx(ctx.spec, mappable=False, register=reg, device=ctx.device, chan_ids=ctx.chan_ids,
               dmm_ids=ctx.dmm_ids)
    d.qids = list(ctx.qids)                  # index -> id resolves against the DECLARED order
    d.direct_n = k
    d.detmap = ctx.detmap                    # the same detuning map objects as the template
    return d, ids


def run_direct(dctx: pg.Ctx, ops: list, assign: dict, decl: dict):
    seq = dctx.new_template()
    mk = lambda x: pg.evaluate(x, assign, decl)  # noqa: E731
    for i, op in enumerate(ops):
        r = pg.try_op(seq, dctx, op, mk, resolve_index=True)
        if r[0] != "ok":
            return seq, (i, r[1])
    return seq, None


def near_tie(*snaps) -> bool:
    """Two phases (pulse phases / phase references) closer than 1e-9 but not equal."""
    from fractions import Fraction

    phs = []
    for snap in snaps:
        for c in snap["chans"].values():
            for s in c["slots"]:
                if s["k"] == "P":
                    phs.append(float(Fraction(s["ph"])))
        for l in snap["refs"].values():
            for q in l:
                phs.extend(float(Fraction(p)) for _, p in q["tr"])
    phs = sorted(set(phs))
    two_pi = pg.TWO_PI
    for a, b in zip(phs, phs[1:]):
        if 0 < b - a < 1e-9:
            return True
    if phs and (0 < phs[0] < 1e-9 or 0 < two_pi - phs[-1] < 1e-9):
        return True
    return False


def mutate_built(built: Sequence):
    """Change the built sequence through its own API (must not reach the template)."""
    with warnings.catch_warnings():
        warnings.simplefilter("ignore")
        for name, sch in list(built._schedule.items()):
            ch = sch.channel_obj
            d = max(ch.min_duration, ch.clock_period)
            d += (-d) % ch.clock_period
            try:
                built.delay(d, name)
            except Exception:  # noqa: BLE001
                pass
            break
        for basis in list(built._basis_ref):
            try:
                built.phase_shift(0.625, basis=basis)
            except Exception:  # noqa: BLE001
                pass
            break
        try:
            built.declare_variable("zz_after_build")
        except Exception:  # noqa: BLE001
            pass


class CaseResult:
    def __init__(self):
        self.fails: list[Fail] = []
        self.builds = 0
        self.build_ok = 0
        self.build_err = collections.Counter()
        self.reject = None
        self.ambiguous = 0
        self.nstored = 0
        self.nprefix = 0
        self.ops_stored = collections.Counter()
        self.digests = []
        self.chan_order_differs = 0
        self.param_refused = False


def run_case(case: dict, stop_first: bool = True) -> CaseResult:
    res = CaseResult()
    ctx = pg.Ctx(case["spec"], mappable=case["mappable"], extra_ids=case.get("extra_ids", 0),
                 id_style=case.get("id_style", "default"))
    decl = case["decl"]
    tmpl, ops, reject = make_template(ctx, case)
    res.reject = reject
    if reject and reject["parametrized"] != reject.get("was_parametrized", reject["parametrized"]):
        # (finding F41, owned by C09: a refused call leaves the mode of the sequence alone)
        res.fails.append(Fail("failed-call-not-atomic",
                              f"{reject['op']['k']} raised {reject['err']} but is_parametrized() went "
                              f"{reject['was_parametrized']} -> {reject['parametrized']}",
                              dict(op=reject["op"]["k"], err="ownVariableRefused"), prop="C09"))
    res.param_refused = bool(reject and pg.has_expr(reject["op"]) and not reject["parametrized"])
    res.nstored = len(tmpl._to_build_calls)
    res.nprefix = len(tmpl._calls) - 1
    for c in tmpl._to_build_calls:
        res.ops_stored[c.name] += 1
    if not tmpl.is_parametrized():
        if any(pg.has_expr(op) for op in ops):
            res.fails.append(Fail("becomes-parametrized", "calls with variable arguments were accepted but the "
                                  "sequence is not parametrized", {}))
        return res
    snap0 = pg.template_snapshot(tmpl, ctx)
    by_tag: dict = {}
    held: list = []
    for bi, b in enumerate(case["builds"]):
        assign = b["assign"]
        kwargs = {n: (v[0] if (decl[n]["size"] == 1 and b.get("scalars")) else list(v))
                  for n, v in assign.items()}
        qubits = dict(b["qubits"]) if case["mappable"] else None
        res.builds += 1
        try:
            with warnings.catch_warnings(), pg.time_limit(20):
                warnings.simplefilter("ignore")
                built = tmpl.build(qubits=qubits, **kwargs) if qubits is not None else tmpl.build(**kwargs)
            bstat = None
        except pg.Timeout as e:
            res.fails.append(Fail("build-returns", f"build {bi}: {e}", {}))
            break
        except Exception as e:  # noqa: BLE001
            built, bstat = None, pg.classify(e)
        dctx, ids = direct_ctx(ctx, b.get("qubits"))
        direct, dstat = run_direct(dctx, ops, assign, decl)
        list_of_params = any(op["k"] == "targeti" and isinstance(op["qs"], list) and pg.has_expr(op["qs"])
                             for op in ops)
        # 1. verdicts
        if bstat is not None and list_of_params and bstat.startswith("other:ValueError:Unknown variable"):
            # a stored call that can never be built (collection with parametrized items)
            res.build_err[pg.norm_err(bstat)] += 1
            res.fails.append(Fail("unbuildable-stored-call",
                                  f"build {bi}: build -> {bstat}; direct construction -> "
                                  f"{'ok' if dstat is None else dstat}",
                                  dict(op="target_index", list_of_params=True)))
        elif (bstat is None) != (dstat is None):
            res.fails.append(Fail("build-verdict",
                                  f"build {bi}: build -> {bstat or 'ok'}, direct construction -> "
                                  f"{'ok' if dstat is None else dstat}",
                                  dict(build=(pg.norm_err(bstat) if bstat else "ok"),
                                       direct=(pg.norm_err(dstat[1]) if dstat else "ok"))))
        elif bstat is not None:
            res.build_err[pg.norm_err(bstat)] += 1
            if pg.norm_err(bstat) != pg.norm_err(dstat[1]):
                res.fails.append(Fail("build-error-class",
                                      f"build {bi}: build raises {bstat}, direct raises {dstat[1]} at op {dstat[0]}",
                                      dict(build=bstat, direct=dstat[1])))
        else:
            res.build_ok += 1
            sb = pg.seq_snapshot(built, dctx, ids)
            sd = pg.seq_snapshot(direct, dctx, ids)
            sb_cmp = dict(sb)
            sd_cmp = dict(sd)
            # the ORDER of the channel table may differ: a declare_channel issued while parametrized acts
            # on the live prefix and is replayed by build before every stored call (counted, not compared)
            if sb_cmp.pop("chan_order") != sd_cmp.pop("chan_order"):
                res.chan_order_differs += 1
            d = pg.diff_tol(sb_cmp, sd_cmp, "", TOL)
            if d and near_tie(sb, sd):
                res.ambiguous += 1
                d = None
            elif d:
                res.fails.append(Fail("build-eq-direct", f"build {bi}: snapshot{d}", dict(kind="snapshot")))
            else:
                ds = pg.diff_samples(pg.seq_samples(built), pg.seq_samples(direct), TOL)
                if ds:
                    res.fails.append(Fail("build-eq-direct", f"build {bi}: {ds}", dict(kind="samples")))
            if built.is_parametrized() or built._variables or built._to_build_calls:
                res.fails.append(Fail("built-not-concrete", f"build {bi}: the built sequence is still "
                                      f"parametrized / carries variables", {}))
            # register: requested traps, declared order
            if case["mappable"]:
                reg = built.register
                want_ids = list(ids)
                got_ids = list(reg.qubit_ids)
                chosen = dict(b["qubits"])
                found = list(tmpl.get_register(include_mappable=True).find_indices(want_ids))
                if found != list(range(len(want_ids))):
                    res.fails.append(Fail("mappable-order", f"build {bi}: find_indices({want_ids}) = {found}", {}))
                if got_ids != want_ids:
                    res.fails.append(Fail("mappable-order", f"build {bi}: register ids {got_ids}, declared "
                                          f"order prefix is {want_ids}", {}))
                else:
                    for q in want_ids:
                        got = np.asarray(reg.qubits[q].as_array() if hasattr(reg.qubits[q], "as_array")
                                         else reg.qubits[q], dtype=float)
                        want = np.asarray(ctx.trap_coords(chosen[q]), dtype=float)
                        if not np.allclose(got, want, atol=1e-9):
                            res.fails.append(Fail("mappable-traps", f"build {bi}: qubit {q} at {got.tolist()}, "
                                                  f"requested trap {chosen[q]} is at {want.tolist()}", {}))
                            break
            # reproducibility: the same assignment (and mapping) gave the same sequence before
            sig = json.dumps([b["tag"], b.get("qubits") and sorted(b["qubits"])], sort_keys=True)
            dig = (sb, None)
            if sig in by_tag:
                dd = pg.diff_tol(by_tag[sig][0], sb, "", 0.0)
                if dd:
                    res.fails.append(Fail("build-reproducible", f"build {bi} differs from an earlier build "
                                          f"with the same values: {dd}", {}))
            else:
                by_tag[sig] = dig
            # independence: sequences built earlier keep saying what they said when they were built
            # (a built object that shares a buffer with the template's variables would follow the
            # values of every later build — seeded change C08-assign-in-place-shares-buffer)
            for hbi, hbuilt, hsamp in held[-2:]:
                dh = pg.diff_samples(pg.seq_samples(hbuilt), hsamp, 0.0)
                if dh:
                    res.fails.append(Fail("earlier-build-held", f"after build {bi}, the sequence returned by "
                                          f"build {hbi} changed: {dh}", {}))
                    break
            if b.get("mutate"):
                mutate_built(built)
            else:
                held.append((bi, built, pg.seq_samples(built)))
        # 2. the template is what it was
        snap1 = pg.template_snapshot(tmpl, ctx)
        dt = pg.diff_tol(snap0, snap1, "", 0.0)
        if dt:
            res.fails.append(Fail("template-unchanged", f"after build {bi}: template{dt}",
                                  dict(where=dt.split(":")[0].split("[")[0])))
        if res.fails and stop_first:
            break
    return res


# --------------------------------------------------------------------------------------
# F3 probe (owned by C09)
# --------------------------------------------------------------------------------------
def foreign_variable_probe(rng: random.Random, case: dict) -> Fail | None:
    """A call with a variable of ANOTHER sequence must raise and change nothing."""
    ctx = pg.Ctx(case["spec"])
    seq = ctx.new_template()
    ops = [op for op in case["ops"][: case["split"]] if not pg.has_expr(op)]
    for op in ops:
        if pg.try_op(seq, ctx, op, lambda x: x)[0] != "ok":
            break
    if not seq._schedule or seq.is_parametrized():
        return None
    other = ctx.new_template()
    fv = other.declare_variable("foreign", dtype=int)
    own = seq.declare_variable("own_probe", dtype=int)
    ch = rng.choice(list(seq._schedule))
    basis = list(seq._basis_ref)[0]
    before = pg.template_snapshot(seq, ctx, with_abstract=False)
    # (what, err key, the refused call): a foreign variable; an OWN variable in a call that is refused for
    # another reason (undeclared channel, invalid protocol, a second argument with a foreign variable)
    probes = [
        ("delay", "foreignVariable", lambda: seq.delay(fv, ch)),
        ("shift", "foreignVariable", lambda: seq.phase_shift(fv, basis=basis)),
        ("delay", "ownVariableRefused", lambda: seq.delay(own, "chan_nope")),
        ("add", "ownVariableRefused",
         lambda: seq.add(pulser.Pulse.ConstantPulse(own, 1.0, 0.0, 0.0), ch, protocol="bogus")),
        ("shifti", "ownVariableRefused", lambda: seq.phase_shift_index(own, fv, basis=basis)),
    ]
    kind, err, call = rng.choice(probes)
    try:
        with warnings.catch_warnings():
            warnings.simplefilter("ignore")
            call()
        return Fail("refused-call-accepted", f"{kind} ({err}) did not raise", dict(op=kind, err=err), prop="C09")
    except Exception:  # noqa: BLE001
        pass
    after = pg.template_snapshot(seq, ctx, with_abstract=False)
    d = pg.diff_tol(before, after, "", 0.0)
    if d:
        return Fail("failed-call-not-atomic",
                    f"{kind} ({err}) raises but changed the sequence: {d}", dict(op=kind, err=err), prop="C09")
    return None


# --------------------------------------------------------------------------------------
# shrinking
# --------------------------------------------------------------------------------------
def shrink(case: dict, clause: str, budget: int = 60) -> dict:
    def bad(c):
        try:
            r = run_case(c)
        except Exception:  # noqa: BLE001
            return False
        return any(f.clause == clause for f in r.fails)

    cur = copy.deepcopy(case)
    tries = 0
    # fewer builds
    for i in range(len(cur["builds"]) - 1, -1, -1):
        if tries >= budget or len(cur["builds"]) <= 1:
            break
        cand = copy.deepcopy(cur)
        del cand["builds"][i]
        tries += 1
        if bad(cand):
            cur = cand
    # fewer ops (from the end, then singles)
    i = len(cur["ops"]) - 1
    while i >= 0 and tries < budget:
        cand = copy.deepcopy(cur)
        del cand["ops"][i]
        if cand["split"] > i:
            cand["split"] -= 1
        tries += 1
        if cand["ops"] and bad(cand):
            cur = cand
        i -= 1
    return cur


# --------------------------------------------------------------------------------------
# build / audit
# --------------------------------------------------------------------------------------
def lean_obligations():
    ok, out = common.lake_build(TARGETS)
    if not ok:
        raise InfraError("lake build failed:\n" + out[-3000:])
    thms = common.property_theorems(PROP)
    bad = pg.forbidden_in_closure(TARGETS)
    if bad:
        raise InfraError("forbidden tokens in Lean sources: " + "; ".join(bad[:5]))
    axioms = common.audit_axioms(f"Properties.{PROP}", thms) if thms else {}
    discharged, offending = 0, {}
    for t in thms:
        ax = axioms.get(t)
        if ax is not None and set(ax) <= common.ALLOWED_AXIOMS:
            discharged += 1
        else:
            offending[t] = ax
    if offending:
        raise InfraError(f"axiom audit failed: {offending}")
    return thms, axioms, discharged


def corpus_items():
    d = common.CORPUS / PROP
    out = []
    if d.exists():
        for f in sorted(d.glob("*.json")):
            item = json.loads(f.read_text())
            item["_file"] = f.name
            out.append(item)
    return out


def findings():
    fs = load_known_findings()
    local = common.CORPUS / PROP / "known_findings.jsonl"   # proposed lines, until integrated
    ids = {f.get("id") for f in fs}
    if local.exists():
        for line in local.read_text().splitlines():
            line = line.strip()
            if line and not line.startswith("#"):
                f = json.loads(line)
                if f.get("id") not in ids:
                    fs.append(f)
    return fs


# --------------------------------------------------------------------------------------
# check
# --------------------------------------------------------------------------------------
def expression_probes() -> list:
    """Expressions of variables at the float / integer boundaries of the arithmetic operators: `build()` of the
    expression equals the same Python expression on the assigned values (C08: "arithmetic and function
    expressions ... the same calls directly with the evaluated values")."""
    from pulser import Register, Sequence
    from pulser.devices import MockDevice
    from seqcheck import Fail

    fails = []
    with warnings.catch_warnings():
        warnings.simplefilter("ignore")
        seq = Sequence(Register.square(1, prefix="q"), MockDevice)
        x = seq.declare_variable("x", dtype=float)
        n = seq.declare_variable("n", dtype=int)
        probes = [
            ("floordiv-float-boundary", lambda: x // 0.1, dict(x=1.0, n=2), lambda v: v["x"] // 0.1),
            ("floordiv", lambda: x // 2, dict(x=7.5, n=2), lambda v: v["x"] // 2),
            ("floordiv-negative", lambda: x // 2, dict(x=-7.5, n=2), lambda v: v["x"] // 2),
            ("rfloordiv", lambda: 7.5 // x, dict(x=2.0, n=2), lambda v: 7.5 // v["x"]),
            ("mod-negative", lambda: x % 3, dict(x=-7.5, n=2), lambda v: v["x"] % 3),
            ("rsub-int", lambda: 0.25 - n, dict(x=1.0, n=2), lambda v: 0.25 - v["n"]),
            ("rtruediv-int", lambda: 2.5 / n, dict(x=1.0, n=2), lambda v: 2.5 / v["n"]),
            ("rpow-int", lambda: 1.5 ** n, dict(x=1.0, n=2), lambda v: 1.5 ** v["n"]),
            ("rmod-int", lambda: 7.5 % n, dict(x=1.0, n=2), lambda v: 7.5 % v["n"]),
            ("int-negative-power", lambda: n ** -1, dict(x=1.0, n=2), lambda v: v["n"] ** -1),
            ("int-true-division", lambda: n / 4, dict(x=1.0, n=2), lambda v: v["n"] / 4),
        ]
        for name, mk, vals, direct in probes:
            want = float(direct(vals))
            try:
                e = mk()
                for k, v in vals.items():
                    seq._variables[k]._assign(v)
                got = float(np.asarray(e.build()).reshape(-1)[0])
                bad = abs(got - want) > 1e-12 * max(1.0, abs(want))
                what = f"builds to {got}"
            except Exception as ex:  # noqa: BLE001
                bad, what = True, f"raises {type(ex).__name__}: {str(ex)[:60]}"
            if bad:
                fails.append(Fail(PROP, "expression-value", f"{name} with {vals}: the expression {what}, the same Python "
                                  f"expression on the values gives {want}", key=dict(form=name)))
    return fails


def check(tier: str, seed: int) -> int:
    timer = Timer()
    thms, axioms, discharged = lean_obligations()
    rng = random.Random(f"{PROP}-{seed}")
    known = findings()
    stats = dict(positions=collections.Counter(), stored_ops=collections.Counter(),
                 build_errors=collections.Counter(), store_rejects=collections.Counter(),
                 register=collections.Counter(), sizes=collections.Counter(), nvars=collections.Counter(),
                 prefix_len=collections.Counter(), prefix_rejects=collections.Counter(),
                 chan_order=collections.Counter(), mappable_ids=collections.Counter(),
                 param_refused=collections.Counter())
    first_refused: list = []
    evaluations = 0
    templates = 0
    distinct = set()
    nontrivial = 0
    builds_ok = 0
    ambiguous = 0
    samples = []
    reject_samples = []
    violations = []
    known_hits = collections.Counter()
    foreign = collections.Counter()
    seen = set()

    def handle(case, res: CaseResult, origin: str):
        nonlocal evaluations, templates, nontrivial, builds_ok, ambiguous
        evaluations += res.builds
        builds_ok += res.build_ok
        ambiguous += res.ambiguous
        if res.nstored:
            templates += 1
        c = json.dumps([case["spec"], case["ops"], case["mappable"]], sort_keys=True, default=str)
        if c not in distinct:
            distinct.add(c)
            if res.nstored >= 1 and res.build_ok >= 2:
                nontrivial += 1
        for k, v in res.ops_stored.items():
            stats["stored_ops"][k] += v
        for k, v in res.build_err.items():
            stats["build_errors"][k] += v
        stats["register"]["mappable" if case["mappable"] else "concrete"] += 1
        if case["mappable"]:
            nids = case["spec"]["nq"] + case.get("extra_ids", 0)
            stats["mappable_ids"][f"{case.get('id_style', 'default')}:{'11+' if nids >= 11 else '<11'}"] += 1
        stats["sizes"][min(res.nstored, 20)] += 1
        stats["nvars"][min(len(case["decl"]), 12)] += 1
        stats["prefix_len"][min(res.nprefix, 20)] += 1
        if res.reject:
            if res.reject["parametrized"]:
                stats["store_rejects"][f"{res.reject['op']['k']}:{res.reject['err']}"] += 1
                if len(reject_samples) < 6:
                    reject_samples.append(res.reject)
            else:
                stats["prefix_rejects"][f"{res.reject['op']['k']}:{res.reject['err']}"] += 1
        stats["chan_order"]["differs" if res.chan_order_differs else "same"] += 1
        if len(samples) < 3 and res.nstored >= 3 and res.build_ok >= 3:
            samples.append(dict(device=case["spec"], mappable=case["mappable"], ops=case["ops"][:10],
                                variables={n: [d["dtype"], d["size"]] for n, d in case["decl"].items()},
                                builds=[b["assign"] for b in case["builds"][:2]], origin=origin))
        if res.param_refused:
            stats["param_refused"][f"{res.reject['op']['k']}:{res.reject['err'][:40]}"] += 1
            first_refused.append(case)
        for f in res.fails:
            kf = match_known(f.prop, f.key, known)
            if kf is not None:
                if f.prop == PROP:
                    known_hits[kf["id"]] += 1
                else:
                    foreign[f"{f.prop}:{kf['id']}"] += 1
                continue
            sig = json.dumps([f.prop, f.key], sort_keys=True, default=str)
            if sig in seen:
                continue
            seen.add(sig)
            small = shrink(case, f.clause) if origin != "corpus" else case
            violations.append(dict(property=PROP, kind="monitor", clause=f.clause, message=f.msg, key=f.key,
                                   case=small))

    # 0. expression boundaries (deterministic)
    for f in expression_probes():
        kf = match_known(f.prop, f.key, known)
        if kf is not None:
            known_hits[kf["id"]] += 1
        else:
            violations.append(dict(property=PROP, kind="monitor", clause=f.clause, message=f.msg, key=f.key,
                                   case=None, probe="expression"))
    # 1. corpus
    for item in corpus_items():
        handle(item, run_case(item), "corpus")
    # 2. generated templates
    n = COUNTS[tier]
    probes = 0
    made = 0
    attempts = 0
    while made < n and attempts < 3 * n:
        attempts += 1
        case = gen_case(rng, stats)
        if case is None:
            continue
        made += 1
        res = run_case(case)
        handle(case, res, "generated")
        if made % 5 == 0:
            probes += 1
            f = foreign_variable_probe(rng, case)
            if f is not None:
                kf = match_known(f.prop, f.key, known)
                if kf is not None:
                    # a KNOWN finding of another property: counted, not printed by this check
                    foreign[f"{f.prop}:{kf['id']}"] += 1
                else:
                    # nobody lists it: the call log / flags of the template are what every build replays,
                    # so a refused call that alters them is reported here (observable owned by C09)
                    sig = json.dumps([f.prop, f.key], sort_keys=True, default=str)
                    if sig not in seen:
                        seen.add(sig)
                        violations.append(dict(property=PROP, kind="monitor", clause=f.clause, message=f.msg,
                                               key=dict(f.key, owner=f.prop), case=case, probe="foreign-variable"))
        if violations and tier == "quick":
            break

    if made >= 20 and templates < made // 2 and not violations:
        # hardly any call with variable arguments is accepted any more: the generator's premise (a call with
        # declared variables is stored, the sequence becomes parametrized) does not hold
        violations.append(dict(property=PROP, kind="monitor", clause="becomes-parametrized",
                               message=f"only {templates} of {made} generated templates could be created; calls "
                                       f"with variable arguments are refused: {dict(stats['param_refused'])}",
                               key=dict(clause="becomes-parametrized"),
                               case=first_refused[0] if first_refused else None))
    ev = dict(
        property_id=PROP, tier=tier, seed=seed, level="proof",
        coverage=dict(
            obligations=len(thms), discharged=discharged,
            checker_cmd="lake build " + " ".join(TARGETS) + " && #print axioms (harness/common.py audit_axioms)",
            trusted_base=TRUSTED_BASE, theorems=thms, axioms=axioms,
            evaluations=evaluations, distinct_nontrivial=nontrivial,
            traces_validated_against_impl=builds_ok,
            rule="templates = valid gen.HistoryGen histories on lattice devices with a random subset of numeric "
                 "arguments replaced by variable expressions (harness/paramgen.py), concrete or mappable register; "
                 "evaluations = builds compared with a direct construction; distinct = distinct (device, "
                 "parametrised op list, register kind); non-trivial = at least one stored call and at least two "
                 "successful builds compared",
            samples=samples,
            templates=templates, builds_succeeded=builds_ok,
            parametrised_positions=dict(stats["positions"]), stored_call_histogram=dict(stats["stored_ops"]),
            build_error_histogram=dict(stats["build_errors"]),
            store_time_rejections=dict(stats["store_rejects"]), store_time_rejection_samples=reject_samples,
            concrete_prefix_truncations=dict(stats["prefix_rejects"]),
            refused_calls_with_variables=dict(stats["param_refused"]),
            channel_table_order_vs_direct=dict(stats["chan_order"]),
            register_kinds=dict(stats["register"]), mappable_id_styles=dict(stats["mappable_ids"]), stored_calls_per_template=dict(stats["sizes"]),
            variables_per_template=dict(stats["nvars"]), concrete_prefix_length=dict(stats["prefix_len"]),
            float_ambiguous=ambiguous, foreign_variable_probes=probes,
            foreign_divergence=dict(foreign), known_findings_hit=dict(known_hits),
            uncovered_clauses=UNCOVERED, repo_fingerprint=common.repo_fingerprint(),
        ),
        assumptions=TRUSTED_BASE, wall_s=timer.s(), violations=len(violations),
    )
    write_evidence(PROP, ev)
    printed = set()
    for kf in known:
        if kf.get("status") == "known" and kf.get("property") == PROP and known_hits.get(kf["id"], 0) \
                and kf["id"] not in printed:
            printed.add(kf["id"])
            print(f"KNOWN-FINDING: property={kf['property']} [{kf['id']}] {kf['what']} "
                  f"(reproduced {known_hits[kf['id']]}x in this run)")
    if violations:
        for v in violations:
            p = write_replay(PROP, v)
            print(f"VIOLATION property={PROP} replay={p}")
        return 1
    print(f"OK property={PROP} tier={tier} theorems={discharged}/{len(thms)} templates={templates} "
          f"builds={evaluations} (ok {builds_ok}) wall={timer.s()}s")
    return 0


def replay(path: str) -> int:
    item = json.loads(Path(path).read_text())
    case = item.get("case", item)
    if item.get("probe") == "foreign-variable":
        for i in range(8):
            f = foreign_variable_probe(random.Random(f"replay-{i}"), case)
            if f is not None:
                print(f"  {f}")
                print(f"VIOLATION property={PROP} replay={path}")
                return 1
        print("replay: a call with a foreign variable raises and changes nothing")
        return 0
    if item.get("clause") == "becomes-parametrized":
        print(item.get("message"))
        if case is not None:
            r = run_case(case, stop_first=False)
            print(f"this case: refused call with variable arguments = {r.param_refused}, rejection = {r.reject}")
        print(f"VIOLATION property={PROP} replay={path}")
        return 1
    res = run_case(case, stop_first=False)
    print(f"template: {res.nprefix} concrete calls, {res.nstored} stored calls; builds={res.builds} ok={res.build_ok}")
    if res.reject:
        print(f"store-time rejection: {res.reject}")
    for f in res.fails:
        print(f"  {f}")
    if any(f.prop == PROP for f in res.fails):
        print(f"VIOLATION property={PROP} replay={path}")
        return 1
    print("replay: property holds on this case")
    return 0
