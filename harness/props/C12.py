"""C12 — a device accepts exactly the registers and layouts that fit its geometry.

Lean side : lean/PulserModel/Geometry.lean, lean/Proofs/Geometry.lean, lean/Properties/C12.lean,
            driver `pm_geom` (lean/Driver/GeomMain.lean).
Real side : pulser.devices._device_datacls (validate_register, validate_layout,
            validate_layout_filling, __post_init__), Sequence(register, device),
            Register.max_connectivity / with_automatic_layout.

Case kinds
  vreg        device.validate_register(register)  [or Sequence(register, device)]
  vlay        device.validate_layout(layout)
  vmap        Sequence(MappableRegister(layout, *ids), device)
  mkdev       Device(**params) / VirtualDevice(**params)
  maxconn     Register.max_connectivity(n, device, spacing)      (monitor only)
  autolayout  register.with_automatic_layout(device)             (monitor only)
All numbers go to the model as exact rationals of the float64 values; a case in which a
float comparison of the code is within 1e-11 of its threshold is counted `float_ambiguous`
and gives no verdict.
"""
from __future__ import annotations

import collections
import copy
import json
import math
import random
import warnings
from fractions import Fraction
from pathlib import Path

import numpy as np

import common
from common import Driver, InfraError, Timer, match_known, rat, write_evidence, write_replay

PROP = "C12"
LEAN_TARGETS = ["PulserModel.Geometry", "Proofs.Geometry", "Properties.C12", "pm_geom"]
N_CASES = {"quick": 2000, "thorough": 40000}
EPS = Fraction(1, 10**6)
MARGIN = 1e-11

TRUSTED_BASE = [
    "Lean 4.33 kernel; axioms allowed: propext, Classical.choice, Quot.sound (audited per theorem)",
    "statements in lean/Properties/C12.lean say what the property says (Fits / LayoutFits / ValidParams in "
    "lean/Proofs/Geometry.lean are the declarative reading)",
    "hand-written model lean/PulserModel/Geometry.lean corresponds to /repo (checked by differential runs on "
    "generated devices x boundary registers/layouts and on parameter records, not proved)",
    "idealisation: distances, norms and n_traps*max_layout_filling are exact (Q / R) in the model; the code's "
    "float64 results are compared only when no threshold is within 1e-11 (else float_ambiguous)",
    "harness/props/C12.py (adapters, error mapping id -> index, exact Fraction conversion), "
    "lean/Driver/{Wire,GeomMain}.lean parser",
    "channel facts (virtual? XY basis?) are derived from the constructor arguments of each channel kind by the "
    "harness; trap coordinates / ids / dimensionalities given to the model are recomputed from the case "
    "(own rounding to 1e-6 and lexicographic sort), the objects are only cross-checked",
]

UNCOVERED = [
    "constructor closure (Register.max_connectivity, Register.with_automatic_layout produce registers the "
    "device accepts): float sqrt(3)/2 lattice and greedy mesh search, monitor only",
    "float64 rounding of pdist / norm / n_traps*max_layout_filling within 1e-11 of a threshold",
    "type checks of __post_init__ (non-int limits, non-bool flags, channel object types) are only exercised by "
    "a small malformed stream, not modelled",
    "the docstring/spec rendering at the end of __post_init__ is not modelled (it must simply not fail)",
]


# ---------------------------------------------------------------------------
# exact arithmetic helpers
# ---------------------------------------------------------------------------
def F(x) -> Fraction:
    return Fraction(float(x)) if not isinstance(x, Fraction) else x


def sq_dist(a, b) -> Fraction:
    return sum(((x - y) ** 2 for x, y in zip(a, b)), Fraction(0))


def sq_norm(a) -> Fraction:
    return sum((x * x for x in a), Fraction(0))


def float_exact(vec, s: Fraction) -> bool:
    """the float64 norm of `vec` is exact: integer components (exact squares and sum below 2**53)
    and a perfect-square squared norm"""
    if any(v.denominator != 1 for v in vec) or s.denominator != 1 or s.numerator >= 2**52:
        return False
    r = math.isqrt(s.numerator)
    return r * r == s.numerator


def too_close(m: Fraction, s: Fraction, diff=None) -> tuple[bool, bool]:
    """-> (verdict on exact values, float-ambiguous)"""
    d = math.sqrt(float(s))
    c = m - EPS
    v = (c > 0 and s < c * c) or s < EPS * EPS
    amb = (c > 0 and abs(d - float(c)) <= MARGIN) or abs(d - 1e-6) <= 1e-12
    return v, amb


def wire_pos(ps) -> str:
    return "[" + ";".join(",".join(rat(v) for v in p) for p in ps) + "]"


def opt(x) -> str:
    return "-" if x is None else str(x)


def dev_tokens(g: dict) -> str:
    return (f"{g['dims']} {rat(F(g['min_dist']))} {opt(g['max_atoms'])} {opt(g['max_radial'])} "
            f"{g['min_traps']} {opt(g['max_traps'])} {rat(F(g['max_filling']))}")


def parse_err(reply: str):
    """model reply -> canonical tuple"""
    if reply == "ok":
        return ("ok",)
    if not reply.startswith("err "):
        raise InfraError(f"driver: {reply!r}")
    toks = reply[4:].split(" ")

    def coord(ts):
        k = ts[0]
        if k == "atomsNumber":
            return ("atomsNumber", int(ts[1]))
        if k == "distance":
            inner = ts[1][1:-1]
            return ("distance", tuple(tuple(int(v) for v in it.split(":")) for it in inner.split(",")) if inner else ())
        if k == "radius":
            inner = ts[1][1:-1]
            return ("radius", tuple(int(v) for v in inner.split(",")) if inner else ())
        if k in ("trapsLow", "trapsHigh"):
            return (k, int(ts[1]))
        if k == "dimension":
            return ("dimension",)
        raise InfraError(f"driver: {reply!r}")

    if toks[0] == "layout":
        return ("layout",) + coord(toks[1:])
    if toks[0] == "filling":
        return ("filling", int(toks[1]), int(toks[2]))
    return coord(toks)


def classify_geom(e: Exception, ids: list[str]):
    """real exception -> canonical tuple (ids mapped to indices in `ids`)"""
    import pulser.exceptions.sequence as ex
    from pulser.exceptions.base import PulserValueError

    def ix(q):
        return ids.index(str(q))

    try:
        return _classify_geom(e, ids, ix)
    except ValueError:
        # the error names ids that are not the ids of the object being validated
        return ("other", type(e).__name__, f"reports foreign ids {getattr(e, 'invalid', None)!s:.80}")


def _classify_geom(e: Exception, ids: list[str], ix):
    import pulser.exceptions.sequence as ex
    from pulser.exceptions.base import PulserValueError

    if isinstance(e, ex.DimensionPositionsTooHighError) or isinstance(e, ex.DimensionTooHighError):
        return ("dimension",)
    if isinstance(e, ex.AtomsNumberError):
        return ("atomsNumber", int(e.invalid))
    if isinstance(e, ex.DistanceError):
        return ("distance", tuple((ix(a), ix(b)) for a, b in e.invalid))
    if isinstance(e, ex.RadiusError):
        return ("radius", tuple(ix(a) for a in e.invalid))
    if isinstance(e, ex.QubitsNumberError):
        return ("filling", int(e.invalid), int(e.max))
    if isinstance(e, ex.TrapsNumberTooLowError):
        return ("trapsLow", int(e.invalid))
    if isinstance(e, ex.TrapsNumberTooHighError):
        return ("trapsHigh", int(e.invalid))
    if isinstance(e, PulserValueError) and "incompatible register layout" in str(e) and e.__cause__ is not None:
        return None  # handled by the caller (needs the trap ids)
    return ("other", type(e).__name__, str(e)[:100])


# ---------------------------------------------------------------------------
# building real objects
# ---------------------------------------------------------------------------
def make_device(g: dict):
    from pulser.devices import AnalogDevice, Device, VirtualDevice

    kw = dict(name="gen", dimensions=g["dims"], rydberg_level=60, min_atom_distance=g["min_dist"],
              max_atom_num=g["max_atoms"], max_radial_distance=g["max_radial"],
              min_layout_traps=g["min_traps"], max_layout_traps=g["max_traps"],
              max_layout_filling=g["max_filling"])
    if g.get("optimal_filling") is not None:
        kw["optimal_layout_filling"] = g["optimal_filling"]
    if g.get("physical"):
        return Device(channel_objects=AnalogDevice.channel_objects, **kw)
    return VirtualDevice(**kw)


def make_register(spec: dict):
    """spec: atoms (no layout) or layout{traps, trap_ids} -> (register, layout or None)"""
    import pulser
    from pulser.register.register_layout import RegisterLayout

    lay = spec.get("layout")
    if lay is None:
        atoms = spec["atoms"]
        cls = pulser.Register3D if len(atoms[0]) == 3 else pulser.Register
        return cls({f"q{i}": p for i, p in enumerate(atoms)}), None
    L = RegisterLayout(lay["traps"])
    return L.define_register(*lay["trap_ids"]), L


def rnd6(x) -> float:
    """the coordinate precision of a layout (1e-6 um), computed with numpy, not read from pulser"""
    return float(np.round(np.float64(x), 6))


def expected_traps(traps) -> list[list[float]]:
    """what a layout's traps must be, by trap id: the given coordinates rounded to 1e-6 and sorted by
    x, then y, then z (C19) - recomputed here, not read from the layout object"""
    r = [[rnd6(v) + 0.0 for v in t] for t in traps]
    return sorted(r, key=lambda t: tuple(t))


def fr(ps) -> list[list[Fraction]]:
    return [[F(v) for v in p] for p in ps]


def same_positions(real, want) -> bool:
    return len(real) == len(want) and all(
        len(a) == len(b) and all(x == y for x, y in zip(a, b)) for a, b in zip(real, want))


def positions_of(reg) -> list[list[Fraction]]:
    return [[F(v) for v in np.asarray(p.as_array(), dtype=float).tolist()] for p in reg.qubits.values()]


def traps_of(L) -> list[list[Fraction]]:
    return [[F(v) for v in np.asarray(c, dtype=float).tolist()] for c in L.traps_dict.values()]


# ---------------------------------------------------------------------------
# the property, restated directly (exact arithmetic)
# ---------------------------------------------------------------------------
class Spec:
    """violations of each clause for positions `ps` on device geometry `g`"""

    def __init__(self, g: dict, ps, atoms: bool):
        m = F(g["min_dist"])
        self.amb = False
        self.count_bad = atoms and g["max_atoms"] is not None and len(ps) > g["max_atoms"]
        self.pairs = []
        for i in range(len(ps)):
            for j in range(i + 1, len(ps)):
                v, a = too_close(m, sq_dist(ps[i], ps[j]))
                self.amb = self.amb or a
                if v:
                    self.pairs.append((i, j))
        self.far = []
        if g["max_radial"] is not None:
            R = g["max_radial"]
            for i, p in enumerate(ps):
                s = sq_norm(p)
                if abs(math.sqrt(float(s)) - R) <= MARGIN and not float_exact(p, s):
                    self.amb = True
                if s > R * R:
                    self.far.append(i)

    @property
    def ok(self):
        return not (self.count_bad or self.pairs or self.far)


def filling_spec(g: dict, n: int, n_traps: int):
    x = Fraction(n_traps) * F(g["max_filling"])
    amb = x.denominator != 1 and abs(x - round(x)) < Fraction(1, 10**9)
    return math.floor(x), amb


class Fail:
    def __init__(self, clause: str, msg: str, **key):
        self.clause, self.msg = clause, msg
        self.key = dict(clause=clause, **key)


class Result:
    foreign = None

    def __init__(self):
        self.fails: list[Fail] = []
        self.diverge: list[tuple[str, str]] = []
        self.evals = 0
        self.ambiguous = False
        self.nontrivial = False
        self.outcome = "?"


def check_payload(res: Result, clause: str, real, spec: Spec, layout_spec=None, fill=None, n=None):
    """monitor: accept iff fits; the reported culprits are exactly the violating ones"""
    kind = real[0]
    if kind == "ok":
        return
    if kind == "atomsNumber":
        good = spec.count_bad and real[1] == n
    elif kind == "distance":
        good = tuple(spec.pairs) == real[1] and len(real[1]) > 0
    elif kind == "radius":
        good = tuple(spec.far) == real[1] and len(real[1]) > 0
    else:
        return
    if not good:
        res.fails.append(Fail("culprits", f"{clause}: reported {real}, violating pairs={spec.pairs} far={spec.far} "
                                          f"count_bad={spec.count_bad}", error=kind))


# ---------------------------------------------------------------------------
# running one case
# ---------------------------------------------------------------------------
class InputNotConstructible(Exception):
    pass


def run_case(drv: Driver, case: dict) -> Result:
    res = Result()
    kind = case["kind"]
    if kind in ("vreg", "vlay", "vmap"):
        try:
            _run_validate(drv, case, res)
        except InputNotConstructible as e:
            res.foreign = f"well-formed register/layout cannot be constructed: {e}"
            res.outcome = "foreign"
    elif kind == "mkdev":
        _run_mkdev(drv, case, res)
    elif kind == "maxconn":
        _run_maxconn(case, res)
    elif kind == "autolayout":
        _run_autolayout(case, res)
    else:
        raise InfraError(f"unknown case kind {kind}")
    return res


def _layout_error(e, L):
    """classify the cause wrapped by validate_register for a layout"""
    tids = [str(k) for k in range(L if isinstance(L, int) else len(L))]
    return classify_geom(e, tids)


def _run_validate(drv: Driver, case: dict, res: Result):
    import pulser
    from pulser.register.mappable_reg import MappableRegister
    from pulser.register.register_layout import RegisterLayout

    g = case["dev"]
    dev = make_device(g)
    kind = case["kind"]
    if kind == "vreg":
        try:
            reg, L = make_register(case)
        except Exception as e:  # noqa: BLE001
            raise InputNotConstructible(f"{type(e).__name__}: {str(e)[:80]}") from e
        if L is None:
            want_pos = [[float(v) for v in a] for a in case["atoms"]]
            want_traps = None
        else:
            want_traps = expected_traps(case["layout"]["traps"])
            want_pos = [want_traps[i] for i in case["layout"]["trap_ids"]]
        ids = [f"q{i}" for i in range(len(want_pos))]
        ps = fr(want_pos)
        rdim = len(want_pos[0])
        # what the objects hold is only cross-checked (owned by C19 / the register classes)
        if not same_positions(positions_of(reg), ps) or [str(q) for q in reg.qubit_ids] != ids or (
                L is not None and not same_positions(traps_of(L), fr(want_traps))):
            res.foreign = "register/layout objects do not hold the given coordinates (C19)"

        def observe(call):
            try:
                call()
                return ("ok",)
            except Exception as e:  # noqa: BLE001
                r = classify_geom(e, ids)
                if r is None:
                    r = ("layout",) + _layout_error(e.__cause__, len(want_traps))
                return r

        # two observation points: explicit validation and sequence creation
        real_val = observe(lambda: dev.validate_register(reg))
        real_seq = observe(lambda: pulser.Sequence(reg, dev))
        real = real_seq if case.get("via") == "sequence" else real_val
        if real_seq != real_val:
            res.fails.append(Fail("sequence-creation", f"Sequence(register, device) -> {real_seq} but "
                                                       f"device.validate_register(register) -> {real_val} (device {g}, "
                                                       f"{len(ps)} atoms{', from a layout' if L is not None else ''})",
                                  at_creation=real_seq[0], explicit=real_val[0]))
        ldim = None if L is None else len(want_traps[0])
        line = (f"vreg {dev_tokens(g)} {rdim} {wire_pos(ps)} "
                + (f"{ldim} {wire_pos(fr(want_traps))}" if L is not None else "- -"))
        # ---- monitor ----
        spec = Spec(g, ps, True)
        res.ambiguous = spec.amb
        dim_ok = rdim <= g["dims"]
        fits = dim_ok and spec.ok
        lspec = None
        if L is not None:
            tr = fr(want_traps)
            lspec = Spec(g, tr, False)
            res.ambiguous = res.ambiguous or lspec.amb
            nt = len(tr)
            mq, amb = filling_spec(g, len(ps), nt)
            res.ambiguous = res.ambiguous or amb
            lay_ok = (ldim <= g["dims"] and nt >= g["min_traps"]
                      and (g["max_traps"] is None or nt <= g["max_traps"]) and lspec.ok)
            fits = fits and lay_ok and len(ps) <= mq
        if not res.ambiguous:
            for where, r_ in (("validate_register", real_val), ("Sequence(register, device)", real_seq)):
                if (r_[0] == "ok") != fits:
                    res.fails.append(Fail("accept-iff-fits", f"{where} -> {r_}; fits={fits} "
                                                             f"(device {g}, {len(ps)} atoms)", error=r_[0]))
                    break
            if real[0] == "other":
                res.fails.append(Fail("culprits", f"unexpected error for a register: {real}", error="other"))
            if real[0] == "dimension" and dim_ok:
                res.fails.append(Fail("culprits", "dimension error for a supported dimensionality", error="dimension"))
            check_payload(res, "register", real, spec, n=len(ps))
            if real[0] == "layout" and lspec is not None:
                check_payload(res, "layout", real[1:], lspec, n=len(want_traps))
            if real[0] == "filling":
                mq, _ = filling_spec(g, len(ps), len(want_traps))
                if not (real[1] == len(ps) and real[2] == mq and len(ps) > mq):
                    res.fails.append(Fail("culprits", f"filling error {real}, max qubits {mq}", error="filling"))
        res.nontrivial = len(ps) >= 2
    elif kind == "vlay":
        try:
            L = RegisterLayout(case["traps"])
        except Exception as e:  # noqa: BLE001
            raise InputNotConstructible(f"{type(e).__name__}: {str(e)[:80]}") from e
        want_traps = expected_traps(case["traps"])
        tr = fr(want_traps)
        ldim = len(want_traps[0])
        if not same_positions(traps_of(L), tr):
            res.foreign = "layout object does not hold the given coordinates (C19)"
        try:
            dev.validate_layout(L)
            real = ("ok",)
        except Exception as e:  # noqa: BLE001
            real = _layout_error(e, len(want_traps))
        line = f"vlay {dev_tokens(g)} {ldim} {wire_pos(tr)}"
        lspec = Spec(g, tr, False)
        res.ambiguous = lspec.amb
        nt = len(tr)
        fits = (ldim <= g["dims"] and nt >= g["min_traps"]
                and (g["max_traps"] is None or nt <= g["max_traps"]) and lspec.ok)
        if not res.ambiguous:
            if (real[0] == "ok") != fits:
                res.fails.append(Fail("accept-iff-fits", f"validate_layout -> {real}; fits={fits} (device {g})",
                                      error=real[0]))
            check_payload(res, "layout", real, lspec, n=nt)
        res.nontrivial = nt >= 2
    else:  # vmap
        try:
            L = RegisterLayout(case["traps"])
        except Exception as e:  # noqa: BLE001
            raise InputNotConstructible(f"{type(e).__name__}: {str(e)[:80]}") from e
        want_traps = expected_traps(case["traps"])
        tr = fr(want_traps)
        ldim = len(want_traps[0])
        if not same_positions(traps_of(L), tr):
            res.foreign = "layout object does not hold the given coordinates (C19)"
        n = case["n"]
        try:
            pulser.Sequence(MappableRegister(L, *[f"q{i}" for i in range(n)]), dev)
            real = ("ok",)
        except Exception as e:  # noqa: BLE001
            real = _layout_error(e, len(want_traps))
            if real[0] in ("dimension", "trapsLow", "trapsHigh", "distance", "radius"):
                real = ("layout",) + real
        line = f"vmap {dev_tokens(g)} {ldim} {wire_pos(tr)} {n}"
        lspec = Spec(g, tr, False)
        nt = len(tr)
        mq, amb = filling_spec(g, n, nt)
        res.ambiguous = lspec.amb or amb
        fits = (ldim <= g["dims"] and nt >= g["min_traps"]
                and (g["max_traps"] is None or nt <= g["max_traps"]) and lspec.ok and n <= mq)
        if not res.ambiguous and (real[0] == "ok") != fits:
            res.fails.append(Fail("accept-iff-fits", f"Sequence(MappableRegister) -> {real}; fits={fits}",
                                  error=real[0]))
        res.nontrivial = nt >= 2
        # the register a mappable sequence is BUILT with is a register given to the device like any other:
        # build() returns a sequence on it iff it fits (harness's own exact computation)
        bt = case.get("build_traps")
        if real[0] == "ok" and bt and len(bt) <= n and not res.ambiguous:
            seq_m = pulser.Sequence(MappableRegister(L, *[f"q{i}" for i in range(n)]), dev)
            try:
                want_reg = L.define_register(*bt, qubit_ids=[f"q{i}" for i in range(len(bt))])
            except Exception as e:  # noqa: BLE001
                raise InputNotConstructible(f"{type(e).__name__}: {str(e)[:80]}") from e
            fits_b, amb_b, why = independent_fit(g, want_reg)
            try:
                with warnings.catch_warnings():
                    warnings.simplefilter("ignore")
                    built = seq_m.build(qubits={f"q{i}": t for i, t in enumerate(bt)})
                got = "ok"
            except Exception as e:  # noqa: BLE001
                built, got = None, type(e).__name__
            if not amb_b and (got == "ok") != fits_b:
                res.fails.append(Fail("accept-iff-fits",
                                      f"build(qubits={len(bt)} of {n} ids on traps {bt}) of a mappable sequence -> {got}; "
                                      f"the built register fits={fits_b} ({why or 'all limits met'})",
                                      error=got, via="mappable-build"))
            if built is not None and not same_positions(positions_of(built.register), positions_of(want_reg)):
                res.foreign = "build() does not place the qubits on the mapped traps (C08/C19)"
    res.outcome = real[0] if real[0] != "layout" else "layout-" + real[1]
    # ---- correspondence ----
    res.evals += 1
    model = parse_err(drv.ask(line))
    if not res.ambiguous and model != real:
        res.diverge.append((kind, f"real={real} model={model}"))
    if kind == "vreg" and not res.ambiguous:
        other = real_val if real is real_seq else real_seq
        if model != other and other != real:
            res.diverge.append((kind, f"{'validate_register' if real is real_seq else 'Sequence'} real={other} "
                                      f"model={model}"))


# ---- device construction ---------------------------------------------------
CHANNEL_KINDS = {
    "ryd_glob": lambda: ("Rydberg", "Global", (12.0, 10.0)),
    "ryd_glob_virtual": lambda: ("Rydberg", "Global", (None, None)),
    "ryd_glob_amp_only": lambda: ("Rydberg", "Global", (None, 10.0)),
    "ryd_glob_det_only": lambda: ("Rydberg", "Global", (12.0, None)),
    "ram_loc": lambda: ("Raman", "Local", (12.0, 10.0)),
    "ram_loc_virtual": lambda: ("Raman", "Local", (None, 10.0)),
    "mw_glob": lambda: ("Microwave", "Global", (12.0, 10.0)),
}


# facts about each channel kind, from its constructor arguments (not read from the channel objects):
# Microwave <=> XY basis; virtual <=> some of max_amp / max_abs_detuning (/ max_targets for Local, the DMM's
# bottom detunings / max_duration) is left undefined
def channel_facts(kind: str) -> tuple[bool, bool]:
    if kind in ("dmm", "dmm_virtual"):
        return (False, kind == "dmm_virtual")
    cls_name, _addr, (det, amp) = CHANNEL_KINDS[kind]()
    return (cls_name == "Microwave", det is None or amp is None)


def make_channel(kind: str):
    import pulser.channels as chs

    cls_name, addr, (det, amp) = CHANNEL_KINDS[kind]()
    cls = getattr(chs, cls_name)
    if addr == "Local":
        return cls.Local(det, amp, max_targets=3)
    return cls.Global(det, amp)


def make_dmm(kind: str):
    from pulser.channels.dmm import DMM

    if kind == "dmm_virtual":
        return DMM()
    return DMM(bottom_detuning=-10.0, total_bottom_detuning=-100.0, clock_period=4, min_duration=16,
               max_duration=2**26)


ERR_MAP_DEV = [
    ("must be greater than or equal to zero", "minDistNegative"),
    ("maximum layout filling fraction must be", "maxFilling"),
    ("a layout supports at most", "fillingTooSmallForAtoms"),
    ("One DMM object should be defined", "slmNeedsDmm"),
    ("can't have repeated elements", "channelIdsRepeated"),
    ("must match the number of channel objects", "channelIdsCount"),
    ("must be different than the names of DMM", "channelIdsDmmClash"),
    ("'interaction_coeff_xy' must be a 'float'", "xyCoeff"),
    ("cannot contain virtual channels", "virtualChannel"),
]


def classify_dev(e: Exception, layouts) -> tuple:
    import re

    import pulser.exceptions.sequence as ex

    if isinstance(e, ex.DimensionChoiceError):
        return ("dimensionChoice",)
    if isinstance(e, ex.RydbergLevelError):
        return ("rydbergLevel",)
    if isinstance(e, ex.OptimalLayoutFillingError):
        return ("optimalFilling",)
    if isinstance(e, ex.MaxNumberOfTrapsError):
        return ("maxTrapsBelowMin",)
    msg = str(e)
    m = re.search(r"'(\w+)' can't be None", msg)
    if isinstance(e, TypeError) and m:
        return ("noneNotAllowed", m.group(1))
    m = re.search(r"'(\w+)' must be greater than zero", msg)
    if m:
        return ("notPositive", m.group(1))
    for key, k in ERR_MAP_DEV:
        if key in msg:
            return (k,)
    if isinstance(e, (ex.TrapsNumberError, ex.DistanceError, ex.RadiusError, ex.DimensionTooHighError)):
        for L in layouts:
            tids = [str(k) for k in range(L)]
            if getattr(e, "layout", L) is L or True:
                try:
                    return ("layout",) + _classify_geom(e, tids, lambda q, t=tids: t.index(str(q)))
                except ValueError:
                    continue
    return ("other", type(e).__name__, msg[:100])


def parse_dev_reply(reply: str) -> tuple:
    if reply == "ok":
        return ("ok",)
    if not reply.startswith("err "):
        raise InfraError(f"driver: {reply!r}")
    toks = reply[4:].split(" ")
    if toks[0] == "layout":
        return parse_err(reply)
    return tuple(toks)


def _run_mkdev(drv: Driver, case: dict, res: Result):
    from pulser.devices import Device, VirtualDevice
    from pulser.register.register_layout import RegisterLayout

    p = case["params"]
    chans = [make_channel(k) for k in p["channels"]]
    dmms = [make_dmm(k) for k in p["dmms"]]
    layouts = []
    for t in p.get("layouts", []):
        try:
            layouts.append(RegisterLayout(t))
        except ValueError:
            pass      # degenerate generated layout (traps coinciding after rounding): not part of the case
    kw = dict(name="gen", dimensions=p["dimensions"], rydberg_level=p["rydberg_level"],
              min_atom_distance=p["min_atom_distance"], max_atom_num=p["max_atom_num"],
              max_radial_distance=p["max_radial_distance"], max_sequence_duration=p["max_sequence_duration"],
              max_runs=p["max_runs"], min_layout_traps=p["min_layout_traps"],
              max_layout_traps=p["max_layout_traps"], max_layout_filling=p["max_layout_filling"],
              optimal_layout_filling=p["optimal_layout_filling"], supports_slm_mask=p["supports_slm_mask"],
              channel_objects=tuple(chans), dmm_objects=tuple(dmms), channel_ids=p["channel_ids"],
              interaction_coeff_xy=p["interaction_coeff_xy"])
    try:
        if p["virtual"]:
            VirtualDevice(**kw)
        else:
            Device(pre_calibrated_layouts=tuple(layouts), **kw)
        real = ("ok",)
    except Exception as e:  # noqa: BLE001
        real = classify_dev(e, [len(w) for w in [expected_traps(t) for t in p.get("layouts", [])]])
    res.outcome = real[0]
    # facts about the channel objects (oracle)
    ch_facts = [channel_facts(k) for k in p["channels"]]
    dm_facts = [channel_facts(k) for k in p["dmms"]]
    ch_tok = "[" + ",".join(f"{int(xy)}:{int(v)}" for xy, v in ch_facts) + "]"
    dm_tok = "[" + ",".join(f"0:{int(v)}" for _, v in dm_facts) + "]"
    lay_want = [expected_traps(t) for t in p.get("layouts", [])]
    if any(not same_positions(traps_of(L), fr(w)) for L, w in zip(layouts, lay_want)):
        res.foreign = "layout object does not hold the given coordinates (C19)"

    ids_tok = "-" if p["channel_ids"] is None else "[" + ",".join(p["channel_ids"]) + "]"
    lay_tok = "-" if not lay_want else "|".join(f"{len(w[0])}:{wire_pos(fr(w))}" for w in lay_want)

    def o(x, f=str):
        return "-" if x is None else f(x)

    line = (f"mkdev {int(p['virtual'])} {p['dimensions']} {p['rydberg_level']} "
            f"{o(p['min_atom_distance'], lambda v: rat(F(v)))} {o(p['max_atom_num'])} "
            f"{o(p['max_radial_distance'])} {o(p['max_sequence_duration'])} {o(p['max_runs'])} "
            f"{o(p['min_layout_traps'])} {o(p['max_layout_traps'])} {rat(F(p['max_layout_filling']))} "
            f"{o(p['optimal_layout_filling'], lambda v: rat(F(v)))} {int(p['supports_slm_mask'])} "
            f"{ch_tok} {dm_tok} {ids_tok} {int(isinstance(p['interaction_coeff_xy'], float))} {lay_tok}")
    res.evals += 1
    model = parse_dev_reply(drv.ask(line))
    # ---- monitor: the documented constraints, restated ----
    amb = False
    virtual = p["virtual"]

    def int_ok(v, optional):
        return optional if v is None else v > 0

    valid = (p["dimensions"] in (2, 3) and 49 < p["rydberg_level"] < 101
             and p["min_atom_distance"] is not None and p["min_atom_distance"] >= 0
             and int_ok(p["max_atom_num"], virtual) and int_ok(p["max_radial_distance"], virtual)
             and int_ok(p["max_sequence_duration"], True) and int_ok(p["max_runs"], True)
             and int_ok(p["min_layout_traps"], False) and int_ok(p["max_layout_traps"], True)
             and 0 < p["max_layout_filling"] <= 1
             and (p["optimal_layout_filling"] is None
                  or 0 < p["optimal_layout_filling"] <= p["max_layout_filling"]))
    if valid and p["max_layout_traps"] is not None:
        valid = p["max_layout_traps"] >= p["min_layout_traps"]
        if valid and p["max_atom_num"] is not None:
            x = F(p["max_layout_filling"]) * p["max_layout_traps"]
            amb = x.denominator != 1 and abs(x - round(x)) < Fraction(1, 10**9)
            valid = math.floor(x) >= p["max_atom_num"]
    if valid:
        valid = not (p["supports_slm_mask"] and not dmms)
    if valid and p["channel_ids"] is not None:
        ids = p["channel_ids"]
        valid = (len(set(ids)) == len(ids) and len(ids) == len(chans)
                 and not (set(ids) & {f"dmm_{i}" for i in range(len(dmms))}))
    if valid and any(xy for xy, _ in ch_facts):
        valid = isinstance(p["interaction_coeff_xy"], float)
    if valid and not virtual:
        valid = not any(v for _, v in ch_facts + dm_facts)
        if valid and layouts:
            g = dict(dims=p["dimensions"], min_dist=p["min_atom_distance"], max_atoms=p["max_atom_num"],
                     max_radial=p["max_radial_distance"], min_traps=p["min_layout_traps"],
                     max_traps=p["max_layout_traps"], max_filling=p["max_layout_filling"])
            for w in lay_want:
                tr = fr(w)
                ls = Spec(g, tr, False)
                amb = amb or ls.amb
                valid = valid and (len(w[0]) <= g["dims"] and len(tr) >= g["min_traps"]
                                   and (g["max_traps"] is None or len(tr) <= g["max_traps"]) and ls.ok)
    res.ambiguous = amb
    res.nontrivial = True
    if not amb:
        crash = real[0] == "other" and "float() argument" in real[2]
        if (real[0] == "ok") != valid or crash:
            # the TypeError of the spec-text rendering is never a legitimate outcome, also when the
            # parameters are invalid for another reason (it pre-empts the documented error)
            cause = "spec-text-max_amp-none" if crash else "other"
            res.fails.append(Fail("device-constructible",
                                  f"{'VirtualDevice' if virtual else 'Device'}(**{ {k: v for k, v in p.items()} }) "
                                  f"-> {real}; parameters valid={valid}", cause=cause))
        if model != real:
            res.diverge.append(("mkdev", f"real={real} model={model}"))


# ---- constructor closure (monitor only) ----------------------------------------
def independent_fit(g: dict, reg) -> tuple[bool, bool, str]:
    """does the produced register fit the device, by the harness's own exact computation?
    -> (fits, float-ambiguous, what fails)"""
    ps = positions_of(reg)
    spec = Spec(g, ps, True)
    amb, why = spec.amb, []
    if len(ps[0]) > g["dims"]:
        why.append("dimension")
    if spec.count_bad:
        why.append("atom number")
    if spec.pairs:
        why.append(f"pairs {spec.pairs[:3]} too close")
    if spec.far:
        why.append(f"atoms {spec.far[:3]} too far")
    L = reg.layout
    if L is not None:
        tr = traps_of(L)
        ls = Spec(g, tr, False)
        mq, a2 = filling_spec(g, len(ps), len(tr))
        amb = amb or ls.amb or a2
        if len(tr) < g["min_traps"] or (g["max_traps"] is not None and len(tr) > g["max_traps"]):
            why.append(f"{len(tr)} traps")
        if ls.pairs or ls.far:
            why.append("trap geometry")
        if len(ps) > mq:
            why.append(f"filling {len(ps)} > {mq}")
    return (not why, amb, "; ".join(why))


def _run_maxconn(case: dict, res: Result):
    import pulser

    g = case["dev"]
    dev = make_device(g)
    try:
        reg = pulser.Register.max_connectivity(case["n"], dev, spacing=case.get("spacing"))
    except (ValueError, NotImplementedError) as e:
        res.outcome = "ctor-refused:" + type(e).__name__
        return
    res.nontrivial = case["n"] >= 2
    fits, amb, why = independent_fit(g, reg)
    if not fits and not amb:
        res.fails.append(Fail("constructor-closure",
                              f"Register.max_connectivity({case['n']}, dev, spacing={case.get('spacing')}) does not "
                              f"fit that device ({g}): {why}", ctor="max_connectivity", error="does-not-fit"))
    try:
        dev.validate_register(reg)
        res.outcome = "accepted"
    except Exception as e:  # noqa: BLE001
        res.outcome = "rejected:" + type(e).__name__
        res.fails.append(Fail("constructor-closure",
                              f"Register.max_connectivity({case['n']}, dev, spacing={case.get('spacing')}) is "
                              f"rejected by that device ({g}): {type(e).__name__}: {str(e)[:120]}",
                              ctor="max_connectivity", error=type(e).__name__))


def _run_autolayout(case: dict, res: Result):
    import pulser

    g = case["dev"]
    dev = make_device(g)
    atoms = case["atoms"]
    reg = pulser.Register({f"q{i}": p for i, p in enumerate(atoms)})
    try:
        dev.validate_register(reg)
    except Exception:  # noqa: BLE001
        res.outcome = "input-invalid"
        return
    try:
        r2 = reg.with_automatic_layout(dev)
    except RuntimeError:
        res.outcome = "ctor-refused:RuntimeError"
        return
    except Exception as e:  # noqa: BLE001
        res.outcome = "ctor-raised:" + type(e).__name__
        res.fails.append(Fail("constructor-closure",
                              f"with_automatic_layout raised {type(e).__name__}: {str(e)[:120]} for a register the "
                              f"device accepts ({g}, atoms {atoms})", ctor="with_automatic_layout",
                              error=type(e).__name__))
        return
    res.nontrivial = True
    same = (r2.qubit_ids == reg.qubit_ids and r2.layout is not None
            and all(np.allclose(np.asarray(a.as_array(), dtype=float), np.asarray(b.as_array(), dtype=float), atol=1e-6,
                                rtol=0)
                    for a, b in zip(r2.qubits.values(), reg.qubits.values())))
    if not same:
        res.fails.append(Fail("constructor-closure", "with_automatic_layout changed the qubits or has no layout",
                              ctor="with_automatic_layout", error="changed"))
    fits, amb, why = independent_fit(g, r2)
    if not fits and not amb:
        res.fails.append(Fail("constructor-closure",
                              f"register.with_automatic_layout(dev) does not fit that device ({g}, {len(atoms)} "
                              f"atoms, {r2.layout.number_of_traps} traps): {why}", ctor="with_automatic_layout",
                              error="does-not-fit"))
    try:
        dev.validate_register(r2)
        res.outcome = "accepted"
    except Exception as e:  # noqa: BLE001
        cause = e.__cause__ if e.__cause__ is not None else e
        res.outcome = "rejected:" + type(cause).__name__
        res.fails.append(Fail("constructor-closure",
                              f"register.with_automatic_layout(dev) is rejected by that device ({g}, "
                              f"{len(atoms)} atoms, {r2.layout.number_of_traps} traps): {type(cause).__name__}: "
                              f"{str(cause)[:120]}", ctor="with_automatic_layout", error=type(cause).__name__))


# ---------------------------------------------------------------------------
# generators
# ---------------------------------------------------------------------------
DELTAS = [0.0, 1e-9, -1e-9, -0.9e-6, -1.1e-6, -1e-6, -2e-6, 1e-6, 0.9e-6, 1.1e-6, -0.5, 0.5, -1e-3]
FILLINGS = [0.5, 0.25, 0.75, 1.0, 0.7, 0.29, 1 / 3, 0.4, 0.125]


def gen_dev(rng: random.Random, physical=None, want_layout=False) -> dict:
    from pulser.exceptions.base import PulserValueError  # noqa: F401

    for _ in range(200):
        phys = rng.random() < 0.25 if physical is None else physical
        g = dict(
            dims=rng.choice([2, 2, 3]),
            min_dist=rng.choice([0, 0.5, 1, 4, 5, 5, 2.5, 3.0]),
            max_atoms=rng.choice([None, 1, 2, 3, 5, 8, 20]) if not phys else rng.choice([1, 2, 3, 5, 8, 20]),
            max_radial=rng.choice([None, 5, 10, 13, 35]) if not phys else rng.choice([5, 10, 13, 35]),
            min_traps=rng.choice([1, 1, 3, 6]),
            max_traps=rng.choice([None, None, 6, 10, 20, 40]),
            max_filling=rng.choice(FILLINGS),
            physical=phys,
        )
        try:
            make_device(g)
            return g
        except Exception:  # noqa: BLE001
            continue
    raise InfraError("could not generate a device")


def place_inside(rng, pts, g):
    """translate so that the points are around the origin (keeps pairwise distances exactly when the
    shift is representable: integer shifts)"""
    return pts


def gen_positions(rng: random.Random, g: dict) -> tuple[str, list[list[float]]]:
    m = float(g["min_dist"])
    R = g["max_radial"]
    dim = g["dims"] if rng.random() < 0.85 else 5 - g["dims"]      # sometimes the other dimensionality
    sc = rng.choice(["pair", "pair", "pyth", "radial", "count", "identical", "grid", "random"])

    def pad(p):
        return list(p) + [0.0] * (dim - len(p))

    if sc == "pair":
        n = rng.choice([2, 2, 3, 4])
        xs = [0.0]
        for _ in range(n - 1):
            xs.append(xs[-1] + max(m + rng.choice(DELTAS), 0.0))
        shift = -float(int(xs[-1] / 2))
        axis = rng.randrange(dim)
        pts = []
        for x in xs:
            p = [0.0] * dim
            p[axis] = x + shift
            pts.append(p)
        return sc, pts
    if sc == "pyth":
        # exact distances from Pythagorean triples: (3k,4k) -> 5k ; (5k,12k) -> 13k
        a, b, c = rng.choice([(3, 4, 5), (5, 12, 13), (8, 15, 17), (6, 8, 10)])
        k = rng.choice([m / c if m else 1.0, 1.0, 0.5, 2.0])
        d = rng.choice([0.0, 1e-9, -1e-9, -1.1e-6, -0.9e-6])
        pts = [pad([0.0, 0.0]), pad([a * k + d, b * k])]
        if rng.random() < 0.5:
            pts.append(pad([-(a * k), b * k + d]))
        return sc, pts
    if sc == "radial":
        Rv = float(R) if R is not None else 20.0
        d = rng.choice(DELTAS)
        style = rng.choice(["axis", "345", "diag"])
        if style == "axis":
            far = [Rv + d, 0.0]
        elif style == "345":
            far = [0.6 * (Rv + d), 0.8 * (Rv + d)] if Rv % 5 else [3 * (Rv / 5) + d * 0.6, 4 * (Rv / 5) + d * 0.8]
        else:
            far = [(Rv + d) / math.sqrt(2)] * 2
        pts = [pad(far), pad([0.0, 0.0])]
        if rng.random() < 0.5:
            pts.append(pad([-(Rv + rng.choice(DELTAS)), 0.0]))
        return sc, pts
    if sc == "count":
        k = g["max_atoms"] if g["max_atoms"] is not None else rng.choice([3, 6])
        n = max(1, k + rng.choice([-1, 0, 0, 1]))
        s = max(m, 1.0)
        side = int(math.ceil(math.sqrt(n)))
        pts = [pad([s * (i % side) - s * (side // 2), s * (i // side) - s * (side // 2)]) for i in range(n)]
        return sc, pts
    if sc == "identical":
        base = pad([rng.choice([0.0, 1.0, -2.5]), rng.choice([0.0, 3.0])])
        twin = list(base)
        twin[rng.randrange(dim)] += rng.choice([0.0, 1e-7, 0.9e-6, 1.1e-6, 1e-6, 1e-5])
        pts = [base, twin]
        if rng.random() < 0.5:
            pts.append(pad([base[0] + max(m, 1.0) + 3.0, base[1]]))
        return sc, pts
    if sc == "grid":
        s = max(m, 0.5) + rng.choice([0.0, 0.0, 1.0, -1e-6, -1.1e-6, 1e-9])
        rows, cols = rng.randrange(1, 4), rng.randrange(1, 5)
        pts = [pad([s * c - s * (cols // 2), s * r - s * (rows // 2)]) for r in range(rows) for c in range(cols)]
        return sc, pts
    n = rng.randrange(1, 9)
    span = (float(R) if R is not None else 15.0) * 0.9
    pts = [[round(rng.uniform(-span, span), rng.choice([0, 1, 3, 6])) for _ in range(dim)] for _ in range(n)]
    return sc, pts


def distinct(pts):
    return len({tuple(round(v, 6) for v in p) for p in pts}) == len(pts)


def gen_layout_case(rng: random.Random, g: dict) -> dict | None:
    """register from a layout: trap count / geometry / filling at their limits"""
    m = float(g["min_dist"])
    s = max(m, 1.0) + rng.choice([0.0, 0.0, 0.0, 1.0, -1e-6, -1.1e-6, -0.5])
    bounds = [g["min_traps"], g["min_traps"] - 1, g["min_traps"] + 1]
    if g["max_traps"] is not None:
        bounds += [g["max_traps"], g["max_traps"] + 1, g["max_traps"] - 1]
    nt = max(1, rng.choice(bounds + [rng.randrange(1, 16)]))
    side = int(math.ceil(math.sqrt(nt)))
    traps = [[s * (i % side) - s * (side // 2), s * (i // side) - s * (side // 2)] for i in range(nt)]
    if g["dims"] == 3 and rng.random() < 0.3:
        traps = [t + [0.0 if i % 2 else s] for i, t in enumerate(traps)]
    if rng.random() < 0.15 and g["max_radial"] is not None:
        traps[-1] = [float(g["max_radial"]) + rng.choice(DELTAS)] + [0.0] * (len(traps[0]) - 1)
    if not distinct(traps):
        return None
    mq = math.floor(Fraction(nt) * F(g["max_filling"]))
    n = min(nt, max(1, mq + rng.choice([-1, 0, 0, 1, 1])))
    return dict(traps=traps, trap_ids=rng.sample(range(nt), n))


def valid_params(rng: random.Random) -> dict:
    virtual = rng.random() < 0.6
    max_traps = rng.choice([None, None, 10, 40, 200])
    filling = rng.choice([0.5, 0.25, 1.0, 0.75, 0.29, 0.7])
    cap = None if max_traps is None else math.floor(F(filling) * max_traps)
    atoms_choices = [a for a in [1, 2, 5, 20, 100] if cap is None or a <= cap]
    p = dict(
        virtual=virtual, dimensions=rng.choice([2, 3]), rydberg_level=rng.choice([50, 60, 70, 100]),
        min_atom_distance=rng.choice([0, 0.5, 4, 5.0]),
        max_atom_num=rng.choice(atoms_choices + ([None] if virtual else [])),
        max_radial_distance=rng.choice([10, 50] + ([None] if virtual else [])),
        max_sequence_duration=rng.choice([None, 4000]), max_runs=rng.choice([None, 100]),
        min_layout_traps=rng.choice([1, 1, 3]), max_layout_traps=max_traps, max_layout_filling=filling,
        optimal_layout_filling=rng.choice([None, None, 0.25, 0.2]),
        supports_slm_mask=rng.random() < 0.5,
        channels=[], dmms=[], channel_ids=None, interaction_coeff_xy=None, layouts=[],
    )
    phys_ch = ["ryd_glob", "ram_loc", "mw_glob"]
    virt_ch = ["ryd_glob_virtual", "ryd_glob_amp_only", "ryd_glob_det_only", "ram_loc_virtual"]
    for _ in range(rng.choice([0, 1, 1, 2, 3])):
        p["channels"].append(rng.choice(phys_ch + virt_ch) if virtual else rng.choice(phys_ch))
    for _ in range(rng.choice([0, 1, 1, 2])):
        p["dmms"].append("dmm_virtual" if virtual and rng.random() < 0.5 else "dmm")
    if p["supports_slm_mask"] and not p["dmms"]:
        p["dmms"].append("dmm")
    if rng.random() < 0.35:
        p["channel_ids"] = [f"ch{i}" for i in range(len(p["channels"]))]
    if "mw_glob" in p["channels"] or rng.random() < 0.2:
        p["interaction_coeff_xy"] = 3700.0
    if not virtual and rng.random() < 0.35:
        m = float(p["min_atom_distance"]) or 1.0
        for _ in range(rng.choice([1, 1, 2])):
            s = m + rng.choice([0.0, 1.0])
            lo = p["min_layout_traps"]
            hi = max_traps or 12
            nt = rng.choice([t for t in [1, 2, 4, 6, 12] if lo <= t <= hi] or [lo])
            side = int(math.ceil(math.sqrt(nt)))
            R = p["max_radial_distance"]
            traps = [[s * (i % side) - s * (side // 2), s * (i // side) - s * (side // 2)] for i in range(nt)]
            if all(x * x + y * y <= (R - 1) ** 2 for x, y in traps):
                p["layouts"].append(traps)
    return p


FAULTS = ["dimensions", "rydberg", "min_dist_none", "min_dist_neg", "int_zero", "int_none", "filling", "optimal",
          "traps_order", "traps_room", "slm", "ids_repeat", "ids_count", "ids_dmm", "xy", "virtual_channel",
          "layout_low", "layout_high", "layout_distance", "layout_radius", "det_only_channel"]


def gen_mkdev(rng: random.Random) -> dict:
    p = valid_params(rng)
    r = rng.random()
    if r < 0.35:
        return p
    for _ in range(1 if r < 0.85 else rng.choice([2, 3])):
        f = rng.choice(FAULTS)
        if f == "dimensions":
            p["dimensions"] = rng.choice([1, 4, 0])
        elif f == "rydberg":
            p["rydberg_level"] = rng.choice([49, 101, 0])
        elif f == "min_dist_none":
            p["min_atom_distance"] = None
        elif f == "min_dist_neg":
            p["min_atom_distance"] = rng.choice([-1, -1e-9])
        elif f == "int_zero":
            p[rng.choice(["max_atom_num", "max_radial_distance", "max_sequence_duration", "max_runs",
                          "min_layout_traps", "max_layout_traps"])] = rng.choice([0, -2])
        elif f == "int_none":
            p[rng.choice(["max_atom_num", "max_radial_distance", "min_layout_traps"])] = None
        elif f == "filling":
            p["max_layout_filling"] = rng.choice([0.0, 1.5, -0.5, 1.0000001])
        elif f == "optimal":
            p["optimal_layout_filling"] = rng.choice([0.0, -0.1, p["max_layout_filling"] + 0.05])
        elif f == "traps_order":
            p["min_layout_traps"], p["max_layout_traps"] = 6, rng.choice([5, 3])
        elif f == "traps_room":
            p["max_layout_traps"], p["max_layout_filling"], p["max_atom_num"] = 10, 0.5, rng.choice([6, 20])
        elif f == "slm":
            p["supports_slm_mask"], p["dmms"] = True, []
        elif f == "ids_repeat" and len(p["channels"]) >= 2:
            p["channel_ids"] = ["same"] * len(p["channels"])
        elif f == "ids_count":
            p["channel_ids"] = [f"ch{i}" for i in range(len(p["channels"]) + 1)]
        elif f == "ids_dmm" and p["channels"] and p["dmms"]:
            p["channel_ids"] = ["dmm_0"] + [f"ch{i}" for i in range(1, len(p["channels"]))]
        elif f == "xy":
            p["channels"] = p["channels"] + ["mw_glob"]
            if p["channel_ids"] is not None:
                p["channel_ids"] = p["channel_ids"] + ["mwx"]
            p["interaction_coeff_xy"] = rng.choice([None, 3700])
        elif f == "virtual_channel":
            p["virtual"] = False
            for k in ("max_atom_num", "max_radial_distance"):
                p[k] = p[k] or 10
            p["channels"] = p["channels"] + [rng.choice(["ryd_glob_virtual", "ryd_glob_amp_only", "ram_loc_virtual"])]
            if p["channel_ids"] is not None:
                p["channel_ids"] = p["channel_ids"] + ["vch"]
        elif f == "det_only_channel":
            p["channels"] = p["channels"] + ["ryd_glob_det_only"]
            if p["channel_ids"] is not None:
                p["channel_ids"] = p["channel_ids"] + ["dch"]
        elif f.startswith("layout_") and not p["virtual"]:
            m = float(p["min_atom_distance"] or 1.0) or 1.0
            R = p["max_radial_distance"] or 10
            if f == "layout_low":
                p["min_layout_traps"] = 3
                p["layouts"].append([[0.0, 0.0], [m, 0.0]])
            elif f == "layout_high" and F(p["max_layout_filling"]) > 0:
                p["max_layout_traps"] = max(3, math.ceil((p["max_atom_num"] or 1) / F(p["max_layout_filling"])))
                nt = p["max_layout_traps"] + 1
                side = int(math.ceil(math.sqrt(nt)))
                p["layouts"].append([[m * (i % side) - m * (side // 2), m * (i // side) - m * (side // 2)]
                                     for i in range(nt)])
            elif f == "layout_distance" and m > 0.5:
                p["layouts"].append([[0.0, 0.0], [m - rng.choice([1.1e-6, 0.5, 2e-6]), 0.0], [0.0, m]])
            elif f == "layout_radius":
                p["layouts"].append([[0.0, 0.0], [float(R) + rng.choice([1e-3, 1.0, 2e-6]), 0.0]])
    return p


def gen_case(rng: random.Random) -> dict:
    r = rng.random()
    if r < 0.42:
        g = gen_dev(rng)
        sc, pts = gen_positions(rng, g)
        if not pts or len({len(p) for p in pts}) != 1:
            return gen_case(rng)
        if sc != "count" and g["max_atoms"] is not None and len(pts) > g["max_atoms"] and rng.random() < 0.85:
            g["max_atoms"] = rng.choice([len(pts), len(pts) + 3, 20])
            if g["max_traps"] is not None and math.floor(F(g["max_filling"]) * g["max_traps"]) < g["max_atoms"]:
                g["max_traps"] = None
        return dict(kind="vreg", scenario=sc, dev=g, atoms=pts,
                    via="sequence" if rng.random() < 0.2 else "validate")
    if r < 0.62:
        g = gen_dev(rng)
        lay = gen_layout_case(rng, g)
        if lay is None:
            return gen_case(rng)
        k = rng.random()
        if k < 0.5:
            return dict(kind="vreg", scenario="layout", dev=g, layout=lay,
                        via="sequence" if rng.random() < 0.2 else "validate")
        if k < 0.65:
            return dict(kind="vlay", scenario="layout", dev=g, traps=lay["traps"])
        nt = len(lay["traps"])
        mq = math.floor(Fraction(nt) * F(g["max_filling"]))
        n = min(nt, max(0, mq + rng.choice([-1, 0, 1])))
        c = dict(kind="vmap", scenario="mappable", dev=g, traps=lay["traps"], n=n)
        if n >= 1 and rng.random() < 0.85:
            # the sequence is also built: on k of its ids, with the atom-number limit at, just below or above k
            k = rng.choice([n, n, max(1, n - 1), rng.randrange(1, n + 1)])
            c["build_traps"] = sorted(rng.sample(range(nt), k))
            if rng.random() < 0.5:
                g["max_atoms"] = max(1, k + rng.choice([-1, 0, 0, 1]))
                try:
                    make_device(g)
                except Exception:  # noqa: BLE001
                    return gen_case(rng)
        return c
    if r < 0.9:
        return dict(kind="mkdev", scenario="params", params=gen_mkdev(rng))
    if r < 0.96:
        g = gen_dev(rng)
        if not g["min_dist"]:
            g["min_dist"] = 4
        cap = g["max_atoms"] or 12
        n = rng.choice([1, 2, cap, max(1, cap - 1), min(cap, 7)])
        sp = rng.choice([None, None, float(g["min_dist"]), float(g["min_dist"]) + 0.5])
        return dict(kind="maxconn", scenario="max_connectivity", dev=g, n=n, spacing=sp)
    g = gen_dev(rng, physical=True)
    g["dims"] = 2
    g["min_traps"] = rng.choice([1, 3])
    g["max_filling"] = rng.choice([0.5, 0.4, 0.29, 0.7, 0.57, 0.75])
    g["max_traps"] = None
    g["max_radial"] = rng.choice([13, 20, 35])
    g["max_atoms"] = rng.choice([5, 8, 20, 29])
    m = float(g["min_dist"]) or 1.0
    g["min_dist"] = m
    n = rng.choice([1, 2, 3, 4, 7, g["max_atoms"]])
    if rng.random() < 0.3:
        # fillings whose float product n_traps*f falls below the integer it should reach
        adv = [(f, k) for f in (0.29, 0.57, 0.58, 0.07, 0.14, 0.28, 0.55, 0.56)
               for k in range(1, 30) if int(math.ceil(k / f) * f) < k]
        if adv:
            f, k = rng.choice(adv)
            g["max_filling"], g["max_atoms"], g["max_radial"] = f, max(k, 5), 35
            g["min_dist"] = m = rng.choice([1.0, 2.5, 4.0])
            n = k
    side = int(math.ceil(math.sqrt(n)))
    s = m + rng.choice([0.0, 0.5, 2.0])
    atoms = [[s * (i % side) - s * (side // 2), s * (i // side) - s * (side // 2)] for i in range(n)]
    return dict(kind="autolayout", scenario="with_automatic_layout", dev=g, atoms=atoms)


# ---------------------------------------------------------------------------
# shrinking (registers without layout: drop atoms)
# ---------------------------------------------------------------------------
def shrink(drv: Driver, case: dict, key: dict) -> dict:
    if case["kind"] != "vreg" or case.get("layout") is not None:
        return case

    def bad(c):
        try:
            return any(f.key == key for f in run_case(drv, c).fails)
        except Exception:  # noqa: BLE001
            return False

    cur = case
    progress = True
    while progress and len(cur["atoms"]) > 1:
        progress = False
        for j in range(len(cur["atoms"]) - 1, -1, -1):
            c = copy.deepcopy(cur)
            c["atoms"].pop(j)
            if c["atoms"] and bad(c):
                cur, progress = c, True
                break
    return cur


# ---------------------------------------------------------------------------
# check / replay
# ---------------------------------------------------------------------------
def load_findings() -> list[dict]:
    import os

    out = common.load_known_findings()
    extra = os.environ.get("VERIF_EXTRA_FINDINGS")
    if extra and Path(extra).exists():
        for line in Path(extra).read_text().splitlines():
            line = line.strip()
            if line and not line.startswith("#"):
                out.append(json.loads(line))
    return out


def lean_obligations():
    ok, out = common.lake_build(LEAN_TARGETS)
    if not ok:
        raise InfraError("lake build failed:\n" + out[-3000:])
    thms = common.property_theorems(PROP)
    bad = common.lean_forbidden_tokens([f"Properties.{PROP}"] if "PROP" in globals() else None)
    if bad:
        raise InfraError("forbidden tokens in Lean sources: " + "; ".join(bad[:5]))
    axioms = common.audit_axioms(f"Properties.{PROP}", thms)
    offending = {t: axioms.get(t) for t in thms
                 if axioms.get(t) is None or not set(axioms[t]) <= common.ALLOWED_AXIOMS}
    if offending:
        raise InfraError(f"axiom audit failed: {offending}")
    return thms, axioms, len(thms) - len(offending)


def corpus_cases() -> list[dict]:
    d = common.CORPUS / PROP
    out = []
    if d.exists():
        for f in sorted(d.glob("*.json")):
            item = json.loads(f.read_text())
            item.setdefault("scenario", "corpus:" + f.stem)
            out.append(item)
    return out


def check(tier: str, seed: int) -> int:
    timer = Timer()
    thms, axioms, discharged = lean_obligations()
    rng = random.Random(f"{PROP}-{seed}")
    drv = Driver("pm_geom")
    findings = load_findings()
    distinct_cases: set[str] = set()
    nontrivial = 0
    evaluations = 0
    ambiguous = 0
    kinds = collections.Counter()
    scenarios = collections.Counter()
    outcomes = collections.Counter()
    sizes = collections.Counter()
    known_hits = collections.Counter()
    foreign = collections.Counter()
    known_what: dict[str, str] = {}
    violations: list[dict] = []
    unexplained: list[dict] = []
    seen_keys: set[str] = set()
    samples: list[dict] = []

    def handle(case: dict, origin: str):
        nonlocal nontrivial, evaluations, ambiguous
        res = run_case(drv, case)
        if res.foreign:
            foreign[res.foreign] += 1
        evaluations += 1
        ambiguous += int(res.ambiguous)
        kinds[case["kind"]] += 1
        scenarios[case.get("scenario", "?")] += 1
        outcomes[f"{case['kind']}:{res.outcome}"] += 1
        if "atoms" in case:
            sizes[len(case["atoms"])] += 1
        canon = json.dumps({k: v for k, v in case.items() if k != "scenario"}, sort_keys=True)
        if canon not in distinct_cases:
            distinct_cases.add(canon)
            if res.nontrivial and not res.ambiguous:
                nontrivial += 1
        if origin == "generated" and len(samples) < 4 and res.nontrivial and case["kind"] not in {
                s["kind"] for s in samples}:
            samples.append(case)
        explained = False
        for f in res.fails:
            explained = True
            kf = match_known(PROP, f.key, findings)
            if kf is not None:
                known_hits[kf["id"]] += 1
                known_what[kf["id"]] = kf["what"]
                continue
            sig = json.dumps(f.key, sort_keys=True)
            if sig in seen_keys:
                continue
            seen_keys.add(sig)
            violations.append(dict(property=PROP, kind="monitor", clause=f.clause, key=f.key, message=f.msg,
                                   case=shrink(drv, case, f.key)))
        if not explained:
            for clause, detail in res.diverge:
                unexplained.append(dict(case=case, clause=clause, detail=detail))

    for item in corpus_cases():
        handle(item, "corpus")
    for _ in range(N_CASES[tier]):
        handle(gen_case(rng), "generated")
        if violations and tier == "quick":
            break
    if unexplained and not violations:
        before = len(unexplained)
        for _ in range(2000 if tier == "quick" else 50000):
            handle(gen_case(rng), "search")
            if violations:
                break
        if not violations:
            u = unexplained[0]
            violations.append(dict(property=PROP, kind="correspondence", clause=u["clause"],
                                   broken=f"model lean/PulserModel/Geometry.lean vs /repo diverge on '{u['clause']}': "
                                          f"{u['detail']} ({before} divergent cases)",
                                   theorems=thms, case=u["case"], no_failing_input_found=True))
    drv.close()
    ev = dict(
        property_id=PROP, tier=tier, seed=seed, level="proof",
        coverage=dict(
            obligations=len(thms), discharged=discharged,
            checker_cmd="cd lean && lake build " + " ".join(LEAN_TARGETS)
                        + " && #print axioms per theorem (harness/common.py audit_axioms)",
            trusted_base=TRUSTED_BASE, theorems=thms, axioms=axioms,
            evaluations=evaluations, distinct_nontrivial=nontrivial,
            traces_validated_against_impl=len(distinct_cases),
            rule="cases drawn by harness/props/C12.py gen_case (device lattice x boundary scenarios: pair / "
                 "pythagorean / radial / count / identical / grid / random / layout / mappable / parameter records / "
                 "constructors) + corpus; distinct = distinct canonical case JSON; non-trivial = at least two "
                 "positions (or a parameter record / constructor call) and no float-ambiguous threshold",
            samples=samples, kind_histogram=dict(kinds), scenario_histogram=dict(scenarios),
            outcome_histogram=dict(outcomes), size_histogram={str(k): v for k, v in sorted(sizes.items())},
            float_ambiguous=ambiguous, foreign_divergence=dict(foreign), known_findings_hit=dict(known_hits),
            unexplained_divergences=len(unexplained), uncovered_clauses=UNCOVERED,
            repo_fingerprint=common.repo_fingerprint(),
        ),
        assumptions=TRUSTED_BASE, wall_s=timer.s(), violations=len(violations),
    )
    write_evidence(PROP, ev)
    for kid, cnt in sorted(known_hits.items()):
        print(f"KNOWN-FINDING: property={PROP} {kid}: {known_what[kid]} (hit {cnt}x)")
    if violations:
        for v in violations:
            p = write_replay(PROP, v)
            tail = " no-failing-input-found" if v.get("no_failing_input_found") else ""
            print(f"VIOLATION property={PROP} replay={p}{tail}")
            print("  " + str(v.get("message") or v.get("broken"))[:400])
        return 1
    print(f"OK property={PROP} tier={tier} theorems={discharged}/{len(thms)} cases={len(distinct_cases)} "
          f"float-ambiguous={ambiguous} wall={timer.s()}s")
    return 0


def replay(path: str) -> int:
    item = json.loads(Path(path).read_text())
    findings = load_findings()
    ok, out = common.lake_build(LEAN_TARGETS)
    if not ok:
        raise InfraError("lake build failed:\n" + out[-3000:])
    drv = Driver("pm_geom")
    case = item.get("case", item)
    res = run_case(drv, case)
    drv.close()
    print("case:", json.dumps(case)[:2000])
    print("outcome:", res.outcome, "float-ambiguous" if res.ambiguous else "")
    bad = False
    for f in res.fails:
        kf = match_known(PROP, f.key, findings)
        print(("known " + kf["id"] if kf else "FAIL") + f": {f.key}: {f.msg}")
        bad = bad or kf is None
    for clause, detail in res.diverge:
        print(f"divergence [{clause}]: {detail}")
    if res.diverge and not res.fails:
        bad = True
    if bad:
        print(f"VIOLATION property={PROP} replay={path}")
        return 1
    print("replay: property holds on this case")
    return 0
