"""C14 — output modulation is an area-preserving low-pass and fall times cover it
(PARTIAL, level "other").

* Lean: `Properties/C14.lean` — linearity and DC gain of `ifft(fft(x)·m)` over any field with a
  primitive root of unity (and of the circular-convolution reading), non-negativity / max bound
  for a non-negative unit-sum kernel, the −3 dB constant, all padding / slicing / length
  arithmetic, success of modulated sampling with numpy's empty edge-pad error modelled (F14).
* Correspondence: the same model instantiated with `Float` (`pm_mod`, naive O(n²) DFT) against
  `Channel.apply_modulation`, `Channel.modulate`, `Waveform.modulated_samples` and
  `sample(seq, modulation=True)` of /repo, to 1e-9.
* Monitor (numeric validation on the real objects, no model): linearity, integral,
  non-negativity and max bound up to the stated ripple, half gain at the bandwidth, lengths,
  residual beyond the accounted fall time, modulated sampling succeeds whenever plain does and
  ends at the duration including fall time.

A case is a JSON dict (`k` = apply | chmod | tone | wfmod | pulse | seq); it is its own replay.
"""
from __future__ import annotations

import collections
import dataclasses
import json
import math
import random
import warnings
from pathlib import Path

import numpy as np

import common
from common import Driver, InfraError, Timer, match_known, write_evidence, write_replay
from props import C16 as W16
from props.C16 import Fail, allclose, all_findings

PROP = "C14"
LEAN_TARGETS = ["PulserModel.Modulation", "Proofs.Modulation", "Properties.C14", "pm_mod"]
TOL = 1e-9                  # model (Float DFT) vs implementation, relative to the largest sample
MAX_N = 1500                # largest padded length sent to the O(n^2) driver
RIPPLE_SEEN: dict[str, float] = {}   # measured worst relative under/overshoot per bandwidth (evidence)
MAX_BW = 480.0              # MODBW_TO_TR * 1e3, the largest admissible mod_bandwidth


UNCOVERED = [
    "non-negativity and max bound of the real kernel: proved only for a non-negative unit-sum kernel; the "
    "code's kernel (inverse DFT of a sampled, truncated Gaussian) has side lobes above about 90 MHz — monitored at "
    "1e-9 of the input maximum; the excess within the exact lobe bound L*(max-min) of the documented kernel is the known finding F14.5",
    "residual below max(0.01 rad/us, 0.6 % of peak) beyond the accounted fall time: numeric inequality about the "
    "kernel per waveform — monitor only",
    "float FFT accuracy (the convolution theorem itself is proved: modulate_is_convolution; both readings are "
    "also compared with numpy by the driver, 1e-9)",
    "ChannelSamples.modulate with EOM blocks (masks, buffers, detuning_off plateaus): lengths and success are "
    "monitored on generated EOM sequences, values are not modelled",
    "calc_modulation_buffer's threshold scan (only `start, end <= rise_time` is used by the theorems; monitored)",
]

TRUSTED_BASE = [
    "Lean 4.33 kernel; axioms allowed: propext, Classical.choice, Quot.sound (audited per theorem)",
    "statements in lean/Properties/C14.lean say what the (idealised) clauses say",
    "hand-written model lean/PulserModel/Modulation.lean corresponds to /repo (checked on generated cases with the "
    "Float instance; the theorems are about the polymorphic definitions)",
    "harness/props/C14.py, lean/Driver/ModMain.lean (Float instance, cos/sin/exp/log/sqrt of the C library)",
    "numpy FFT as the reference implementation inside the code under test",
]


# --------------------------------------------------------------------------
# wire format of floats: I:e  (value = I * 2^(e-53))
# --------------------------------------------------------------------------
def enc(x) -> str:
    x = float(x)
    if x == 0 or not math.isfinite(x):
        return "0:0"
    m, e = math.frexp(x)
    return f"{int(m * 2 ** 53)}:{e}"


def dec(s: str) -> float:
    i, e = s.split(":")
    return math.ldexp(int(i), int(e) - 53)


def encl(xs) -> str:
    return "[" + ",".join(enc(x) for x in xs) + "]"


def decl(s: str) -> np.ndarray:
    b = s[1:-1]
    return np.array([dec(t) for t in b.split(",")]) if b else np.zeros(0)


# --------------------------------------------------------------------------
# real objects
# --------------------------------------------------------------------------
def channel(bw, eom_bw=None, local=False, buffer=None):
    from pulser.channels import Rydberg
    from pulser.channels.eom import RydbergBeam, RydbergEOM

    kw = {}
    if eom_bw:
        kw["eom_config"] = RydbergEOM(mod_bandwidth=float(eom_bw), limiting_beam=RydbergBeam.RED,
                                      max_limiting_amp=100 * 2 * np.pi, intermediate_detuning=500 * 2 * np.pi,
                                      controlled_beams=(RydbergBeam.BLUE,), custom_buffer_time=buffer)
    mk = Rydberg.Local if local else Rydberg.Global
    return mk(None, None, mod_bandwidth=(float(bw) if bw else None), **kw)


def prior_use(case, *wfs):
    """History for the case: the same waveform objects have already been modulated on ANOTHER channel
    (same channel bandwidth, other EOM bandwidth; also the other mode).  What a waveform caches must be
    keyed by everything the result depends on."""
    pe = case.get("prior_eom_bw")
    if not pe:
        return
    other = channel(case["bw"], pe)
    for w in wfs:
        for eom in (True, False):
            try:
                w.modulation_buffers(other, eom=eom)
                w.modulated_samples(other, eom=eom)
            except Exception:  # noqa: BLE001 — a refused prior use is no history
                pass


class Skip(Exception):
    """The input of the case could not be built (belongs to C16, not to C14)."""


def signal(spec) -> np.ndarray:
    """Input samples from a spec: a C16 waveform spec, or noise / box / spike."""
    if "c" in spec:
        with warnings.catch_warnings():
            warnings.simplefilter("ignore")
            try:
                return W16.arr(W16.build(spec))
            except (ValueError, TypeError) as e:      # rejected constructor / samples that raise (C16's business)
                raise Skip(str(e)) from e
    s = spec["sig"]
    if s == "noise":
        r = np.random.default_rng(spec["seed"])
        return r.uniform(spec["lo"], spec["hi"], size=spec["n"])
    if s == "spike":
        x = np.zeros(spec["n"])
        x[spec["at"] % spec["n"]] = spec["v"]
        return x
    if s == "empty":
        return np.zeros(0)
    raise InfraError(f"bad signal {spec}")


# --------------------------------------------------------------------------
# independent references (nothing below reads the code under test)
# --------------------------------------------------------------------------
MODBW_TO_TR = 0.48      # documented: 10 % -> 90 % rise time [us] = 0.48 / bandwidth [MHz]
MAX_ALLOWED_DIFF = 1e-2  # documented default of calc_modulation_buffer


def rise_of(bw) -> int:
    """`Channel.rise_time` / `BaseEOM.rise_time` from the constructor argument: int(0.48 / bw * 1e3) ns."""
    return int(MODBW_TO_TR / bw * 1e3) if bw else 0


def ref_apply(x: np.ndarray, bw: float) -> np.ndarray:
    """The documented transfer function exp(-f^2/fc^2), fc = bw*1e-3/sqrt(ln 2), with numpy's FFT."""
    x = np.asarray(x, dtype=float)
    if x.size == 0:
        return x
    fc = bw * 1e-3 / math.sqrt(math.log(2))
    f = np.fft.fftfreq(x.size)
    return np.fft.ifft(np.fft.fft(x) * np.exp(-(f ** 2) / fc ** 2)).real


def ref_modulate(x: np.ndarray, fbw, pad: int, rise: int, keep: bool) -> np.ndarray:
    """Channel.modulate as documented: `pad` samples at each end (zeros, or the end values and
    `rise` more samples that are cut off again when keep_ends), then the filter."""
    x = np.asarray(x, dtype=float)
    if not fbw:
        return x
    if keep:
        y = ref_apply(np.pad(x, pad + rise, mode="edge" if x.size else "constant"), fbw)
        return y[rise: len(y) - rise]
    return ref_apply(np.pad(x, pad), fbw)


def ref_buffers(x: np.ndarray, mod: np.ndarray, tr: int):
    """The rule written in calc_modulation_buffer: compare the zero-padded input with the modulated
    samples; start buffer = up to the last start-region sample within the allowed difference, end
    buffer = one past the last end-region sample above it.  Third value: distance of the closest
    sample to the threshold (a comparison is skipped when two FFTs could disagree on it)."""
    d = np.abs(np.pad(np.asarray(x, dtype=float), tr) - mod)
    below = d <= MAX_ALLOWED_DIFF
    idx = np.flatnonzero(below[:tr])
    start = tr - int(idx[-1]) - 1 if idx.size else tr
    above = np.flatnonzero(~below[len(d) - tr:]) if tr else np.zeros(0)
    end = int(above[-1]) + 1 if above.size else 0
    region = np.concatenate([d[:tr], d[len(d) - tr:]]) if tr else np.zeros(0)
    margin = float(np.min(np.abs(region - MAX_ALLOWED_DIFF))) if region.size else 1.0
    return start, end, margin


def ref_fall(amp: np.ndarray, det: np.ndarray, fbw, tr: int):
    """Pulse.fall_time as documented: one rise time + the larger end buffer of amplitude and detuning."""
    ends, margin = [], 1.0
    for x in (amp, det):
        _, e, m = ref_buffers(x, ref_modulate(x, fbw, tr, tr, False), tr)
        ends.append(e)
        margin = min(margin, m)
    return tr + max(ends), margin


def real_arr(a) -> np.ndarray:
    return np.asarray(a.as_array(detach=True) if hasattr(a, "as_array") else a, dtype=float)


# --------------------------------------------------------------------------
# cases
# --------------------------------------------------------------------------
def run_apply(drv, case):
    """Channel.apply_modulation: linearity, integral, bounds; model dft and conv readings."""
    from pulser.channels.base_channel import Channel

    bw = case["bw"]
    x = signal(case["x"])
    y = signal(case["y"])[: len(x)] if "y" in case else None
    fails = []
    if not np.all(np.isfinite(x)) or len(x) == 0:
        return fails, None, False
    out = real_arr(Channel.apply_modulation(x, bw))
    sc = float(np.max(np.abs(x))) or 1.0
    if len(out) != len(x):
        fails.append(Fail("apply-length", f"apply_modulation changes the length {len(x)} -> {len(out)}"))
        return fails, None, True
    # integral (DC gain 1)
    if abs(np.sum(out) - np.sum(x)) > 1e-9 * max(float(np.sum(np.abs(x))), 1e-300):
        fails.append(Fail("integral", f"sum {np.sum(x)} -> {np.sum(out)} (bw {bw}, n {len(x)})"))
    # linearity
    if y is not None and len(y) == len(x) and np.all(np.isfinite(y)):
        a, b = case.get("a", 2.0), case.get("b", -0.75)
        lhs = real_arr(Channel.apply_modulation(a * x + b * y, bw))
        rhs = a * out + b * real_arr(Channel.apply_modulation(y, bw))
        if not allclose(lhs, rhs, 1e-9, max(sc, float(np.max(np.abs(y))) or 1.0) * (abs(a) + abs(b))):
            fails.append(Fail("linearity", f"|F(ax+by) - aF(x) - bF(y)| = {np.max(np.abs(lhs - rhs))}"))
    # bounds up to the ripple: for a unit-sum kernel h with negative lobes of total weight L = sum(-h[h<0]) every
    # output lies within [min x - L*span, max x + L*span], span = max x - min x (exact, by linearity); L is taken
    # from the DOCUMENTED filter's response to a unit impulse of this length
    imp = np.zeros(len(x)); imp[0] = 1.0
    h = ref_apply(imp, bw)
    lobes = float(np.sum(-h[h < 0]))
    rp = lobes * float(np.max(x) - np.min(x)) / sc + 1e-9
    if np.min(x) >= 0:
        RIPPLE_SEEN[str(bw)] = max(RIPPLE_SEEN.get(str(bw), 0.0), float(-np.min(out)) / sc,
                                   float(np.max(out) - np.max(x)) / sc)
    # (float tolerance 1e-9 of the input maximum; an excess within the ripple envelope of the truncated
    # Gaussian — see `ripple` — is the known finding F14.5, anything beyond it is not)
    if np.min(x) >= 0 and np.min(out) < -1e-9 * sc:
        fails.append(Fail("non-negative", f"min output {np.min(out)} from non-negative input (bw {bw}, ripple "
                          f"envelope {rp * sc})", dict(within_ripple_envelope=bool(np.min(out) >= -rp * sc))))
    if np.max(out) > np.max(x) + 1e-9 * sc and np.max(x) >= 0:
        fails.append(Fail("max-bound", f"max output {np.max(out)} > max input {np.max(x)} (bw {bw}, ripple "
                          f"envelope {rp * sc})", dict(within_ripple_envelope=bool(np.max(out) <= np.max(x) + rp * sc))))
    div = None
    if drv is not None and len(x) <= MAX_N:
        for how in ("dft", "conv"):
            m = decl(drv.ask(f"apply {how} {enc(bw)} {encl(x)}").split()[1])
            if not allclose(m, out, TOL, sc):
                div = f"apply_modulation ({how} reading): model differs by {np.max(np.abs(m - out))}"
                break
    return fails, div, True


def run_tone(drv, case):
    """A tone at exactly the modulation bandwidth comes out with half its amplitude."""
    from pulser.channels.base_channel import Channel

    bw, n, ph = case["bw"], case["n"], case.get("phase", 0.0)
    cycles = bw * 1e-3 * n
    if abs(cycles - round(cycles)) > 1e-9 or round(cycles) * 2 >= n:
        return [], None, False
    t = np.arange(n)
    x = np.cos(2 * np.pi * round(cycles) * t / n + ph)
    out = real_arr(Channel.apply_modulation(x, bw))
    fails = []
    if not allclose(out, 0.5 * x, 1e-9, 1.0):
        fails.append(Fail("half-gain", f"tone at {bw} MHz: output/input amplitude "
                                       f"{np.max(np.abs(out)) / np.max(np.abs(x))} (n={n})"))
    div = None
    if drv is not None and n <= 700:
        m = decl(drv.ask(f"apply dft {enc(bw)} {encl(x)}").split()[1])
        if not allclose(m, out, TOL, 1.0):
            div = f"tone: model differs by {np.max(np.abs(m - out))}"
    return fails, div, True


def run_chmod(drv, case):
    """Channel.modulate: output length = input + 2 padding (one rise time at each end)."""
    bw, eom_bw, keep, eom = case["bw"], case.get("eom_bw"), case["keep"], case.get("eom", False)
    ch = channel(bw, eom_bw)
    x = signal(case["x"])
    fails = []
    if not np.all(np.isfinite(x)):
        return fails, None, False
    tr = rise_of(bw)
    pad = rise_of(eom_bw) if eom else tr
    if ch.rise_time != tr or (eom_bw and ch.eom_config.rise_time != rise_of(eom_bw)):
        fails.append(Fail("rise-time-formula", f"rise_time {ch.rise_time} (EOM "
                          f"{ch.eom_config.rise_time if eom_bw else None}) but int(0.48/bw*1e3) = {tr} "
                          f"(EOM {rise_of(eom_bw) if eom_bw else None}) for bw {bw} / {eom_bw}"))
    if bw and tr < 1:
        fails.append(Fail("rise-time-positive", f"mod_bandwidth {bw} gives rise_time {tr}"))
    if bw and 1.0 <= bw <= 100 and case.get("physical_rise"):
        # "one rise time": the documented 10 % -> 90 % response time to a step, measured on the output
        from pulser.channels.base_channel import Channel
        L = 8 * tr
        step = np.concatenate([np.zeros(L), np.ones(L)])
        resp = real_arr(Channel.apply_modulation(step, bw))[L // 2: L + L // 2]
        t10 = np.interp(0.1, resp, np.arange(len(resp)))
        t90 = np.interp(0.9, resp, np.arange(len(resp)))
        if abs((t90 - t10) - tr) > max(1.5, 0.02 * tr):
            fails.append(Fail("rise-time-physical", f"bw {bw}: measured 10-90 % rise {t90 - t10:.2f} ns, rise_time {tr}"))
    try:
        with warnings.catch_warnings():
            warnings.simplefilter("ignore")
            out = real_arr(ch.modulate(x, keep_ends=keep, eom=eom))
        real = ("ok", out)
    except ValueError as e:
        real = ("err", str(e))
    if real[0] == "err":
        if len(x) == 0 and keep and "empty axis" in real[1]:
            fails.append(Fail("modulate-empty", f"Channel.modulate([], keep_ends=True) raises: {real[1][:60]}",
                              dict(keep_ends=True)))
        else:
            fails.append(Fail("modulate-raises", f"Channel.modulate raises {real[1][:80]}"))
    else:
        want = len(x) + 2 * pad if (bw or eom) else len(x)
        if len(out) != want:
            fails.append(Fail("modulate-length", f"{len(x)} samples -> {len(out)}, expected {want} "
                                                 f"(rise {tr}, padding {pad}, keep_ends {keep})"))
        elif not keep and (bw or eom) and len(x):
            if abs(np.sum(out) - np.sum(x)) > 1e-9 * max(float(np.sum(np.abs(x))), 1e-300):
                fails.append(Fail("integral", f"Channel.modulate: sum {np.sum(x)} -> {np.sum(out)}"))
        ref = ref_modulate(x, (eom_bw if eom else bw), pad, tr, keep)
        if len(ref) == len(out) and not allclose(out, ref, TOL, (float(np.max(np.abs(x))) if len(x) else 1.0) or 1.0):
            fails.append(Fail("modulate-values", f"Channel.modulate differs from the documented filter by "
                                                 f"{np.max(np.abs(out - ref))} (bw {bw}, eom {eom}, keep_ends {keep})"))
    div = None
    padded = len(x) + 2 * (pad + (tr if keep else 0))
    if drv is not None and padded <= MAX_N:
        fbw = eom_bw if eom else (bw or 1.0)
        r = drv.ask(f"chmod {int(bool(bw) or eom)} {tr} {pad} {int(keep)} {enc(fbw)} {encl(x)}")
        if r == "err":
            div = None if real[0] == "err" else "model: padEdge [] error, real returns"
        elif real[0] == "err":
            div = f"model returns, real raises {real[1][:60]}"
        else:
            m = decl(r.split()[1])
            sc = float(np.max(np.abs(x))) if len(x) else 1.0
            if len(m) != len(real[1]) or not allclose(m, real[1], TOL, sc or 1.0):
                div = (f"Channel.modulate: model length {len(m)} vs {len(real[1])}"
                       + (f", differs by {np.max(np.abs(m - real[1]))}" if len(m) == len(real[1]) else ""))
    return fails, div, real[0] == "ok" and len(x) > 0


def run_wfmod(drv, case):
    """Waveform.modulated_samples / modulation_buffers: trimming arithmetic; buffers within a rise time."""
    ch = channel(case["bw"], case.get("eom_bw"))
    eom = case.get("eom", False)
    with warnings.catch_warnings():
        warnings.simplefilter("ignore")
        try:
            w = W16.build(case["wf"])
        except (ValueError, TypeError):
            return [], None, False
        if not W16.finite(w):
            return [], None, False
        tr_buf = rise_of(case["eom_bw"]) if eom else rise_of(case["bw"])
        x = W16.arr(w)
        n_in = len(x)
        prior_use(case, w)
        fbw = case["eom_bw"] if eom else case["bw"]
        got_buf = tuple(int(v) for v in w.modulation_buffers(ch, eom=eom))
        got_full = real_arr(w._modulated_samples(ch, eom=eom))
        fails = []
        # expected values: the documented filter and buffer rule, recomputed here
        full = ref_modulate(x, fbw, tr_buf, rise_of(case["bw"]), False)
        start, end, margin = ref_buffers(x, full, tr_buf)
        if len(got_full) != len(full) or not allclose(got_full, full, TOL, float(np.max(np.abs(x))) or 1.0):
            fails.append(Fail("modulate-values", f"Waveform._modulated_samples differs from the documented filter "
                                                 f"(length {len(got_full)} vs {len(full)})", dict(eom=bool(eom))))
            return fails, None, True
        if margin > 1e-7 and got_buf != (start, end):
            fails.append(Fail("buffers-rule", f"modulation_buffers {got_buf}, documented rule gives ({start},{end}) "
                                              f"(rise {tr_buf}{', eom' if eom else ''})", dict(eom=bool(eom))))
        if margin <= 1e-7:
            start, end = got_buf        # a sample sits on the threshold: either reading is acceptable
        if not (0 <= got_buf[0] <= tr_buf and 0 <= got_buf[1] <= tr_buf):
            fails.append(Fail("buffers-range", f"modulation buffers {got_buf} outside [0, {tr_buf}]"))
        # the documented trimming, in the mode asked for: buffers and rise time of the EOM when eom=True
        tr = tr_buf
        out = real_arr(w.modulated_samples(ch, eom=eom))
        key = dict(eom=bool(eom))
        # property level, independent of the helpers: the output extends the signal (never shorter than the
        # input, at most one rise time more at each end)
        if not (n_in <= len(out) <= n_in + 2 * tr):
            fails.append(Fail("modulated-samples-extent",
                              f"{n_in} input samples -> {len(out)} modulated samples "
                              f"(rise time {tr}{', eom' if eom else ''}; channel rise time {rise_of(case['bw'])})", key))
        # "preserves the integral" is a statement about modulate(): the untrimmed modulated samples sum to
        # the input in either mode.  Nothing of the kind is claimed (or true) of the trimmed samples: the
        # FFT is circular, so the end tail beyond one rise time re-enters at the start of the window and is
        # legitimately dropped with the start region (e.g. a ramp ending at 39 rad/us at 40 MHz: 0.30 in
        # six dropped samples of up to 0.15 each).
        if abs(float(np.sum(full)) - float(np.sum(x))) > 1e-9 * max(float(np.sum(np.abs(x))), 1e-300):
            fails.append(Fail("integral", f"Waveform._modulated_samples: sum {float(np.sum(x))} -> "
                                          f"{float(np.sum(full))}{' (eom)' if eom else ''}", key))
        if len(out) != n_in + start + end:
            fails.append(Fail("modulated-samples-length",
                              f"{n_in} + buffers ({start},{end}) -> {len(out)}{' (eom)' if eom else ''}", key))
        elif not allclose(out, full[tr - start: len(full) - tr + end], TOL, float(np.max(np.abs(x))) or 1.0):
            fails.append(Fail("modulated-samples-trim", "modulated_samples is not the documented slice", key))
    div = None
    if drv is not None and len(full) <= MAX_N and not fails:
        m = decl(drv.ask(f"trim {tr} {start} {end} {encl(got_full)}").split()[1])
        if not np.array_equal(m, out):
            div = f"trimModulated: model length {len(m)}, real {len(out)}"
    return fails, div, True


def run_pulse(drv, case):
    """Beyond the accounted fall time the modulated output of an isolated pulse stays below
    max(0.01, 0.6 % of its peak); fall time <= 2 rise times (hypothesis A1 of the theorems)."""
    from pulser import Pulse

    ch = channel(case["bw"], case.get("eom_bw"))
    eom = case.get("eom", False)
    with warnings.catch_warnings():
        warnings.simplefilter("ignore")
        try:
            amp, det = W16.build(case["amp"]), W16.build(case["det"])
            if not (W16.finite(amp) and W16.finite(det)):
                return [], None, False
            p = Pulse(amp, det, case.get("phase", 0.0))
        except (ValueError, TypeError):
            return [], None, False
        fbw = case["eom_bw"] if eom else case["bw"]
        tr = rise_of(fbw)
        prior_use(case, amp, det)
        fall = int(p.fall_time(ch, in_eom_mode=eom))           # the observable under test
        fails = []
        if not (tr <= fall <= 2 * tr):
            fails.append(Fail("fall-time-range", f"fall_time {fall} outside [rise, 2 rise] = [{tr}, {2 * tr}]"))
        want_fall, margin = ref_fall(W16.arr(amp), W16.arr(det), fbw, tr)
        if margin > 1e-7 and fall != want_fall:
            fails.append(Fail("fall-time-rule", f"fall_time {fall}, documented rule (rise time + larger end buffer of "
                                                f"amplitude and detuning) gives {want_fall}", dict(eom=bool(eom))))
        n = len(W16.arr(amp))
        for name, w in (("amplitude", amp), ("detuning", det)):
            # the residual is read on the documented filter's output; input sample t sits at index t + tr
            out = ref_modulate(W16.arr(w), fbw, tr, rise_of(case["bw"]), False)
            peak = float(np.max(np.abs(out))) if len(out) else 0.0
            tail = out[n + fall:]
            bound = max(0.01, 0.006 * peak)
            # 5 % slack for the 1 ns grid; channels whose rise time 480/bw is truncated to whole ns are keyed apart
            if len(tail) and float(np.max(np.abs(tail))) > 1.05 * bound:
                fails.append(Fail("residual-beyond-fall-time",
                                  f"{name} {type(w).__name__}({n}) bw {case['bw']}{' eom' if eom else ''}: "
                                  f"|output| reaches {np.max(np.abs(tail))} after the fall time {fall} "
                                  f"(bound {bound}, peak {peak})",
                                  dict(sign_changing_input=bool(np.min(W16.arr(w)) < 0 < np.max(W16.arr(w))),
                                       rise_time_truncated=bool((480.0 / fbw) % 1 > 1e-9))))
            if p.get_full_duration(ch, in_eom_mode=eom) != n + fall:
                fails.append(Fail("full-duration", "get_full_duration != duration + fall_time"))
    return fails, None, True


# ---- sequences -----------------------------------------------------------
def build_seq(case):
    """A small sequence from a case: channels with bandwidths, a list of ops."""
    import pulser
    from pulser import Pulse

    reg = pulser.Register.from_coordinates([(0, 0), (7, 0), (0, 7)], prefix="q")
    objs, ids = [], []
    for i, c in enumerate(case["channels"]):
        objs.append(channel(c.get("bw"), c.get("eom_bw"), local=c.get("local", False), buffer=c.get("buffer")))
        ids.append(f"c{i}")
    dev = dataclasses.replace(pulser.devices.MockDevice, channel_objects=tuple(objs), channel_ids=tuple(ids))
    seq = pulser.Sequence(reg, dev)
    for i, c in enumerate(case["channels"]):
        if c.get("local"):
            seq.declare_channel(f"ch{i}", f"c{i}", initial_target="q0")
        else:
            seq.declare_channel(f"ch{i}", f"c{i}")
    applied = 0
    for op in case["ops"]:
        name = f"ch{op['ch']}"
        try:
            with warnings.catch_warnings():
                warnings.simplefilter("ignore")
                if op["op"] == "add":
                    p = Pulse(W16.build(op["amp"]), W16.build(op["det"]), op.get("phase", 0.0))
                    if not (W16.finite(p.amplitude) and W16.finite(p.detuning)):
                        continue
                    seq.add(p, name, protocol=op.get("protocol", "min-delay"))
                elif op["op"] == "delay":
                    seq.delay(op["d"], name)
                elif op["op"] == "target":
                    seq.target(op["q"], name)
                elif op["op"] == "eom_on":
                    seq.enable_eom_mode(name, amp_on=op["amp_on"], detuning_on=op["det_on"])
                elif op["op"] == "eom_pulse":
                    seq.add_eom_pulse(name, duration=op["d"], phase=op.get("phase", 0.0))
                elif op["op"] == "eom_off":
                    seq.disable_eom_mode(name)
                applied += 1
        except (ValueError, TypeError, RuntimeError):
            continue
    return seq, applied


def ref_channel_duration(sch):
    """(duration including fall time, bare duration, threshold margin) of one channel, from its
    instruction list: the end of the last instruction, or the end of the last pulse plus that
    pulse's documented fall time (EOM rise time and bandwidth while the channel is in EOM mode)
    if that is later."""
    from pulser import Pulse

    slots = list(sch.slots)
    if not slots:
        return 0, 0, 1.0
    dur = int(slots[-1].tf)
    ch = sch.channel_obj
    if not ch.mod_bandwidth:
        return dur, dur, 1.0
    in_eom = bool(sch.eom_blocks) and sch.eom_blocks[-1].tf is None
    fbw = ch.eom_config.mod_bandwidth if in_eom else ch.mod_bandwidth
    tr = rise_of(fbw)
    for sl in reversed(slots):
        if isinstance(sl.type, Pulse):
            fall, margin = ref_fall(W16.arr(sl.type.amplitude), W16.arr(sl.type.detuning), fbw, tr)
            return max(dur, int(sl.tf) + fall), dur, margin
    return dur, dur, 1.0


def run_seq(drv, case):
    """sample(seq, modulation=True) succeeds whenever plain sampling does; arrays end at the
    channel duration including fall time (or at extended_duration)."""
    from pulser.sampler import sample

    seq, applied = build_seq(case)
    ext = case.get("extended")
    fails = []
    with warnings.catch_warnings():
        warnings.simplefilter("ignore")
        try:
            plain = sample(seq, extended_duration=ext)
        except Exception:  # noqa: BLE001
            return [], None, False       # plain sampling itself fails (e.g. extended < duration): out of scope
        empty_bw = [n for n, s in seq._schedule.items()
                    if s.get_duration() == 0 and s.channel_obj.mod_bandwidth and not ext]
        try:
            mod = sample(seq, modulation=True, extended_duration=ext)
        except Exception as e:  # noqa: BLE001
            key = dict(empty_channel=bool(empty_bw), error=type(e).__name__)
            fails.append(Fail("modulated-sampling-raises",
                              f"sample(seq, modulation=True) raises {type(e).__name__}: {str(e)[:70]} while plain "
                              f"sampling succeeds (empty channels with bandwidth: {empty_bw})", key))
            mod = None
        div = None
        if mod is not None:
            for name, sch in seq._schedule.items():
                cs = mod.channel_samples[name]
                ch = sch.channel_obj
                dwf_ref, dur_ref, dmargin = ref_channel_duration(sch)
                want = ext or dwf_ref
                if dmargin > 1e-7 and sch.get_duration(include_fall_time=True) != dwf_ref:
                    fails.append(Fail("duration-with-fall-rule",
                                      f"channel {name}: get_duration(include_fall_time=True) = "
                                      f"{sch.get_duration(include_fall_time=True)}, end of the last instruction / last "
                                      f"pulse + documented fall time = {dwf_ref}", dict(eom=bool(sch.eom_blocks))))
                if dmargin <= 1e-7:
                    want = ext or sch.get_duration(include_fall_time=True)
                lens = (len(cs.amp), len(cs.det), len(cs.phase))
                if lens != (want,) * 3:
                    fails.append(Fail("modulated-sampling-length",
                                      f"channel {name}: arrays {lens}, duration incl. fall time {want}",
                                      dict(eom=bool(sch.eom_blocks))))
                dur, dwf = dur_ref, (want if not ext else dwf_ref)
                cbw = ch.mod_bandwidth
                ebw = ch.eom_config.mod_bandwidth if ch.eom_config else None
                if not (dur <= dwf <= dur + 2 * max(rise_of(cbw), rise_of(ebw))):
                    fails.append(Fail("fall-time-range", f"channel {name}: duration {dur}, with fall time {dwf}, "
                                                         f"rise {rise_of(cbw)}"))
                if drv is not None and not sch.eom_blocks and not fails:
                    pcs = plain.channel_samples[name]
                    pa, pd, pp = real_arr(pcs.amp), real_arr(pcs.det), real_arr(pcs.phase)
                    if ext:                         # the model extends itself; hand it the un-extended arrays
                        raw = sample(seq).channel_samples[name]
                        pa, pd, pp = real_arr(raw.amp), real_arr(raw.det), real_arr(raw.phase)
                    tr = rise_of(ch.mod_bandwidth)
                    if len(pa) + 4 * tr + (ext or 0) <= MAX_N:
                        r = drv.ask(f"sample {int(bool(ch.mod_bandwidth))} {tr} {tr} 1 {ext or 0} {dwf} "
                                    f"{enc(ch.mod_bandwidth or 1.0)} {encl(pa)} {encl(pd)} {encl(pp)}")
                        if r == "err":
                            div = f"channel {name}: model fails, real succeeds"
                        else:
                            _, ma, md, mp = r.split()
                            for nm, m, x in (("amp", decl(ma), real_arr(cs.amp)), ("det", decl(md), real_arr(cs.det)),
                                             ("phase", decl(mp), real_arr(cs.phase))):
                                sc = max(1.0, float(np.max(np.abs(x))) if len(x) else 1.0)
                                if len(m) != len(x) or not allclose(m, x, TOL, sc):
                                    div = f"channel {name} {nm}: model length {len(m)} vs {len(x)}" + (
                                        f", differs by {np.max(np.abs(m - x))}" if len(m) == len(x) else "")
        elif drv is not None and empty_bw:
            # the model must fail exactly there too
            sch = seq._schedule[empty_bw[0]]
            tr = rise_of(sch.channel_obj.mod_bandwidth)
            r = drv.ask(f"sample 1 {tr} {tr} 1 0 0 {enc(sch.channel_obj.mod_bandwidth)} [] [] []")
            if r != "err":
                div = "model samples the empty channel, real raises"
    return fails, div, applied > 0


RUNNERS = dict(apply=run_apply, tone=run_tone, chmod=run_chmod, wfmod=run_wfmod, pulse=run_pulse, seq=run_seq)


def run_case(drv, case):
    with warnings.catch_warnings():
        warnings.simplefilter("ignore")
        with np.errstate(all="ignore"):
            try:
                return RUNNERS[case["k"]](drv, case)
            except Skip:
                return [], None, False
            except InfraError:
                raise
            except Exception as e:  # noqa: BLE001  -- the code under test raised where the property promises a value
                import traceback
                where = [f for f in traceback.extract_tb(e.__traceback__) if "/pulser" in f.filename]
                loc = f"{Path(where[-1].filename).name}:{where[-1].name}" if where else "harness"
                if not where:
                    raise
                return [Fail("real-code-raises", f"{type(e).__name__}: {str(e)[:100]} in {loc}",
                             dict(kind=case["k"], error=type(e).__name__))], None, True


# --------------------------------------------------------------------------
# generators
# --------------------------------------------------------------------------
BWS = [1.0, 2.0, 4.0, 5.0, 10.0, 20.0, 40.0, 80.0, 100.0, 150.0, 200.0, 300.0, 400.0, 479.0, 480.0]
TONE = {1.0: [1000, 3000], 2.0: [500, 1500], 4.0: [250, 1000], 5.0: [200, 1400], 8.0: [125, 1250], 10.0: [100, 700],
        20.0: [50, 350], 25.0: [40, 1000], 40.0: [25, 425], 50.0: [20, 500], 100.0: [10, 330], 125.0: [8, 808],
        200.0: [5, 125], 250.0: [4, 404], 400.0: [5, 45]}
CLASSES = ["const", "ramp", "custom", "blackman", "kaiser", "interp", "composite"]


def nonneg_spec(rng, cls, d):
    return W16.make_nonneg(W16.gen_spec(rng, cls, d))


def gen_signal(rng, n, nonneg=False):
    r = rng.random()
    if r < 0.6:
        cls = rng.choice(CLASSES)
        d = max(n, 6) if cls == "interp" else n
        s = W16.gen_spec(rng, cls, d)
        return W16.make_nonneg(s) if nonneg else s
    if r < 0.85:
        lo = 0.0 if nonneg else -rng.choice([1.0, 10.0, 50.0])
        return dict(sig="noise", n=n, seed=rng.randrange(10 ** 6), lo=lo, hi=rng.choice([1.0, 10.0, 50.0]))
    return dict(sig="spike", n=n, at=rng.randrange(n), v=rng.choice([1.0, 25.0]) * (1 if nonneg else rng.choice([1, -1])))


def gen_seq_case(rng):
    nch = rng.randrange(1, 4)
    chans = []
    for _ in range(nch):
        bw = rng.choice([None, 2.0, 4.0, 10.0, 40.0, 100.0, 480.0])
        eom = rng.choice([None, None, 20.0, 40.0, 100.0]) if bw else None
        chans.append(dict(bw=bw, eom_bw=eom, local=rng.random() < 0.3))
        if eom and rng.random() < 0.4:
            chans[-1]["buffer"] = rng.choice([1, 2, 3, 7, 40, 240])     # custom_buffer_time of the EOM
    ops = []
    for _ in range(rng.randrange(0, 7)):
        ch = rng.randrange(nch)
        r = rng.random()
        d = rng.choice([1, 2, 3, 7, 16, 40, 100, 257])
        if r < 0.6:
            ops.append(dict(op="add", ch=ch, amp=nonneg_spec(rng, rng.choice(CLASSES), max(d, 6) if d > 3 else d),
                            det=None, phase=rng.choice([0.0, 1.0, 3.5]),
                            protocol=rng.choice(["min-delay", "min-delay", "no-delay", "wait-for-all"])))
            a = ops[-1]["amp"]
            dd = W16.case_duration(dict(k="wf", wf=a))
            ops[-1]["det"] = W16.gen_spec(rng, rng.choice(["const", "ramp", "custom"]), dd)
        elif r < 0.75:
            ops.append(dict(op="delay", ch=ch, d=rng.choice([1, 16, 100, 500])))
        elif r < 0.82:
            ops.append(dict(op="target", ch=ch, q=rng.choice(["q0", "q1", "q2"])))
        elif r < 0.9:
            ops.append(dict(op="eom_on", ch=ch, amp_on=rng.choice([1.0, 5.0]), det_on=rng.choice([0.0, -3.0])))
            for _ in range(rng.randrange(0, 3)):
                ops.append(dict(op="eom_pulse", ch=ch, d=rng.choice([16, 100, 200]), phase=rng.choice([0.0, 1.0])))
            if rng.random() < 0.7:
                ops.append(dict(op="eom_off", ch=ch))
        else:
            ops.append(dict(op="eom_pulse", ch=ch, d=100))
    c = dict(k="seq", channels=chans, ops=ops)
    if rng.random() < 0.15:
        c["extended"] = rng.choice([1, 100, 1000, 3000])
    return c


def gen_cases(rng, tier):
    thorough = tier == "thorough"
    mult = 1 if not thorough else 6
    # half gain at the bandwidth: exact FFT bins
    for bw, ns in TONE.items():
        for n in ns:
            for ph in (0.0, 0.7):
                yield dict(k="tone", bw=bw, n=n, phase=ph)
    # filter laws: all signal kinds x bandwidths x lengths
    for bw in BWS:
        for n in [1, 2, 3, 5, 16, 40, 101, 400] + ([1200] if bw in (4.0, 100.0) else []):
            for _ in range(mult):
                nonneg = rng.random() < 0.6
                yield dict(k="apply", bw=bw, x=gen_signal(rng, n, nonneg), y=gen_signal(rng, n),
                           a=rng.choice([2.0, -1.0, 0.5, 3.25]), b=rng.choice([-0.75, 1.0, 10.0]))
    # Channel.modulate: lengths (one rise time at each end), keep_ends, eom, no bandwidth, empty input
    for bw in [None] + BWS:
        for keep in (False, True):
            for n in (0, 1, 2, 7, 40, 200):
                x = dict(sig="empty") if n == 0 else gen_signal(rng, n)
                yield dict(k="chmod", bw=bw, keep=keep, x=x, physical_rise=(n == 7 and not keep))
            if bw and bw <= 100:
                for eom_bw in (20.0, 40.0, 300.0):
                    yield dict(k="chmod", bw=bw, eom_bw=eom_bw, eom=True, keep=keep, x=gen_signal(rng, rng.choice([1, 9, 60])))
    # rise time >= 1 on the whole admissible range (boundary lattice near 480 MHz)
    for bw in (479.9, 479.99999, float(np.nextafter(480.0, 0)), 480.0, 320.1, 240.0, 240.1, 0.5):
        yield dict(k="chmod", bw=bw, keep=True, x=dict(c="const", d=3, v=1.0))
    # Waveform.modulated_samples / buffers; residual beyond the fall time: classes x bandwidths x durations
    durs = [1, 2, 3, 4, 7, 16, 40, 100, 257, 1000]
    for bw in [2.0, 4.0, 10.0, 40.0, 100.0, 200.0, 480.0]:
        for d in durs:
            for cls in CLASSES:
                if cls == "interp" and d < 6:
                    continue
                for _ in range(mult):
                    # EOM bandwidths both slower and faster than the channel's
                    eom_bw = rng.choice([None, None, 3.0, 20.0, 40.0, 150.0])
                    eom = bool(eom_bw) and rng.random() < 0.6
                    amp = nonneg_spec(rng, cls, d)
                    # a third of the EOM cases reuse waveforms already modulated on a channel with another EOM
                    prior = ({"prior_eom_bw": rng.choice([b for b in (3.0, 20.0, 40.0, 150.0) if b != eom_bw])}
                             if eom_bw and rng.random() < 0.35 else {})
                    yield dict(k="wfmod", bw=bw, eom_bw=eom_bw, eom=eom, wf=W16.gen_spec(rng, cls, d), **prior)
                    yield dict(k="pulse", bw=bw, eom_bw=eom_bw, eom=eom, amp=amp,
                               det=W16.gen_spec(rng, rng.choice(["const", "ramp", "custom", "blackman"]), d), **prior)
    # asymmetric detunings of moderate size (start and end buffers differ; large values would hide the
    # difference behind the circular wrap-around) under amplitudes with a short tail of their own
    for bw, eom_bw in ((2.0, None), (4.0, None), (10.0, None), (40.0, None), (4.0, 40.0), (10.0, 100.0)):
        for d in (100, 400):
            for v in (0.3, -1.0, 1.5):
                for a, b in ((0.0, v), (v, 0.0)):
                    amp = rng.choice([dict(c="const", d=d, v=0.0), dict(c="blackman", d=d, area=0.05)])
                    yield dict(k="pulse", bw=bw, eom_bw=eom_bw, eom=bool(eom_bw), amp=amp,
                               det=dict(c="ramp", d=d, a=a, b=b))
    # sequences
    for _ in range(160 * mult):
        yield gen_seq_case(rng)


# --------------------------------------------------------------------------
# shrinking
# --------------------------------------------------------------------------
def case_candidates(case):
    k = case["k"]
    if k == "seq":
        ops = case["ops"]
        for i in range(len(ops)):
            yield dict(case, ops=ops[:i] + ops[i + 1:])
        chans = case["channels"]
        if len(chans) > 1:
            for i in range(len(chans)):
                keep = [o for o in ops if o["ch"] != i]
                yield dict(case, channels=chans[:i] + chans[i + 1:],
                           ops=[dict(o, ch=o["ch"] - (1 if o["ch"] > i else 0)) for o in keep])
        for i, c in enumerate(chans):
            for fld, v in (("eom_bw", None), ("local", False), ("bw", 4.0)):
                if c.get(fld) != v and not (fld == "bw" and c.get("bw") is None):
                    yield dict(case, channels=chans[:i] + [dict(c, **{fld: v})] + chans[i + 1:])
        if case.get("extended"):
            yield {kk: vv for kk, vv in case.items() if kk != "extended"}
        return
    for fld in ("x", "y", "wf", "amp", "det"):
        if isinstance(case.get(fld), dict) and "c" in case[fld]:
            for s in W16.spec_candidates(case[fld]):
                c2 = dict(case, **{fld: s})
                if k == "pulse" and fld in ("amp", "det") and "d" in s:
                    other = "det" if fld == "amp" else "amp"
                    c2[other] = dict(c="const", d=s["d"], v=1.0)
                yield c2
    if case.get("eom"):
        yield dict(case, eom=False)
    if case.get("bw") not in (None, 4.0, 100.0):
        yield dict(case, bw=4.0)


def shrink(case, pred, budget=150):
    cur, progress = case, True
    while progress and budget > 0:
        progress = False
        for cand in case_candidates(cur):
            budget -= 1
            if budget <= 0:
                break
            try:
                ok = pred(cand)
            except Exception:  # noqa: BLE001
                ok = False
            if ok:
                cur, progress = cand, True
                break
    return cur


# --------------------------------------------------------------------------
# orchestration
# --------------------------------------------------------------------------
def lean_obligations():
    ok, out = common.lake_build(LEAN_TARGETS)
    if not ok:
        raise InfraError("lake build failed (hand-written files):\n" + out[-3000:])
    thms = common.property_theorems(PROP)
    bad = [h for h in common.lean_forbidden_tokens()
           if h.split(":")[0] in ("PulserModel/Modulation.lean", "Proofs/Modulation.lean", "Properties/C14.lean",
                                  "Driver/ModMain.lean")]
    if bad:
        raise InfraError("forbidden tokens in Lean sources: " + "; ".join(bad[:5]))
    axioms = common.audit_axioms(f"Properties.{PROP}", thms) if thms else {}
    offending = {t: axioms.get(t) for t in thms
                 if axioms.get(t) is None or not set(axioms[t]) <= common.ALLOWED_AXIOMS}
    if offending:
        raise InfraError(f"axiom audit failed: {offending}")
    return thms, axioms, len(thms) - len(offending)


def corpus_cases():
    d = common.CORPUS / PROP
    out = []
    if d.exists():
        for f in sorted(d.glob("*.json")):
            item = json.loads(f.read_text())
            for c in item.get("cases", [item] if "k" in item else []):
                out.append((f.name, c))
    return out


def case_class(case) -> str:
    k = case["k"]
    if k in ("apply", "chmod"):
        x = case["x"]
        return f"{k}:{x.get('c') or x.get('sig')}" + (":keep" if case.get("keep") else "") + (":eom" if case.get("eom") else "")
    if k == "wfmod":
        return f"wfmod:{case['wf']['c']}" + (":eom" if case.get("eom") else "")
    if k == "pulse":
        return f"pulse:{case['amp']['c']}" + (":eom" if case.get("eom") else "")
    if k == "seq":
        kinds = sorted({o["op"] for o in case["ops"]})
        return "seq:" + ("empty" if not kinds else "eom" if any(x.startswith("eom") for x in kinds) else "std")
    return k


def check(tier: str, seed: int) -> int:
    timer = Timer()
    thms, axioms, discharged = lean_obligations()
    rng = random.Random(f"{PROP}-{seed}")
    drv = Driver("pm_mod")
    findings = all_findings()
    kinds, bws, outcomes = collections.Counter(), collections.Counter(), collections.Counter()
    known_hits = collections.Counter()
    distinct, samples, violations, divergences, seen = set(), [], [], [], set()
    nontrivial = evaluations = 0

    def handle(case, origin):
        nonlocal evaluations, nontrivial
        evaluations += 1
        fails, div, nt = run_case(drv, case)
        cc = case_class(case)
        kinds[cc] += 1
        if "bw" in case:
            bws[str(case["bw"])] += 1
        canon = json.dumps(case, sort_keys=True)
        if canon not in distinct:
            distinct.add(canon)
            nontrivial += bool(nt)
        outcomes["nontrivial" if nt else "skipped/rejected"] += 1
        if len(samples) < 6 and nt and case["k"] not in {s["k"] for s in samples} and len(canon) < 700:
            samples.append(case)
        for f in fails:
            kf = match_known(PROP, f.key, findings)
            if kf is not None:
                known_hits[findings.index(kf)] += 1
                continue
            sig = json.dumps(f.key, sort_keys=True)
            if sig in seen:
                continue
            seen.add(sig)

            def pred(c, key=f.key):
                fs, _, _ = run_case(None, c)
                return any(x.key == key for x in fs)
            small = shrink(case, pred)
            fs2, _, _ = run_case(None, small)
            f2 = next((x for x in fs2 if x.key == f.key), f)
            violations.append(dict(property=PROP, kind="monitor", clause=f2.clause, message=f2.msg, key=f2.key,
                                   case=small, original=case, origin=origin))
        if div is not None and not fails:
            divergences.append(dict(case=case, why=div, origin=origin))

    for name, c in corpus_cases():
        handle(c, f"corpus/{name}")
    for c in gen_cases(rng, tier):
        handle(c, "generated")
    if divergences and not violations:
        d0 = divergences[0]
        before = len(violations)
        rng2 = random.Random(f"{PROP}-{seed}-search")
        extra = 0
        for c in gen_cases(rng2, tier):
            if c["k"] == d0["case"]["k"]:
                handle(c, "search")
                extra += 1
                if len(violations) > before or extra > (600 if tier == "quick" else 6000):
                    break
        if len(violations) == before:
            def dpred(c):
                _, dv, _ = run_case(drv, c)
                return dv is not None
            small = shrink(d0["case"], dpred, budget=60)
            _, why, _ = run_case(drv, small)
            violations.append(dict(property=PROP, kind="correspondence", no_failing_input_found=True,
                                   broken="model/implementation correspondence (lean/PulserModel/Modulation.lean, Float "
                                          f"instance, vs /repo): {why or d0['why']}",
                                   theorems=thms, case=small, original=d0["case"], n_divergent=len(divergences)))
    drv.close()
    ev = dict(
        property_id=PROP, tier=tier, seed=seed, level="other",
        coverage=dict(
            explanation="PARTIAL. Lean theorems (Properties/C14.lean) carry: linearity and DC gain of "
                        "ifft(fft(x)*m) over any field with a primitive root of unity (and of the circular-convolution "
                        "reading), non-negativity / max bound for a non-negative unit-sum kernel (hypothesis), the -3 dB "
                        "constant exp(-(bw e-3)^2/fc^2) = 1/2 over the reals, the integer length / padding / slicing "
                        "arithmetic of Channel.modulate, Waveform.modulated_samples, ChannelSamples.modulate and "
                        "sample(modulation=True), and success of modulated sampling on every channel, empty ones "
                        "included (the guarded edge padding of /repo d9bdcf58 is mirrored; modulate_empty_old "
                        "states what the unguarded code did, F14). The polymorphic model is run with Float (pm_mod, naive DFT) against "
                        "the real code to 1e-9; the ripple-dependent and fall-time clauses are validated numerically "
                        "by the monitor only (uncovered_clauses).",
            uncovered_clauses=UNCOVERED,
            obligations=len(thms), discharged=discharged, theorems=thms, axioms=axioms,
            checker_cmd="lake build " + " ".join(LEAN_TARGETS) + " && #print axioms (harness/common.py audit_axioms)",
            trusted_base=TRUSTED_BASE,
            evaluations=evaluations, distinct_nontrivial=nontrivial, traces_validated_against_impl=len(distinct),
            rule="cases = corpus + generator (tones on exact FFT bins at 15 bandwidths; filter laws on every waveform "
                 "class / noise / spikes x 15 bandwidths x lengths 1..1200; Channel.modulate lengths incl. keep_ends, "
                 "EOM, no bandwidth, empty input and the 480 MHz boundary; modulated_samples trimming and the "
                 "fall-time residual for 7 waveform classes x 7 bandwidths x 10 durations, std and EOM; random "
                 "sequences on 1-3 channels incl. empty channels, EOM blocks and extended_duration). distinct = "
                 "distinct JSON case; non-trivial = the real code produced an output that was compared (not a "
                 "rejected constructor, a skipped non-finite waveform or a sequence without any applied operation)",
            samples=samples, case_histogram=dict(kinds), bandwidth_histogram=dict(bws),
            measured_ripple_by_bandwidth={k: float(f"{v:.3g}") for k, v in sorted(RIPPLE_SEEN.items(), key=lambda kv: float(kv[0]))},
            outcome_histogram=dict(outcomes), divergences=len(divergences),
            known_findings_hit={findings[i]["id"]: n for i, n in known_hits.items()},
            tolerances=dict(model_vs_impl_rel=TOL, linearity_rel=1e-9, integral_rel=1e-9,
                            ripple="1e-9 + 0.1*exp(-0.25/fc^2) of the input maximum", half_gain_abs=1e-9,
                            residual="1.05 * max(0.01, 0.006*peak of the modulated output)"),
            repo_fingerprint=common.repo_fingerprint(),
        ),
        assumptions=TRUSTED_BASE,
        wall_s=timer.s(), violations=len(violations),
    )
    write_evidence(PROP, ev)
    for idx, n in known_hits.items():
        print(f"KNOWN-FINDING: property={PROP} {findings[idx]['what']} (hit {n}x)")
    if violations:
        for v in violations:
            p = write_replay(PROP, v)
            tail = " no-failing-input-found" if v.get("no_failing_input_found") else ""
            print(f"VIOLATION property={PROP} replay={p}{tail}")
        return 1
    print(f"OK property={PROP} tier={tier} theorems={discharged}/{len(thms)} cases={evaluations} "
          f"distinct_nontrivial={nontrivial} wall={timer.s()}s")
    return 0


def replay(path: str) -> int:
    item = json.loads(Path(path).read_text())
    cases = item.get("cases") or [item["case"] if "case" in item else item]
    drv = Driver("pm_mod")
    findings = all_findings()
    bad = False
    for c in cases:
        fails, div, _ = run_case(drv, c)
        print(f"case {json.dumps(c)[:300]}")
        for f in fails:
            kf = match_known(PROP, f.key, findings)
            print(f"  monitor: {f.clause}: {f.msg}" + (f"  [known finding {kf['id']}]" if kf else ""))
            bad = bad or kf is None
        if div:
            print(f"  model/implementation divergence: {div}")
            bad = True
        if not fails and not div:
            print("  holds (monitor and correspondence)")
    drv.close()
    if bad:
        print(f"VIOLATION property={PROP} replay={path}")
        return 1
    print("replay: property holds on this case")
    return 0
