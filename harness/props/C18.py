"""C18 — switching device or register preserves the program.

  1. translator tie: harness/tables_c18.py re-extracts (ast) the parameters compared by
     `check_channels_match` from the live `_switch_device.py` into
     lean/PulserModel/Generated/StrictParams.lean; `lake build` re-checks the `decide` obligations of
     lean/Properties/C18.lean over it (strict_sound, guards, check_retarget text, sample checks, renamed
     calls).  A failure located in such an obligation, or a table that cannot be extracted, is a
     *broken tie*: the monitor below searches harder for a failing input.
  2. proof obligations: PulserModel.Switch / Proofs.Switch / Properties.C18 + axiom audit.
  3. monitor on the real code (no model): generated sequences (gen.HistoryGen on a generated device,
     only successful calls kept) x new devices derived from the original *spec* by an edit list that
     changes each single channel / EOM / DMM / device parameter, random subsets, channel order, channel
     ids, duplicated channels, DMM order, reusability; for every pair
        strict=True : switch_device raises OR the result has the identical timeline (slots, pulses,
                      targets, EOM blocks, phase references) and identical `sample()` arrays;
        strict=False: it raises OR every scheduled instruction satisfies every limit of the new device,
                      the replayed call list is the original's up to channel ids and every declared
                      channel sits on a device channel of the same type/basis/addressing;
     and switch_register to registers with the same qubit ids (same / moved coordinates, other order)
     or a superset -> identical timeline, same calls.
  4. failures are shrunk (ops, then the edit list down to single fields, then the difference between
     each declared channel's old and new device channel) and keyed {"clause": ..., "param": ...}: `param`
     names the *timing* parameters (Switch.timingFields; limit-only parameters cannot matter by
     Properties/C18.lean timing_congr) in which a declared channel's old and new device channel differ —
     the search may have matched another channel than the edited one.  `eom_samples_close` re-evaluates
     the code's own post-replay criterion, `cause` tells a renamed DMM channel from a parameter difference.
  5. corpus/C18: the reproducers of the findings, with the instruction times that the Lean theorems
     `f5_values` / `dmm_rename_values` state for the model (`expect`), compared with the real run.
"""
from __future__ import annotations

import collections
import copy
import dataclasses
import json
import random
import re
import warnings
from pathlib import Path

import numpy as np

import common
from common import InfraError, Timer, load_known_findings, match_known, write_evidence, write_replay
import tables_c18 as tb
from gen import BANDWIDTHS, CLOCKS, MIN_DURS, HistoryGen, gen_channel, gen_device, gen_eom
from realcode import Dev, RealSeq, doc_is_detuned_delay, doc_phase_jump_time, doc_rise_time, make_channel
from seqcheck import Fail
from monitors import within_limits

from pulser import Pulse, Register
from pulser.channels import DMM
from pulser.devices import VirtualDevice

PROP = "C18"
TARGETS_MODEL = ["PulserModel.Switch", "Proofs.Switch", "Driver.Seq"]
TARGETS = ["PulserModel.Generated.StrictParams", *TARGETS_MODEL, "Properties.C18"]
N_SEQ = {"quick": 600, "thorough": 4000}
VARIANTS = {"quick": 10, "thorough": 20}

TRUSTED_BASE = [
    "Lean 4.33 kernel; axioms allowed: propext, Classical.choice, Quot.sound (audited per theorem)",
    "statements in lean/Properties/C18.lean say what the property says",
    "harness/tables_c18.py (ast translator of _switch_device.py into Generated/StrictParams.lean)",
    "hand-written scheduler model lean/PulserModel/{Basic,Schedule,PhaseRef,Sequence}.lean corresponds to /repo "
    "(tied by the lock-step runs of C01/C02/C03/C09/C10, not by this check); lean/PulserModel/Switch.lean "
    "(matching search, replay) mirrors _switch_device.py by reading, pinned by the generated source-text tables",
    "channel matching of the model (possibleMatches) compared with the implementation's choice on every "
    "generated pair through lean/Driver/SwitchMain.lean; the replay of the model is not differentially tested",
    "harness/realcode.py adapters; the monitor of harness/props/C18.py (timeline / sample comparison)",
    "oracle fall times and sample summaries are parameters of the model (equal on both devices in timing_congr)",
]
UNCOVERED = [
    "strict=True on parametrized sequences (whole-EOM-configuration comparison): table extracted, a small "
    "monitored family only",
    "config_slm_mask is replayed on the implementation only (drawn by the C18 generator, outside the scheduler model)",
    "the strict guarantee for EOM buffer parameters rests on the post-replay sample comparison (np.isclose), "
    "monitored, not proved",
    "samples with modulation=True",
]


# ======================================================================================
# devices from specs, edit lists
# ======================================================================================
class Dev18(Dev):
    """Like realcode.Dev, plus: custom channel ids (`ids`), `rydberg_level`, per-channel
    `propagation_dir`."""

    def __init__(self, spec: dict):  # noqa: super().__init__ deliberately not called
        self.spec = spec
        self.chan_objs = [mk_channel(c) for c in spec["channels"]]
        self.dmm_objs = [make_channel(c) for c in spec.get("dmms", [])]
        self.chan_ids = list(spec.get("ids") or [f"ch{i}" for i in range(len(self.chan_objs))])
        self.nq = spec["nq"]
        kw = dict(
            name=spec.get("name", "VerifDevice"),
            dimensions=2,
            rydberg_level=spec.get("rydberg_level", 60),
            channel_objects=tuple(self.chan_objs),
            channel_ids=tuple(self.chan_ids),
            dmm_objects=tuple(self.dmm_objs),
            reusable_channels=spec.get("reusable", False),
            max_sequence_duration=spec.get("max_seq"),
            supports_slm_mask=bool(self.dmm_objs),
        )
        if any(c["kind"] == "microwave" for c in spec["channels"]):
            kw["interaction_coeff_xy"] = spec.get("interaction_coeff_xy", 3700.0)
        self.device = VirtualDevice(**kw)
        self.qids = [f"q{i}" for i in range(self.nq)]
        self.register = Register({q: (6.0 * i, 0.0) for i, q in enumerate(self.qids)})


def mk_channel(c: dict):
    obj = make_channel(c)
    if c.get("propagation_dir") is not None:
        obj = dataclasses.replace(obj, propagation_dir=tuple(c["propagation_dir"]))
    return obj


def _canon_spec(spec: dict) -> str:
    """A device spec with the defaults written out (two specs that build the same device compare equal)."""
    s = copy.deepcopy(spec)
    s.setdefault("dmms", [])
    s["ids"] = list(s.get("ids") or [f"ch{i}" for i in range(len(s["channels"]))])
    for k, d in (("reusable", False), ("max_seq", None), ("rydberg_level", 60), ("name", "VerifDevice")):
        s.setdefault(k, d)
    for c in s["channels"] + s["dmms"]:
        for f, d in CH_DEFAULTS.items():
            c.setdefault(f, d)
        if c.get("eom"):
            for f, d in EOM_DEFAULTS.items():
                c["eom"].setdefault(f, d)
        else:
            c.pop("eom", None)
    return json.dumps(s, sort_keys=True, default=str)


def apply_edits(spec: dict, edits: list) -> dict:
    """The new device spec: the original one with the edits applied in order."""
    s = copy.deepcopy(spec)
    s.setdefault("dmms", [])
    s["ids"] = list(s.get("ids") or [f"ch{i}" for i in range(len(s["channels"]))])
    for e in edits:
        k = e[0]
        if k == "ch":
            _, i, field, val = e
            s["channels"][i][field] = val
        elif k == "eom":
            _, i, field, val = e
            if field == "__remove__":
                s["channels"][i].pop("eom", None)
            elif field == "__add__":
                s["channels"][i]["eom"] = copy.deepcopy(val)
            elif s["channels"][i].get("eom"):   # (no-op when another edit removed the EOM)
                s["channels"][i]["eom"][field] = val
        elif k == "dmm":
            _, j, field, val = e
            s["dmms"][j][field] = val
        elif k == "dev":
            _, field, val = e
            s[field] = val
        elif k == "perm":      # reorder the (id, channel) pairs
            order = e[1]
            s["channels"] = [s["channels"][i] for i in order]
            s["ids"] = [s["ids"][i] for i in order]
        elif k == "ids":       # give the channels other ids (same order)
            s["ids"] = list(e[1])
        elif k == "dup":       # append a changed copy of channel i
            _, i, changes = e
            c = copy.deepcopy(s["channels"][i])
            c.update(copy.deepcopy(changes))
            s["channels"].append(c)
            s["ids"].append(f"x{len(s['ids'])}")
        elif k == "drop":
            del s["channels"][e[1]]
            del s["ids"][e[1]]
        elif k == "permdmm":
            s["dmms"] = [s["dmms"][j] for j in e[1]]
        elif k == "dropdmm":
            del s["dmms"][e[1]]
        elif k == "adddmm":
            s["dmms"].append(copy.deepcopy(e[1]))
        else:
            raise InfraError(f"unknown edit {e}")
    return s


STRUCTURAL = {"perm": "channel_order", "ids": "channel_ids", "dup": "extra_channel", "drop": "dropped_channel",
              "permdmm": "dmm_order", "dropdmm": "dropped_dmm", "adddmm": "extra_dmm"}


def edit_params(e) -> list[str]:
    """The device parameter(s) an edit changes (structural edits have the names of STRUCTURAL)."""
    k = e[0]
    if k == "ch":
        return [e[2]]
    if k == "eom":
        return ["eom_config" if e[2] in ("__remove__", "__add__") else "eom_config." + e[2]]
    if k == "dmm":   # same parameter names as the other channels (the evidence histogram keeps the prefix)
        return [e[2]]
    if k == "dev":
        return ["device." + e[1]]
    if k == "dup" and e[2]:
        return sorted(e[2])
    return [STRUCTURAL[k]]


def param_key(edits) -> str:
    """Key of a parameter difference: the value parameters that differ (structural changes only when
    nothing else differs)."""
    ps = sorted({p for e in edits for p in edit_params(e)})
    vals = [p for p in ps if p not in STRUCTURAL.values()]
    return "+".join(vals or ps) if ps else "none"


def alt(rng: random.Random, cur, values):
    vs = [v for v in values if v != cur]
    return rng.choice(vs) if vs else cur


def single_edits(rng: random.Random, spec: dict) -> list:
    """One candidate edit per (channel, parameter): every single parameter of every channel, EOM
    configuration, DMM and of the device."""
    out = []
    for i, c in enumerate(spec["channels"]):
        md = c.get("min_duration", 1)
        out += [
            ("ch", i, "clock_period", alt(rng, c.get("clock_period", 1), CLOCKS)),
            ("ch", i, "min_duration", alt(rng, md, MIN_DURS + [8, 60])),
            ("ch", i, "max_duration", alt(rng, c.get("max_duration", int(1e8)), [md + 60, 400, 1000, 4001, int(1e8), None])),
            ("ch", i, "custom_phase_jump_time", alt(rng, c.get("custom_phase_jump_time"), [None, 0, 40, 100])),
            ("ch", i, "max_amp", alt(rng, c.get("max_amp"), [2.0, 10.0, 15.7, 31.4])),
            ("ch", i, "max_abs_detuning", alt(rng, c.get("max_abs_detuning"), [5.0, 20.0, 62.8, 125.6])),
            ("ch", i, "min_avg_amp", alt(rng, c.get("min_avg_amp", 0), [0, 0.5, 1.0, 4.0])),
            ("ch", i, "kind", alt(rng, c["kind"], ["rydberg", "raman"]) if c["kind"] != "microwave" else "rydberg"),
            ("ch", i, "local", not c.get("local")),
        ]
        if not c.get("eom"):
            out.append(("ch", i, "mod_bandwidth", alt(rng, c.get("mod_bandwidth"), BANDWIDTHS)))
        else:
            out.append(("ch", i, "mod_bandwidth", alt(rng, c.get("mod_bandwidth"), [b for b in BANDWIDTHS if b])))
        if c.get("local"):
            out += [
                ("ch", i, "min_retarget_interval", alt(rng, c.get("min_retarget_interval", 0), [0, 100, 220, 300])),
                ("ch", i, "fixed_retarget_t", alt(rng, c.get("fixed_retarget_t", 0), [0, 100, 220, 300])),
                ("ch", i, "max_targets", alt(rng, c.get("max_targets"), [None, 1, 2, 3])),
            ]
        else:
            out.append(("ch", i, "propagation_dir", alt(rng, c.get("propagation_dir"), [None, [1, 0, 0], [0, 1, 0]])))
        e = c.get("eom")
        if e:
            out += [
                ("eom", i, "mod_bandwidth", alt(rng, e["mod_bandwidth"], [20, 40, 60])),
                ("eom", i, "limiting_beam", alt(rng, e["limiting_beam"], ["BLUE", "RED"])),
                ("eom", i, "max_limiting_amp", alt(rng, e["max_limiting_amp"], [20.0, 40.0, 62.83])),
                ("eom", i, "intermediate_detuning", alt(rng, e["intermediate_detuning"], [400.0, 700.0, 2800.0])),
                ("eom", i, "controlled_beams", alt(rng, e["controlled_beams"], [["BLUE"], ["RED"], ["BLUE", "RED"], ["RED", "BLUE"]])),
                ("eom", i, "multiple_beam_control", not e.get("multiple_beam_control", True)),
                ("eom", i, "custom_buffer_time", alt(rng, e.get("custom_buffer_time"), [None, 40, 240, 100])),
                ("eom", i, "blue_shift_coeff", alt(rng, e.get("blue_shift_coeff", 1.0), [1.0, 0.5, 2.0])),
                ("eom", i, "red_shift_coeff", alt(rng, e.get("red_shift_coeff", 1.0), [1.0, 0.25])),
                ("eom", i, "__remove__", None),
            ]
        elif c["kind"] == "rydberg" and c.get("mod_bandwidth"):
            out.append(("eom", i, "__add__", gen_eom(rng)))
    for j, d in enumerate(spec.get("dmms", [])):
        md = d.get("min_duration", 1)
        out += [
            ("dmm", j, "clock_period", alt(rng, d.get("clock_period", 1), CLOCKS)),
            ("dmm", j, "min_duration", alt(rng, md, MIN_DURS)),
            ("dmm", j, "max_duration", alt(rng, d.get("max_duration", int(1e8)), [md + 60, 400, 4001, int(1e8)])),
            ("dmm", j, "mod_bandwidth", alt(rng, d.get("mod_bandwidth"), BANDWIDTHS)),
            ("dmm", j, "bottom_detuning", alt(rng, d.get("bottom_detuning"), [None, -1.0, -10.0, -20.0])),
            ("dmm", j, "total_bottom_detuning", alt(rng, d.get("total_bottom_detuning"), [None, -40.0, -100.0])),
            ("dmm", j, "custom_phase_jump_time", alt(rng, d.get("custom_phase_jump_time"), [None, 0, 40])),
        ]
    out += [
        ("dev", "reusable", not spec.get("reusable", False)),
        ("dev", "max_seq", alt(rng, spec.get("max_seq"), [None, 500, 2000, 6000, 20000])),
        ("dev", "rydberg_level", 70),
    ]
    return out


def structural_edits(rng: random.Random, spec: dict) -> list:
    """Edit lists that change the channel order / ids / number of channels and DMMs."""
    out = []
    n = len(spec["channels"])
    ids = [f"ch{i}" for i in range(n)]
    if n >= 2:
        order = list(range(n))
        while order == list(range(n)):
            rng.shuffle(order)
        out.append([("perm", order)])
        rot = ids[1:] + ids[:1]
        out.append([("ids", rot)])
        out.append([("perm", order), ("ids", rng.sample(ids, n))])
    out.append([("ids", [f"other{i}" for i in range(n)])])
    i = rng.randrange(n)
    c = spec["channels"][i]
    field, vals = rng.choice([
        ("clock_period", CLOCKS), ("min_duration", MIN_DURS), ("custom_phase_jump_time", [None, 0, 40]),
        ("max_amp", [2.0, 10.0, 31.4]), ("max_duration", [400, int(1e8)]),
    ])
    changed = {field: alt(rng, c.get(field), vals)}
    # a changed copy appended / put in front of the original: the search has a choice
    out.append([("dup", i, changed)])
    out.append([("dup", i, changed), ("perm", [n] + list(range(n)))])
    out.append([("dup", i, {}), ("ch", i, field, changed[field])])
    if n >= 2:
        out.append([("drop", rng.randrange(n))])
    nd = len(spec.get("dmms", []))
    if nd >= 2:
        out.append([("permdmm", list(range(nd))[::-1])])
        j = rng.randrange(nd)
        f2, v2 = rng.choice([("clock_period", CLOCKS), ("min_duration", MIN_DURS), ("bottom_detuning", [None, -1.0, -20.0])])
        out.append([("permdmm", list(range(nd))[::-1]), ("dmm", j, f2, alt(rng, spec["dmms"][j].get(f2), v2))])
    if nd >= 1:
        out.append([("dropdmm", rng.randrange(nd))])
        out.append([("adddmm", gen_channel(rng, "dmm", False, True)), ("permdmm", [nd] + list(range(nd)))])
    else:
        out.append([("adddmm", gen_channel(rng, "dmm", False, True))])
    return out


# ======================================================================================
# observables of a real sequence
# ======================================================================================
RTOL = 1e-9   # float noise allowed between "identical" values (re-derived detuning_off, drift phases)


def _arr(a) -> np.ndarray:
    return np.ascontiguousarray(np.asarray(a, dtype=float))


def timeline(seq) -> dict:
    """Canonical timeline + phase references of a real sequence (exact values)."""
    chans = []
    for name, sch in seq._schedule.items():
        is_dmm = isinstance(sch.channel_obj, DMM)
        slots = []
        for s in sch.slots:
            d = dict(ti=int(s.ti), tf=int(s.tf), tg=sorted(str(q) for q in s.targets))
            if isinstance(s.type, Pulse):
                p = s.type
                d.update(k="P", ph=float(p.phase), post=float(p.post_phase_shift),
                         amp=_arr(p.amplitude.samples.as_array(detach=True)),
                         det=_arr(p.detuning.samples.as_array(detach=True)))
            else:
                d["k"] = "T" if s.type == "target" else "D"
            slots.append(d)
        eom = [dict(ti=int(b.ti), tf=None if b.tf is None else int(b.tf), amp=float(b.rabi_freq),
                    det_on=float(b.detuning_on), det_off=float(b.detuning_off)) for b in sch.eom_blocks]
        chans.append(dict(name="<dmm>" if is_dmm else name, type=type(sch.channel_obj).__name__,
                          addressing=sch.channel_obj.addressing, slots=slots, eom=eom))
    refs = {}
    for basis, d in seq._basis_ref.items():
        refs[basis] = {str(q): dict(used=int(r.last_used),
                                    tr=[[int(t), float(p)] for t, p in zip(r.phase._times, r.phase._phases)])
                       for q, r in d.items()}
    return dict(chans=chans, refs=refs, measured=getattr(seq, "_measurement", None))


def diff(a, b, path="") -> str | None:
    """First difference (original a, switched b)."""
    if isinstance(a, dict) and isinstance(b, dict):
        for k in sorted(set(a) | set(b), key=str):
            if k not in a or k not in b:
                return f"{path}/{k}: only in the {'original' if k in a else 'switched'} sequence"
            d = diff(a[k], b[k], f"{path}/{k}")
            if d:
                return d
        return None
    if isinstance(a, list) and isinstance(b, list):
        for i, (x, y) in enumerate(zip(a, b)):
            d = diff(x, y, f"{path}[{i}]")
            if d:
                return d
        if len(a) != len(b):
            return f"{path}: length {len(a)} (original) vs {len(b)} (switched)"
        return None
    if isinstance(a, np.ndarray) and isinstance(b, np.ndarray):
        if a.shape != b.shape:
            return f"{path}: {a.shape[0]} samples (original) vs {b.shape[0]} (switched)"
        if np.allclose(a, b, rtol=RTOL, atol=RTOL):
            return None
        i = int(np.argmax(np.abs(a - b)))
        return f"{path}[{i}]: original={a[i]!r} switched={b[i]!r}"
    if isinstance(a, float) and isinstance(b, float):
        if a == b or abs(a - b) <= RTOL * max(1.0, abs(a), abs(b)):
            return None
        if "/ph" in path or "/tr" in path:   # phases: equal mod 2*pi
            d = abs(a - b) % (2 * np.pi)
            if min(d, 2 * np.pi - d) <= RTOL:
                return None
    return None if a == b else f"{path}: original={a!r} switched={b!r}"


def seq_samples(seq):
    """Per declared channel (in order): the amp / det / phase arrays of `sample(seq)`."""
    from pulser.sampler import sample

    ss = sample(seq)
    cs = ss.channel_samples
    return [(np.asarray(cs[n].amp, dtype=float), np.asarray(cs[n].det, dtype=float),
             np.asarray(cs[n].phase, dtype=float)) for n in seq._schedule]


def limit_violations(seq) -> list[tuple[str, str]]:
    """Everything in the sequence that is outside a limit of *its* device -> [(which, message)]."""
    out = []
    dev = seq._device
    all_ch = {**dev.channels, **dev.dmm_channels}
    used = []
    for name, sch in seq._schedule.items():
        ch = sch.channel_obj
        if sch.channel_id not in all_ch or all_ch[sch.channel_id] != ch:
            out.append(("channel-of-device", f"{name}: channel object is not the device's {sch.channel_id}"))
        used.append(sch.channel_id)
        dm = getattr(sch, "detuning_map", None)
        for i, s in enumerate(sch.slots):
            dur = int(s.tf - s.ti)
            is_pulse = isinstance(s.type, Pulse)
            if is_pulse:
                ok, which = within_limits(s.type, ch, dm)
                if not ok:
                    out.append((which, f"{name}[{i}]: scheduled pulse violates {which}"))
                if int(s.type.duration) != dur:
                    out.append(("pulse-duration", f"{name}[{i}]: slot {dur} vs pulse {s.type.duration}"))
            if i > 0 and (is_pulse or dur > 0):
                if dur % ch.clock_period:
                    out.append(("clock_period", f"{name}[{i}]: duration {dur} not a multiple of {ch.clock_period}"))
                if dur < ch.min_duration:
                    out.append(("min_duration", f"{name}[{i}]: duration {dur} < {ch.min_duration}"))
                if ch.max_duration is not None and dur > ch.max_duration:
                    out.append(("max_duration", f"{name}[{i}]: duration {dur} > {ch.max_duration}"))
            if ch.addressing == "Local" and ch.max_targets is not None and len(s.targets) > ch.max_targets:
                out.append(("max_targets", f"{name}[{i}]: {len(s.targets)} targets > {ch.max_targets}"))
        # retarget times of a local channel
        if ch.addressing == "Local":
            prev_tf = None
            for i, s in enumerate(sch.slots):
                if s.type == "target":
                    if i > 0 and ch.fixed_retarget_t and s.tf - s.ti < ch.fixed_retarget_t:
                        out.append(("fixed_retarget_t", f"{name}[{i}]: retarget lasts {s.tf - s.ti} < {ch.fixed_retarget_t}"))
                    if prev_tf is not None and ch.min_retarget_interval and s.tf - prev_tf < ch.min_retarget_interval:
                        out.append(("min_retarget_interval",
                                    f"{name}[{i}]: {s.tf - prev_tf} between retargets < {ch.min_retarget_interval}"))
                    prev_tf = s.tf
    if not dev.reusable_channels and len(set(used)) < len(used):
        out.append(("reusable_channels", f"channel ids used twice on a device without reusable channels: {used}"))
    mx = dev.max_sequence_duration
    if mx is not None:
        tot = max((int(s.slots[-1].tf) for s in seq._schedule.values() if s.slots), default=0)
        if tot > mx:
            out.append(("max_sequence_duration", f"sequence lasts {tot} > {mx}"))
    return out


def _same(a, b) -> bool:
    if a is b:
        return True
    try:
        r = a == b
        if isinstance(r, np.ndarray):
            return bool(r.all())
        return bool(r)
    except Exception:  # noqa: BLE001
        return repr(a) == repr(b)


CHANNEL_ARG = {"declare_channel": 1, "config_detuning_map": 1, "config_slm_mask": 1, "add_dmm_detuning": 1}
CHANNEL_KW = {"declare_channel": "channel_id", "config_detuning_map": "dmm_id", "config_slm_mask": "dmm_id",
              "add_dmm_detuning": "dmm_name"}


REWRITTEN_KW = {"enable_eom_mode": "optimal_detuning_off", "modify_eom_setpoint": "optimal_detuning_off"}


def calls_diff(old, new, device_changed: bool) -> tuple[str, str] | None:
    """The replayed call list equals the original's up to channel ids (and the constructor), and every
    argument naming a declared channel names the *corresponding* channel of the new sequence
    (i-th declared <-> i-th declared).  -> (what, message) | None"""
    a = list(old._calls[1:]) + list(old._to_build_calls)
    b = list(new._calls[1:]) + list(new._to_build_calls)
    if [c.name for c in a] != [c.name for c in b]:
        return "call-list", f"call names differ: {[c.name for c in a]} vs {[c.name for c in b]}"
    name_map = dict(zip(old._schedule, new._schedule))
    for i, (x, y) in enumerate(zip(a, b)):
        xa, ya = list(x.args), list(y.args)
        xk, yk = dict(x.kwargs), dict(y.kwargs)
        if device_changed and x.name in CHANNEL_ARG:
            j = CHANNEL_ARG[x.name]
            if len(xa) > j and len(ya) > j:
                xa[j] = ya[j] = None
            xk.pop(CHANNEL_KW[x.name], None)
            yk.pop(CHANNEL_KW[x.name], None)
        if x.name in REWRITTEN_KW:   # the call stores the detuning_off it chose itself
            xk.pop(REWRITTEN_KW[x.name], None)
            yk.pop(REWRITTEN_KW[x.name], None)
        if len(xa) != len(ya) or set(xk) != set(yk):
            return "call-args", f"call {i} ({x.name}): argument lists differ"
        for p_, q_ in list(zip(xa, ya)) + [(xk[k], yk[k]) for k in xk]:
            if isinstance(p_, str) and p_ in name_map and x.name != "declare_channel":
                if q_ != name_map[p_]:
                    return "channel-name", (f"call {i} ({x.name}): names channel {p_!r} in the original, whose "
                                            f"counterpart is {name_map[p_]!r}, but is replayed on {q_!r}")
            elif not _same(p_, q_):
                return "call-args", f"call {i} ({x.name}): arguments differ ({p_!r} vs {q_!r})"[:300]
    return None


CH_DEFAULTS = dict(clock_period=1, min_duration=1, max_duration=int(1e8), mod_bandwidth=None,
                   custom_phase_jump_time=None, max_amp=None, max_abs_detuning=None, min_avg_amp=0,
                   min_retarget_interval=0, fixed_retarget_t=0, max_targets=None, propagation_dir=None,
                   bottom_detuning=None, total_bottom_detuning=None)
EOM_DEFAULTS = dict(multiple_beam_control=True, custom_buffer_time=None, blue_shift_coeff=1.0, red_shift_coeff=1.0)


# parameters that cannot change the timeline of a replay that succeeds (Properties/C18.lean timing_congr:
# they are outside `timingFields`); a difference in them is never what a strict-identical failure is about
LIMIT_ONLY = {"max_duration", "max_targets", "max_amp", "max_abs_detuning", "min_avg_amp", "bottom_detuning",
              "total_bottom_detuning", "propagation_dir"}


def spec_index(dev: Dev, sch) -> tuple[str, int]:
    """('dmm'|'ch', index in the spec) of the device channel a declared channel sits on."""
    if isinstance(sch.channel_obj, DMM):
        return "dmm", int(sch.channel_id.split("_")[1])
    return "ch", dev.chan_ids.index(sch.channel_id)


def matched_diffs(old_dev: Dev, old, new_dev: Dev, new) -> list:
    """Spec parameters in which a declared channel's old and new device channel differ, as edits of
    the new spec that would remove the difference: [(edit, parameter name)]."""
    out = []
    active = set()
    for c in list(old._calls[1:]) + list(old._to_build_calls):
        if c.name == "enable_eom_mode":
            active.add(c.kwargs.get("channel", c.args[0] if c.args else None))
    for (n0, s0), s1 in zip(old._schedule.items(), new._schedule.values()):
        k0, i = spec_index(old_dev, s0)
        k1, j = spec_index(new_dev, s1)
        if k0 != k1:
            continue
        c0 = (old_dev.spec["dmms"] if k0 == "dmm" else old_dev.spec["channels"])[i]
        c1 = (new_dev.spec["dmms"] if k1 == "dmm" else new_dev.spec["channels"])[j]
        o0, o1 = s0.channel_obj, s1.channel_obj
        for f, dflt in CH_DEFAULTS.items():
            v0, v1 = c0.get(f, dflt), c1.get(f, dflt)
            if f == "custom_phase_jump_time" and doc_phase_jump_time(o0) == doc_phase_jump_time(o1):
                continue   # (only the effective phase-jump time is read; documented formula, not the property)
            if v0 != v1 and not (f == "propagation_dir" and (v0 is None) == (v1 is None) and list(v0 or []) == list(v1 or [])):
                out.append(((k1, j, f, v0), f))
        if k0 == "ch" and n0 in active:   # (the EOM configuration of a channel that never enables it is not read)
            e0, e1 = c0.get("eom"), c1.get("eom")
            if bool(e0) != bool(e1):
                out.append((("eom", j, "__add__", e0) if e0 else ("eom", j, "__remove__", None), "eom_config"))
            elif e0 and e1:
                for f in sorted(set(e0) | set(e1)):
                    v0, v1 = e0.get(f, EOM_DEFAULTS.get(f)), e1.get(f, EOM_DEFAULTS.get(f))
                    if f == "custom_buffer_time" and doc_eom_buffer_time(o0) == doc_eom_buffer_time(o1) \
                            and bool(v0) == bool(v1):
                        continue   # (only the effective buffer time and its truth value are read)
                    if v0 != v1:
                        out.append((("eom", j, f, v0), "eom_config." + f))
    # the same difference may be listed for several declared channels on one device channel
    seen, uniq = set(), []
    for e, nme in out:
        sig = json.dumps(e, default=str)
        if sig not in seen:
            seen.add(sig)
            uniq.append((e, nme))
    return uniq


EOM_OPTION_PARAMS = {"eom_config." + x for x in (
    "limiting_beam", "max_limiting_amp", "intermediate_detuning", "controlled_beams", "multiple_beam_control",
    "blue_shift_coeff", "red_shift_coeff")}


def doc_eom_buffer_time(obj) -> int:
    """Documented EOM buffer: the custom buffer time when one is given, else twice the channel's rise time
    (from the public attributes, not the private Channel._eom_buffer_time)."""
    return int(obj.eom_config.custom_buffer_time or 2 * doc_rise_time(obj))


def raw_render(sch):
    """Unmodulated amplitude / detuning of one channel painted from its instruction list with numpy (pulse
    samples added over [ti, tf)), and the (ti, tf, phase) of every pulse that is not a detuned delay --
    computed here, not with `_ChannelSchedule.get_samples` that the implementation's own check calls."""
    n = max((int(s.tf) for s in sch.slots), default=0)
    amp, det, ph = np.zeros(n), np.zeros(n), []
    for s in sch.slots:
        if isinstance(s.type, Pulse):
            amp[int(s.ti):int(s.tf)] += _arr(s.type.amplitude.samples.as_array(detach=True))
            det[int(s.ti):int(s.tf)] += _arr(s.type.detuning.samples.as_array(detach=True))
            if not doc_is_detuned_delay(s.type):
                ph.append((int(s.ti), int(s.tf), float(s.type.phase)))
    return amp, det, ph


def eom_samples_close(old, new) -> bool:
    """The criterion of the code's post-replay check, evaluated independently: for every channel that
    enables the EOM mode the unmodulated amplitude and detuning (painted by `raw_render`) are `np.isclose`,
    and the pulses carry close phases over the same intervals."""
    names = []
    for c in list(old._calls[1:]) + list(old._to_build_calls):
        if c.name == "enable_eom_mode":
            names.append(c.kwargs.get("channel", c.args[0] if c.args else None))
    for n in names:
        if n not in old._schedule or n not in new._schedule:
            return False
        a0, d0, p0 = raw_render(old._schedule[n])
        a1, d1, p1 = raw_render(new._schedule[n])
        if a0.shape != a1.shape or not (np.all(np.isclose(a0, a1)) and np.all(np.isclose(d0, d1))):
            return False
        if [(x[0], x[1]) for x in p0] != [(x[0], x[1]) for x in p1]:
            return False
        for x, y in zip(p0, p1):
            dlt = abs(x[2] - y[2]) % (2 * np.pi)
            if min(dlt, 2 * np.pi - dlt) > 1e-5 * max(1.0, abs(y[2])) + 1e-8:
                return False
    return True


def dmm_renamed(old, new) -> bool:
    """Did the DMM channels get other names, while a call other than the renamed ones names one?"""
    names0 = [n for n, s in old._schedule.items() if isinstance(s.channel_obj, DMM)]
    names1 = [n for n, s in new._schedule.items() if isinstance(s.channel_obj, DMM)]
    if names0 == names1:
        return False
    for c in list(old._calls[1:]) + list(old._to_build_calls):
        if c.name in CHANNEL_ARG:
            continue
        for v in list(c.args) + list(c.kwargs.values()):
            if isinstance(v, str) and v in names0:
                return True
    return False


# ======================================================================================
# the model's channel matching (lean/Driver/SwitchMain.lean, line protocol)
# ======================================================================================
class SwitchModel:
    """`pm_switch` if it has been built as an executable, else the same file interpreted."""

    def __init__(self):
        import subprocess

        exe = common.DRIVER.parent / "pm_switch"
        cmd = [str(exe)] if exe.exists() else ["lake", "env", "lean", "--run", "Driver/SwitchMain.lean"]
        self.p = subprocess.Popen(cmd, cwd=common.LEAN_DIR, stdin=subprocess.PIPE, stdout=subprocess.PIPE,
                                  text=True, bufsize=1)
        self.lines = 0
        if self.ask("check 1 0 | " + " | ".join(["0 gr 0 1 1 - 0 0 0 0 - - - - - - 0 - -"] * 2)) != "ok ok":
            raise InfraError("the switch model driver does not answer")

    def ask(self, line: str) -> str:
        self.p.stdin.write(line + "\n")
        self.p.stdin.flush()
        self.lines += 1
        r = self.p.stdout.readline()
        if not r:
            raise InfraError(f"switch model driver died on: {line[:200]}")
        return r.rstrip("\n")

    def close(self):
        try:
            self.p.stdin.close()
            self.p.wait(timeout=5)
        except Exception:  # noqa: BLE001
            self.p.kill()


MODEL: SwitchModel | None = None   # set by check()/replay(); None = monitor only
MODEL_STATS = collections.Counter()
_KEY_RE = re.compile(r"\(((?:\('[^']+', '[^']+'\),? ?)+)\): ")
_PAIR_RE = re.compile(r"\('([^']+)', '([^']+)'\)")


def _new_id(nd: Dev, channel_id: str) -> str:
    if channel_id in nd.chan_ids:
        return f"c{nd.chan_ids.index(channel_id)}"
    parts = channel_id.split("_")
    if parts[0] == "dmm" and len(parts) > 1:
        return "d" + parts[1]                  # dmm_<j> or the name dmm_<j>_<k> of a declared DMM channel
    return "?" + channel_id                    # not a channel of the new device


def model_matching(rs: RealSeq, nd: Dev, strict: bool):
    """The candidate assignments of the model, in the order they are tried -> (count, listed)."""
    seq = rs.seq
    active = set()
    for c in list(seq._calls[1:]) + list(seq._to_build_calls):
        if c.name == "enable_eom_mode":
            active.add(c.kwargs.get("channel", c.args[0] if c.args else None))
    olds = " ; ".join(rs.dev.cfg_wire(sch.channel_obj, isinstance(sch.channel_obj, DMM)) + f" {int(n in active)}"
                      for n, sch in seq._schedule.items())
    chans = " ; ".join(nd.cfg_wire(o, False) for o in nd.chan_objs)
    dmms = " ; ".join(nd.cfg_wire(o, True) for o in nd.dmm_objs)
    r = MODEL.ask(f"match {int(strict)} {int(bool(nd.spec.get('reusable', False)))} | {olds} | {chans} | {dmms}")
    if not r.startswith("ok "):
        raise InfraError(f"switch model driver: {r}")
    _, n, lst = r.split(" ", 2)
    inner = lst[1:-1]
    listed = [] if not inner else [x.strip("[]").split(",") if x.strip("[]") else []
                                   for x in inner.replace("],[", "]|[").split("|")]
    return int(n), listed


def compare_matching(rs: RealSeq, nd: Dev, strict: bool, new, exc) -> str | None:
    """Real `switch_device` against the model's candidate list -> description of a disagreement."""
    n, listed = model_matching(rs, nd, strict)
    complete = n == len(listed)
    if exc is None:
        MODEL_STATS["returned"] += 1
        chosen = [_new_id(nd, sch.channel_id) for sch in new._schedule.values()]
        if n == 0:
            return f"the implementation chose {chosen}, the model finds no matching"
        if chosen in listed:
            MODEL_STATS["chosen-is-first" if listed[0] == chosen else "chosen-is-later"] += 1
            return None
        return None if not complete else f"the implementation chose {chosen}, not among the model's candidates {listed}"
    msg = str(exc.args[0]) if exc.args else ""
    if msg.startswith("Strict device match failed") or "incompatible" in msg:
        MODEL_STATS["device-level-raise"] += 1
        return None
    # (raise_error_non_matching_channel loses its message when a later declared channel overwrites and
    # then clears the strict message of an earlier one: an empty TypeError is the same verdict)
    if msg.startswith("No match for channel") or (isinstance(exc, TypeError) and msg == ""):
        MODEL_STATS["no-match" if msg else "no-match-empty-message"] += 1
        return None if n == 0 else f"the implementation finds no matching ({msg[:80]}), the model finds {n}: {listed[:3]}"
    if n == 0:
        return f"the model finds no matching, the implementation tried some ({type(exc).__name__}: {msg[:80]})"
    if msg.startswith("No matching found between declared channels") and complete:
        MODEL_STATS["all-failed"] += 1
        tested = []
        for m in _KEY_RE.finditer(msg):
            tested.append([_new_id(nd, b) for _, b in _PAIR_RE.findall(m.group(1))])
        if tested and tested != listed:
            return f"matchings tried by the implementation {tested} differ from the model's {listed}"
        return None
    MODEL_STATS["replay-raise"] += 1
    return None


# ======================================================================================
# one case
# ======================================================================================
class Result:
    def __init__(self):
        self.status = "?"          # ok | raise:<Type> | skip:<why>
        self.fails: list[Fail] = []
        self.detail = ""
        self.nontrivial = False
        self.info = {}


def build_base(spec: dict, ops: list):
    """The original sequence: every op must succeed."""
    dev = Dev18(spec)
    rs = RealSeq(dev)
    for op in ops:
        st, _ = rs.apply(op)
        if st != "ok":
            return dev, rs, False
    return dev, rs, True


def F(clause, msg, **key):
    return Fail(PROP, clause, msg, key)


def _bottoms_counterfactual(rs: RealSeq, new_spec: dict, tl0: dict) -> bool:
    """Attribution of a strict-switch difference on a sequence with an SLM mask (known finding F5e): the same
    strict switch to the same new device, except that every DMM of it gets the bottom detunings of the DMM that
    carries the mask in the ORIGINAL — then raises or returns the identical timeline.  (Wherever the mask lands,
    it is then clipped as in the original; nothing else is changed.)"""
    seq = rs.seq
    mask_dmm = getattr(seq, "_slm_mask_dmm", None)
    sch = seq._schedule.get(mask_dmm) if mask_dmm else None
    if sch is None:
        return False
    obj = sch.channel_obj
    spec2 = copy.deepcopy(new_spec)
    for d in spec2.get("dmms", []):
        d["bottom_detuning"] = None if obj.bottom_detuning is None else float(obj.bottom_detuning)
        d["total_bottom_detuning"] = (None if obj.total_bottom_detuning is None
                                      else float(obj.total_bottom_detuning))
    try:
        with warnings.catch_warnings():
            warnings.simplefilter("ignore")
            new2 = seq.switch_device(Dev18(spec2).device, True)
    except Exception:  # noqa: BLE001
        return True
    if new2 is seq:
        return True
    t2 = timeline(new2)
    return (diff([dict(c, eom=None) for c in tl0["chans"]], [dict(c, eom=None) for c in t2["chans"]], "") is None
            and diff([c["eom"] for c in tl0["chans"]], [c["eom"] for c in t2["chans"]], "") is None
            and diff(dict(refs=tl0["refs"], measured=tl0["measured"]), dict(refs=t2["refs"], measured=t2["measured"]), "") is None)


def check_device_switch(rs: RealSeq, new_spec: dict, strict: bool, edits: list, base_obs: dict) -> Result:
    """`base_obs` caches the original's timeline / samples."""
    res = Result()
    try:
        with warnings.catch_warnings():
            warnings.simplefilter("ignore")
            nd = Dev18(new_spec)
    except Exception as e:  # noqa: BLE001   (the edited spec is not a constructible device)
        res.status = f"skip:bad-variant:{type(e).__name__}"
        return res
    seq = rs.seq
    # (decided from the specs, not with the devices' own `==`, which `switch_device` itself uses for its
    # "same device" shortcut)
    same_device = _canon_spec(new_spec) == _canon_spec(rs.dev.spec)
    try:
        with warnings.catch_warnings():
            warnings.simplefilter("ignore")
            new = seq.switch_device(nd.device, strict)
    except Exception as e:  # noqa: BLE001   (raising is always allowed by the property)
        res.status = f"raise:{type(e).__name__}"
        res.detail = str(e)[:200]
        if MODEL is not None:
            d = compare_matching(rs, nd, strict, None, e)
            if d:
                res.fails.append(F("model-matching", d, strict=strict))
        return res
    if MODEL is not None and not same_device and new is not seq:
        d = compare_matching(rs, nd, strict, new, None)
        if d:
            res.fails.append(F("model-matching", d, strict=strict))
    res.status = "ok"
    res.nontrivial = not same_device
    if new is seq and not same_device:
        # the "same device" shortcut taken for a device built from another spec: nothing was replayed
        res.fails.append(F("replay-device", "switch_device returned the original sequence although the new device "
                           "differs from the original's", strict=strict, param=param_key(edits)))
        return res
    # the parameter difference that matters is the one between each declared channel's old and new
    # device channel (the search may have matched another channel than the edited one)
    mdiffs = matched_diffs(rs.dev, seq, nd, new)
    res.info["mdiffs"] = mdiffs
    pnames = sorted({nme for _, nme in mdiffs if nme not in LIMIT_ONLY})
    pkey = "+".join(pnames) or param_key(edits)
    pclass = "eom-options" if pnames and set(pnames) <= EOM_OPTION_PARAMS else "other"
    # several parameters differ and all of them belong to the uncovered ones (pinned by `strict_sound`,
    # or covered by the sample comparison only): the failure is attributed to the first of them
    unc = uncovered_params()
    if len(pnames) > 1 and set(pnames) <= set(unc) | EOM_OPTION_PARAMS | {"eom_config.custom_buffer_time"}:
        for cand in unc + ["eom_config.custom_buffer_time"]:
            if cand in pnames:
                pkey = cand
                break
    cause = "dmm-renamed" if dmm_renamed(seq, new) else "params"
    if "tl" not in base_obs:
        base_obs["tl"] = timeline(seq)
    cd = calls_diff(seq, new, not same_device)
    if cd:
        res.fails.append(F("replay-calls", cd[1], what=cd[0], strict=strict, param=pkey,
                           cause="dmm-renamed" if cd[0] == "channel-name" and cause == "dmm-renamed" else "params"))
    if (new is seq and not same_device) or (new is not seq and new._device is not nd.device):
        res.fails.append(F("replay-device", "the result is the original sequence / is not on the new device"
                           if new is seq else "the result is not on the new device", strict=strict, param=pkey))
    for (n0, s0), (n1, s1) in zip(seq._schedule.items(), new._schedule.items()):
        c0, c1 = s0.channel_obj, s1.channel_obj
        if type(c0) is not type(c1) or c0.basis != c1.basis or c0.addressing != c1.addressing:
            res.fails.append(F("matching-channels", f"{n0} ({type(c0).__name__}.{c0.addressing}) replayed on "
                               f"{s1.channel_id} ({type(c1).__name__}.{c1.addressing})", strict=strict, param=pkey))
    if strict:
        tl = timeline(new)
        t0 = base_obs["tl"]
        same_tl = True
        # one failure per category, so that a known finding in one cannot hide another
        cats = [
            ("timeline", [dict(c, eom=None) for c in t0["chans"]], [dict(c, eom=None) for c in tl["chans"]]),
            ("eom-setpoint", [c["eom"] for c in t0["chans"]], [c["eom"] for c in tl["chans"]]),
            ("phases", dict(refs=t0["refs"], measured=t0["measured"]), dict(refs=tl["refs"], measured=tl["measured"])),
        ]
        close = None
        for what, x, y in cats:
            d = diff(x, y, "/" + what)
            if d:
                same_tl = False
                if close is None:
                    try:
                        close = eom_samples_close(seq, new)
                    except Exception:  # noqa: BLE001
                        close = False
                extra = {}
                if any(c.name == "config_slm_mask" for c in seq._calls + seq._to_build_calls):
                    extra["slm_mask"] = True      # (the SLM-mask detuning is clipped at the DMM's bottom detunings)
                    if "slm_bottom_only" not in base_obs.setdefault("cf", {}):
                        base_obs["cf"]["slm_bottom_only"] = _bottoms_counterfactual(rs, new_spec, base_obs["tl"])
                    if base_obs["cf"]["slm_bottom_only"]:
                        extra["slm_bottom_only"] = True
                res.fails.append(F("strict-identical", f"strict switch returned a different {what}: {d}",
                                   param=pkey, what=what, cause=cause, param_class=pclass, eom_samples_close=close,
                                   **extra))
        if same_tl:
            if "samples" not in base_obs:
                try:
                    with warnings.catch_warnings():
                        warnings.simplefilter("ignore")
                        base_obs["samples"] = seq_samples(seq)
                except Exception as e:  # noqa: BLE001
                    base_obs["samples"] = None
                    base_obs["unsampleable"] = type(e).__name__
            if base_obs["samples"] is not None:
                try:
                    with warnings.catch_warnings():
                        warnings.simplefilter("ignore")
                        sm = seq_samples(new)
                except Exception as e:  # noqa: BLE001
                    sm = None
                    res.fails.append(F("strict-identical", f"the switched sequence cannot be sampled: "
                                       f"{type(e).__name__}: {str(e)[:100]}", param=pkey, what="samples", cause=cause))
                if sm is not None:
                    bad = None
                    for i, (x, y) in enumerate(zip(base_obs["samples"], sm)):
                        for nm, u, v in zip(("amp", "det", "phase"), x, y):
                            if bad is None and (u.shape != v.shape or not np.allclose(u, v, rtol=RTOL, atol=RTOL)):
                                bad = f"samples of channel #{i} differ in {nm}"
                    if bad:
                        res.fails.append(F("strict-identical", "identical timeline but " + bad, param=pkey,
                                           what="samples", cause=cause))
    # with or without strict: the result must satisfy every limit of the new device
    for which, msg in limit_violations(new):
        res.fails.append(F("within-new-limits", msg, which=which, strict=strict))
        break
    return res


REG_MODES = ["same", "moved", "permuted", "superset"]


def new_register(dev: Dev18, mode: str) -> Register:
    q = dev.qids
    if mode == "same":
        return Register({x: (6.0 * i, 0.0) for i, x in enumerate(q)})
    if mode == "moved":
        return Register({x: (7.5 * i + 1.0, 3.0 + 0.5 * i) for i, x in enumerate(q)})
    if mode == "permuted":
        return Register({x: (6.0 * i, 0.0) for i, x in reversed(list(enumerate(q)))})
    if mode == "superset":
        d = {x: (6.0 * i, 0.0) for i, x in enumerate(q)}
        d["extra"] = (6.0 * len(q), 0.0)
        return Register(d)
    raise InfraError(mode)


def check_register_switch(rs: RealSeq, mode: str, base_obs: dict) -> Result:
    res = Result()
    seq = rs.seq
    reg = new_register(rs.dev, mode)
    try:
        with warnings.catch_warnings():
            warnings.simplefilter("ignore")
            new = seq.switch_register(reg)
    except Exception as e:  # noqa: BLE001
        res.status = f"raise:{type(e).__name__}"
        res.detail = str(e)[:200]
        # with a superset register the global channels target more atoms (the targets are not
        # "unchanged"): e.g. phase shifts given to explicitly listed atoms then make a global pulse
        # illegal.  With the same ids a raise breaks the property.
        if mode != "superset":
            res.fails.append(F("register-identical", f"switch_register({mode}) raised {type(e).__name__}: "
                               f"{str(e)[:120]}", mode=mode, what="raise"))
        return res
    res.status = "ok"
    res.nontrivial = True
    if "tl" not in base_obs:
        base_obs["tl"] = timeline(seq)
    a, b = copy.deepcopy(base_obs["tl"]), timeline(new)
    if mode == "superset":
        # the extra atom is targeted by the global channels and has its own (idle) phase references
        allq = sorted(str(x) for x in reg.qubit_ids)
        for c0, c1 in zip(a["chans"], b["chans"]):
            if c0["addressing"] == "Global":
                for s in c1["slots"]:
                    if s["tg"] != allq:
                        res.fails.append(F("register-identical", "a global channel does not target the whole new register",
                                           mode=mode, what="targets"))
                for s in c0["slots"] + c1["slots"]:
                    s["tg"] = []
        for basis in b["refs"]:
            b["refs"][basis].pop("extra", None)
    d = diff(a, b)
    if d:
        res.fails.append(F("register-identical", f"switch_register({mode}) changed the timeline: {d}", mode=mode,
                           what="timeline"))
    cd = calls_diff(seq, new, False)
    if cd:
        res.fails.append(F("register-calls", cd[1], what=cd[0], mode=mode))
    return res


def run_case(case: dict) -> Result:
    """Re-run one recorded case from scratch (corpus, shrinking, replay)."""
    dev, rs, ok = build_base(case["device"], case["ops"])
    if not ok:
        r = Result()
        r.status = "skip:base-op-failed"
        return r
    if case.get("kind", "device") == "register":
        return check_register_switch(rs, case["mode"], {})
    res = check_device_switch(rs, apply_edits(case["device"], case["edits"]), case["strict"], case["edits"], {})
    exp = case.get("expect")
    if exp:   # numbers shared with a Lean theorem about the model (hand-written corpus cases)
        got0 = [[[int(s.ti), int(s.tf)] for s in sch.slots] for sch in rs.seq._schedule.values()]
        if got0 != exp["original"]:
            res.fails.append(F("model-values", f"original timeline {got0} differs from {exp['lean']}: {exp['original']}"))
        try:
            with warnings.catch_warnings():
                warnings.simplefilter("ignore")
                nd = Dev18(apply_edits(case["device"], case["edits"]))
                new = rs.seq.switch_device(nd.device, case["strict"])
            got1 = [[[int(s.ti), int(s.tf)] for s in sch.slots] for sch in new._schedule.values()]
        except Exception as e:  # noqa: BLE001
            got1 = f"raise:{type(e).__name__}"
        if got1 != exp["switched"]:
            res.fails.append(F("model-values", f"switched timeline {got1} differs from {exp['lean']}: {exp['switched']}"))
    return res


# ======================================================================================
# shrinking
# ======================================================================================
def _ddmin(items: list, bad, budget: int) -> list:
    items = list(items)
    chunk = max(1, len(items) // 2)
    tries = 0
    while chunk >= 1 and tries < budget:
        i, changed = 0, False
        while i < len(items) and tries < budget:
            cand = items[:i] + items[i + chunk:]
            tries += 1
            if bad(cand):
                items, changed = cand, True
            else:
                i += chunk
        if not changed:
            chunk //= 2
    return items


def fail_sig(f: Fail) -> tuple:
    """What a shrunk case must still exhibit: clause + discriminators other than the parameter list."""
    return (f.clause, f.key.get("what"), f.key.get("cause"), f.key.get("which"), f.key.get("mode"),
            f.key.get("eom_samples_close"))


def shrink(case: dict, sig: tuple) -> dict:
    """Drop ops, then reduce the parameter difference (edit list) to single fields."""
    def fails(c) -> bool:
        try:
            return any(fail_sig(f) == sig for f in run_case(c).fails)
        except InfraError:
            raise
        except Exception:  # noqa: BLE001
            return False

    cur = copy.deepcopy(case)
    if sig[0] != "model-values":
        cur.pop("expect", None)    # (the numbers of a hand-written case do not survive shrinking)
    cur["ops"] = _ddmin(cur["ops"], lambda ops: fails(dict(cur, ops=ops)), 250)
    if cur.get("kind", "device") == "device":
        cur["edits"] = _ddmin(cur["edits"], lambda ed: fails(dict(cur, edits=ed)), 60)
        # a changed extra copy ("dup" with several fields): one field at a time
        for k, e in enumerate(list(cur["edits"])):
            if e[0] == "dup" and len(e[2]) > 1:
                for f in list(e[2]):
                    ch = {x: v for x, v in e[2].items() if x != f}
                    cand = cur["edits"][:k] + [("dup", e[1], ch)] + cur["edits"][k + 1:]
                    if fails(dict(cur, edits=cand)):
                        cur["edits"] = cand
                        e = cand[k]
        # reduce the difference between matched channels: give the new channel the old value of a
        # parameter whenever the failure survives it
        for _ in range(30):
            try:
                md = run_case(cur).info.get("mdiffs", [])
            except Exception:  # noqa: BLE001
                md = []
            progress = False
            for e, _nme in md:
                cand = dict(cur, edits=cur["edits"] + [tuple(e)])
                # accepted only when the failure survives and the difference really shrinks (the
                # search may answer an edit by matching another channel)
                try:
                    r2 = run_case(cand)
                except Exception:  # noqa: BLE001
                    continue
                if any(fail_sig(x) == sig for x in r2.fails) and len(r2.info.get("mdiffs", md)) < len(md):
                    cur["edits"] = cand["edits"]
                    md = r2.info.get("mdiffs", [])
                    progress = True
                    break
            if not progress:
                break
        cur["ops"] = _ddmin(cur["ops"], lambda ops: fails(dict(cur, ops=ops)), 100)
    return cur


# ======================================================================================
# build / audit
# ======================================================================================
_DECL = re.compile(r"\s*(?:theorem|example|def|lemma|instance|abbrev)\b\s*(\S*)")


def _decl_at(lines: list[str], lineno: int) -> tuple[str, str]:
    """(name, source text) of the declaration of Properties/C18.lean that contains line `lineno`."""
    start = 0
    for i in range(min(lineno, len(lines)) - 1, -1, -1):
        if _DECL.match(lines[i]):
            start = i
            break
    end = len(lines)
    for i in range(start + 1, len(lines)):
        if _DECL.match(lines[i]) or lines[i].startswith("/-"):
            end = i
            break
    m = _DECL.match(lines[start])
    name = (m.group(1) if m else "") or f"example@{start + 1}"
    return name.rstrip(":"), "\n".join(lines[start:end])


def classify_build_failure(out: str) -> tuple[bool, list[str]]:
    """(is a broken tie?, the obligations over the generated table / the files that no longer check).
    An obligation over the table is a declaration of Properties/C18.lean that mentions `Generated.`."""
    src = (common.LEAN_DIR / "Properties" / "C18.lean").read_text().splitlines()
    broken, other = [], []
    for m in re.finditer(r"error: (\S+?\.lean):(\d+):(\d+)", out):
        f, ln = m.group(1), int(m.group(2))
        if f.endswith("Properties/C18.lean"):
            name, text = _decl_at(src, ln)
            (broken if "Generated." in common.strip_comments(text) else other).append(name)
        elif f.endswith("Generated/StrictParams.lean"):
            broken.append(f"Generated/StrictParams.lean:{ln}")
        else:
            other.append(f"{f}:{ln}")
    return bool(broken) and not other, sorted(set(broken)) or sorted(set(other))


def import_closure(module: str = f"Properties.{PROP}") -> set[str]:
    """Relative paths of the Lean sources of this project that `module` (transitively) imports."""
    seen: set[str] = set()
    todo = [module]
    while todo:
        m = todo.pop()
        f = common.LEAN_DIR / (m.replace(".", "/") + ".lean")
        rel = str(f.relative_to(common.LEAN_DIR))
        if rel in seen or not f.exists():
            continue
        seen.add(rel)
        for line in f.read_text().splitlines():
            mm = re.match(r"\s*import\s+(\S+)", line)
            if mm:
                todo.append(mm.group(1))
    return seen


def lean_audit():
    thms = common.property_theorems(PROP)
    # forbidden tokens anywhere in what Properties.C18 is built from (the unfinished files of other
    # topics are not this property's obligations)
    mine = import_closure()
    bad = [h for h in common.lean_forbidden_tokens() if h.split(":")[0] in mine]
    if bad:
        raise InfraError("forbidden tokens in Lean sources: " + "; ".join(bad[:5]))
    axioms = common.audit_axioms(f"Properties.{PROP}", thms) if thms else {}
    offending = {t: axioms.get(t) for t in thms
                 if axioms.get(t) is None or not set(axioms[t]) <= common.ALLOWED_AXIOMS}
    if offending:
        raise InfraError(f"axiom audit failed: {offending}")
    return thms, axioms, len(thms)


def expected_missing() -> list[str]:
    """The list pinned by `strict_sound` in Properties/C18.lean (the timing parameters that the strict
    comparison does not cover): non-empty = the known finding F5."""
    src = common.strip_comments((common.LEAN_DIR / "Properties" / "C18.lean").read_text())
    m = re.search(r"theorem\s+strict_sound\s*:\s*strictMissing\s+Generated\.strictParams[^=]*=\s*\[([^\]]*)\]", src)
    if not m:
        raise InfraError("Properties/C18.lean: theorem strict_sound not found in the expected form")
    return [x.strip().strip('"') for x in m.group(1).split(",") if x.strip()]


# real attribute named by the table -> the constructor parameter a device pair differs in
MISSING_TO_PARAM = {"phase_jump_time": "custom_phase_jump_time", "min_duration": "min_duration"}
_UNCOVERED: list[str] | None = None


def uncovered_params() -> list[str]:
    """Constructor parameters behind the timing parameters pinned as uncovered by `strict_sound`."""
    global _UNCOVERED
    if _UNCOVERED is None:
        _UNCOVERED = sorted(MISSING_TO_PARAM.get(m, m) for m in expected_missing())
    return _UNCOVERED


# ======================================================================================
# findings
# ======================================================================================
def local_findings() -> list[dict]:
    """Findings carried by corpus/C18/known_findings.jsonl until they are moved to
    /verif/known_findings.jsonl (integration note)."""
    out = []
    f = common.CORPUS / PROP / "known_findings.jsonl"
    if f.exists():
        for line in f.read_text().splitlines():
            line = line.strip()
            if line and not line.startswith("#"):
                out.append(json.loads(line))
    return out


def all_findings() -> list[dict]:
    glob = load_known_findings()
    ids = {(f.get("id"), f.get("property")) for f in glob}
    return glob + [f for f in local_findings() if (f.get("id"), f.get("property")) not in ids]


def corpus_cases() -> list[dict]:
    d = common.CORPUS / PROP
    out = []
    if d.exists():
        for f in sorted(d.glob("*.json")):
            item = json.loads(f.read_text())
            item["_file"] = f.name
            out.append(item)
    return out


def norm_edits(edits) -> list:
    return [tuple(e) if not isinstance(e, tuple) else e for e in edits]


# ======================================================================================
# generation of one sequence
# ======================================================================================
def gen_sequence(rng: random.Random):
    """A generated device spec and a history of successful building calls on it."""
    want = rng.choice(["any", "eom", "dmm", "local", "any", "eom"])
    spec = gen_device(rng, want)
    # big default max_duration=None channels make Dev construction fine; nothing else to adapt
    profile = rng.choice(["mix", "eom", "target", "dmm", "phase"])
    dev = Dev18(spec)
    rs = RealSeq(dev)
    g = HistoryGen(rng, spec, exact=rng.random() < 0.7, profile=profile, p_invalid=0.0)
    ops = []
    n_ops = rng.randrange(5, 30)
    # an SLM mask somewhere in the history (its DMM is clipped at the bottom detuning of the device's DMM)
    slm_at = rng.randrange(0, n_ops) if spec.get("dmms") and rng.random() < 0.25 else None
    for i in range(n_ops):
        if i == slm_at:
            op = {"k": "slm", "id": 0, "qs": sorted(rng.sample(range(spec["nq"]), rng.randrange(1, spec["nq"] + 1)))}
            st, _ = rs.apply(op)
            if st == "ok":
                ops.append(op)
            continue
        op = g.next_op()
        if op["k"] in ("dur", "est", "pref"):
            continue
        if op["k"] in ("delay", "target", "add", "adddmm") and rng.random() < 0.2:
            op["kw"] = True          # written with keyword arguments (on top of the generator's own share)
        st, _ = rs.apply(op)
        g.feedback(op, st, rs)
        if st == "ok":
            ops.append(op)
    # the original is rebuilt from the successful calls only (a failed call may leave residue, C09)
    kept = []
    dev = Dev18(spec)
    rs = RealSeq(dev)
    for op in ops:
        st, _ = rs.apply(op)
        if st == "ok":
            kept.append(op)
        else:
            # a residue of the failed call would make the sequence differ from its call log
            dev2, rs2, ok = build_base(spec, kept)
            if not ok:
                raise InfraError("a prefix of successful calls does not rebuild")
            dev, rs = dev2, rs2
    return spec, kept, dev, rs, profile


# ======================================================================================
# check
# ======================================================================================
def check(tier: str, seed: int) -> int:
    timer = Timer()
    tie_broken: list[dict] = []
    table = None
    # 1. translator tie
    try:
        table, _changed = tb.regenerate()
    except tb.TableError as e:
        tie_broken.append(dict(kind="table-extraction", table="PulserModel/Generated/StrictParams.lean", what=str(e)))
    # 2. build
    ok, out = common.lake_build(TARGETS)
    if not ok:
        is_tie, names = classify_build_failure(out)
        if not is_tie and not tie_broken:
            raise InfraError("lake build failed in hand-written files " + ", ".join(names) + ":\n" + out[-2500:])
        if is_tie:
            tie_broken.append(dict(kind="table-side-condition", theorems=names,
                                   table="PulserModel/Generated/StrictParams.lean",
                                   what="`decide` over the regenerated table no longer holds",
                                   extracted=table, lean_output=out[-1500:]))
        model_ok, out2 = common.lake_build(TARGETS_MODEL)
        if not model_ok:
            raise InfraError("lake build of the hand-written model/proofs failed:\n" + out2[-2500:])
    # 3. audit
    if ok:
        thms, axioms, discharged = lean_audit()
    else:
        thms, axioms, discharged = common.property_theorems(PROP), {}, 0
    missing = expected_missing()

    global MODEL
    MODEL_STATS.clear()
    MODEL = SwitchModel()
    rng = random.Random(f"{PROP}-{seed}")
    findings = all_findings()
    n_seq = N_SEQ[tier]
    n_var = VARIANTS[tier]
    if tie_broken:
        n_seq = int(n_seq * 1.5)
        n_var = int(n_var * 1.5)
    hist = dict(outcome=collections.Counter(), strict_outcome=collections.Counter(),
                nonstrict_outcome=collections.Counter(), param=collections.Counter(),
                param_strict_ok=collections.Counter(), param_strict_raise=collections.Counter(),
                profile=collections.Counter(), nops=collections.Counter(), nchan=collections.Counter(),
                register=collections.Counter(), opkinds=collections.Counter(), fail_clauses=collections.Counter(),
                raise_types=collections.Counter(), unsampleable=collections.Counter())
    distinct: set[str] = set()
    nontrivial = 0
    evaluations = 0
    samples: list[dict] = []
    violations: list[dict] = []
    known_hits = collections.Counter()
    known_replays: dict[str, str] = {}
    seen_keys: set[str] = set()

    def handle_fail(case: dict, f: Fail):
        """shrink -> key -> known finding? -> violation"""
        hist["fail_clauses"][f.clause] += 1
        pre_key = json.dumps(f.key, sort_keys=True)
        if pre_key in seen_keys:
            return
        # an unshrunk failure that already is a listed finding with a replay needs no shrinking
        kf0 = match_known(PROP, f.key, findings)
        if kf0 is not None and kf0["id"] in known_replays and len(case.get("edits", [None])) == 1:
            known_hits[kf0["id"]] += 1
            seen_keys.add(pre_key)
            return
        small = shrink(case, fail_sig(f))
        r = run_case(small)
        ff = next((x for x in r.fails if fail_sig(x) == fail_sig(f)), f)
        key = dict(ff.key)
        kf = match_known(PROP, key, findings)
        if kf is not None:
            known_hits[kf["id"]] += 1
            seen_keys.add(pre_key)
            if kf["id"] not in known_replays:
                p = write_replay(PROP, dict(property=PROP, origin="monitor", known_finding=kf["id"], clause=ff.clause,
                                            key=key, message=ff.msg, **small))
                known_replays[kf["id"]] = str(p)
            return
        sig = json.dumps(key, sort_keys=True)
        if sig in seen_keys:
            return
        seen_keys.add(sig)
        seen_keys.add(pre_key)
        if ff.clause == "model-matching":   # model and implementation disagree, no property failure
            violations.append(dict(property=PROP, origin="correspondence", clause=ff.clause, key=key,
                                   broken="lean/PulserModel/Switch.lean (possibleMatches / checkChannelsMatch) vs "
                                          "/repo switch_device disagree on the channel matching: " + ff.msg,
                                   message=ff.msg, no_failing_input_found=True, **small))
            return
        violations.append(dict(property=PROP, origin="monitor", clause=ff.clause, key=key, message=ff.msg, **small))

    def account(case: dict, res: Result, origin: str):
        nonlocal nontrivial, evaluations
        evaluations += 1
        kind = case.get("kind", "device")
        canon = json.dumps({k: v for k, v in case.items() if not k.startswith("_")}, sort_keys=True, default=str)
        if canon not in distinct:
            distinct.add(canon)
            if res.nontrivial and len(case["ops"]) >= 2:
                nontrivial += 1
        st = res.status.split(":")[0] if not res.status.startswith("skip") else res.status
        hist["outcome"][st] += 1
        if res.status.startswith("raise:"):
            hist["raise_types"][res.status[6:]] += 1
        if kind == "device":
            (hist["strict_outcome"] if case["strict"] else hist["nonstrict_outcome"])[st] += 1
            for p in sorted({("dmm." if e[0] == "dmm" else "") + q for e in case["edits"] for q in edit_params(e)}):
                hist["param"][p] += 1
                if case["strict"] and len(case["edits"]) == 1:
                    if st == "ok":
                        hist["param_strict_ok"][p] += 1
                    elif st == "raise":
                        hist["param_strict_raise"][p] += 1
        else:
            hist["register"][f"{case['mode']}:{st}"] += 1
        for f in res.fails:
            handle_fail(case, f)

    # 4a. corpus first
    for item in corpus_cases():
        case = {k: v for k, v in item.items() if not k.startswith("_") and k not in ("property", "what")}
        if "edits" in case:
            case["edits"] = norm_edits(case["edits"])
        res = run_case(case)
        if res.status.startswith("skip"):
            raise InfraError(f"corpus case {item['_file']} cannot be run: {res.status}")
        account(case, res, "corpus")
    # 4b. generated sequences x device variants
    for h in range(n_seq):
        spec, ops, dev, rs, profile = gen_sequence(rng)
        hist["profile"][profile] += 1
        hist["nops"][min(len(ops) // 5 * 5, 30)] += 1
        hist["nchan"][len(rs.seq._schedule)] += 1
        for op in ops:
            hist["opkinds"][op["k"]] += 1
        singles = single_edits(rng, spec)
        rng.shuffle(singles)
        variants = [[e] for e in singles[: max(4, n_var - 5)]]
        structs = structural_edits(rng, spec)
        rng.shuffle(structs)
        variants += structs[:3]
        for _ in range(2):
            variants.append(rng.sample(singles, min(len(singles), rng.choice([2, 3, 4]))))
        base_obs: dict = {}
        for edits in variants:
            new_spec = apply_edits(spec, edits)
            # strict for every variant, non-strict for about 40% of them
            for strict in ((True, False) if rng.random() < 0.4 else (True,)):
                case = dict(kind="device", device=spec, ops=ops, edits=list(edits), strict=strict)
                res = check_device_switch(rs, new_spec, strict, edits, base_obs)
                account(case, res, "generated")
        if "unsampleable" in base_obs:
            hist["unsampleable"][base_obs["unsampleable"]] += 1
        for mode in rng.sample(REG_MODES, 2):
            case = dict(kind="register", device=spec, ops=ops, mode=mode)
            res = check_register_switch(rs, mode, base_obs)
            account(case, res, "generated")
        if len(samples) < 3 and len(ops) >= 6:
            samples.append(dict(device=spec, ops=ops[:10], edits=[list(e) for e in variants[0]], strict=True))
        if violations and tier == "quick":
            break

    # 5. the pinned list of uncovered timing parameters is the known finding F5: each of its entries
    #    must be a listed finding, reproduced by the monitor (replay written above)
    for m_ in missing:
        param = MISSING_TO_PARAM.get(m_, m_)
        kf = match_known(PROP, dict(clause="strict-identical", param=param), findings)
        if kf is None:
            violations.append(dict(property=PROP, kind="tie",
                                   broken=f"strict_sound pins `{m_}` as a timing parameter that the strict comparison "
                                          f"does not cover, and no known finding is listed for it",
                                   no_failing_input_found=True))
    # 6. tie broken without a failing input -> report it
    if tie_broken and not violations:
        for t in tie_broken:
            violations.append(dict(property=PROP, kind="tie", broken=t, no_failing_input_found=True,
                                   theorems=t.get("theorems", [])))
    elif tie_broken:
        for v in violations:
            v["tie_broken"] = tie_broken

    ev = dict(
        property_id=PROP, tier=tier, seed=seed, level="proof",
        coverage=dict(
            obligations=len(thms), discharged=discharged,
            checker_cmd="python harness/tables_c18.py (regenerate) && cd lean && lake build " + " ".join(TARGETS)
                        + " && #print axioms per theorem (harness/common.py audit_axioms)",
            trusted_base=TRUSTED_BASE, theorems=thms, axioms=axioms,
            table=table, tie_broken=tie_broken, strict_missing_pinned=missing,
            evaluations=evaluations, distinct_nontrivial=nontrivial,
            traces_validated_against_impl=len(distinct),
            rule="sequences: gen.HistoryGen on gen.gen_device (only successful calls kept, rebuilt from the call "
                 "list); device pairs: the original spec + an edit list (every single channel/EOM/DMM/device "
                 "parameter, random subsets, order/ids/duplicates/DMM order); evaluations = switch_device / "
                 "switch_register calls checked; distinct = distinct (device, ops, edits|register mode, strict); "
                 "non-trivial = the call returned a sequence on a device different from the original's (or a new "
                 "register) for a history of >= 2 successful calls",
            samples=samples,
            outcome_histogram=dict(hist["outcome"]), strict_outcomes=dict(hist["strict_outcome"]),
            nonstrict_outcomes=dict(hist["nonstrict_outcome"]), raise_types=dict(hist["raise_types"]),
            param_histogram=dict(hist["param"]), single_param_strict_ok=dict(hist["param_strict_ok"]),
            single_param_strict_raise=dict(hist["param_strict_raise"]),
            register_modes=dict(hist["register"]), profile_histogram=dict(hist["profile"]),
            ops_per_sequence={str(k): v for k, v in sorted(hist["nops"].items())},
            declared_channels={str(k): v for k, v in sorted(hist["nchan"].items())},
            op_histogram=dict(hist["opkinds"]), fail_clauses=dict(hist["fail_clauses"]),
            unsampleable_originals=dict(hist["unsampleable"]),
            model_requests=MODEL.lines, model_matching=dict(MODEL_STATS),
            known_findings_hit=dict(known_hits), known_finding_replays=known_replays,
            uncovered_clauses=UNCOVERED, repo_fingerprint=common.repo_fingerprint(),
        ),
        assumptions=TRUSTED_BASE, wall_s=timer.s(), violations=len(violations),
    )
    write_evidence(PROP, ev)
    MODEL.close()
    MODEL = None
    for kf in findings:
        if kf.get("property") == PROP and kf.get("status") == "known":
            n = known_hits.get(kf["id"], 0)
            print(f"KNOWN-FINDING: property={PROP} [{kf['id']}] {kf['what']} "
                  + (f"(reproduced {n}x; replay={known_replays.get(kf['id'])})" if n
                     else "(listed; not reached by this run)"))
    if violations:
        for v in violations:
            p = write_replay(PROP, v)
            tail = " no-failing-input-found" if v.get("no_failing_input_found") else ""
            print(f"VIOLATION property={PROP} replay={p}{tail}")
            print("  " + str(v.get("message") or v.get("broken"))[:300])
        return 1
    print(f"OK property={PROP} tier={tier} theorems={discharged}/{len(thms)} cases={len(distinct)} "
          f"nontrivial={nontrivial} wall={timer.s()}s")
    return 0


def replay(path: str) -> int:
    item = json.loads(Path(path).read_text())
    findings = all_findings()
    if item.get("kind") == "tie":
        print("replay: this file records a broken translator tie without a failing input:")
        print(json.dumps(item["broken"], indent=1, default=str)[:3000])
        try:
            tb.regenerate()
            ok, out = common.lake_build(TARGETS)
        except tb.TableError as e:
            ok, out = False, str(e)
        if ok:
            print("replay: the table obligations check again")
            return 0
        print(out[-1500:])
        print(f"VIOLATION property={PROP} replay={path}")
        return 1
    case = {k: item[k] for k in ("kind", "device", "ops", "edits", "strict", "mode", "expect") if k in item}
    case.setdefault("kind", "device")
    global MODEL
    ok, out = common.lake_build(TARGETS_MODEL)
    if not ok:
        raise InfraError("lake build failed:\n" + out[-2000:])
    MODEL = SwitchModel()
    if "edits" in case:
        case["edits"] = norm_edits(case["edits"])
    res = run_case(case)
    print(f"case: kind={case['kind']} ops={len(case['ops'])} "
          + (f"edits={case['edits']} strict={case['strict']}" if case["kind"] == "device" else f"mode={case['mode']}"))
    print(f"outcome: {res.status} {res.detail}")
    bad = False
    for f in res.fails:
        kf = match_known(PROP, f.key, findings)
        print(("known " + kf["id"] if kf else "FAIL") + f": {f.key}: {f.msg}")
        bad = bad or kf is None
    if bad:
        print(f"VIOLATION property={PROP} replay={path}")
        return 1
    print("replay: " + ("only known findings on this case" if res.fails else "property holds on this case"))
    return 0
