"""C06 — Sampling renders the schedule exactly.

Proof part: lean/Properties/C06.lean over lean/PulserModel/Sampler.lean (structural
rendering: which pulse, which of its samples, at which nanosecond; phase painting;
extension; per-atom attribution of `to_nested_dict`).

Correspondence: histories generated exactly like the scheduler family (gen.gen_device,
gen.HistoryGen, lockstep.Lockstep).  At checkpoints the model's rendering (`seq render`)
is expanded with the real pulses' own `samples` and compared at EVERY nanosecond with
`pulser.sampler.sample(seq)` (amp / det / phase, exact), with `extended_duration`, and —
through the model's accumulation statements — with `to_nested_dict(all_local=False/True)`.

Monitor (no model): the arrays are recomputed in numpy straight from `seq._schedule`
following the statement; per-atom sums incl. DMM weights and the XY SLM-mask window;
sequences with `config_slm_mask` are generated here with the real API.
"""
from __future__ import annotations

import collections
import json
import math
import os
import random
import subprocess
import warnings
from fractions import Fraction
from pathlib import Path

import numpy as np

import common
from common import InfraError, Timer, match_known, rat, write_evidence, write_replay
from gen import HistoryGen, gen_device
from lockstep import Lockstep
from realcode import (BASIS_WIRE, Dev, RealSeq, real_name, wire_name, doc_is_detuned_delay,
                      doc_phase_jump_time)
from seqcheck import owner_of

import pulser
from pulser import Pulse
from pulser.channels import DMM
from pulser.sampler import sample

PROP = "C06"
LEAN_TARGETS = ["PulserModel.Sampler", "Proofs.Sampler", "Properties.C06", "Driver.SeqRender", "pmdriver"]
N_HIST = {"quick": 650, "thorough": 10000}     # (thorough about 10 min)
N_SLM = {"quick": 150, "thorough": 4000}
TWO_PI = 2 * math.pi

TRUSTED_BASE = [
    "Lean 4.33 kernel; axioms allowed: propext, Classical.choice, Quot.sound (audited per theorem)",
    "statements in lean/Properties/C06.lean say what the property says (structure only: which pulse and which of "
    "its samples at which nanosecond; the sample values are C16)",
    "hand-written model lean/PulserModel/{Schedule,Sequence,Sampler}.lean corresponds to /repo (checked by "
    "lock-step runs and every-nanosecond comparison on generated histories, not proved)",
    "lean/Driver/SeqRender.lean (run-length encoding of the model's rendering; a wrong encoding shows up as a "
    "divergence from the real arrays), harness/realcode.py adapters, harness/props/C06.py expansion",
    "the real pulses' own `samples`, `Pulse.fall_time`, `Pulse.phase` are read as given (leaf values)",
]


# ----------------------------------------------------------------------------------------------
# the model behind `seq render`
# ----------------------------------------------------------------------------------------------
SCRATCH_MAIN = '''import Driver.Seq
import Driver.SeqRender

structure DState where
  seq : DSeq.M := {}

def handle (st : DState) (line : String) : DState × String :=
  match (line.trimAscii.toString.splitOn " ").filter (· ≠ "") with
  | "seq" :: "render" :: rest =>
    match st.seq.st with
    | some s => (st, DRender.renderCmd s rest)
    | none => (st, "bad nostate")
  | "seq" :: rest =>
    let (m, out) := DSeq.step st.seq rest
    ({ st with seq := m }, out)
  | _ => (st, "bad machine")

partial def loop (h : IO.FS.Stream) (out : IO.FS.Stream) (st : DState) : IO Unit := do
  let line ← h.getLine
  if line.isEmpty then return ()
  let (st', reply) := handle st line
  out.putStrLn reply
  out.flush
  loop h out st'

def main : IO Unit := do
  loop (← IO.getStdin) (← IO.getStdout) {}
'''


class ScratchDriver:
    """Same interface as common.Driver: Driver/Main.lean plus the `seq render` command, interpreted
    by `lake env lean --run` (used only until `seq render` is part of pmdriver)."""

    def __init__(self):
        self.path = common.LEAN_DIR / ".lake" / f"c06_main_{os.getpid()}.lean"
        self.path.write_text(SCRATCH_MAIN)
        self.p = subprocess.Popen(
            ["lake", "env", "lean", "--run", str(self.path)], cwd=common.LEAN_DIR,
            stdin=subprocess.PIPE, stdout=subprocess.PIPE, stderr=subprocess.PIPE, text=True, bufsize=1)
        self.lines = 0

    def ask(self, line: str) -> str:
        assert "\n" not in line
        self.p.stdin.write(line + "\n")
        self.p.stdin.flush()
        self.lines += 1
        r = self.p.stdout.readline()
        if not r:
            raise InfraError(f"scratch driver died on: {line}\n{self.p.stderr.read()[-1500:]}")
        return r.rstrip("\n")

    def close(self):
        try:
            self.p.stdin.close()
            self.p.wait(timeout=5)
        except Exception:
            self.p.kill()
        self.path.unlink(missing_ok=True)


def open_driver():
    """pmdriver when it knows `seq render` (after integration), else the scratch main.
    (One-line switch: `return common.Driver("pmdriver")`.)"""
    try:
        d = common.Driver("pmdriver")
        d.ask("seq reset")
        if d.ask("seq render") != "bad cmd":
            return d
        d.close()
    except InfraError:
        pass
    return ScratchDriver()


# ----------------------------------------------------------------------------------------------
# failures
# ----------------------------------------------------------------------------------------------
class Fail:
    """kind: 'monitor' (the property is false on the real objects) or 'corr' (model != implementation)."""

    def __init__(self, kind, clause, msg, **key):
        self.kind, self.clause, self.msg = kind, clause, msg
        self.key = dict(key, clause=clause)

    def __repr__(self):
        return f"{self.kind}/{self.clause}: {self.msg}"


def local_findings():
    out = []
    f = common.CORPUS / PROP / "known_findings.jsonl"
    if f.exists():
        for line in f.read_text().splitlines():
            line = line.strip()
            if line and not line.startswith("#"):
                out.append(json.loads(line))
    return out


def all_findings():
    glob = common.load_known_findings()
    ids = {f.get("id") for f in glob}
    return glob + [f for f in local_findings() if f.get("id") not in ids]


# ----------------------------------------------------------------------------------------------
# real-side views
# ----------------------------------------------------------------------------------------------
def arr(x) -> np.ndarray:
    return np.asarray(x.as_array(detach=True) if hasattr(x, "as_array") else x, dtype=float)


def first_diff(a: np.ndarray, b: np.ndarray):
    if len(a) != len(b):
        return f"length {len(a)} vs {len(b)}"
    bad = np.flatnonzero(~((a == b) | (np.isnan(a) & np.isnan(b))))
    if len(bad) == 0:
        return None
    t = int(bad[0])
    return f"t={t}: {a[t]!r} vs {b[t]!r} ({len(bad)} samples differ)"


def close(a: np.ndarray, b: np.ndarray, tol=1e-9) -> bool:
    if len(a) != len(b):
        return False
    nan = np.isnan(a) & np.isnan(b)      # NaN samples (a pulse may carry them) are copies too
    fin = np.abs(np.where(np.isfinite(a), a, 0.0))
    scale = max(1.0, float(np.max(fin)) if len(a) else 1.0)
    with np.errstate(invalid="ignore"):
        return bool(np.all(nan | (a == b) | (np.abs(a - b) <= tol * scale)))


def real_nested(samples, qidx, all_local):
    """to_nested_dict -> {"G": {basis: (amp, det, phase)}, "L": {basis: {q: (amp, det, phase)}}} (wire names)."""
    d = samples.to_nested_dict(all_local=all_local)
    out = {"G": {}, "L": {}}
    for b, q in d["Global"].items():
        out["G"][BASIS_WIRE[b]] = (arr(q["amp"]), arr(q["det"]), arr(q["phase"]))
    for b, per in d["Local"].items():
        out["L"][BASIS_WIRE[b]] = {qidx[t]: (arr(q["amp"]), arr(q["det"]), arr(q["phase"])) for t, q in per.items()}
    return out


# ----------------------------------------------------------------------------------------------
# correspondence: model rendering expanded with the real pulses' samples
# ----------------------------------------------------------------------------------------------
class Expanded:
    def __init__(self, n):
        self.amp = np.zeros(n)
        self.det = np.zeros(n)
        self.phase = np.zeros(n)
        self.multi = False


def expand_terms(out: np.ndarray, t0, t1, terms, sch, qty) -> str | None:
    for idx, off0 in terms:
        if not (0 <= idx < len(sch.slots)) or not isinstance(sch.slots[idx].type, Pulse):
            return f"term refers to instruction {idx} which is not a pulse"
        smp = arr(getattr(sch.slots[idx].type, qty).samples)
        if off0 < 0 or off0 + (t1 - t0) > len(smp):
            return f"term [{idx},{off0}] over [{t0},{t1}) leaves the pulse's {len(smp)} samples"
        out[t0:t1] += smp[off0:off0 + (t1 - t0)]
    return None


def phase_of(sch, idx) -> float:
    return 0.0 if idx is None else float(sch.slots[idx].type.phase)


def expand_channel(mc: dict, sch):
    """Model channel rendering -> arrays, using the samples of the pulses held by the real schedule."""
    n = mc["len"]
    e = Expanded(n)
    pos = 0
    for t0, t1, aterms, dterms, ph in mc["segs"]:
        if t0 != pos or t1 <= t0 or t1 > n:
            return None, f"segments do not tile [0,{n}): [{t0},{t1}) after {pos}"
        pos = t1
        for terms, out, qty in ((aterms, e.amp, "amplitude"), (dterms, e.det, "detuning")):
            err = expand_terms(out, t0, t1, terms, sch, qty)
            if err:
                return None, err
            if len(terms) > 1:
                e.multi = True
        if ph is not None and not (0 <= ph < len(sch.slots) and isinstance(sch.slots[ph].type, Pulse)):
            return None, f"phase refers to instruction {ph} which is not a pulse"
        e.phase[t0:t1] = phase_of(sch, ph)
    if pos != n:
        return None, f"segments end at {pos}, length {n}"
    return e, None


def extend_model(e: Expanded, mc: dict, sch, n_new: int):
    """Apply the model's padding cell up to n_new."""
    pad = mc["pad"]["cell"]
    k = n_new - len(e.amp)
    out = Expanded(0)
    if k <= 0:
        out.amp, out.det, out.phase = e.amp, e.det, e.phase
        return out
    if pad.get("amp") or pad.get("det"):
        raise InfraError("model pads with pulse terms")
    out.amp = np.concatenate([e.amp, np.zeros(k)])
    out.det = np.concatenate([e.det, np.full(k, float(Fraction(pad["detc"])))])
    out.phase = np.concatenate([e.phase, np.full(k, phase_of(sch, pad["phase"]))])
    return out


def phase_rule() -> str:
    """Which accumulation rule the tree under test has for the phase of a nested-dict entry:
    'sum' (`d[..][PHASE] += cs.phase`, Sampler.lean `entryPhaseSum`) or 'merge' (the repair
    `_add_channel_samples`, Sampler.lean `phaseStep`/`entryPhase`)."""
    import pulser.sampler.samples as S

    return "merge" if hasattr(S, "_add_channel_samples") else "sum"


def model_nested(info: dict, ext: list, T: int, in_xy: bool):
    """Run the model's accumulation statements on the (extended) model channel arrays."""
    rule = phase_rule()
    def new():
        return (np.zeros(T), np.zeros(T), np.zeros(T))

    out = {"G": {}, "L": {}}
    if in_xy:
        out["G"]["xy"] = new()
        out["L"]["xy"] = {}
    for ins in info["instrs"]:
        if ins[0] == "touch":
            out["L"].setdefault(ins[1], {}).setdefault(ins[2], new())
            continue
        _, b, q, k, lo, hi, w = ins
        if q is None:
            tgt = out["G"].setdefault(b, new())
        else:
            tgt = out["L"].setdefault(b, {}).setdefault(q, new())
        sl = slice(lo, hi)
        src = ext[k]
        if rule == "merge":
            # Sampler.lean `mergePhase`: keep only the driving side's phase when exactly one side drives
            prev_on, new_on = tgt[0][sl] != 0, src.amp[sl] != 0
            only_prev = (prev_on & ~new_on).astype(float)
            only_new = (new_on & ~prev_on).astype(float)
            tgt[2][sl] = tgt[2][sl] * (1.0 - only_new) + src.phase[sl] * (1.0 - only_prev)
        else:
            tgt[2][sl] += src.phase[sl]
        tgt[0][sl] += src.amp[sl]
        tgt[1][sl] += src.det[sl] * float(Fraction(w))
    return out


def cmp_nested(m: dict, r: dict, tag: str, stats) -> list[Fail]:
    fails = []
    if set(m["G"]) != set(r["G"]):
        fails.append(Fail("corr", "nested-keys", f"{tag}: Global bases model={sorted(m['G'])} real={sorted(r['G'])}"))
    if set(m["L"]) != set(r["L"]):
        fails.append(Fail("corr", "nested-keys", f"{tag}: Local bases model={sorted(m['L'])} real={sorted(r['L'])}"))
    for b in set(m["L"]) & set(r["L"]):
        if set(m["L"][b]) != set(r["L"][b]):
            fails.append(Fail("corr", "nested-keys",
                              f"{tag}: Local[{b}] atoms model={sorted(m['L'][b])} real={sorted(r['L'][b])}"))
    pairs = [(f"Global[{b}]", m["G"][b], r["G"][b]) for b in set(m["G"]) & set(r["G"])]
    for b in set(m["L"]) & set(r["L"]):
        pairs += [(f"Local[{b}][{q}]", m["L"][b][q], r["L"][b][q]) for q in set(m["L"][b]) & set(r["L"][b])]
    for name, a, c in pairs:
        for qty, x, y in zip(("amp", "det", "phase"), a, c):
            d = first_diff(x, y)
            if d is None:
                continue
            if close(x, y, 1e-12):
                stats["inexact_sums"] += 1
                continue
            fails.append(Fail("corr", "nested-" + qty, f"{tag}: {name}.{qty} model vs real: {d}", qty=qty))
    return fails


def render_args(weights: dict, mask, ext=None) -> str:
    toks = [f"{ch}:" + common.wlist(ws, rat) for ch, ws in weights.items()]
    if mask:
        toks.append("mask:" + common.wlist(mask))
    if ext is not None:
        toks.append(f"ext:{ext}")
    return " ".join(["seq render"] + toks)


def compare_model(drv, real: RealSeq, weights: dict, mask, rng, stats) -> list[Fail]:
    """Model vs implementation at every nanosecond."""
    seq = real.seq
    fails: list[Fail] = []
    qidx = {q: i for i, q in enumerate(real.dev.qids)}
    if not seq._schedule:
        return fails
    try:
        with warnings.catch_warnings():
            warnings.simplefilter("ignore")
            samples = sample(seq)
    except Exception:  # noqa: BLE001  (reported by the monitor: "sampling yields …")
        return fails
    durs = [s.duration for s in samples.samples_list]
    T = max(durs)
    # extension target: beyond the end, exactly the end, or (sometimes) below a channel's duration
    r = rng.random()
    n_ext = T + rng.choice([1, 3, 17, 250]) if r < 0.6 else (T if r < 0.8 or T < 2 else rng.randrange(1, T))
    reply = drv.ask(render_args(weights, mask, n_ext))
    try:
        model = json.loads(reply)
    except json.JSONDecodeError:
        raise InfraError(f"bad render reply: {reply[:300]}")
    stats["renders"] += 1
    if len(model["chans"]) != len(seq._schedule):
        return [Fail("corr", "channels", f"model renders {len(model['chans'])} channels, real has {len(seq._schedule)}")]
    exps = []
    for mc, (name, sch) in zip(model["chans"], seq._schedule.items()):
        cs = samples.channel_samples[name]
        if mc["name"] != wire_name(name):
            fails.append(Fail("corr", "channels", f"channel order: model {mc['name']} real {name}"))
            return fails
        if mc["len"] != cs.duration or cs.duration != len(cs.amp):
            fails.append(Fail("corr", "array-length", f"{name}: model {mc['len']} real {cs.duration}"))
            return fails
        e, err = expand_channel(mc, sch)
        if err:
            fails.append(Fail("corr", "structure", f"{name}: {err}"))
            return fails
        exps.append(e)
        stats["ns"] += mc["len"]
        stats["segments"] += len(mc["segs"])
        for qty in ("amp", "det", "phase"):
            d = first_diff(getattr(e, qty), arr(getattr(cs, qty)))
            if d is not None and not (e.multi and close(getattr(e, qty), arr(getattr(cs, qty)), 1e-12)):
                fails.append(Fail("corr", "chan-" + qty, f"{name}.{qty} model vs sample(): {d}", qty=qty))
        rs = [[int(s.ti), int(s.tf), sorted(qidx[q] for q in s.targets)] for s in cs.slots]
        ms = [[a, b, sorted(t)] for a, b, t in mc["slots"]]
        if rs != ms:
            k = next((i for i, (x, y) in enumerate(zip(rs, ms)) if x != y), min(len(rs), len(ms)))
            fails.append(Fail("corr", "target-slots", f"{name}: slots differ at {k}: model "
                              f"{ms[k] if k < len(ms) else None} real {rs[k] if k < len(rs) else None}"))
    if fails:
        return fails
    # extend_duration
    stats["ext_kind"]["below" if n_ext < T else ("equal" if n_ext == T else "beyond")] += 1
    try:
        with warnings.catch_warnings():
            warnings.simplefilter("ignore")
            ext = sample(seq, extended_duration=n_ext)
        ext_err = None
    except ValueError as ex:
        ext, ext_err = None, str(ex)
    model_ok = all(mc["pad"]["ok"] for mc in model["chans"])
    if (ext_err is None) != model_ok:
        fails.append(Fail("corr", "extend-verdict", f"extend to {n_ext}: model ok={model_ok} real error={ext_err!r}"))
    elif ext is not None:
        for mc, e, (name, sch) in zip(model["chans"], exps, seq._schedule.items()):
            cs = ext.channel_samples[name]
            if mc["pad"]["len"] != cs.duration:
                fails.append(Fail("corr", "extend-length", f"{name}: model {mc['pad']['len']} real {cs.duration}"))
                continue
            x = extend_model(e, mc, sch, n_ext)
            for qty in ("amp", "det", "phase"):
                d = first_diff(getattr(x, qty), arr(getattr(cs, qty)))
                if d is not None:
                    fails.append(Fail("corr", "extend-" + qty, f"{name}.{qty} extended to {n_ext}: {d}", qty=qty))
    # per-atom view
    in_xy = any(sch.channel_obj.basis == "XY" for sch in seq._schedule.values())
    padded = [extend_model(e, mc, sch, T) for mc, e, (name, sch) in zip(model["chans"], exps, seq._schedule.items())]
    for al in (False, True):
        info = model["nested"]["true" if al else "false"]
        try:
            with warnings.catch_warnings():
                warnings.simplefilter("ignore")
                rn = real_nested(samples, qidx, al)
            rerr = None
        except IndexError as ex:
            rn, rerr = None, f"IndexError: {ex}"
        if rerr is not None:
            # the model's to_nested_dict is total (since the repair of F-C06-2); the monitor reports the raise
            fails.append(Fail("corr", "nested-verdict", f"all_local={al}: the model yields a view, real raises {rerr!r}"))
            continue
        fails += cmp_nested(model_nested(info, padded, T, in_xy), rn, f"all_local={al}", stats)
        stats["nested"] += 1
    if mask:
        me = model["mask"]
        real_mask = samples._slm_mask
        rm = dict(targets=sorted(qidx[q] for q in real_mask.targets), end=int(real_mask.end))
        if dict(targets=sorted(me["targets"]), end=me["end"]) != rm:
            fails.append(Fail("corr", "slm-mask", f"mask model={me} real={rm}"))
    return fails


# ----------------------------------------------------------------------------------------------
# monitor: the statement over the real objects, no model
# ----------------------------------------------------------------------------------------------
def is_dd(p) -> bool:
    """Detuned delay, decided from the waveforms (not by the scheduler's own helper, which the sampler uses)."""
    return bool(doc_is_detuned_delay(p))


class Known:
    """What the harness knows about the sequence from its own inputs (never read back from the
    implementation): detuning-map weights per DMM channel and qubit index, SLM-mask targets,
    which channels were left in EOM mode."""

    def __init__(self):
        self.weights: dict[str, list] = {}     # real channel name -> weight per qubit index
        self.mask = None                        # qubit indices given to config_slm_mask
        self.eom_open: dict[str, bool] = {}     # real channel name -> enable/disable_eom_mode log

    def note(self, seq, op, status, before_names):
        """Update from one applied op (`before_names`: channel names before it)."""
        new = [n for n in seq._schedule if n not in before_names]
        if op["k"] == "detmap" and status == "ok":
            # the map's own channel is the one declared last; with a mask pending (config_slm_mask was the first
            # call of the sequence) entering Ising mode declares the mask's DMM first
            for n in new[:-1]:
                if n.startswith("dmm_") and self.mask is not None:
                    nq = len(seq.register.qubit_ids)
                    self.weights[n] = [1.0 if i in self.mask else 0.0 for i in range(nq)]
            for n in new[-1:]:
                self.weights[n] = [float(x) for x in op["weights"]]
        elif new and self.mask is not None:
            # the DMM of an Ising SLM mask: weight 1 on the masked atoms, 0 elsewhere (config_slm_mask doc)
            nq = len(seq.register.qubit_ids)
            for n in new:
                if n.startswith("dmm_") and n not in self.weights:
                    self.weights[n] = [1.0 if i in self.mask else 0.0 for i in range(nq)]
        if op["k"] in ("eomon", "eommod", "eomoff"):
            name = real_name(op["ch"])
            if status != "ok" or self.eom_open.get(name, False) is None:
                # a failed EOM call may leave the channel half-way (C09 family): the log says nothing any more
                if name in seq._schedule:
                    self.eom_open[name] = None
            else:
                self.eom_open[name] = op["k"] != "eomoff"


def weight_of(det_map, pos) -> float:
    """Independent look-up of the detuning-map weight of the trap at `pos`."""
    coords = np.asarray(det_map.trap_coordinates, dtype=float)
    ws = np.asarray(det_map.weights, dtype=float)
    pos = np.asarray(arr(pos), dtype=float)
    hit = np.all(np.abs(coords - pos) <= 1e-6 + 1e-12, axis=1)
    return float(np.sum(ws[hit]))


def mod2pi_eq(a: np.ndarray, b: float, tol=1e-9) -> np.ndarray:
    d = np.abs(a - b) % TWO_PI
    return np.minimum(d, TWO_PI - d) <= tol


def monitor_seq(real: RealSeq, user_pulses: set, rng, stats, known: Known | None = None) -> list[Fail]:
    seq = real.seq
    known = known or Known()
    fails: list[Fail] = []
    if not seq._schedule:
        return fails
    qids = real.dev.qids
    try:
        with warnings.catch_warnings():
            warnings.simplefilter("ignore")
            samples = sample(seq)
    except NotImplementedError:
        raise
    except Exception as ex:  # noqa: BLE001
        empty_eom = any(sch.eom_blocks and (not sch.slots or sch.slots[-1].tf == 0) for sch in seq._schedule.values())
        dmm = getattr(seq, "_slm_mask_dmm", None)
        half_slm = bool(seq._in_ising and dmm and dmm in seq._schedule
                        and not getattr(seq._schedule[dmm], "_waiting_for_first_pulse", True)
                        and len(seq._schedule[dmm].slots) < 2)
        cause = "slm-dmm-pulse-missing-after-failed-add" if half_slm else (
            "eom-on-empty-channel" if empty_eom else "other")
        return [Fail("monitor", "sample-raises", f"sample(seq) raises {type(ex).__name__}: {ex}",
                     exc=type(ex).__name__, cause=cause)]
    T = max([int(sch.slots[-1].tf) for sch in seq._schedule.values() if sch.slots] + [0])
    if samples.max_duration != T:
        return [Fail("monitor", "array-length", f"max_duration {samples.max_duration}, longest channel ends at {T}")]
    in_xy = any(sch.channel_obj.basis == "XY" for sch in seq._schedule.values())
    qidx = {q: i for i, q in enumerate(qids)}
    chinfo = []
    for name, sch in seq._schedule.items():
        cs = samples.channel_samples[name]
        ch = sch.channel_obj
        n = int(sch.slots[-1].tf) if sch.slots else 0
        A, D, PH = arr(cs.amp), arr(cs.det), arr(cs.phase)
        # M1 length
        if not (len(A) == len(D) == len(PH) == n == sch.get_duration()):
            fails.append(Fail("monitor", "array-length", f"{name}: arrays {len(A)},{len(D)},{len(PH)} duration {n}"))
            continue
        pulses = [(i, s) for i, s in enumerate(sch.slots) if isinstance(s.type, Pulse)]
        # M2 amp/det = sum of the pulses scheduled at that time, zero elsewhere
        ea, ed, cover = np.zeros(n), np.zeros(n), np.zeros(n, dtype=int)
        for i, s in pulses:
            ea[s.ti:s.tf] += arr(s.type.amplitude.samples)
            ed[s.ti:s.tf] += arr(s.type.detuning.samples)
            cover[s.ti:s.tf] += 1
        if n and cover.max() > 1:
            fails.append(Fail("monitor", "pulses-overlap", f"{name}: two pulses at one time"))
        for qty, x, y in (("amp", ea, A), ("det", ed, D)):
            d = first_diff(x, y)
            if d is not None:
                fails.append(Fail("monitor", "chan-" + qty, f"{name}.{qty} expected vs sample(): {d}", qty=qty))
        # M3 phase over each pulse is that pulse's phase; between pulses it is the previous or the next
        # pulse's, switching once, at max(next.ti - phase_jump_time, previous.tf)
        real_p = [(i, s) for i, s in pulses if not is_dd(s.type)]
        if not real_p:
            if np.any(PH != 0):
                fails.append(Fail("monitor", "phase-no-pulse", f"{name}: non-zero phase without any pulse"))
        else:
            ep = np.full(n, float(real_p[0][1].type.phase))
            for (_, prev), (_, nxt) in zip(real_p, real_p[1:]):
                ep[max(nxt.ti - doc_phase_jump_time(ch), prev.tf):] = float(nxt.type.phase)
            for i, s in real_p:
                if np.any(PH[s.ti:s.tf] != float(s.type.phase)):
                    fails.append(Fail("monitor", "phase-on-pulse",
                                      f"{name}[{i}]: phase over [{s.ti},{s.tf}) is not the pulse's {float(s.type.phase)}"))
                    break
            else:
                d = first_diff(ep, PH)
                if d is not None:
                    fails.append(Fail("monitor", "phase-between-pulses", f"{name}.phase expected vs sample(): {d}"))
        # M4 idling in EOM mode: amplitude 0, detuning = the block's detuning_off
        for b in sch.eom_blocks:
            lo, hi = b.ti, (b.tf if b.tf is not None else n)
            idle = np.ones(n, dtype=bool)
            idle[:lo] = False
            idle[hi:] = False
            for i, s in pulses:
                if (name, i) in user_pulses:
                    idle[s.ti:s.tf] = False
            if np.any(A[idle] != 0) or np.any(D[idle] != float(b.detuning_off)):
                fails.append(Fail("monitor", "eom-idle", f"{name}: idle samples of EOM block [{lo},{hi}) are not "
                                  f"(0, {float(b.detuning_off)})"))
            stats["eom_idle_ns"] += int(idle.sum())
        # M5 extension only pads
        n_new = n + rng.choice([0, 1, 40, 333])
        with warnings.catch_warnings():
            warnings.simplefilter("ignore")
            x = cs.extend_duration(n_new)
        XA, XD, XP = arr(x.amp), arr(x.det), arr(x.phase)
        # still in EOM mode: from the harness' own log of enable/disable calls when it has one
        still = known.eom_open[name] if known.eom_open.get(name) is not None else (
            bool(sch.eom_blocks) and sch.eom_blocks[-1].tf is None)
        # (the value of detuning_off chosen by enable_eom_mode is C15's; read from the schedule)
        off = float(sch.eom_blocks[-1].detuning_off) if (still and sch.eom_blocks) else 0.0
        okx = (len(XA) == len(XD) == len(XP) == n_new and np.array_equal(XA[:n], A, equal_nan=True)
               and np.array_equal(XD[:n], D, equal_nan=True)
               and np.array_equal(XP[:n], PH) and np.all(XA[n:] == 0) and np.all(XD[n:] == off)
               and np.all(XP[n:] == (PH[-1] if n else 0.0)))
        if not okx:
            fails.append(Fail("monitor", "extend-pads", f"{name}: extend_duration({n_new}) does more than padding "
                              f"(zeros, off-detuning {off}, last phase)"))
        try:
            if n > 0:
                cs.extend_duration(n - 1)
                fails.append(Fail("monitor", "extend-shorter", f"{name}: extend_duration below the duration accepted"))
        except ValueError:
            pass
        chinfo.append((name, sch, ch, n, A, D, PH, pulses, still and off != 0.0))
        stats["mon_ns"] += n
    if fails:
        return fails
    # M6/M7 per-atom view
    if known.mask is not None:
        mask_t = {qids[i] for i in known.mask} if in_xy else set()
    else:
        mask_t = set(seq._slm_mask_targets) if in_xy else set()
    mask_end = 0
    if mask_t:
        firsts = []
        for name, sch, ch, *_ in chinfo:
            if ch.addressing != "Global" or isinstance(ch, DMM):
                continue
            fp = next((s for s in sch.slots if isinstance(s.type, Pulse) and not is_dd(s.type)), None)
            if fp is not None:
                firsts.append((fp.ti, fp.tf))
        if firsts:
            t0 = min(f[0] for f in firsts)
            mask_end = next(f[1] for f in firsts if f[0] == t0)
        else:
            mask_t = set()
    t_cmp = T

    def eom_tail(basis, q, t) -> bool:
        return any(c.basis == basis and st and n <= t and sc.slots and q in sc.slots[-1].targets
                   for (_, sc, c, n, _A, _D, _P, _p, st) in chinfo)

    for al in (False, True):
        try:
            with warnings.catch_warnings():
                warnings.simplefilter("ignore")
                d = samples.to_nested_dict(all_local=al)
        except IndexError as ex:
            fails.append(Fail("monitor", "nested-dict-raises", f"to_nested_dict(all_local={al}) raises IndexError: {ex}",
                              cause="xy-mask-global-channel-without-pulse"
                              if (mask_t and any(not p and c.addressing == "Global" and not isinstance(c, DMM)
                                                 for (_, _, c, _, _, _, _, p, _) in chinfo)) else "other"))
            continue
        bases = {ch.basis for (_, _, ch, *_r) in chinfo}
        for basis in bases:
            for q in qids:
                ea, ed = np.zeros(T), np.zeros(T)
                for name, sch, ch, n, A, D, PH, pulses, still_off in chinfo:
                    if ch.basis != basis:
                        continue
                    if not isinstance(ch, DMM):
                        w = 1.0
                    elif name in known.weights:
                        w = known.weights[name][qidx[q]]
                    else:
                        w = weight_of(sch.detuning_map, seq.register.qubits[q])
                    # a channel left in EOM mode keeps idling at its off-detuning on the atoms it targets for
                    # as long as the sequence lasts ("extending pads with the off-detuning if still in EOM mode")
                    if still_off and n < T and sch.slots and q in sch.slots[-1].targets:
                        ed[n:T] += float(sch.eom_blocks[-1].detuning_off) * w
                    for i, s in pulses:
                        if q not in s.targets:
                            continue
                        lo = max(s.ti, mask_end) if (in_xy and q in mask_t) else s.ti
                        if lo >= s.tf:
                            continue
                        ea[lo:s.tf] += arr(s.type.amplitude.samples)[lo - s.ti:]
                        ed[lo:s.tf] += arr(s.type.detuning.samples)[lo - s.ti:] * w
                g = d["Global"].get(basis)
                l = d["Local"].get(basis, {}).get(q)
                ra, rd = np.zeros(T), np.zeros(T)
                for e in (g, l):
                    if e is not None:
                        ra = ra + arr(e["amp"])
                        rd = rd + arr(e["det"])
                for qty, x, y in (("amp", ea, ra), ("det", ed, rd)):
                    if not close(x[:t_cmp], y[:t_cmp], 1e-9):
                        xx, yy = np.nan_to_num(x[:t_cmp], nan=1e300), np.nan_to_num(y[:t_cmp], nan=1e300)
                        bad = np.flatnonzero(~(np.abs(xx - yy) <= 1e-9 * max(1.0, float(np.max(np.abs(xx[xx < 1e299]), initial=0.0)))))
                        t = int(bad[0]) if len(bad) else 0
                        masked = bool(in_xy and q in mask_t and t < mask_end)
                        fails.append(Fail("monitor", "per-atom-" + qty,
                                          f"all_local={al} {basis} atom {q}: {qty} at t={t} is {y[t]!r}, the pulses "
                                          f"targeting it give {x[t]!r}" + (" (masked atom, mask on)" if masked else "")
                                          + (" (after the end of a channel left in EOM mode)" if eom_tail(basis, q, t) else ""),
                                          qty=qty, masked=masked, eom_tail=eom_tail(basis, q, t)))
                stats["atom_ns"] += 2 * t_cmp
        # the phase of a pulse in the entry that carries it
        for k, (name, sch, ch, n, A, D, PH, pulses, _) in enumerate(chinfo):
            glob = ch.addressing == "Global" and not al and not isinstance(ch, DMM)

            def writers(entry_glob, q, a, b):
                """(name, phase array, amplitude array) over [a,b) of every channel whose samples the
                sampler adds into this entry somewhere in [a,b), with the window as a mask."""
                out = []
                for (n2, _s2, c2, len2, A2, _D, PH2, p2, _st) in chinfo:
                    if c2.basis != ch.basis:
                        continue
                    g2 = c2.addressing == "Global" and not al and not isinstance(c2, DMM)
                    start2 = mask_end if (in_xy and g2) else 0
                    win = np.zeros(b - a, dtype=bool)
                    ts = np.arange(a, b)
                    if g2:
                        if entry_glob:
                            win = ts >= start2
                        elif q not in mask_t:
                            win = ts < start2
                    elif not entry_glob:
                        # (from the schedule: a pulse's window lasts at most until the next pulse starts)
                        for j, (_i2, sl) in enumerate(p2):
                            lo2 = max(sl.ti, mask_end) if (in_xy and q in mask_t) else sl.ti
                            hi2 = p2[j + 1][1].ti if j + 1 < len(p2) else T
                            if q in sl.targets:
                                win |= (ts >= lo2) & (ts < hi2)
                    if not win.any():
                        continue
                    ext_a = np.concatenate([A2, np.zeros(max(0, T - len2))])[a:b]
                    ext_p = np.concatenate([PH2, np.full(max(0, T - len2), PH2[-1] if len2 else 0.0)])[a:b]
                    out.append((n2, np.where(win, ext_p, 0.0), np.where(win, ext_a, 0.0) != 0, win))
                return out

            for i, s in pulses:
                if is_dd(s.type) or isinstance(ch, DMM):
                    continue
                ph = float(s.type.phase)
                for q in sorted(s.targets, key=str):
                    lo = max(s.ti, mask_end) if (in_xy and q in mask_t) else s.ti
                    if lo >= s.tf:
                        continue
                    if glob:
                        pieces = []
                        if in_xy and mask_end and lo < mask_end:
                            pieces.append((d["Local"][ch.basis].get(q), lo, min(s.tf, mask_end), False))
                        if s.tf > max(lo, mask_end if in_xy else 0):
                            pieces.append((d["Global"].get(ch.basis), max(lo, mask_end if in_xy else 0), s.tf, True))
                    else:
                        pieces = [(d["Local"].get(ch.basis, {}).get(q), lo, s.tf, False)]
                    for entry, a, b, entry_glob in pieces:
                        if entry is None:
                            fails.append(Fail("monitor", "per-atom-missing", f"all_local={al}: no entry for atom {q} "
                                              f"targeted by {name}[{i}]"))
                            continue
                        got = arr(entry["phase"])[a:b]
                        ws = writers(entry_glob, q, a, b)
                        mine = arr(s.type.amplitude.samples)[a - s.ti:b - s.ti] != 0
                        others_on = np.zeros(b - a, dtype=bool)
                        for n2, _p2, on2, _w2 in ws:
                            if n2 != name:
                                others_on |= on2
                        # the clause speaks where exactly one channel drives this entry
                        single = mine & ~others_on
                        stats["phase_ns_single_drive"] += int(single.sum())
                        stats["phase_ns_simultaneous"] += int((mine & others_on).sum())
                        okp = mod2pi_eq(got, ph) | ~single
                        if not np.all(okp):
                            k0 = int(np.flatnonzero(~okp)[0])
                            t = a + k0
                            at = [(n2, float(p2[k0])) for n2, p2, _o, w2 in ws if w2[k0]]
                            summed = len(at) > 1 and bool(mod2pi_eq(np.array([got[k0]]), float(sum(p for _, p in at)))[0])
                            cause = "same-basis-channels-phase-sum" if summed else "other"
                            fails.append(Fail("monitor", "per-atom-phase",
                                              f"all_local={al}: the entry of atom {q} ({ch.basis}, "
                                              f"{'Global' if entry_glob else 'Local'}) has phase {float(got[k0])!r} at "
                                              f"t={t} inside pulse {name}[{i}] (the only channel driving this entry at "
                                              f"that time) whose phase is {ph!r}; channels written into the entry at "
                                              f"that time and their phases: {at}", cause=cause))
                    if glob:
                        break  # one atom is enough for a Global entry
        stats["mon_nested"] += 1
    return fails


# ----------------------------------------------------------------------------------------------
# one history
# ----------------------------------------------------------------------------------------------
class CaseResult:
    def __init__(self):
        self.ops = []
        self.fails: list[tuple[int, Fail]] = []
        self.foreign = None
        self.nsteps = 0
        self.checkpoints = 0
        self.pulses = 0
        self.mask = None
        self.features = set()
        self.status = []


def note_user_pulse(seq, op, nslots_before, user_pulses):
    """Remember the pulse instruction that an add / add_eom_pulse / add_dmm_detuning call appended
    (also when the call raised afterwards: the instruction is then still the user's pulse)."""
    if op["k"] not in ("add", "addeom", "adddmm"):
        return
    name = real_name(op["ch"])
    sch = seq._schedule.get(name)
    if sch is not None and len(sch.slots) > nslots_before.get(name, 0) and isinstance(sch.slots[-1].type, Pulse):
        user_pulses.add((name, len(sch.slots) - 1))


def pick_mask(rng, nq):
    k = rng.randrange(1, nq + 1)
    return sorted(rng.sample(range(nq), k))


def run_case(drv, spec, ops_or_gen, exact, nops, seed, stats, every=None, mask="auto") -> CaseResult:
    """Lock-step run with checkpoints; `ops_or_gen` is an op list (replay/corpus/shrink) or a HistoryGen."""
    res = CaseResult()
    rng = random.Random(f"C06-case-{seed}")
    ls = Lockstep(drv, spec, exact=exact)
    gen = None if isinstance(ops_or_gen, list) else ops_or_gen
    n = len(ops_or_gen) if gen is None else nops
    weights: dict[str, list] = {}
    known = Known()
    user_pulses: set = set()
    every = every or rng.choice([3, 5, 8, 1000])

    held = {}

    def fingerprint(samples):
        """what a sample object says, now (per channel: padded arrays and EOM blocks)"""
        out = []
        for name, cs in sorted(samples.channel_samples.items()):
            ext = cs.extend_duration(cs.duration + 7)
            out.append((name, arr(ext.amp).tobytes(), arr(ext.det).tobytes(), arr(ext.phase).tobytes(),
                        tuple((int(b.ti), None if b.tf is None else int(b.tf), float(b.detuning_off))
                              for b in cs.eom_blocks)))
        return out

    def checkpoint(i, mask_targets=None):
        res.checkpoints += 1
        fs = compare_model(drv, ls.real, weights, mask_targets, rng, stats)
        fs += monitor_seq(ls.real, user_pulses, rng, stats, known)
        # a sample taken earlier is a value: building the sequence further must not change what it says
        with warnings.catch_warnings():
            warnings.simplefilter("ignore")
            try:
                if "s" in held and fingerprint(held["s"]) != held["fp"]:
                    fs.append(Fail("monitor", "sample-aliases-sequence",
                                   f"the samples taken after step {held['at']} changed when the sequence was built further "
                                   f"(up to step {i})"))
                    held.clear()
                if "s" not in held and not ls.real.seq.is_parametrized():
                    held["s"] = pulser.sampler.sample(ls.real.seq)
                    held["fp"] = fingerprint(held["s"])
                    held["at"] = i
            except Exception:  # noqa: BLE001 — a sequence that cannot be sampled is judged by the other clauses
                held.clear()
        res.fails += [(i, f) for f in fs]

    for i in range(n):
        op = ops_or_gen[i] if gen is None else gen.next_op()
        res.ops.append(op)
        before = set(ls.real.seq._schedule)
        nslots = {n: len(x.slots) for n, x in ls.real.seq._schedule.items()}
        st = ls.step(op)
        note_user_pulse(ls.real.seq, op, nslots, user_pulses)
        known.note(ls.real.seq, op, st.real[0], before)
        res.nsteps += 1
        res.status.append(st.real)
        if gen is not None:
            gen.feedback(op, st.real[0], ls.real)
        if st.diverged:
            res.foreign = (i, owner_of(st), st.why)
            break
        if st.real[0] == "ok":
            k = op["k"]
            if k == "detmap":
                new = set(ls.real.seq._schedule) - before
                for name in new:
                    weights[wire_name(name)] = list(op["weights"])
                res.features.add("dmm")
            elif k in ("add", "addeom", "adddmm"):
                res.pulses += 1
                res.features.add(k)
            elif k in ("eomon", "eommod"):
                res.features.add("eom")
            elif k == "target":
                res.features.add("retarget")
            if (i + 1) % every == 0 and k not in ("dur", "est", "pref"):
                checkpoint(i)
                if res.fails:
                    break
    if res.foreign is None and not res.fails:
        checkpoint(res.nsteps - 1)
        seq = ls.real.seq
        # XY: configure an SLM mask with the real API (not in the model's op language; it does not touch
        # the schedule in XY mode) and compare the masked per-atom view with the model's
        if not res.fails and seq._in_xy and ls.real.dev.dmm_objs and mask is not None:
            targets = pick_mask(rng, ls.real.dev.nq) if mask == "auto" else mask
            try:
                with warnings.catch_warnings():
                    warnings.simplefilter("ignore")
                    seq.config_slm_mask([ls.real.dev.qids[q] for q in targets])
                res.mask = targets
                known.mask = list(targets)
                res.features.add("xy-mask")
                checkpoint(res.nsteps - 1, targets)
            except (ValueError, RuntimeError):
                pass
    if ls.real.seq._in_xy:
        res.features.add("xy")
    if any(c.addressing == "Local" for c in ls.real.seq.declared_channels.values()):
        res.features.add("local")
    res.nchan = len(ls.real.seq._schedule)
    res.duration = max([s.slots[-1].tf for s in ls.real.seq._schedule.values() if s.slots] + [0])
    return res


# ----------------------------------------------------------------------------------------------
# SLM-mask sequences built with the real API (monitor only)
# ----------------------------------------------------------------------------------------------
def gen_slm_case(rng: random.Random) -> dict:
    mode = rng.choice(["xy", "xy", "ising"])
    for _ in range(50):
        spec = gen_device(rng, "xy" if mode == "xy" else rng.choice(["dmm", "local"]))
        if not spec["dmms"]:
            continue
        if mode == "xy":
            spec["channels"] = [c for c in spec["channels"] if c["kind"] == "microwave"]
            if rng.random() < 0.6:
                spec["reusable"] = True
            if rng.random() < 0.5:
                mw = dict(spec["channels"][0])
                mw["local"] = True
                mw.update(min_retarget_interval=rng.choice([0, 220]), fixed_retarget_t=0, max_targets=rng.choice([None, 1, 2]))
                spec["channels"].append(mw)
        elif all(c["kind"] == "microwave" for c in spec["channels"]):
            continue
        spec["nq"] = rng.choice([2, 3, 4])
        break
    g = HistoryGen(rng, spec, exact=True, profile=rng.choice(["mix", "target", "dmm"] if mode == "ising" else ["mix", "target"]),
                   p_invalid=0.03)
    # atoms in an order that is NOT the order of their coordinates (weight maps sort traps by coordinate)
    cells = [(6.0 * i, 6.0 * j) for i in range(3) for j in range(2)]
    coords = [list(c) for c in rng.sample(cells, spec["nq"])]
    return dict(kind="slm", mode=mode, device=spec, n=rng.randrange(4, 16), slm_at=rng.randrange(0, 10),
                mask=pick_mask(rng, spec["nq"]), coords=coords, gen=g)


def run_slm_case(case: dict, stats, seed) -> CaseResult:
    """Real side only: the ops of the usual grammar plus one `config_slm_mask` (pseudo-op `slm`)."""
    res = CaseResult()
    rng = random.Random(f"C06-slm-{seed}")
    dev = Dev(case["device"])
    if case.get("coords"):
        from pulser import Register

        dev.register = Register({q: tuple(xy) for q, xy in zip(dev.qids, case["coords"])})
    real = RealSeq(dev)
    gen = case.get("gen")
    ops = case.get("ops")
    n = len(ops) if ops is not None else case["n"]
    user_pulses: set = set()
    known = Known()
    done = False

    def slm(qs):
        nonlocal done
        done = True
        res.ops.append(dict(k="slm", qs=qs))
        res.status.append(("slm", None))
        try:
            with warnings.catch_warnings():
                warnings.simplefilter("ignore")
                before = set(real.seq._schedule)
                real.seq.config_slm_mask([real.dev.qids[q] for q in qs])
            res.mask = qs
            known.mask = list(qs)
            known.note(real.seq, dict(k="slm"), "ok", before)
        except Exception:  # noqa: BLE001  (refused: measured, configured twice, …)
            pass

    for i in range(n):
        if gen is not None and i == case["slm_at"]:
            slm(case["mask"])
        op = ops[i] if ops is not None else gen.next_op()
        if op["k"] == "slm":
            slm(op["qs"])
            continue
        if op["k"] in ("dur", "est", "pref"):
            continue
        res.ops.append(op)
        nslots = {n: len(x.slots) for n, x in real.seq._schedule.items()}
        before = set(real.seq._schedule)
        status, _ = real.apply(op)
        res.status.append((status, _))
        note_user_pulse(real.seq, op, nslots, user_pulses)
        known.note(real.seq, op, status, before)
        if gen is not None:
            gen.feedback(op, status, real)
        if status == "ok" and op["k"] in ("add", "addeom", "adddmm"):
            res.pulses += 1
    if not done and gen is not None:
        slm(case["mask"])
    res.nsteps = len(res.ops)
    res.features.add("slm-" + case["mode"] if res.mask else "slm-refused")
    try:
        fs = monitor_seq(real, user_pulses, rng, stats, known)
    except NotImplementedError:
        fs = []
    res.fails = [(res.nsteps - 1, f) for f in fs]
    res.checkpoints = 1
    res.nchan = len(real.seq._schedule)
    res.duration = max([s.slots[-1].tf for s in real.seq._schedule.values() if s.slots] + [0])
    return res


# ----------------------------------------------------------------------------------------------
# shrinking
# ----------------------------------------------------------------------------------------------
def shrink_ops(run, ops, pred, budget=120):
    ops = list(ops)
    tries = 0
    chunk = max(1, len(ops) // 2)
    while chunk >= 1 and tries < budget:
        i, changed = 0, False
        while i < len(ops) and tries < budget:
            cand = ops[:i] + ops[i + chunk:]
            tries += 1
            try:
                ok = pred(run(cand))
            except Exception:  # noqa: BLE001
                ok = False
            if ok:
                ops, changed = cand, True
            else:
                i += chunk
        if not changed:
            chunk //= 2
    return ops


# ----------------------------------------------------------------------------------------------
# check / replay
# ----------------------------------------------------------------------------------------------
def lean_obligations():
    ok, out = common.lake_build(LEAN_TARGETS)
    if not ok:
        raise InfraError("lake build failed:\n" + out[-3000:])
    thms = common.property_theorems(PROP)
    bad = [h for h in common.lean_forbidden_tokens() if any(x in h for x in ("Sampler.lean", "C06.lean", "SeqRender.lean"))]
    if bad:
        raise InfraError("forbidden tokens in Lean sources: " + "; ".join(bad[:5]))
    axioms = common.audit_axioms(f"Properties.{PROP}", thms) if thms else {}
    offending = {t: axioms.get(t) for t in thms
                 if axioms.get(t) is None or not set(axioms[t]) <= common.ALLOWED_AXIOMS}
    if offending:
        raise InfraError(f"axiom audit failed: {offending}")
    return thms, axioms


def corpus_cases():
    d = common.CORPUS / PROP
    out = []
    if d.exists():
        for f in sorted(d.glob("*.json")):
            out.append((f.name, json.loads(f.read_text())))
    return out


def new_stats():
    s = collections.Counter()
    s["ext_kind"] = collections.Counter()
    return s


def check(tier: str, seed: int) -> int:
    timer = Timer()
    thms, axioms = lean_obligations()
    drv = open_driver()
    findings = all_findings()
    rng = random.Random(f"{PROP}-{seed}")
    stats = new_stats()
    hist = {k: collections.Counter() for k in ("ops", "errs", "features", "channels", "duration", "origin", "foreign")}
    distinct, nontrivial = set(), set()
    violations, known_hits, corr_divs, samples_out = [], collections.Counter(), [], []
    seen = set()
    evaluations = 0
    case_no = 0

    def record(res, origin, canon, spec):
        nonlocal evaluations
        evaluations += res.checkpoints
        distinct.add(canon)
        if res.pulses and res.checkpoints:
            nontrivial.add(canon)
        hist["origin"][origin] += 1
        for op in res.ops:
            hist["ops"][op["k"]] += 1
        for f in res.features:
            hist["features"][f] += 1
        hist["channels"][getattr(res, "nchan", 0)] += 1
        hist["duration"][f"{(getattr(res, 'duration', 0) // 1000)}us"] += 1
        if res.foreign:
            hist["foreign"][res.foreign[1]] += 1
        if len(samples_out) < 3 and res.pulses >= 2 and res.nsteps >= 5:
            samples_out.append(dict(origin=origin, device=spec, ops=res.ops[:14], mask=res.mask))

    def handle_fails(res, payload, rerun):
        for i, f in res.fails:
            if f.kind == "corr":
                corr_divs.append(dict(payload, ops=res.ops[: i + 1], why=f.msg, clause=f.clause, mask=res.mask))
                continue
            kf = match_known(PROP, f.key, findings)
            if kf is not None:
                known_hits[kf["id"]] += 1
                continue
            sig = json.dumps(f.key, sort_keys=True, default=str)
            if sig in seen:
                continue
            seen.add(sig)
            small = shrink_ops(rerun, res.ops[: i + 1],
                               lambda r, key=f.key: any(ff.kind == "monitor" and ff.key == key for _, ff in r.fails))
            violations.append(dict(payload, property=PROP, kind="monitor", clause=f.clause, key=f.key, message=f.msg,
                                   ops=small, mask=res.mask))

    def lock_case(spec, ops_or_gen, exact, nops, origin, mask="auto"):
        nonlocal case_no
        case_no += 1
        cseed = f"{seed}-{case_no}"
        res = run_case(drv, spec, ops_or_gen, exact, nops, cseed, stats, mask=mask)
        canon = json.dumps([spec, res.ops, res.mask], sort_keys=True)
        record(res, origin, canon, spec)
        handle_fails(res, dict(device=spec, exact=exact, case_seed=cseed, case="lockstep"),
                     lambda ops: run_case(drv, spec, ops, exact, None, cseed, new_stats(), every=1,
                                          mask=res.mask))
        return res

    def slm_case(case, origin):
        nonlocal case_no
        case_no += 1
        cseed = f"{seed}-{case_no}"
        res = run_slm_case(case, stats, cseed)
        spec = case["device"]
        canon = json.dumps([spec, res.ops], sort_keys=True)
        record(res, origin, canon, spec)
        base = {k: v for k, v in case.items() if k not in ("gen", "ops", "n", "slm_at")}
        handle_fails(res, dict(base, case_seed=cseed, case="slm"),
                     lambda ops: run_slm_case(dict(base, ops=ops), new_stats(), cseed))

    try:
        for name, item in corpus_cases():
            if item.get("case") == "slm":
                slm_case(item, f"corpus/{name}")
            else:
                lock_case(item["device"], item["ops"], item.get("exact", True), None, f"corpus/{name}",
                          mask=item.get("mask", "auto"))
        wants = ["any", "eom", "dmm", "local", "xy", "any", "eom", "dmm"]
        profiles = ["mix", "eom", "target", "dmm", "phase", "mix"]
        for h in range(N_HIST[tier]):
            exact = rng.random() >= 0.2
            spec = gen_device(rng, rng.choice(wants))
            g = HistoryGen(rng, spec, exact=exact, profile=rng.choice(profiles), p_invalid=0.06)
            lock_case(spec, g, exact, rng.randrange(5, 26), "generated")
            if violations and tier == "quick":
                break
        for h in range(N_SLM[tier]):
            slm_case(gen_slm_case(rng), "generated-slm")
            if violations and tier == "quick":
                break
        if corr_divs and not violations:
            # model and implementation disagree although the monitor saw nothing: search on with the monitor
            for h in range(150 if tier == "quick" else 1500):
                spec = corr_divs[0]["device"] if h % 2 == 0 else gen_device(rng, rng.choice(wants))
                g = HistoryGen(rng, spec, exact=True, profile=rng.choice(profiles), p_invalid=0.06)
                lock_case(spec, g, True, rng.randrange(5, 26), "search")
                if violations:
                    break
            if not violations:
                d0 = corr_divs[0]
                clause = d0["clause"]
                small = shrink_ops(
                    lambda ops: run_case(drv, d0["device"], ops, d0["exact"], None, d0["case_seed"], new_stats(),
                                         every=1, mask=d0.get("mask")),
                    d0["ops"], lambda r: any(f.kind == "corr" and f.clause == clause for _, f in r.fails))
                violations.append(dict(property=PROP, kind="correspondence", case="lockstep",
                                       broken="lean/PulserModel/Sampler.lean (seq render) disagrees with "
                                              "pulser.sampler without a monitor failure: " + d0["why"],
                                       clause=clause, theorems=thms, device=d0["device"], ops=small, exact=d0["exact"],
                                       mask=d0.get("mask"), case_seed=d0["case_seed"], no_failing_input_found=True))
    finally:
        lines = getattr(drv, "lines", 0)
        drv.close()
    ev = dict(
        property_id=PROP, tier=tier, seed=seed, level="proof",
        coverage=dict(
            obligations=len(thms), discharged=len(thms),
            checker_cmd="cd lean && lake build " + " ".join(LEAN_TARGETS[:-1]) + "  (+ #print axioms per theorem, "
                        "harness/common.py audit_axioms)",
            trusted_base=TRUSTED_BASE, theorems=thms, axioms=axioms,
            evaluations=evaluations, distinct_nontrivial=len(nontrivial),
            traces_validated_against_impl=len(distinct),
            nanoseconds_compared_model_vs_impl=stats["ns"], nanoseconds_monitored=stats["mon_ns"],
            per_atom_samples_monitored=stats["atom_ns"], eom_idle_ns_monitored=stats["eom_idle_ns"],
            model_renders=stats["renders"], model_segments=stats["segments"],
            nested_dicts_compared=stats["nested"],
            extension_targets=dict(stats["ext_kind"]), inexact_sums=stats["inexact_sums"],
            rule="histories drawn exactly like the scheduler family (gen.gen_device x gen.HistoryGen, exact and "
                 "wrapping phase streams) run in lock step on the real Sequence and on the model, plus SLM-mask "
                 "sequences built with the real API (monitor only), plus corpus/C06; one evaluation = one checkpoint "
                 "(sample(), sample(extended_duration), to_nested_dict x2 compared with the model's rendering at "
                 "every nanosecond + the monitor); distinct = distinct (device, op list, mask); non-trivial = at "
                 "least one user pulse was scheduled before a checkpoint",
            samples=samples_out,
            histograms={k: {str(a): b for a, b in sorted(v.items(), key=lambda kv: str(kv[0]))} for k, v in hist.items()},
            foreign_divergence=dict(hist["foreign"]), model_divergences=len(corr_divs),
            nested_phase_rule_of_tree=phase_rule(),
            per_atom_phase_ns_single_drive=stats["phase_ns_single_drive"],
            per_atom_phase_ns_simultaneous_drives_not_judged=stats["phase_ns_simultaneous"],
            known_findings_hit=dict(known_hits), driver_lines=lines, repo_fingerprint=common.repo_fingerprint(),
        ),
        assumptions=TRUSTED_BASE, wall_s=timer.s(), violations=len(violations),
    )
    write_evidence(PROP, ev)
    for kid, cnt in sorted(known_hits.items()):
        kf = next(f for f in findings if f["id"] == kid)
        print(f"KNOWN-FINDING: property={PROP} [{kid}] {kf['what']} (reproduced {cnt}x in this run)")
    if violations:
        for v in violations:
            p = write_replay(PROP, v)
            tail = " no-failing-input-found" if v.get("no_failing_input_found") else ""
            print(f"VIOLATION property={PROP} replay={p}{tail}")
        return 1
    print(f"OK property={PROP} tier={tier} theorems={len(thms)}/{len(thms)} histories={len(distinct)} "
          f"checkpoints={evaluations} ns={stats['ns']} nontrivial={len(nontrivial)} wall={timer.s()}s")
    return 0


def replay(path: str) -> int:
    item = json.loads(Path(path).read_text())
    findings = all_findings()
    stats = new_stats()
    if item.get("case") == "slm":
        res = run_slm_case(item, stats, item.get("case_seed", "replay"))
    else:
        drv = open_driver()
        try:
            res = run_case(drv, item["device"], item["ops"], item.get("exact", True), None,
                           item.get("case_seed", "replay"), stats, every=1, mask=item.get("mask"))
        finally:
            drv.close()
    for i, op in enumerate(res.ops):
        print(f"[{i}] {json.dumps(op)[:160]} -> {res.status[i] if i < len(res.status) else None}")
    print(f"channels={getattr(res, 'nchan', 0)} duration={getattr(res, 'duration', 0)} checkpoints={res.checkpoints} "
          f"mask={res.mask} model_renders={stats['renders']} ns_compared={stats['ns']} "
          f"nested_compared={stats['nested']}")
    if res.foreign:
        print(f"foreign divergence at step {res.foreign[0]} (owner {res.foreign[1]}): {res.foreign[2]}")
    bad = False
    for i, f in res.fails:
        kf = match_known(PROP, f.key, findings) if f.kind == "monitor" else None
        if kf is not None:
            print(f"step {i}: KNOWN-FINDING [{kf['id']}] {f}")
        else:
            print(f"step {i}: {f}")
            bad = True
    if bad:
        print(f"VIOLATION property={PROP} replay={path}")
        return 1
    print("replay: property holds on this history")
    return 0
