"""Checks of the properties carried by the sequence/scheduler model."""
from __future__ import annotations

import collections
import json
import os
import random
from pathlib import Path

import common
from common import (
    Driver, InfraError, Timer, load_known_findings, match_known, write_evidence, write_replay,
)
import seqcheck
from seqcheck import run_history, shrink, canonical
from gen import gen_device, HistoryGen

# property -> configuration of its correspondence run
CONFIG = {
    "C01": dict(wants=["any", "eom", "dmm", "local", "maxseq"], profiles=["mix", "eom", "dmm", "limits"],
                quick=1000, thorough=20000, wrap_share=0.1,
                lean_targets=["PulserModel", "Properties.C01"]),
    "C09": dict(wants=["any", "eom", "dmm", "local", "maxseq"], profiles=["mix", "eom", "target", "dmm"],
                quick=450, thorough=8000, wrap_share=0.3, p_invalid=0.3,
                lean_targets=["PulserModel", "Properties.C09"]),
    "C13": dict(wants=["any", "eom", "dmm", "local", "xy"], profiles=["mix", "eom", "target", "dmm"],
                quick=900, thorough=15000, wrap_share=0.1, p_invalid=0.3,
                lean_targets=["PulserModel", "Properties.C13"],
                tables="tables_c13", table_targets=["PulserModel.Generated.Decorators", "Properties.C13Table"],
                table_theorems=["Pulser.C13Table.measured_blocks_timeline_table"]),
    "C03": dict(wants=["any", "eom", "dmm", "local"], profiles=["mix", "eom", "target", "dmm", "phase"],
                quick=1000, thorough=20000, wrap_share=0.2,
                lean_targets=["PulserModel", "Properties.C03"]),
    "C10": dict(wants=["local", "any", "eom"], profiles=["target", "phase", "mix", "eom"],
                quick=1000, thorough=20000, wrap_share=0.2,
                lean_targets=["PulserModel", "Properties.C10"]),
    "C07": dict(wants=["any", "local", "eom", "dmm"], profiles=["phase", "mix", "target", "eom"],
                quick=1000, thorough=20000, wrap_share=0.5,
                lean_targets=["PulserModel", "Properties.C07"]),
    "C15": dict(wants=["eom"], profiles=["eom", "eom", "mix"],
                quick=800, thorough=15000, wrap_share=0.4,
                lean_targets=["PulserModel", "Properties.C15"]),
    "C02": dict(wants=["any", "eom", "dmm", "local", "maxseq"], profiles=["mix", "eom", "target", "dmm"],
                quick=1200, thorough=20000, wrap_share=0.2,
                lean_targets=["PulserModel", "Properties.C02"]),
}

TRUSTED_BASE = [
    "Lean 4.33 kernel; axioms allowed: propext, Classical.choice, Quot.sound (audited per theorem)",
    "statements in lean/Properties/<id>.lean say what the property says",
    "hand-written model lean/PulserModel/{Basic,Schedule,PhaseRef,Sequence}.lean corresponds to /repo "
    "(checked by lock-step differential runs on generated histories, not proved)",
    "harness/realcode.py (adapters, canonicalisation, error mapping), Driver/*.lean parser",
    "oracle values from library leaf functions: Pulse.fall_time, waveform samples, "
    "RydbergEOM.detuning_off_options (float-only, parameters of the model)",
]


def co_owned(prop: str, owner: str, why: str) -> bool:
    """C07 counts the EOM drift corrections among the phase shifts of a reference: a divergence in the phase
    bookkeeping of a drift-correcting EOM call (owner C15) is C07's too."""
    return prop == "C07" and owner == "C15" and ("/refs" in (why or "") or "/ph" in (why or ""))


def summarise(spec, res, exact, origin) -> dict:
    """Picklable record of one history (what the parent process needs to account for it)."""
    ops = collections.Counter()
    errs = collections.Counter()
    for st in res.ls.steps:
        ops[st.op["k"]] += 1
        if st.real[0] == "err":
            errs[st.real[1]] += 1
    return dict(
        spec=spec, ops=res.ops, exact=exact, origin=origin, nsteps=res.nsteps,
        canon=canonical([spec, res.ops]),
        nontrivial=any(st.real[0] == "ok" and st.op["k"] not in ("declare", "dur", "est") for st in res.ls.steps),
        op_counts=ops, err_counts=errs,
        fails=[(i, f.prop, f.clause, f.msg, f.key) for (i, f) in res.fails],
        divergence=res.divergence,
    )


def generate_records(fam, drv, rng, n_hist, stop=lambda: False, sink=None):
    cfg = fam.cfg
    for h in range(n_hist):
        exact = rng.random() >= cfg.get("wrap_share", 0.2)
        spec = gen_device(rng, rng.choice(cfg["wants"]))
        g = HistoryGen(rng, spec, exact=exact, profile=rng.choice(cfg["profiles"]),
                       p_invalid=cfg.get("p_invalid", 0.12))
        res = run_history(drv, spec, g, exact, fam.monitors(), nops=rng.randrange(6, 32))
        rec = summarise(spec, res, exact, "generated")
        if sink is not None:
            sink(rec)
        yield rec
        if stop():
            break


def _worker(args):
    prop, seed, w, n = args
    fam = SeqProperty(prop)
    drv = Driver()
    try:
        rng = random.Random(f"{prop}-{seed}-w{w}")
        return list(generate_records(fam, drv, rng, n))
    finally:
        drv.close()


class SeqProperty:
    def __init__(self, prop: str):
        self.prop = prop
        self.cfg = CONFIG[prop]

    # ------------------------------------------------------------------
    def monitors(self):
        import monitors

        return [monitors.MONITORS[self.prop]()]

    def table_obligations(self):
        """Translator tie: regenerate the tables of this property from the live source and
        re-check the obligations stated over them. Returns None, or a description of the
        obligation that no longer checks (a *broken tie*, not yet a violation)."""
        if "tables" not in self.cfg:
            return None
        import importlib

        mod = importlib.import_module(self.cfg["tables"])
        try:
            mod.regenerate()
        except Exception as e:  # noqa: BLE001
            return f"table extraction failed ({type(e).__name__}: {e}) in harness/{self.cfg['tables']}.py"
        ok, out = common.lake_build(self.cfg["table_targets"])
        if ok:
            return None
        tail = "\n".join(l for l in out.splitlines() if "error" in l.lower())[:600]
        return (f"obligation over the regenerated table no longer checks: {self.cfg['table_theorems']} "
                f"(lake build {' '.join(self.cfg['table_targets'])}): {tail}")

    def lean_obligations(self):
        """Build the model, the proofs of this property and the driver; audit axioms."""
        ok, out = common.lake_build(self.cfg["lean_targets"] + ["pmdriver"])
        if not ok:
            raise InfraError("lake build failed:\n" + out[-3000:])
        thms = common.property_theorems(self.prop)
        bad_tokens = common.lean_forbidden_tokens([f"Properties.{self.prop}", "Driver.Main"])
        if bad_tokens:
            raise InfraError("forbidden tokens in Lean sources: " + "; ".join(bad_tokens[:5]))
        axioms = common.audit_axioms(f"Properties.{self.prop}", thms) if thms else {}
        discharged = 0
        offending = {}
        for t in thms:
            ax = axioms.get(t)
            if ax is not None and set(ax) <= common.ALLOWED_AXIOMS:
                discharged += 1
            else:
                offending[t] = ax
        if offending:
            raise InfraError(f"axiom audit failed: {offending}")
        return thms, axioms, discharged

    # ------------------------------------------------------------------
    def corpus(self):
        d = common.CORPUS / self.prop
        out = []
        if d.exists():
            for f in sorted(d.glob("*.json")):
                out.append(json.loads(f.read_text()))
        return out

    def check(self, tier: str, seed: int) -> int:
        timer = Timer()
        prop = self.prop
        broken_tie = self.table_obligations()
        thms, axioms, discharged = self.lean_obligations()
        if "table_theorems" in self.cfg:
            thms = thms + self.cfg["table_theorems"]
            if broken_tie is None:
                ax = common.audit_axioms(self.cfg["table_targets"][-1], self.cfg["table_theorems"])
                for t in self.cfg["table_theorems"]:
                    a = ax.get(t.split("Pulser.", 1)[-1], ax.get(t))
                    if a is None or not set(a) <= common.ALLOWED_AXIOMS:
                        raise InfraError(f"axiom audit failed for {t}: {a}")
                    axioms[t] = a
                    discharged += 1
        rng = random.Random(f"{prop}-{seed}")
        drv = Driver()
        n_hist = self.cfg[tier]
        findings = load_known_findings()
        stats = dict(ops=collections.Counter(), errs=collections.Counter(), owners=collections.Counter())
        distinct = set()
        nontrivial = 0
        evaluations = 0
        samples = []
        violations = []      # (replay payload)
        known_hits = collections.Counter()
        foreign = collections.Counter()
        ambiguous = 0
        owned_divergences = []
        seen_fail_keys = set()

        def handle(spec, res, exact, origin):
            handle_rec(summarise(spec, res, exact, origin))

        def handle_rec(rec):
            nonlocal nontrivial, evaluations, ambiguous
            spec, exact = rec["spec"], rec["exact"]
            evaluations += rec["nsteps"]
            if rec["canon"] not in distinct:
                distinct.add(rec["canon"])
                if rec["nontrivial"]:
                    nontrivial += 1
            stats["ops"].update(rec["op_counts"])
            stats["errs"].update(rec["err_counts"])
            if len(samples) < 3 and rec["nsteps"] >= 4:
                samples.append(dict(device=spec, ops=rec["ops"][:12], origin=rec["origin"]))
            for (i, fprop, clause, msg, key) in rec["fails"]:
                if fprop != prop:
                    continue
                kf = match_known(prop, key, findings)
                if kf is not None:
                    known_hits[kf["id"]] += 1
                    continue
                sig = json.dumps(key, sort_keys=True)
                if sig in seen_fail_keys:
                    continue
                seen_fail_keys.add(sig)
                # shrink to a minimal history failing the same clause
                def pred(r, clause=clause):
                    return any(ff.prop == prop and ff.clause == clause for _, ff in r.fails)
                small = shrink(drv, spec, rec["ops"][: i + 1], exact, self.monitors, pred)
                violations.append(dict(property=prop, kind="monitor", clause=clause, message=msg,
                                       key=key, device=spec, ops=small, exact=exact))
            if rec["divergence"]:
                i, owner, why, amb = rec["divergence"]
                stats["owners"][owner] += 1
                if amb:
                    ambiguous += 1
                elif owner == prop or co_owned(prop, owner, why):
                    owned_divergences.append(dict(device=spec, ops=rec["ops"][: i + 1], why=why, exact=exact))
                else:
                    foreign[owner] += 1

        # 1. corpus first
        for item in self.corpus():
            res = run_history(drv, item["device"], item["ops"], item.get("exact", True), self.monitors())
            handle(item["device"], res, item.get("exact", True), "corpus")
        # 2. generated histories (thorough tier: spread over worker processes, one driver each)
        workers = int(os.environ.get("VERIF_WORKERS", "0") or 0) or (min(12, os.cpu_count() or 1) if tier == "thorough" else 1)
        if workers > 1:
            import multiprocessing as mp

            share = [n_hist // workers + (1 if w < n_hist % workers else 0) for w in range(workers)]
            with mp.get_context("fork").Pool(workers) as pool:
                for recs in pool.imap_unordered(_worker, [(prop, seed, w, share[w]) for w in range(workers)]):
                    for rec in recs:
                        handle_rec(rec)
        else:
            for rec in generate_records(self, drv, rng, n_hist, stop=lambda: bool(violations) and tier == "quick",
                                        sink=handle_rec):
                pass
        # 2b. emulator clauses (C07: a phase shift is a rotation about z; C15: drift correction equals
        # zero off-detuning) -- numerical, on the implementation only
        emul_stats = None
        if prop in ("C07", "C15"):
            import emul_clauses

            n_em = (36 if prop == "C07" else 24) if tier == "quick" else 400
            erng = random.Random(f"{prop}-emul-{seed}")
            emul_stats = dict(cases=0, skipped=0, failed=0)
            for _ in range(n_em):
                case = emul_clauses.gen_case(erng, prop)
                try:
                    msg = emul_clauses.run_case(case)
                except Exception as e:  # noqa: BLE001
                    msg = f"emulation raised {type(e).__name__}: {str(e)[:120]}"
                emul_stats["cases"] += 1
                if msg == "skip":
                    emul_stats["skipped"] += 1
                    continue
                if msg:
                    emul_stats["failed"] += 1
                    key = dict(clause="emulator", kind=case["kind"])
                    kf = match_known(prop, key, findings)
                    if kf is not None:
                        known_hits[kf["id"]] += 1
                        continue
                    violations.append(dict(property=prop, kind="emulator", clause="emulator", message=msg,
                                           key=key, case=case, device=None, ops=[]))
                    if tier == "quick":
                        break
        # 2c. SLM-mask sequences (outside the model's op alphabet): timeline clauses for C02, limits for C01,
        # on the implementation only
        slm_stats = None
        if prop in ("C01", "C02") and not (violations and tier == "quick"):
            import slm_clauses

            srng = random.Random(f"{prop}-slm-{seed}")
            slm_stats = dict(cases=0, skipped=0, failed=0)
            for _ in range(150 if tier == "quick" else 3000):
                case = slm_clauses.gen_case(srng)
                try:
                    msg = slm_clauses.run_case(case, prop)
                except Exception as e:  # noqa: BLE001
                    raise InfraError(f"slm_clauses raised {type(e).__name__}: {str(e)[:200]} on {case}")
                slm_stats["cases"] += 1
                if msg == "skip":
                    slm_stats["skipped"] += 1
                    continue
                if msg:
                    slm_stats["failed"] += 1
                    key = dict(clause="slm-mask-instruction")
                    kf = match_known(prop, key, findings)
                    if kf is not None:
                        known_hits[kf["id"]] += 1
                        continue
                    violations.append(dict(property=prop, kind="slm", clause="slm-mask-instruction", message=msg,
                                           key=key, case=case, device=None, ops=[]))
                    if tier == "quick":
                        break
        # 3a. translator tie broken (an obligation over a regenerated table fails): the
        # histories above were the search; without a failing input it is still reported
        if broken_tie and not violations:
            violations.append(dict(property=prop, kind="table", broken=broken_tie,
                                   theorems=self.cfg.get("table_theorems", []), device=None, ops=[],
                                   no_failing_input_found=True))
        # 3. tie broken without a failing input: search harder, then report
        if owned_divergences and not violations:
            d0 = owned_divergences[0]
            extra = 400 if tier == "quick" else 4000
            for h in range(extra):
                spec = d0["device"] if h % 2 == 0 else gen_device(rng, rng.choice(self.cfg["wants"]))
                g = HistoryGen(rng, spec, exact=True, profile=rng.choice(self.cfg["profiles"]))
                res = run_history(drv, spec, g, True, self.monitors(), nops=rng.randrange(6, 32))
                handle(spec, res, True, "search")
                if violations:
                    break
            if not violations:
                small = shrink(drv, d0["device"], d0["ops"], d0["exact"], self.monitors,
                               lambda r: r.divergence is not None and r.divergence[1] == prop
                               and not r.divergence[3])
                violations.append(dict(property=prop, kind="correspondence",
                                       broken="model/implementation correspondence on an observable owned by "
                                              + prop + f" (lean/PulserModel/Sequence.lean vs /repo): {d0['why']}",
                                       theorems=thms, device=d0["device"], ops=small, exact=d0["exact"],
                                       no_failing_input_found=True))
        drv.close()
        # evidence
        ev = dict(
            property_id=prop, tier=tier, seed=seed, level="proof",
            coverage=dict(
                obligations=len(thms), discharged=discharged,
                checker_cmd="lake build " + " ".join(self.cfg["lean_targets"]) + " && #print axioms (harness/common.py audit_axioms)",
                trusted_base=TRUSTED_BASE,
                theorems=thms, axioms=axioms,
                evaluations=evaluations, distinct_nontrivial=nontrivial,
                traces_validated_against_impl=len(distinct),
                rule="histories drawn by harness/gen.py (device lattice x mode-aware API grammar, exact and "
                     "wrapping phase streams) + corpus; distinct = distinct (device, op list); non-trivial = at "
                     "least one successful timeline-changing call",
                samples=samples,
                op_histogram=dict(stats["ops"]), error_histogram=dict(stats["errs"]),
                divergence_owners=dict(stats["owners"]), foreign_divergence=dict(foreign),
                float_ambiguous=ambiguous, known_findings_hit=dict(known_hits),
                repo_fingerprint=common.repo_fingerprint(),
            ),
            assumptions=TRUSTED_BASE,
            wall_s=timer.s(), violations=len(violations),
        )
        if slm_stats is not None:
            ev["coverage"]["slm_mask_clause"] = dict(
                slm_stats, note="sequences with config_slm_mask built with the real API (harness/slm_clauses.py): the "
                                "instruction the mask schedules on its DMM obeys the channel's clock / duration limits "
                                "(C02) and detuning limits (C01); implementation only")
        if emul_stats is not None:
            ev["coverage"]["emulator_clause"] = dict(
                emul_stats, note="C07: two pi/2 pulses separated by a phase shift phi give excitation cos^2(phi/2); "
                "C15: an EOM sequence with correct_phase_drift ends with the populations of the same pulses played "
                "with zero off-detuning (QutipEmulator, sampling_rate 1, tolerance 2e-4 scaled with |detuning_off|)")
        if prop == "C03":
            import monitors
            ev["coverage"]["fall_time_hypotheses"] = dict(
                monitors.HYP, note="pulses checked against A1 (fall <= 2*rise of its modulation; a failure is "
                "reported as clause fall-hypothesis-A1); A2_false counts pulses with fall(EOM) > fall(standard) "
                "(EOM slower than the channel): on those histories C03.no_conflict's hypothesis A2 is not met and "
                "only the direct monitor decides the no-conflict clause")
        write_evidence(prop, ev)
        for kf in findings:
            if kf.get("property") == prop and kf.get("status") == "known":
                n = known_hits.get(kf["id"], 0)
                print(f"KNOWN-FINDING: property={prop} [{kf['id']}] {kf['what']} "
                      + (f"(reproduced {n}x in this run)" if n else "(listed; not reached by this run's histories)"))
        if violations:
            for v in violations:
                p = write_replay(prop, v)
                tail = " no-failing-input-found" if v.get("no_failing_input_found") else ""
                print(f"VIOLATION property={prop} replay={p}{tail}")
            return 1
        print(f"OK property={prop} tier={tier} theorems={discharged}/{len(thms)} histories={len(distinct)} "
              f"ops={evaluations} wall={timer.s()}s")
        return 0

    # ------------------------------------------------------------------
    def replay(self, path: str) -> int:
        item = json.loads(Path(path).read_text())
        if item.get("kind") == "slm":
            import slm_clauses

            msg = slm_clauses.run_case(item["case"], self.prop)
            if msg and msg != "skip":
                print(msg)
                print(f"VIOLATION property={self.prop} replay={path}")
                return 1
            print("replay: property holds on this case")
            return 0
        if item.get("kind") == "emulator":
            import emul_clauses

            msg = emul_clauses.run_case(item["case"])
            if msg and msg != "skip":
                print(msg)
                print(f"VIOLATION property={self.prop} replay={path}")
                return 1
            print("replay: property holds on this case")
            return 0
        drv = Driver()
        res = run_history(drv, item["device"], item["ops"], item.get("exact", True), self.monitors(),
                          stop_on_fail=False)
        drv.close()
        for i, st in enumerate(res.ls.steps):
            print(f"[{i}] {json.dumps(st.op)[:160]} -> real={st.real} model={st.model}"
                  + (f"  DIVERGED: {st.why}" if st.diverged else ""))
        bad = False
        for i, f in res.fails:
            if f.prop == self.prop:
                print(f"step {i}: {f}")
                bad = True
        if res.divergence and (res.divergence[1] == self.prop or co_owned(self.prop, res.divergence[1], res.divergence[2])) \
                and not res.divergence[3]:
            bad = True
        if bad:
            print(f"VIOLATION property={self.prop} replay={path}")
            return 1
        print("replay: property holds on this history")
        return 0
